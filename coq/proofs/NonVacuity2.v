(* Non-vacuity, part 2: examples for the property theorems added to props/C02.v, C04.v, C06.v, C09.v, C11.v, C14.v
   after proofs/NonVacuity.v was written.  Same style: every hypothesis is stated literally for a
   concrete, non-trivial instance over a concrete semiring and proved; the theorem is then applied and
   a computed value is given.  No axioms. *)
From Coq Require Import List Arith Bool NArith ZArith QArith Qcanon Lia Permutation Relations.
From GV.lib Require Import Semiring BigSum.
From GV.model Require Import Cfg Fst BarHillel Conjugate.
From GV.proofs Require FoldProofs StableSolves BarHillelProofs ProductProofs ConjugateProofs
  LehmannProof EpsEquations.
From GV.proofs Require Import NonVacuity.
From GV.props Require C02 C09 C11 C14.
Import ListNotations.
Local Open Scope nat_scope.

(* ================================================================================================
   C02
   ================================================================================================ *)

(* an acyclic grammar with three nonterminals and a binary rule (a = 0, b = 1; S = 0, A = 1, B = 2):
     S -> A B (1/2) | A b (1/3) ;  A -> a (1/5) | eps (1/7) ;  B -> b (1/2) | A b (1/3)
   ranked by  r S = 2, r B = 1, r A = 0 (a rank FUNCTION, total on all of nat) *)
Definition Gr : grammar QcSR :=
  [ (mkq 1 2, 0, [N 1; N 2]); (mkq 1 3, 0, [N 1; T 1]);
    (mkq 1 5, 1, [T 0]); (mkq 1 7, 1, []);
    (mkq 1 2, 2, [T 1]); (mkq 1 3, 2, [N 1; T 1]) ].
Definition rr (X : nat) : nat := match X with 0 => 2 | 2 => 1 | _ => 0 end.
Definition fr : nat -> list nat -> QcSR := fun X xs => W Gr (Datatypes.S (rr X)) X xs.

Lemma Gr_ranked : StableSolves.ranked QcSR rr Gr.
Proof.
  intros rl Y Hrl HY. unfold Gr in Hrl.
  repeat (destruct Hrl as [Hrl|Hrl]; [subst rl; cbn in HY;
    repeat (destruct HY as [HY|HY]; [try discriminate HY; inversion HY; subst Y; cbn; lia|]); destruct HY|]).
  destruct Hrl.
Qed.

Example C02_ranked_grammars_nonvacuous :
  StableSolves.ranked QcSR rr Gr /\
  (forall X xs, stable QcSR Gr X xs (W Gr (Datatypes.S (rr X)) X xs)) /\
  FoldProofs.solves QcSR Gr (fun X xs => W Gr (Datatypes.S (rr X)) X xs) /\
  W Gr (Datatypes.S (rr 0)) 0 [0; 1] = mkq 53 420 /\ W Gr (Datatypes.S (rr 0)) 0 [1] = mkq 17 196.
Proof.
  pose proof Gr_ranked as H.
  destruct (C02.C02_ranked_grammars QcSR rr Gr H) as [H1 H2].
  split; [exact H|split; [exact H1|split; [exact H2|split; vr]]].
Qed.

Example C02_stable_weights_solve_the_equations_nonvacuous :
  (forall X xs, stable QcSR Gr X xs (fr X xs)) /\ FoldProofs.solves QcSR Gr fr /\
  fr 0 [0; 1] = mkq 53 420 /\ fr 2 [1] = mkq 23 42.
Proof.
  assert (H : forall X xs, stable QcSR Gr X xs (fr X xs))
    by exact (proj1 (C02.C02_ranked_grammars QcSR rr Gr Gr_ranked)).
  split; [exact H|split; [|split; vr]].
  exact (C02.C02_stable_weights_solve_the_equations QcSR Gr fr H).
Qed.

(* ================================================================================================
   C09
   ================================================================================================ *)
Import BarHillelProofs.

Example C09_product_grammar_nonvacuous :
  let S := NSR in
  (forall p X q p' X' q', ex_nt p X q = ex_nt p' X' q' -> p = p' /\ X = X' /\ q = q') /\
  (forall p a q p' a' q', ex_tm p a q = ex_tm p' a' q' -> p = p' /\ a = a' /\ q = q') /\
  (forall p X q p' a q', ex_nt p X q <> ex_tm p' a q') /\
  (forall p X q, ex_nt p X q <> ex_s) /\ (forall p a q, ex_tm p a q <> ex_s) /\
  NoDup l01 /\ NoDup l01 /\
  (forall x, In x (ex_arcs S) -> In (BarHillel.asrc x) l01 /\ In (BarHillel.adst x) l01 /\ In (BarHillel.ain x) l01) /\
  (forall i, In i (ex_init S) -> In (fst i) l01) /\ (forall k, In k (ex_fin S) -> In (fst k) l01) /\
  (forall r a, In r (ex_G S) -> In (T a) (rbody r) -> In a l01) /\
  FoldProofs.solves S (ex_G S) (ex_f S) /\
  FoldProofs.solves S (ex_bh S) (ex_Fv S) /\
  (forall ys fuel, length ys <= fuel ->
     ex_Fv S ex_s ys =
     bsum (ProductProofs.words_eq l01 (length ys))
          (fun xs => smul (ex_f S 0 xs) (trel (lift_fst S (ex_init S) (ex_fin S) (ex_arcs S)) fuel xs ys))) /\
  ex_Fv S ex_s [5; 6] = 7%N /\
  bsum (ProductProofs.words_eq l01 2)
       (fun xs => smul (ex_f S 0 xs) (trel (lift_fst S (ex_init S) (ex_fin S) (ex_arcs S)) 2 xs [5; 6])) = 7%N.
Proof.
  intros S.
  assert (H3 : forall p X q p' a q', ex_nt p X q <> ex_tm p' a q') by (intros; unfold ex_nt, ex_tm; lia).
  assert (H4 : forall p X q, ex_nt p X q <> ex_s) by (intros; unfold ex_nt, ex_s; lia).
  assert (H5 : forall p a q, ex_tm p a q <> ex_s) by (intros; unfold ex_tm, ex_s; lia).
  assert (H8 : forall x, In x (ex_arcs S) -> In (BarHillel.asrc x) l01 /\ In (BarHillel.adst x) l01 /\ In (BarHillel.ain x) l01).
  { intros x Hx. unfold ex_arcs in Hx. destruct Hx as [<-|[<-|[<-|[<-|[<-|[]]]]]]; cbn; tauto. }
  assert (H9 : forall i, In i (ex_init S) -> In (fst i) l01) by (intros i [<-|[]]; cbn; tauto).
  assert (H10 : forall k, In k (ex_fin S) -> In (fst k) l01) by (intros k [<-|[]]; cbn; tauto).
  assert (H11 : forall r a, In r (ex_G S) -> In (T a) (rbody r) -> In a l01).
  { intros r a Hr Ha. unfold ex_G in Hr. destruct Hr as [<-|[<-|[]]]; unfold mk_rule in Ha; cbn [rbody snd] in Ha.
    - destruct Ha as [E|[E|[]]]; [injection E as <-; cbn; tauto|discriminate E].
    - destruct Ha as [E|[]]. injection E as <-. cbn; tauto. }
  pose proof (C09.C09_product_grammar S ex_nt ex_tm ex_s l01 (ex_init S) (ex_fin S) (ex_arcs S) (ex_G S) 0 l01 (ex_f S)
                ex_nt_inj ex_tm_inj H3 H4 H5 NoDup_01 NoDup_01 H8 H9 H10 H11 (ex_f_solves S)) as [HA HB].
  split; [exact ex_nt_inj|]. split; [exact ex_tm_inj|]. split; [exact H3|]. split; [exact H4|]. split; [exact H5|].
  split; [exact NoDup_01|]. split; [exact NoDup_01|]. split; [exact H8|]. split; [exact H9|]. split; [exact H10|].
  split; [exact H11|]. split; [exact (ex_f_solves S)|]. split; [exact HA|]. split; [exact HB|].
  split; vm_compute; reflexivity.
Qed.

(* ================================================================================================
   C11
   ================================================================================================ *)

From GV.model Require Import Linear Wfsa WfsaEps EpsSpec.

(* an automaton with an epsilon CYCLE  0 -eps(1/2)-> 1 -eps(1/3)-> 0,  a real arc  1 -a(1/5)-> 2
   and a real loop 2 -a(1/4)-> 2; final weights 1/2 at state 1 and 1 at state 2; start in state 0.
   The cycle has weight 1/6, so its star 6/5 is defined. *)
Definition mc : wfsa QcStar := @mkW QcStar [(0, mkq 1 1)] [(1, mkq 1 2); (2, mkq 1 1)]
  [(0, None, 1, mkq 1 2); (1, None, 0, mkq 1 3); (1, Some 0, 2, mkq 1 5); (2, Some 0, 2, mkq 1 4)].

Definition Kc : mat QcStar := lehmann (states_of mc) (eps_mat mc).
Definition vc : nat -> list nat -> QcStar := EpsEquations.val Kc mc.

Example C11_path_equations_nonvacuous :
  states_of mc = [0; 1; 2] /\
  LehmannProof.defined QcStar (states_of mc) (eps_mat mc) /\
  (forall xs, call mc xs = bsum (winit mc) (fun e => smul (snd e) (vc (fst e) xs))) /\
  (forall q, In q (states_of mc) ->
     vc q [] = sadd (wget (wfinal mc) q) (bsum (states_of mc) (fun j => smul (epsf mc q j) (vc j [])))) /\
  (forall q a xs, In q (states_of mc) ->
     vc q (a :: xs) = sadd (bsum (warcs mc) (fun ar => if andb (Nat.eqb (asrc ar) q) (lbl_eqb (albl ar) a)
                                                    then smul (awt ar) (vc (adst ar) xs) else s0))
                           (bsum (states_of mc) (fun j => smul (epsf mc q j) (vc j (a :: xs))))) /\
  (* the epsilon cycle really is one: both arcs of it are seen by epsf, and the closure sums it *)
  epsf mc 0 1 = mkq 1 2 /\ epsf mc 1 0 = mkq 1 3 /\ mget Kc 0 0 = mkq 6 5 /\ mget Kc 0 1 = mkq 3 5 /\
  call mc [] = mkq 3 10 /\ call mc [0] = mkq 3 25 /\ call mc [0; 0] = mkq 3 100 /\
  vc 0 [0] = mkq 3 25 /\ vc 1 [0] = mkq 6 25.
Proof.
  assert (H0 : states_of mc = [0; 1; 2]) by (vm_compute; reflexivity).
  assert (H1 : LehmannProof.defined QcStar (states_of mc) (eps_mat mc)) by (vm_compute; neq_tac).
  destruct (C11.C11_path_equations QcStar mc H1) as [HA [HB HC]].
  split; [exact H0|split; [exact H1|split; [exact HA|split; [exact HB|split; [exact HC|]]]]].
  repeat split; vr.
Qed.

(* ================================================================================================
   C14
   ================================================================================================ *)
Import ConjugateProofs.

(* exA = ([1, 1], M_0 = [[1, 2], [2, 1]], [2; 5]) over the rationals, merged into the one-state exB = (1, 3, 7)
   by F = [[1, 1]], P = [[1/2], [1/2]];  c = [1] and N_a = [[3]] witness  alpha = c F  and  F M_a = N_a F. *)
Example C14_forward_conjugate_nonvacuous :
  let c : nat -> QcSR := fun _ => mkq 1 1 in
  let Nm : nat -> nat -> nat -> QcSR := fun _ _ _ => mkq 3 1 in
  FPF QcSR exA [0] exF exP /\
  (forall j, In j (dim exA) -> mstart exA j = bsum [0] (fun i => smul (c i) (exF i j))) /\
  (forall a i j, In i [0] -> In j (dim exA) ->
     bsum (dim exA) (fun k => smul (exF i k) (marc exA a k j)) = bsum [0] (fun n => smul (Nm a i n) (exF n j))) /\
  (forall w, mweight exA w = mweight (conj [0] exF exP exA) w) /\
  mweight exA [0; 0] = mkq 63 1 /\ mweight (conj [0] exF exP exA) [0; 0] = mkq 63 1.
Proof.
  intros c Nm.
  assert (H1 : FPF QcSR exA [0] exF exP) by (intros i j [Hi|[]] [Hj|[Hj|[]]]; subst i j; qc).
  assert (H2 : forall j, In j (dim exA) -> mstart exA j = bsum [0] (fun i => smul (c i) (exF i j)))
    by (intros j [Hj|[Hj|[]]]; subst j; qc).
  assert (H3 : forall a i j, In i [0] -> In j (dim exA) ->
     bsum (dim exA) (fun k => smul (exF i k) (marc exA a k j)) = bsum [0] (fun n => smul (Nm a i n) (exF n j)))
    by (intros a i j [Hi|[]] [Hj|[Hj|[]]]; subst i j; qc).
  split; [exact H1|split; [exact H2|split; [exact H3|split; [|split; qc]]]].
  exact (C14.C14_forward_conjugate QcSR exA [0] exF exP c Nm H1 H2 H3).
Qed.

(* forward intertwiner exF from exA to exB, backward intertwiner the identity matrix from exB to exB *)
Definition idm : nat -> nat -> QcSR := fun i j => if Nat.eqb i j then mkq 1 1 else mkq 0 1.

Example C14_conjugates_are_equivalent_nonvacuous :
  intertwines exF exA exB /\ intertwines_back idm exB exB /\
  (forall w, mweight exA w = mweight exB w) /\
  mweight exA [0; 0; 0] = mkq 189 1 /\ mweight exB [0; 0; 0] = mkq 189 1.
Proof.
  assert (H1 : intertwines exF exA exB)
    by exact (conj_intertwines QcSR exA [0] exF exP ex_start_in_rowspace ex_rowspace_closed).
  assert (H2 : intertwines_back idm exB exB).
  { unfold intertwines_back. split; [|split].
    - intros j [Hj|[]]; subst j; qc.
    - intros a i j [Hi|[]] [Hj|[]]; subst i j; qc.
    - intros i [Hi|[]]; subst i; qc. }
  split; [exact H1|split; [exact H2|split; [|split; qc]]].
  exact (C14.C14_conjugates_are_equivalent QcSR exF idm exA exB exB H1 H2).
Qed.

(* ================================================================================================
   C04 (rescaling)
   ================================================================================================ *)
From GV.model Require Import Norm.
From GV.proofs Require RescaleProofs.
From GV.props Require C04.

(* the language model nw4 of NonVacuity.v (weight (1/2)^(n+1) for 0^n), every context's weights multiplied by
   the coefficient 3 * (1/2)^|ctx| -- a different, non-zero factor per context, as the rescaled parser's columns carry *)
Definition c4 (ctx : list nat) : QcFR := (mkq 3 1 * hp (length ctx))%Qc.

Example C04_rescaling_invariant_nonvacuous :
  c4 [0; 0] <> s0 /\ zsum [0] 1 nw4 [0; 0] <> s0 /\
  RescaleProofs.scaled QcFR c4 nw4 [0; 0] 0 <> nw4 [0; 0] 0 /\
  p_next [0] 1 (RescaleProofs.scaled QcFR c4 nw4) [0; 0] 0 = p_next [0] 1 nw4 [0; 0] 0 /\
  p_next [0] 1 (RescaleProofs.scaled QcFR c4 nw4) [0; 0] 0 = mkq 1 2 /\
  (forall k, k <= length [0; 0] -> c4 ([] ++ firstn k [0; 0]) <> s0 /\ zsum [0] 1 nw4 ([] ++ firstn k [0; 0]) <> s0) /\
  chain [0] 1 (RescaleProofs.scaled QcFR c4 nw4) [] [0; 0] = chain [0] 1 nw4 [] [0; 0] /\
  chain [0] 1 (RescaleProofs.scaled QcFR c4 nw4) [] [0; 0] = mkq 1 8.
Proof.
  assert (Hc : c4 [0; 0] <> s0) by (vm_compute; discriminate).
  assert (Hz : zsum [0] 1 nw4 [0; 0] <> s0) by (vm_compute; discriminate).
  assert (Hk : forall k, k <= length [0; 0] -> c4 ([] ++ firstn k [0; 0]) <> s0 /\ zsum [0] 1 nw4 ([] ++ firstn k [0; 0]) <> s0).
  { intros k Hk. destruct k as [|[|[|k]]]; [| | |cbn in Hk; lia]; split; vm_compute; discriminate. }
  destruct (C04.C04_rescaling_invariant QcFR [0] 1 c4 nw4) as [P1 P2].
  split; [exact Hc|split; [exact Hz|split; [vm_compute; discriminate|split; [exact (P1 [0; 0] 0 Hc Hz)|split; [vr|split; [exact Hk|split; [exact (P2 [0; 0] [] Hk)|vr]]]]]]].
Qed.

(* ================================================================================================
   C06 (top-down trimming)
   ================================================================================================ *)
From GV.model Require TopDown.
From GV.gen Require Gen_Cfg.
From GV.proofs Require TopDownTrimProofs ReachProofs.
From GV.props Require C06.

(* td_ex_G (proofs/TopDownTrimProofs.v): 0 -> a (1/2) | 1 b (1/3) | 3 (1/2);  1 -> a (1/5);  2 -> b (1/7) [unreachable];
   3 -> 3 (1/2) [non-generating] *)
Example C06_topdown_trim_preserves_nonvacuous :
  TopDownTrimProofs.td_closed TopDownTrimProofs.td_ex_G TopDownTrimProofs.td_ex_keep /\
  TopDownTrimProofs.td_ex_keep (N 0) = true /\
  length (Gen_Cfg.gen_trim QcSR TopDownTrimProofs.td_ex_keep TopDownTrimProofs.td_ex_G) = 3 /\
  length TopDownTrimProofs.td_ex_G = 6 /\
  (forall h xs, W (Gen_Cfg.gen_trim QcSR TopDownTrimProofs.td_ex_keep TopDownTrimProofs.td_ex_G) h 0 xs = W TopDownTrimProofs.td_ex_G h 0 xs) /\
  W TopDownTrimProofs.td_ex_G 3 0 [0; 1] = mkq 1 15.
Proof.
  split; [exact TopDownTrimProofs.td_ex_closed|]. split; [reflexivity|]. split; [vm_compute; reflexivity|]. split; [reflexivity|].
  split; [|vr].
  intros h xs.
  exact (proj1 (C06.C06_topdown_trim_preserves QcSR TopDownTrimProofs.td_ex_G TopDownTrimProofs.td_ex_keep TopDownTrimProofs.td_ex_closed) h 0 xs eq_refl).
Qed.

Example C06_trim_preserves_nonvacuous :
  TopDown.reachable TopDownTrimProofs.td_ex_G 0 = [1; 0] /\
  length (TopDown.trim_model 0 TopDownTrimProofs.td_ex_G) = 3 /\
  (forall h xs, W (TopDown.trim_model 0 TopDownTrimProofs.td_ex_G) h 0 xs = W TopDownTrimProofs.td_ex_G h 0 xs) /\
  TopDown.trim_model 3 TopDownTrimProofs.td_ex_G = [] /\
  (forall h xs, W TopDownTrimProofs.td_ex_G h 3 xs = W (TopDown.trim_model 3 TopDownTrimProofs.td_ex_G) h 3 xs).
Proof.
  split; [vm_compute; reflexivity|]. split; [vm_compute; reflexivity|].
  split; [exact (proj1 (C06.C06_trim_preserves QcSR TopDownTrimProofs.td_ex_G 0))|].
  split; [vm_compute; reflexivity|].
  intros h xs. symmetry. exact (proj1 (C06.C06_trim_preserves QcSR TopDownTrimProofs.td_ex_G 3) h xs).
Qed.

Print Assumptions C02_ranked_grammars_nonvacuous.
Print Assumptions C02_stable_weights_solve_the_equations_nonvacuous.
Print Assumptions C09_product_grammar_nonvacuous.
Print Assumptions C11_path_equations_nonvacuous.
Print Assumptions C14_forward_conjugate_nonvacuous.
Print Assumptions C14_conjugates_are_equivalent_nonvacuous.
Print Assumptions C04_rescaling_invariant_nonvacuous.
Print Assumptions C06_topdown_trim_preserves_nonvacuous.
Print Assumptions C06_trim_preserves_nonvacuous.
