(* Composing a grammar with a plain string (CFG @ string, i.e. intersection with the
   automaton of one string) is the pointwise product: the product grammar gives y the
   weight  G(x)  when  y = x  and  0  otherwise.
   1. the letter-to-letter transducer of a string x is the diagonal of the automaton
      WFSA.from_string x 1  (lift_string_is_diag);
   2. its relation is  [xs = ys = x]  (string_relation);
   3. hence  sum_xs f(xs) * M(xs, ys) = [ys = x] f(x)  (intersect_string_value);
   4. the instance of the Bar-Hillel product theorem (BarHillelProofs) for this machine
      (intersect_string_grammar). *)
From Coq Require Import List Arith Bool Lia NArith.
From GV.lib Require Import Semiring BigSum.
From GV.model Require Import Cfg Wfsa Fst BarHillel.
From GV.proofs Require Import CfgTrees FoldProofs ProductProofs TotalStringsProofs
     StarStringProofs FstOpsProofs BarHillelProofs.
Import ListNotations.
Local Open Scope sr_scope.

(* the arcs  i -x_i:x_i-> i+1  of weight one; initial state 0, final state |x| *)
Definition string_arcs (S : SR) (x : list nat) : list (larc S) :=
  map (fun ia => (fst ia, snd ia, snd ia, Datatypes.S (fst ia), 1)) (combine (seq 0 (length x)) x).

Section IntersectString.
Variable S : SR.
Add Ring SRingIS : (sth S).

Lemma lift_string_is_diag (x : list nat) :
  lift_fst S [(0%nat, 1)] [(length x, 1)] (string_arcs S x) = diag (from_string x 1).
Proof.
  unfold lift_fst, diag, from_string, string_arcs. cbn [winit wfinal warcs].
  rewrite !map_map. reflexivity.
Qed.

Lemma from_string_eps_free (x : list nat) (w : S) : eps_free (from_string x w).
Proof.
  intros ar Har. unfold from_string in Har; cbn [warcs] in Har.
  apply in_map_iff in Har. destruct Har as [ia [<- _]]. cbn. discriminate.
Qed.

Theorem string_relation : forall (x : list nat) (fuel : nat) (xs ys : list nat),
  length xs <= fuel ->
  trel (lift_fst S [(0%nat, 1)] [(length x, 1)] (string_arcs S x)) fuel xs ys
  = if list_eqb Nat.eqb xs ys && list_eqb Nat.eqb xs x then 1 else 0.
Proof.
  intros x fuel xs ys Hl. rewrite lift_string_is_diag.
  rewrite (diag_relation S (from_string x 1) (from_string_eps_free x 1) fuel xs ys Hl).
  rewrite from_string_weight.
  destruct (list_eqb Nat.eqb xs ys); destruct (list_eqb Nat.eqb xs x); reflexivity.
Qed.

Theorem intersect_string_value : forall (V : list nat) (f : nat -> list nat -> S) (start : nat)
    (x ys : list nat) (fuel : nat),
  NoDup V -> (forall a, In a x -> In a V) -> length ys <= fuel ->
  bsum (words_eq V (length ys))
       (fun xs => f start xs * trel (lift_fst S [(0%nat, 1)] [(length x, 1)] (string_arcs S x)) fuel xs ys)
  = if list_eqb Nat.eqb ys x then f start x else 0.
Proof.
  intros V f start x ys fuel HV Hx Hl.
  transitivity (bsum (words_eq V (length ys))
                  (fun xs => if list_eqb Nat.eqb xs ys
                             then (fun a => if list_eqb Nat.eqb ys x then f start a else 0) xs else 0)).
  { apply bsum_ext; intros xs Hxs. apply words_eq_length in Hxs.
    rewrite string_relation by lia.
    destruct (list_eqb Nat.eqb xs ys) eqn:E; cbn [andb].
    - apply list_eqb_nat_spec in E. subst xs.
      destruct (list_eqb Nat.eqb ys x); ring.
    - ring. }
  rewrite (bsum_delta S (list_eqb Nat.eqb) list_eqb_nat_spec (words_eq V (length ys)) ys
             (fun a => if list_eqb Nat.eqb ys x then f start a else 0)
             (words_eq_NoDup V HV (length ys))).
  destruct (list_eqb Nat.eqb ys x) eqn:E.
  - apply list_eqb_nat_spec in E. subst ys.
    assert (Hex : existsb (fun a => list_eqb Nat.eqb a x) (words_eq V (length x)) = true).
    { apply existsb_exists. exists x. split; [apply words_eq_complete; exact Hx|].
      apply list_eqb_nat_spec; reflexivity. }
    rewrite Hex. reflexivity.
  - destruct (existsb _ _); reflexivity.
Qed.

(* ---- the machine of a string satisfies the hypotheses of the product theorem ---- *)

Lemma string_states_NoDup (x : list nat) : NoDup (seq 0 (Datatypes.S (length x))).
Proof. apply seq_NoDup. Qed.

Lemma string_arcs_ok (V x : list nat) : (forall a, In a x -> In a V) ->
  forall ar, In ar (string_arcs S x) ->
    In (asrc ar) (seq 0 (Datatypes.S (length x))) /\ In (adst ar) (seq 0 (Datatypes.S (length x))) /\ In (ain ar) V.
Proof.
  intros Hx ar Har. unfold string_arcs in Har. apply in_map_iff in Har.
  destruct Har as [[i c] [<- Hic]]. cbn [asrc adst ain fst snd].
  pose proof (in_combine_l _ _ _ _ Hic) as Hi. pose proof (in_combine_r _ _ _ _ Hic) as Hc.
  apply in_seq in Hi. repeat split.
  - apply in_seq. lia.
  - apply in_seq. lia.
  - apply Hx. exact Hc.
Qed.

Theorem intersect_string_grammar : forall (nt tm : nat -> nat -> nat -> nat) (s' : nat)
    (G : grammar S) (start : nat) (V : list nat) (f : nat -> list nat -> S) (x : list nat),
  (forall p X q p' X' q', nt p X q = nt p' X' q' -> p = p' /\ X = X' /\ q = q') ->
  (forall p a q p' a' q', tm p a q = tm p' a' q' -> p = p' /\ a = a' /\ q = q') ->
  (forall p X q p' a q', nt p X q <> tm p' a q') ->
  (forall p X q, nt p X q <> s') -> (forall p a q, tm p a q <> s') ->
  NoDup V ->
  (forall a, In a x -> In a V) ->
  (forall r a, In r G -> In (T a) (rbody r) -> In a V) ->
  solves S G f ->
  solves S (bar_hillel nt tm s' (seq 0 (Datatypes.S (length x))) [(0%nat, 1)] [(length x, 1)] (string_arcs S x) G start)
           (Fv S nt tm s' (seq 0 (Datatypes.S (length x))) [(0%nat, 1)] [(length x, 1)] (string_arcs S x) G start V f) /\
  (forall ys,
     Fv S nt tm s' (seq 0 (Datatypes.S (length x))) [(0%nat, 1)] [(length x, 1)] (string_arcs S x) G start V f s' ys
     = if list_eqb Nat.eqb ys x then f start x else 0).
Proof.
  intros nt tm s' G start V f x H1 H2 H3 H4 H5 HV Hx HGV Hf. split.
  - apply (bar_hillel_solves S nt tm s' (seq 0 (Datatypes.S (length x))) [(0%nat, 1)] [(length x, 1)]
             (string_arcs S x) G start V f H1 H2 H3 H4 H5 (string_states_NoDup x) HV (string_arcs_ok V x Hx)).
    + intros i [<-|[]]. cbn [fst]. apply in_seq. lia.
    + intros k [<-|[]]. cbn [fst]. apply in_seq. lia.
    + exact HGV.
    + exact Hf.
  - intros ys.
    rewrite (bar_hillel_start_trel S nt tm s' (seq 0 (Datatypes.S (length x))) [(0%nat, 1)] [(length x, 1)]
               (string_arcs S x) G start V f ys (length ys) (le_n _)).
    apply intersect_string_value; [exact HV|exact Hx|apply le_n].
Qed.

End IntersectString.

Print Assumptions lift_string_is_diag.
Print Assumptions string_relation.
Print Assumptions intersect_string_value.
Print Assumptions intersect_string_grammar.

Example string_relation_nonvacuous :
  trel (lift_fst NSR [(0%nat, 1%N)] [(2%nat, 1%N)] (string_arcs NSR [7; 8]%nat)) 3 [7; 8]%nat [7; 8]%nat = 1%N /\
  trel (lift_fst NSR [(0%nat, 1%N)] [(2%nat, 1%N)] (string_arcs NSR [7; 8]%nat)) 3 [7; 8]%nat [7]%nat = 0%N /\
  trel (lift_fst NSR [(0%nat, 1%N)] [(2%nat, 1%N)] (string_arcs NSR [7; 8]%nat)) 3 [7]%nat [7]%nat = 0%N.
Proof. vm_compute. repeat split; reflexivity. Qed.
Print Assumptions string_relation_nonvacuous.
