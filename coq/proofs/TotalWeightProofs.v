(* Total weight of an epsilon-free weighted automaton with an acyclic arc graph.
   A library computes the total as  sum_i start[i] * b[i]  where the backward
   vector b solves  b = A b + F  (A = arc weights summed over labels, F = final
   weights).  When A is nilpotent the solution is unique and the total equals
   the sum of the weights of all strings, i.e. the sum over all accepting paths. *)
From Coq Require Import List Arith Bool NArith Lia.
From GV.lib Require Import Semiring BigSum.
From GV.model Require Import Wfsa.
From GV.proofs Require Import ProductProofs.
Import ListNotations.
Local Open Scope sr_scope.

Section TotalWeight.
Variable S : SR.
Add Ring SRingTW : (sth S).

(* total weight of the arcs from i to j (all labels) *)
Definition arcw (m : wfsa S) (i j : nat) : S :=
  bsum (warcs m) (fun ar => if Nat.eqb (asrc ar) i && Nat.eqb (adst ar) j then awt ar else 0).

(* weight of all accepting paths with exactly n arcs starting in q *)
Fixpoint paths_n (m : wfsa S) (Q : list nat) (n : nat) (q : nat) : S :=
  match n with
  | O => wget (wfinal m) q
  | Datatypes.S n' => bsum Q (fun j => arcw m q j * paths_n m Q n' j)
  end.

(* n-fold application of the operator  (T g) q = sum_j A[q,j] * g j *)
Fixpoint Tn (m : wfsa S) (Q : list nat) (n : nat) (g : nat -> S) (q : nat) : S :=
  match n with
  | O => g q
  | Datatypes.S n' => bsum Q (fun j => arcw m q j * Tn m Q n' g j)
  end.

Definition nilpotent (m : wfsa S) (Q : list nat) (N : nat) : Prop :=
  forall g q, In q Q -> Tn m Q N g q = 0.

(* ---------- sums with one non-zero term ---------- *)

Lemma bsum_pick (L : list nat) (x : nat) (f : nat -> S) :
  NoDup L -> In x L -> bsum L (fun c => if Nat.eqb c x then f c else 0) = f x.
Proof.
  intros Hnd Hin.
  rewrite (bsum_single S L x (fun c => if Nat.eqb c x then f c else 0) Hnd Hin).
  - rewrite Nat.eqb_refl. reflexivity.
  - intros c Hc. apply Nat.eqb_neq in Hc. rewrite Hc. reflexivity.
Qed.

(* ---------- 1. strings of length n vs paths with n arcs ---------- *)

(* the arcs leaving q, each followed by P at its target: by label / by target *)
Lemma arcs_by_target (Q : list nat) (m : wfsa S) (P : nat -> S) (q : nat) :
  NoDup Q -> (forall ar, In ar (warcs m) -> In (adst ar) Q) ->
  bsum (warcs m) (fun ar => if Nat.eqb (asrc ar) q then awt ar * P (adst ar) else 0)
  = bsum Q (fun j => arcw m q j * P j).
Proof.
  intros HQ Hdst. symmetry.
  transitivity (bsum Q (fun j => bsum (warcs m) (fun ar =>
      (if Nat.eqb (asrc ar) q && Nat.eqb (adst ar) j then awt ar else 0) * P j))).
  { apply bsum_ext; intros j _. unfold arcw. rewrite bsum_mul_r. reflexivity. }
  rewrite bsum_swap. apply bsum_ext; intros ar Har.
  destruct (Nat.eqb (asrc ar) q); simpl.
  - transitivity (bsum Q (fun j => if Nat.eqb j (adst ar) then awt ar * P j else 0)).
    + apply bsum_ext; intros j _. rewrite (Nat.eqb_sym (adst ar) j).
      destruct (Nat.eqb j (adst ar)); ring.
    + apply (bsum_pick Q (adst ar) (fun j => awt ar * P j) HQ (Hdst ar Har)).
  - apply bsum_zero; intros j _. ring.
Qed.

Lemma arcs_by_label (V : list nat) (m : wfsa S) (P : nat -> S) (q : nat) :
  NoDup V -> (forall ar, In ar (warcs m) -> exists a, albl ar = Some a /\ In a V) ->
  bsum V (fun c => bsum (warcs m) (fun ar =>
      if Nat.eqb (asrc ar) q && lbl_eqb (albl ar) c then awt ar * P (adst ar) else 0))
  = bsum (warcs m) (fun ar => if Nat.eqb (asrc ar) q then awt ar * P (adst ar) else 0).
Proof.
  intros HV Hlbl. rewrite bsum_swap. apply bsum_ext; intros ar Har.
  destruct (Hlbl ar Har) as [a [Ea Ha]]. rewrite Ea. unfold lbl_eqb.
  destruct (Nat.eqb (asrc ar) q); simpl.
  - apply (bsum_pick V a (fun _ => awt ar * P (adst ar)) HV Ha).
  - apply bsum_const_zero.
Qed.

Theorem paths_n_words : forall (V Q : list nat) (m : wfsa S), NoDup V -> NoDup Q ->
  (forall ar, In ar (warcs m) -> exists a, albl ar = Some a /\ In a V) ->
  (forall ar, In ar (warcs m) -> In (adst ar) Q) ->
  forall n q, bsum (words_eq V n) (fun xs => pw m q xs) = paths_n m Q n q.
Proof.
  intros V Q m HV HQ Hlbl Hdst n. induction n as [|n IH]; intros q.
  - change (words_eq V O) with [@nil nat]. rewrite bsum_cons, bsum_nil. simpl. ring.
  - rewrite bsum_words_eq_S.
    change (paths_n m Q (Datatypes.S n) q) with (bsum Q (fun j => arcw m q j * paths_n m Q n j)).
    rewrite <- (arcs_by_target Q m (paths_n m Q n) q HQ Hdst).
    rewrite <- (arcs_by_label V m (paths_n m Q n) q HV Hlbl).
    apply bsum_ext; intros c _.
    change (fun w => pw m q (c :: w))
      with (fun w => bsum (warcs m) (fun ar =>
              if Nat.eqb (asrc ar) q && lbl_eqb (albl ar) c then awt ar * pw m (adst ar) w else 0)).
    rewrite bsum_swap. apply bsum_ext; intros ar _.
    destruct (Nat.eqb (asrc ar) q && lbl_eqb (albl ar) c).
    + rewrite bsum_mul_l, IH. reflexivity.
    + apply bsum_const_zero.
Qed.

(* ---------- 2. the solution of a nilpotent system is the path sum ---------- *)

Lemma Tn_ext (Q : list nat) (m : wfsa S) (g g' : nat -> S) :
  (forall j, In j Q -> g j = g' j) ->
  forall k q, In q Q -> Tn m Q k g q = Tn m Q k g' q.
Proof.
  intros H k. induction k as [|k IH]; intros q Hq; simpl.
  - apply H, Hq.
  - apply bsum_ext; intros j Hj. rewrite (IH j Hj). reflexivity.
Qed.

Lemma Tn_add (Q : list nat) (m : wfsa S) (u v : nat -> S) :
  forall k q, Tn m Q k (fun x => u x + v x) q = Tn m Q k u q + Tn m Q k v q.
Proof.
  intros k. induction k as [|k IH]; intros q; simpl.
  - reflexivity.
  - rewrite <- bsum_add. apply bsum_ext; intros j _. rewrite IH. ring.
Qed.

Lemma Tn_succ_r (Q : list nat) (m : wfsa S) (g : nat -> S) :
  forall k q, Tn m Q (Datatypes.S k) g q = Tn m Q k (fun x => bsum Q (fun j => arcw m x j * g j)) q.
Proof.
  intros k. induction k as [|k IH]; intros q.
  - reflexivity.
  - change (Tn m Q (Datatypes.S (Datatypes.S k)) g q)
      with (bsum Q (fun j => arcw m q j * Tn m Q (Datatypes.S k) g j)).
    change (Tn m Q (Datatypes.S k) (fun x => bsum Q (fun j => arcw m x j * g j)) q)
      with (bsum Q (fun j => arcw m q j * Tn m Q k (fun x => bsum Q (fun j => arcw m x j * g j)) j)).
    apply bsum_ext; intros j _. rewrite IH. reflexivity.
Qed.

Lemma paths_n_Tn (Q : list nat) (m : wfsa S) :
  forall n q, paths_n m Q n q = Tn m Q n (fun x => wget (wfinal m) x) q.
Proof.
  intros n. induction n as [|n IH]; intros q; simpl.
  - reflexivity.
  - apply bsum_ext; intros j _. rewrite IH. reflexivity.
Qed.

Lemma backward_unfold (Q : list nat) (m : wfsa S) (b : nat -> S) :
  (forall q, In q Q -> b q = wget (wfinal m) q + bsum Q (fun j => arcw m q j * b j)) ->
  forall k q, In q Q -> b q = bsum (seq 0 k) (fun n => paths_n m Q n q) + Tn m Q k b q.
Proof.
  intros Hb k. induction k as [|k IH]; intros q Hq.
  - simpl. rewrite bsum_nil. ring.
  - rewrite seq_S, bsum_app, bsum_cons, bsum_nil. simpl plus.
    rewrite (IH q Hq) at 1.
    rewrite (Tn_ext Q m b (fun x => wget (wfinal m) x + bsum Q (fun j => arcw m x j * b j)) Hb k q Hq).
    rewrite Tn_add, <- paths_n_Tn, <- Tn_succ_r. ring.
Qed.

Theorem backward_is_path_sum : forall (Q : list nat) (m : wfsa S) (N : nat) (b : nat -> S),
  nilpotent m Q N ->
  (forall q, In q Q -> b q = wget (wfinal m) q + bsum Q (fun j => arcw m q j * b j)) ->
  forall q, In q Q -> b q = bsum (seq 0 N) (fun n => paths_n m Q n q).
Proof.
  intros Q m N b Hnil Hb q Hq.
  rewrite (backward_unfold Q m b Hb N q Hq) at 1.
  rewrite (Hnil b q Hq). ring.
Qed.

(* two solutions of a nilpotent system agree *)
Corollary backward_unique_nilpotent : forall (Q : list nat) (m : wfsa S) (N : nat) (b b' : nat -> S),
  nilpotent m Q N ->
  (forall q, In q Q -> b q = wget (wfinal m) q + bsum Q (fun j => arcw m q j * b j)) ->
  (forall q, In q Q -> b' q = wget (wfinal m) q + bsum Q (fun j => arcw m q j * b' j)) ->
  forall q, In q Q -> b q = b' q.
Proof.
  intros Q m N b b' Hnil Hb Hb' q Hq.
  rewrite (backward_is_path_sum Q m N b Hnil Hb q Hq).
  rewrite (backward_is_path_sum Q m N b' Hnil Hb' q Hq). reflexivity.
Qed.

(* the path sums do solve the system (existence) *)
Lemma bsum_seq_S (f : nat -> S) (n : nat) :
  bsum (seq 0 (Datatypes.S n)) f = bsum (seq 0 n) f + f n.
Proof. rewrite seq_S, bsum_app, bsum_cons, bsum_nil. simpl plus. ring. Qed.

Lemma path_sum_step (Q : list nat) (m : wfsa S) (q : nat) : forall N,
  bsum (seq 0 N) (fun n => paths_n m Q n q) + paths_n m Q N q
  = wget (wfinal m) q + bsum Q (fun j => arcw m q j * bsum (seq 0 N) (fun n => paths_n m Q n j)).
Proof.
  intros N. induction N as [|N IH].
  - simpl. rewrite bsum_nil.
    rewrite (bsum_zero S Q (fun j => arcw m q j * bsum [] (fun n => paths_n m Q n j)))
      by (intros j _; rewrite bsum_nil; ring). ring.
  - rewrite bsum_seq_S, IH.
    rewrite (bsum_ext S Q
               (fun j => arcw m q j * bsum (seq 0 (Datatypes.S N)) (fun n => paths_n m Q n j))
               (fun j => arcw m q j * bsum (seq 0 N) (fun n => paths_n m Q n j) + arcw m q j * paths_n m Q N j))
      by (intros j _; rewrite bsum_seq_S; ring).
    rewrite bsum_add.
    change (paths_n m Q (Datatypes.S N) q) with (bsum Q (fun j => arcw m q j * paths_n m Q N j)).
    ring.
Qed.

Theorem path_sum_solves : forall (Q : list nat) (m : wfsa S) (N : nat),
  nilpotent m Q N ->
  forall q, In q Q ->
    bsum (seq 0 N) (fun n => paths_n m Q n q)
    = wget (wfinal m) q + bsum Q (fun j => arcw m q j * bsum (seq 0 N) (fun n => paths_n m Q n j)).
Proof.
  intros Q m N Hnil q Hq. rewrite <- path_sum_step.
  rewrite (paths_n_Tn Q m N q), (Hnil _ q Hq). ring.
Qed.

(* ---------- 3. the total ---------- *)

Theorem total_weight_is_string_sum : forall (V Q : list nat) (m : wfsa S) (N : nat) (b : nat -> S),
  NoDup V -> NoDup Q ->
  (forall ar, In ar (warcs m) -> exists a, albl ar = Some a /\ In a V) ->
  (forall ar, In ar (warcs m) -> In (adst ar) Q) -> (forall e, In e (winit m) -> In (fst e) Q) ->
  nilpotent m Q N ->
  (forall q, In q Q -> b q = wget (wfinal m) q + bsum Q (fun j => arcw m q j * b j)) ->
  bsum (winit m) (fun e => snd e * b (fst e))
  = bsum (seq 0 N) (fun n => bsum (words_eq V n) (fun xs => pathsum m xs)).
Proof.
  intros V Q m N b HV HQ Hlbl Hdst Hinit Hnil Hb.
  transitivity (bsum (winit m) (fun e => bsum (seq 0 N) (fun n =>
                  snd e * bsum (words_eq V n) (fun xs => pw m (fst e) xs)))).
  - apply bsum_ext; intros e He.
    rewrite (backward_is_path_sum Q m N b Hnil Hb (fst e) (Hinit e He)).
    rewrite <- bsum_mul_l. apply bsum_ext; intros n _.
    rewrite (paths_n_words V Q m HV HQ Hlbl Hdst). reflexivity.
  - rewrite bsum_swap. apply bsum_ext; intros n _.
    unfold pathsum. rewrite bsum_swap. apply bsum_ext; intros e _.
    rewrite bsum_mul_l. reflexivity.
Qed.

(* strings of length < N+1 are the strings of length <= N *)
Lemma bsum_words_le_seq (V : list nat) (g : list nat -> S) :
  forall n, bsum (seq 0 (Datatypes.S n)) (fun k => bsum (words_eq V k) g) = bsum (words_le V n) g.
Proof.
  intros n. induction n as [|n IH].
  - change (seq 0 1) with [O]. rewrite bsum_cons, bsum_nil.
    change (words_le V O) with [@nil nat]. change (words_eq V O) with [@nil nat]. ring.
  - rewrite seq_S, bsum_app, IH, bsum_cons, bsum_nil. simpl plus.
    change (words_le V (Datatypes.S n)) with (words_le V n ++ words_eq V (Datatypes.S n)).
    rewrite bsum_app. ring.
Qed.

Corollary total_weight_is_string_sum_le : forall (V Q : list nat) (m : wfsa S) (N : nat) (b : nat -> S),
  NoDup V -> NoDup Q ->
  (forall ar, In ar (warcs m) -> exists a, albl ar = Some a /\ In a V) ->
  (forall ar, In ar (warcs m) -> In (adst ar) Q) -> (forall e, In e (winit m) -> In (fst e) Q) ->
  nilpotent m Q (Datatypes.S N) ->
  (forall q, In q Q -> b q = wget (wfinal m) q + bsum Q (fun j => arcw m q j * b j)) ->
  bsum (winit m) (fun e => snd e * b (fst e)) = bsum (words_le V N) (fun xs => pathsum m xs).
Proof.
  intros V Q m N b HV HQ Hlbl Hdst Hinit Hnil Hb.
  rewrite (total_weight_is_string_sum V Q m (Datatypes.S N) b HV HQ Hlbl Hdst Hinit Hnil Hb).
  apply bsum_words_le_seq.
Qed.

End TotalWeight.

Arguments arcw {S} m i j. Arguments paths_n {S} m Q n q. Arguments Tn {S} m Q n g q.
Arguments nilpotent {S} m Q N.

Print Assumptions paths_n_words.
Print Assumptions backward_is_path_sum.
Print Assumptions backward_unique_nilpotent.
Print Assumptions path_sum_solves.
Print Assumptions total_weight_is_string_sum.
Print Assumptions total_weight_is_string_sum_le.

(* ---------- example over N:  0 -5-> 1 (2), 1 -6-> 2 (3), 0 -6-> 2 (4) ---------- *)

Definition ex_m : wfsa NSR :=
  @mkW NSR [(0%nat, 1%N)] [(2%nat, 1%N)]
      [(0%nat, Some 5%nat, 1%nat, 2%N); (1%nat, Some 6%nat, 2%nat, 3%N); (0%nat, Some 6%nat, 2%nat, 4%N)].
Definition ex_Q : list nat := [0; 1; 2]%nat.
Definition ex_V : list nat := [5; 6]%nat.
Definition ex_b (q : nat) : N := match q with 0%nat => 10%N | 1%nat => 3%N | 2%nat => 1%N | _ => 0%N end.

Example ex_paths_n :
  map (fun n => map (paths_n ex_m ex_Q n) ex_Q) [0; 1; 2; 3]%nat
  = [[0; 0; 1]; [4; 3; 0]; [6; 0; 0]; [0; 0; 0]]%N.
Proof. vm_compute. reflexivity. Qed.

Example ex_b_solves : forall q, In q ex_Q ->
  ex_b q = sadd (wget (wfinal ex_m) q) (bsum ex_Q (fun j => smul (arcw ex_m q j) (ex_b j))).
Proof. intros q Hq. destruct Hq as [<-|[<-|[<-|[]]]]; vm_compute; reflexivity. Qed.

Example ex_nilpotent : nilpotent ex_m ex_Q 3.
Proof. intros g q Hq. destruct Hq as [<-|[<-|[<-|[]]]]; vm_compute; reflexivity. Qed.

Example ex_strings :
  pathsum ex_m [5; 6]%nat = 6%N /\ pathsum ex_m [6]%nat = 4%N /\
  bsum (words_le ex_V 2) (fun xs => pathsum ex_m xs) = 10%N /\
  bsum (winit ex_m) (fun e => smul (snd e) (ex_b (fst e))) = 10%N.
Proof. vm_compute. repeat split; reflexivity. Qed.

(* the theorem instantiated: the hypotheses hold for the example *)
Example ex_total :
  bsum (winit ex_m) (fun e => smul (snd e) (ex_b (fst e)))
  = bsum (words_le ex_V 2) (fun xs => pathsum ex_m xs).
Proof.
  apply (total_weight_is_string_sum_le NSR ex_V ex_Q ex_m 2 ex_b).
  - repeat constructor; simpl; intuition discriminate.
  - repeat constructor; simpl; intuition discriminate.
  - intros ar Har. simpl in Har.
    destruct Har as [<-|[<-|[<-|[]]]]; eexists; (split; [reflexivity|]); simpl; auto.
  - intros ar Har. simpl in Har. destruct Har as [<-|[<-|[<-|[]]]]; simpl; auto.
  - intros e He. simpl in He. destruct He as [<-|[]]; simpl; auto.
  - exact ex_nilpotent.
  - exact ex_b_solves.
Qed.
Print Assumptions ex_total.
