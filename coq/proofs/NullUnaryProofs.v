(* Equation-system semantics of CFG.unaryremove and CFG._push_null_weights.
   A solution of G is a valuation f with  f X xs = gstep G f X xs  for all X, xs.

   PART A (unaryremove K nts G, K a closure table with K = I + U K on nts):
     unaryremove_step      one step of G' is the K-weighted combination of the non-unary part;
     unaryremove_expanded  (A1) that combination solves the unary-expanded equation, for every f;
     unaryremove_restrict  (A2') every solution of G' is a solution of G;
     unaryremove_extend_cancel  the converse, for additively cancellative semirings and
                                a table that also satisfies K = I + K U.
   PART B (push_null_weights nullw nn s G):
     null_expansion_sum    the power-set expansion of a body weight;
     push_null_extend      the split valuation pn_ext solves the null-free grammar.
   No axioms. *)
From Coq Require Import List Arith Bool Lia.
From GV.lib Require Import Semiring BigSum.
From GV.model Require Import Cfg Transform Cky Transform2.
From GV.proofs Require Import UnfoldProofs CkyProofs ShapeProofs FoldProofs.
Import ListNotations.
Local Open Scope sr_scope.

Section NullUnary.
Variable S : SR.
Add Ring NullUnaryRing : (sth S).

(* ====================================================================== *)
(* 0. generalities                                                        *)
(* ====================================================================== *)

Lemma seqb_false (a b : S) : seqb a b = false -> a <> b.
Proof. intros E H. apply seqb_spec in H. rewrite H in E. discriminate E. Qed.

Lemma seqb_true (a b : S) : seqb a b = true -> a = b.
Proof. apply seqb_spec. Qed.

(* the filter "drop the candidate when its weight is zero" is invisible to a sum whose
   summand vanishes with the weight *)
Lemma bsum_drop0 {A} (w : S) (x : A) (F : A -> S) :
  (w = 0 -> F x = 0) -> bsum (if seqb w 0 then [] else [x]) F = F x.
Proof.
  intros H. destruct (seqb w 0) eqn:E.
  - rewrite bsum_nil. symmetry. apply H. apply seqb_spec. exact E.
  - rewrite bsum_cons, bsum_nil. ring.
Qed.

(* a zero-weight rule contributes zero to gstep *)
Lemma term_zero_weight f X xs (w : S) h b : w = 0 -> term S f X xs (w, h, b) = 0.
Proof. intros ->. rewrite term_mk. destruct (Nat.eqb h X); ring. Qed.

Lemma gstep_drop0 (w : S) h b f X xs :
  gstep S (if seqb w 0 then [] else [(w, h, b)]) f X xs = term S f X xs (w, h, b).
Proof. unfold gstep. apply (bsum_drop0 w (w, h, b) (term S f X xs)). apply term_zero_weight. Qed.

Lemma bsum_pick (l : list nat) (x : nat) (F : nat -> S) :
  NoDup l -> In x l -> bsum l (fun a => if Nat.eqb a x then F a else 0) = F x.
Proof.
  intros Hnd Hx. rewrite (bsum_delta S Nat.eqb Nat.eqb_eq l x F Hnd).
  assert (E : existsb (fun a => Nat.eqb a x) l = true).
  { apply existsb_exists. exists x. split; [exact Hx|apply Nat.eqb_refl]. }
  rewrite E. reflexivity.
Qed.

Lemma bsum_pick_absent (l : list nat) (x : nat) (F : nat -> S) :
  ~ In x l -> bsum l (fun a => if Nat.eqb a x then F a else 0) = 0.
Proof.
  intros Hx. apply bsum_zero. intros a Ha.
  destruct (Nat.eqb_spec a x) as [E|E]; [subst a; contradiction|reflexivity].
Qed.

Lemma gstep_flat_map {A} (l : list A) (g : A -> grammar S) f X xs :
  gstep S (flat_map g l) f X xs = bsum l (fun a => gstep S (g a) f X xs).
Proof. unfold gstep. apply bsum_flat_map. Qed.

(* ====================================================================== *)
(* PART A. unaryremove                                                    *)
(* ====================================================================== *)

(* weight of rule r seen as an edge of the unary graph towards Z *)
Definition uw (r : rule S) (Z : nat) : S :=
  match rbody r with [N Z'] => if Nat.eqb Z' Z then rw r else 0 | _ => 0 end.

(* U Y Z = total weight of the unary rules Y -> Z *)
Definition Umat (G : grammar S) (Y Z : nat) : S :=
  bsum G (fun r => if Nat.eqb (rhead r) Y then uw r Z else 0).

(* the non-unary part of one step of G *)
Definition NUpart (G : grammar S) (f : nat -> list nat -> S) (Y : nat) (xs : list nat) : S :=
  bsum G (fun r => if is_unary r then 0 else term S f Y xs r).

Lemma is_unary_cases (r : rule S) :
  (exists Z, rbody r = [N Z] /\ is_unary r = true)
  \/ ((forall Z, rbody r <> [N Z]) /\ is_unary r = false).
Proof.
  unfold is_unary. destruct (rbody r) as [|[a|z] [|y t]];
    try (right; split; [intros Z; discriminate|reflexivity]).
  left. exists z. split; reflexivity.
Qed.

Lemma uw_unary (r : rule S) Z0 Z : rbody r = [N Z0] -> uw r Z = if Nat.eqb Z0 Z then rw r else 0.
Proof. unfold uw. intros ->. reflexivity. Qed.

Lemma uw_nonunary (r : rule S) Z : is_unary r = false -> uw r Z = 0.
Proof.
  unfold uw, is_unary. destruct (rbody r) as [|[a|z] [|y t]]; intros H; try reflexivity. discriminate H.
Qed.

Section UnaryRemove.
Variable G : grammar S.
Variable nts : list nat.
Variable K : nat -> nat -> S.
Hypothesis Hnd : NoDup nts.

(* one step of G = unary part + non-unary part *)
Lemma gstep_split f Y xs :
  (forall r Z, In r G -> rbody r = [N Z] -> In Z nts) ->
  gstep S G f Y xs = bsum nts (fun Z => Umat G Y Z * f Z xs) + NUpart G f Y xs.
Proof.
  intros Hubody.
  transitivity (bsum G (fun r => bsum nts (fun Z => (if Nat.eqb (rhead r) Y then uw r Z else 0) * f Z xs)
                                 + (if is_unary r then 0 else term S f Y xs r))).
  - unfold gstep. apply bsum_ext. intros r Hr.
    destruct (is_unary_cases r) as [[Z0 [Eb Eu]]|[Hn Eu]]; rewrite Eu.
    + rewrite Eb, Wb_N1. destruct (Nat.eqb (rhead r) Y).
      * rewrite (bsum_ext S nts _ (fun Z => if Nat.eqb Z Z0 then rw r * f Z xs else 0)).
        -- rewrite bsum_pick; [ring|exact Hnd|exact (Hubody r Z0 Hr Eb)].
        -- intros Z _. rewrite (uw_unary r Z0 Z Eb), Nat.eqb_sym. destruct (Nat.eqb Z Z0); ring.
      * rewrite bsum_zero; [ring|]. intros Z _. ring.
    + unfold term. rewrite bsum_zero; [ring|]. intros Z _. rewrite (uw_nonunary r Z Eu).
      destruct (Nat.eqb (rhead r) Y); ring.
  - rewrite bsum_add. f_equal. rewrite bsum_swap. apply bsum_ext. intros Z _.
    exact (bsum_mul_r S G (fun r => if Nat.eqb (rhead r) Y then uw r Z else 0) (f Z xs)).
Qed.

(* one step of the transformed grammar, the zero-weight filter removed *)
Lemma gstep_unaryremove f Y xs :
  gstep S (unaryremove K nts G) f Y xs
  = bsum G (fun r => if is_unary r then 0
                     else bsum nts (fun Y' => if Nat.eqb Y' Y
                                              then K Y' (rhead r) * (rw r * Wb f (rbody r) xs) else 0)).
Proof.
  unfold unaryremove. rewrite gstep_flat_map. apply bsum_ext. intros r _.
  destruct (is_unary r); [reflexivity|].
  rewrite gstep_flat_map. apply bsum_ext. intros Y' _.
  rewrite gstep_drop0, term_mk. destruct (Nat.eqb Y' Y); ring.
Qed.

Lemma gstep_unaryremove_in f Y xs :
  In Y nts ->
  gstep S (unaryremove K nts G) f Y xs
  = bsum G (fun r => if is_unary r then 0 else K Y (rhead r) * (rw r * Wb f (rbody r) xs)).
Proof.
  intros HY. rewrite gstep_unaryremove. apply bsum_ext. intros r _.
  destruct (is_unary r); [reflexivity|].
  apply (bsum_pick nts Y (fun Y' => K Y' (rhead r) * (rw r * Wb f (rbody r) xs)) Hnd HY).
Qed.

Lemma gstep_unaryremove_notin f Y xs :
  ~ In Y nts -> gstep S (unaryremove K nts G) f Y xs = 0.
Proof.
  intros HY. rewrite gstep_unaryremove. apply bsum_zero. intros r _.
  destruct (is_unary r); [reflexivity|].
  apply (bsum_pick_absent nts Y (fun Y' => K Y' (rhead r) * (rw r * Wb f (rbody r) xs)) HY).
Qed.

(* the K-weighted combination of the non-unary parts, rule by rule *)
Lemma K_NUpart f Y xs :
  (forall r, In r G -> is_unary r = false -> In (rhead r) nts) ->
  bsum nts (fun X => K Y X * NUpart G f X xs)
  = bsum G (fun r => if is_unary r then 0 else K Y (rhead r) * (rw r * Wb f (rbody r) xs)).
Proof.
  intros Hheads.
  transitivity (bsum nts (fun X => bsum G (fun r => K Y X * (if is_unary r then 0 else term S f X xs r)))).
  - apply bsum_ext. intros X _. unfold NUpart. symmetry. apply bsum_mul_l.
  - rewrite bsum_swap. apply bsum_ext. intros r Hr. destruct (is_unary r) eqn:Eu.
    + apply bsum_zero. intros X _. ring.
    + unfold term.
      rewrite (bsum_ext S nts _ (fun X => if Nat.eqb X (rhead r) then K Y X * (rw r * Wb f (rbody r) xs) else 0)).
      * apply (bsum_pick nts (rhead r) (fun X => K Y X * (rw r * Wb f (rbody r) xs)) Hnd (Hheads r Hr Eu)).
      * intros X _. rewrite Nat.eqb_sym. destruct (Nat.eqb X (rhead r)); ring.
Qed.

(* one step of G' = K applied to the non-unary part of one step of G *)
Lemma unaryremove_step_sec f Y xs :
  (forall r, In r G -> is_unary r = false -> In (rhead r) nts) ->
  In Y nts ->
  gstep S (unaryremove K nts G) f Y xs = bsum nts (fun X => K Y X * NUpart G f X xs).
Proof. intros Hheads HY. rewrite gstep_unaryremove_in by exact HY. symmetry. apply K_NUpart. exact Hheads. Qed.

(* (A1) *)
Lemma unaryremove_expanded_sec f Y xs :
  (forall r, In r G -> is_unary r = false -> In (rhead r) nts) ->
  (forall Y X, In Y nts -> In X nts ->
     K Y X = (if Nat.eqb Y X then 1 else 0) + bsum nts (fun Z => Umat G Y Z * K Z X)) ->
  In Y nts ->
  gstep S (unaryremove K nts G) f Y xs
  = NUpart G f Y xs + bsum nts (fun Z => Umat G Y Z * gstep S (unaryremove K nts G) f Z xs).
Proof.
  intros Hheads HK HY.
  rewrite (unaryremove_step_sec f Y xs Hheads HY).
  rewrite (bsum_ext S nts (fun Z => Umat G Y Z * gstep S (unaryremove K nts G) f Z xs)
                          (fun Z => bsum nts (fun X => Umat G Y Z * (K Z X * NUpart G f X xs)))).
  2:{ intros Z HZ. rewrite (unaryremove_step_sec f Z xs Hheads HZ). symmetry. apply bsum_mul_l. }
  rewrite bsum_swap.
  rewrite (bsum_ext S nts (fun X => K Y X * NUpart G f X xs)
                          (fun X => (if Nat.eqb X Y then NUpart G f X xs else 0)
                                    + bsum nts (fun Z => Umat G Y Z * (K Z X * NUpart G f X xs)))).
  - rewrite bsum_add. f_equal.
    apply (bsum_pick nts Y (fun X => NUpart G f X xs) Hnd HY).
  - intros X HX. rewrite (HK Y X HY HX), Nat.eqb_sym.
    transitivity ((if Nat.eqb X Y then 1 else 0) * NUpart G f X xs
                  + bsum nts (fun Z => Umat G Y Z * K Z X) * NUpart G f X xs); [ring|].
    f_equal.
    + destruct (Nat.eqb X Y); ring.
    + rewrite <- bsum_mul_r. apply bsum_ext. intros Z _. ring.
Qed.

(* (A2') *)
Lemma unaryremove_restrict_sec f' :
  (forall r, In r G -> In (rhead r) nts) ->
  (forall r Z, In r G -> rbody r = [N Z] -> In Z nts) ->
  (forall Y X, In Y nts -> In X nts ->
     K Y X = (if Nat.eqb Y X then 1 else 0) + bsum nts (fun Z => Umat G Y Z * K Z X)) ->
  solves S (unaryremove K nts G) f' -> solves S G f'.
Proof.
  intros Hheads Hubody HK Hsol Y xs.
  destruct (in_dec Nat.eq_dec Y nts) as [HY|HY].
  - rewrite (Hsol Y xs) at 1.
    rewrite (unaryremove_expanded_sec f' Y xs (fun r Hr _ => Hheads r Hr) HK HY).
    rewrite (gstep_split f' Y xs Hubody).
    rewrite (bsum_ext S nts (fun Z => Umat G Y Z * gstep S (unaryremove K nts G) f' Z xs)
                            (fun Z => Umat G Y Z * f' Z xs)).
    + ring.
    + intros Z _. rewrite <- (Hsol Z xs). reflexivity.
  - rewrite (Hsol Y xs), (gstep_unaryremove_notin f' Y xs HY).
    symmetry. apply gstep_nohead. intros r Hr E. apply HY. rewrite <- E. apply Hheads. exact Hr.
Qed.

(* the converse needs additive cancellation and the right-handed closure equation *)
Lemma unaryremove_extend_cancel_sec f :
  (forall a b c : S, a + b = a + c -> b = c) ->
  (forall r, In r G -> In (rhead r) nts) ->
  (forall r Z, In r G -> rbody r = [N Z] -> In Z nts) ->
  (forall Y X, In Y nts -> In X nts ->
     K Y X = (if Nat.eqb Y X then 1 else 0) + bsum nts (fun Z => K Y Z * Umat G Z X)) ->
  solves S G f -> solves S (unaryremove K nts G) f.
Proof.
  intros Hcancel Hheads Hubody HKr Hsol Y xs.
  destruct (in_dec Nat.eq_dec Y nts) as [HY|HY].
  - rewrite (unaryremove_step_sec f Y xs (fun r Hr _ => Hheads r Hr) HY).
    set (A := bsum nts (fun Z => bsum nts (fun X => K Y X * Umat G X Z) * f Z xs)).
    apply (Hcancel A).
    (* both sides are  sum_X K Y X * f X xs *)
    transitivity (bsum nts (fun X => K Y X * f X xs)).
    + (* via K = I + K U *)
      rewrite (bsum_ext S nts (fun X => K Y X * f X xs)
                 (fun X => bsum nts (fun Z => K Y Z * Umat G Z X) * f X xs
                           + (if Nat.eqb X Y then f X xs else 0))).
      * rewrite bsum_add. f_equal. symmetry.
        apply (bsum_pick nts Y (fun X => f X xs) Hnd HY).
      * intros X HX. rewrite (HKr Y X HY HX) at 1. rewrite Nat.eqb_sym.
        destruct (Nat.eqb X Y); ring.
    + (* via f = U f + NU *)
      rewrite (bsum_ext S nts (fun X => K Y X * f X xs)
                 (fun X => bsum nts (fun Z => K Y X * Umat G X Z * f Z xs) + K Y X * NUpart G f X xs)).
      * rewrite bsum_add. f_equal. rewrite bsum_swap. apply bsum_ext. intros Z _.
        rewrite <- bsum_mul_r. reflexivity.
      * intros X _. rewrite (Hsol X xs) at 1. rewrite (gstep_split f X xs Hubody).
        transitivity (K Y X * bsum nts (fun Z => Umat G X Z * f Z xs) + K Y X * NUpart G f X xs); [ring|].
        f_equal. rewrite <- bsum_mul_l. apply bsum_ext. intros Z _. ring.
  - rewrite (gstep_unaryremove_notin f Y xs HY), (Hsol Y xs).
    apply gstep_nohead. intros r Hr E. apply HY. rewrite <- E. apply Hheads. exact Hr.
Qed.

End UnaryRemove.
(* ====================================================================== *)
(* PART B. push_null_weights                                              *)
(* ====================================================================== *)

Section PushNull.
Variable nullw : nat -> S.
Variable nn : nat -> nat.
Variable s : nat.

(* the power-set expansion: if every nonterminal Y of the body splits as
   f Y = [empty string] * nullw Y + f' (NotNull-name of Y), then the body weight under f is
   the sum over the deletion patterns of the deleted null weights times the weight of the
   remaining (renamed) body under f'.  Holds for every xs, empty or not. *)
Lemma null_expansion_sum (f f' : nat -> list nat -> S) (b : list sym) :
  (forall Y ys, In (N Y) b -> f Y ys = nilw S ys * nullw Y + f' (nn_name nullw nn s Y) ys) ->
  forall xs, Wb f b xs = bsum (null_expansions nullw nn s b) (fun e => fst e * Wb f' (snd e) xs).
Proof.
  induction b as [|[a|Y] rest IH]; intros Hrel xs.
  - cbn [null_expansions]. rewrite bsum_cons, bsum_nil. cbn [fst snd Wb]. ring.
  - assert (Hrel' : forall Y ys, In (N Y) rest ->
                      f Y ys = nilw S ys * nullw Y + f' (nn_name nullw nn s Y) ys).
    { intros Y ys HY. apply Hrel. right; exact HY. }
    cbn [null_expansions]. rewrite bsum_app, !bsum_map. cbn [fst snd nn_sym nullw_sym].
    rewrite (bsum_zero S _ (fun e => 0 * fst e * Wb f' (snd e) xs)) by (intros e _; ring).
    destruct xs as [|c xs'].
    + cbn [Wb]. rewrite bsum_zero; [ring|]. intros e _. ring.
    + cbn [Wb]. destruct (Nat.eqb a c).
      * rewrite (IH Hrel' xs'). ring.
      * rewrite bsum_zero; [ring|]. intros e _. ring.
  - assert (Hrel' : forall Y ys, In (N Y) rest ->
                      f Y ys = nilw S ys * nullw Y + f' (nn_name nullw nn s Y) ys).
    { intros Y' ys HY. apply Hrel. right; exact HY. }
    cbn [null_expansions]. rewrite bsum_app, !bsum_map. cbn [fst snd nn_sym nullw_sym].
    set (tl := null_expansions nullw nn s rest).
    set (Y' := nn_name nullw nn s Y).
    change (Wb f (N Y :: rest) xs) with (bsum (splits xs) (fun p => f Y (fst p) * Wb f rest (snd p))).
    transitivity (bsum (splits xs) (fun p => f' Y' (fst p) * Wb f rest (snd p))
                  + bsum (splits xs) (fun p => nilw S (fst p) * (nullw Y * Wb f rest (snd p)))).
    { rewrite <- bsum_add. apply bsum_ext. intros p _.
      rewrite (Hrel Y (fst p) (or_introl eq_refl)). fold Y'. ring. }
    f_equal.
    + (* keep Y *)
      transitivity (bsum (splits xs) (fun p => bsum tl (fun e => f' Y' (fst p) * (fst e * Wb f' (snd e) (snd p))))).
      { apply bsum_ext. intros p _. rewrite (IH Hrel' (snd p)). fold tl. symmetry. apply bsum_mul_l. }
      rewrite bsum_swap. apply bsum_ext. intros e _.
      change (Wb f' (N Y' :: snd e) xs) with (bsum (splits xs) (fun p => f' Y' (fst p) * Wb f' (snd e) (snd p))).
      rewrite <- bsum_mul_l. apply bsum_ext. intros p _. ring.
    + (* delete Y *)
      pose proof (splits_nilw_l S (fun ys => nullw Y * Wb f rest ys) xs) as E. cbv beta in E.
      rewrite E. rewrite (IH Hrel' xs). fold tl. rewrite <- bsum_mul_l.
      apply bsum_ext. intros e _. ring.
Qed.

(* the empty-string weight of a body is the product of the null weights *)
Lemma Wb_nil_sprod (f : nat -> list nat -> S) :
  (forall X, f X [] = nullw X) ->
  forall b, Wb f b [] = sprod (map (nullw_sym nullw) b).
Proof.
  intros Hf0. induction b as [|[a|Y] rest IH].
  - reflexivity.
  - cbn [Wb map sprod nullw_sym]. ring.
  - cbn [Wb splits map sprod nullw_sym]. rewrite bsum_cons, bsum_nil. cbn [fst snd].
    rewrite Hf0, IH. ring.
Qed.

(* a solution that gives the empty string weight nullw makes nullw satisfy the null equations *)
Lemma null_equation (G : grammar S) (f : nat -> list nat -> S) :
  solves S G f -> (forall X, f X [] = nullw X) ->
  forall X, nullw X = bsum G (fun r => if Nat.eqb (rhead r) X
                                       then rw r * sprod (map (nullw_sym nullw) (rbody r)) else 0).
Proof.
  intros Hsol Hf0 X. rewrite <- (Hf0 X), (Hsol X []). unfold gstep. apply bsum_ext. intros r _.
  rewrite (Wb_nil_sprod f Hf0). reflexivity.
Qed.

(* the rules produced from one rule of G *)
Definition pn_rules (r : rule S) : grammar S :=
  match rbody r with
  | [] => []
  | b => flat_map (fun e => match snd e with
                            | [] => []
                            | nb => if seqb (rw r * fst e) 0 then []
                                    else [(rw r * fst e, nn_name nullw nn s (rhead r), nb)]
                            end) (null_expansions nullw nn s b)
  end.

Lemma push_null_weights_eq (G : grammar S) :
  push_null_weights nullw nn s G
  = (if seqb (nullw s) 0 then [] else [(nullw s, s, [])]) ++ flat_map pn_rules G.
Proof. reflexivity. Qed.

(* one step of the candidates of a single expansion list, the zero-weight filter removed *)
Lemma gstep_expansions (w : S) (H : nat) (L : list (S * list sym)) g Z xs :
  gstep S (flat_map (fun e => match snd e with
                              | [] => []
                              | nb => if seqb (w * fst e) 0 then [] else [(w * fst e, H, nb)]
                              end) L) g Z xs
  = bsum L (fun e => match snd e with
                     | [] => 0
                     | _ => if Nat.eqb H Z then w * fst e * Wb g (snd e) xs else 0
                     end).
Proof.
  rewrite gstep_flat_map. apply bsum_ext. intros e _.
  destruct (snd e) as [|y nb]; [reflexivity|].
  rewrite gstep_drop0, term_mk. reflexivity.
Qed.

Lemma gstep_pn_rules (r : rule S) g Z xs :
  gstep S (pn_rules r) g Z xs
  = match rbody r with
    | [] => 0
    | _ => bsum (null_expansions nullw nn s (rbody r))
                (fun e => match snd e with
                          | [] => 0
                          | _ => if Nat.eqb (nn_name nullw nn s (rhead r)) Z
                                 then rw r * fst e * Wb g (snd e) xs else 0
                          end)
    end.
Proof.
  unfold pn_rules. destruct (rbody r) as [|y b]; [reflexivity|].
  apply gstep_expansions.
Qed.

Section Ext.
Variable G : grammar S.
Variable f : nat -> list nat -> S.

(* the X with Z = nn X, nullw X <> 0, X <> s (necessarily a head of G) *)
Definition pn_pre (Z : nat) : option nat :=
  find (fun X => Nat.eqb (nn X) Z && negb (seqb (nullw X) 0) && negb (Nat.eqb X s)) (map rhead G).

(* the valuation of the null-free grammar *)
Definition pn_ext (Z : nat) (xs : list nat) : S :=
  if Nat.eqb Z s then f s xs else
  match pn_pre Z with
  | Some X => match xs with [] => 0 | _ => f X xs end
  | None => if seqb (nullw Z) 0 then f Z xs else 0
  end.

Hypothesis Hinj : forall p q, nn p = nn q -> p = q.
Hypothesis Hs_nn : forall X, s <> nn X.
Hypothesis Hhead_nn : forall r X, In r G -> rhead r <> nn X.
Hypothesis Hbody_nn : forall r X, In r G -> ~ In (N (nn X)) (rbody r).
Hypothesis Hbody_s : forall r, In r G -> ~ In (N s) (rbody r).
Hypothesis Hsol : solves S G f.
Hypothesis Hf0 : forall X, f X [] = nullw X.

Lemma nullw_nohead X : (forall r, In r G -> rhead r <> X) -> nullw X = 0.
Proof. intros Hh. rewrite <- (Hf0 X), (Hsol X []). apply gstep_nohead. exact Hh. Qed.

Lemma nullw_head X : nullw X <> 0 -> In X (map rhead G).
Proof.
  intros Hn. destruct (in_dec Nat.eq_dec X (map rhead G)) as [Hi|Hi]; [exact Hi|].
  exfalso. apply Hn. apply nullw_nohead. intros r Hr E. apply Hi. rewrite <- E. apply in_map. exact Hr.
Qed.

Lemma pn_pre_some Z X : pn_pre Z = Some X -> nn X = Z /\ nullw X <> 0 /\ X <> s.
Proof.
  unfold pn_pre. intros E. apply find_some in E. destruct E as [_ E].
  apply andb_true_iff in E. destruct E as [E E3]. apply andb_true_iff in E. destruct E as [E1 E2].
  apply Nat.eqb_eq in E1. apply negb_true_iff in E2. apply negb_true_iff in E3.
  split; [exact E1|]. split; [apply seqb_false; exact E2|apply Nat.eqb_neq; exact E3].
Qed.

Lemma pn_pre_nn X : nullw X <> 0 -> X <> s -> pn_pre (nn X) = Some X.
Proof.
  intros Hn Hs. destruct (pn_pre (nn X)) as [X'|] eqn:E.
  - apply pn_pre_some in E. destruct E as [E _]. apply Hinj in E. subst X'. reflexivity.
  - exfalso. unfold pn_pre in E. pose proof (find_none _ _ E X (nullw_head X Hn)) as H. cbv beta in H.
    rewrite Nat.eqb_refl in H.
    destruct (seqb (nullw X) 0) eqn:E2; [apply Hn; apply seqb_true; exact E2|].
    destruct (Nat.eqb_spec X s) as [E3|E3]; [exact (Hs E3)|]. discriminate H.
Qed.

Lemma pn_pre_none Z : pn_pre Z = None -> forall X, nullw X <> 0 -> X <> s -> nn X <> Z.
Proof.
  intros E X Hn Hs EZ. rewrite <- EZ, (pn_pre_nn X Hn Hs) in E. discriminate E.
Qed.

(* the three defining clauses of pn_ext *)
Lemma pn_ext_start xs : pn_ext s xs = f s xs.
Proof. unfold pn_ext. rewrite Nat.eqb_refl. reflexivity. Qed.

Lemma pn_ext_nn X xs : nullw X <> 0 -> X <> s ->
  pn_ext (nn X) xs = match xs with [] => 0 | _ => f X xs end.
Proof.
  intros Hn Hs. unfold pn_ext.
  destruct (Nat.eqb_spec (nn X) s) as [E|_]; [exfalso; exact (Hs_nn X (eq_sym E))|].
  rewrite (pn_pre_nn X Hn Hs). reflexivity.
Qed.

Lemma pn_ext_plain Z xs : Z <> s -> (forall X, Z <> nn X) -> nullw Z = 0 -> pn_ext Z xs = f Z xs.
Proof.
  intros Hs Hnn H0. unfold pn_ext.
  destruct (Nat.eqb_spec Z s) as [E|_]; [exfalso; exact (Hs E)|].
  destruct (pn_pre Z) as [X|] eqn:E.
  - exfalso. apply pn_pre_some in E. destruct E as [E _]. exact (Hnn X (eq_sym E)).
  - assert (E0 : seqb (nullw Z) 0 = true) by (apply seqb_spec; exact H0). rewrite E0. reflexivity.
Qed.

(* the split of f at a nonterminal that may occur in a body *)
Lemma pn_ext_split Y : Y <> s -> (forall X, Y <> nn X) ->
  (forall ys, f Y ys = nilw S ys * nullw Y + pn_ext (nn_name nullw nn s Y) ys)
  /\ pn_ext (nn_name nullw nn s Y) [] = 0.
Proof.
  intros Hs Hnn. unfold nn_name. destruct (seqb (nullw Y) 0) eqn:E0; cbn [orb].
  - apply seqb_true in E0. split.
    + intros ys. rewrite (pn_ext_plain Y ys Hs Hnn E0), E0. ring.
    + rewrite (pn_ext_plain Y [] Hs Hnn E0), Hf0. exact E0.
  - apply seqb_false in E0.
    destruct (Nat.eqb_spec Y s) as [E|_]; [exfalso; exact (Hs E)|].
    split.
    + intros ys. rewrite (pn_ext_nn Y ys E0 Hs). destruct ys as [|c t]; unfold nilw.
      * rewrite Hf0. ring.
      * ring.
    + apply (pn_ext_nn Y [] E0 Hs).
Qed.

Lemma body_sym_ok r Y : In r G -> In (N Y) (rbody r) -> Y <> s /\ forall X, Y <> nn X.
Proof.
  intros Hr HY. split.
  - intros E. subst Y. exact (Hbody_s r Hr HY).
  - intros X E. subst Y. exact (Hbody_nn r X Hr HY).
Qed.

(* a kept body is non-empty and each of its symbols needs a non-empty string *)
Lemma Wb_pn_nil r e :
  In r G -> In e (null_expansions nullw nn s (rbody r)) -> snd e <> [] -> Wb pn_ext (snd e) [] = 0.
Proof.
  intros Hr He Hne. destruct (null_exp_sub S nullw nn s (rbody r) e He) as [_ Hsub].
  destruct (snd e) as [|y nb]; [exfalso; apply Hne; reflexivity|].
  destruct (Hsub y (or_introl eq_refl)) as [y0 [Hy0 Ey]]. subst y.
  destruct y0 as [a|Y]; cbn [nn_sym].
  - reflexivity.
  - cbn [Wb splits]. rewrite bsum_cons, bsum_nil. cbn [fst snd].
    destruct (body_sym_ok r Y Hr Hy0) as [Hs Hnn].
    destruct (pn_ext_split Y Hs Hnn) as [_ E]. rewrite E. ring.
Qed.

Lemma gstep_pn_rules_nil r Z : In r G -> gstep S (pn_rules r) pn_ext Z [] = 0.
Proof.
  intros Hr. rewrite gstep_pn_rules. destruct (rbody r) as [|y b] eqn:Eb; [reflexivity|].
  rewrite <- Eb. apply bsum_zero. intros e He.
  pose proof (Wb_pn_nil r e Hr He) as H0.
  destruct (snd e) as [|y1 nb]; [reflexivity|].
  rewrite H0 by discriminate. destruct (Nat.eqb (nn_name nullw nn s (rhead r)) Z); ring.
Qed.

Lemma gstep_pn_rules_cons r Z c t :
  In r G ->
  gstep S (pn_rules r) pn_ext Z (c :: t)
  = if Nat.eqb (nn_name nullw nn s (rhead r)) Z then rw r * Wb f (rbody r) (c :: t) else 0.
Proof.
  intros Hr. rewrite gstep_pn_rules. destruct (rbody r) as [|y b] eqn:Eb.
  - cbn [Wb]. destruct (Nat.eqb (nn_name nullw nn s (rhead r)) Z); ring.
  - rewrite <- Eb.
    rewrite (bsum_ext S _ _ (fun e => if Nat.eqb (nn_name nullw nn s (rhead r)) Z
                                      then rw r * (fst e * Wb pn_ext (snd e) (c :: t)) else 0)).
    + destruct (Nat.eqb (nn_name nullw nn s (rhead r)) Z).
      * rewrite bsum_mul_l. f_equal. symmetry. apply null_expansion_sum.
        intros Y ys HY. destruct (body_sym_ok r Y Hr HY) as [Hs Hnn].
        destruct (pn_ext_split Y Hs Hnn) as [E _]. apply E.
      * apply bsum_const_zero.
    + intros e _. destruct (snd e) as [|y1 nb].
      * cbn [Wb]. destruct (Nat.eqb (nn_name nullw nn s (rhead r)) Z); ring.
      * destruct (Nat.eqb (nn_name nullw nn s (rhead r)) Z); ring.
Qed.

(* which rules of G feed a given head of the null-free grammar *)
Lemma nn_name_eqb_s h : Nat.eqb (nn_name nullw nn s h) s = Nat.eqb h s.
Proof.
  unfold nn_name. destruct (seqb (nullw h) 0); cbn [orb]; [reflexivity|].
  destruct (Nat.eqb_spec h s) as [E|E]; [apply Nat.eqb_eq; exact E|].
  apply Nat.eqb_neq. intros E'. exact (Hs_nn h (eq_sym E')).
Qed.

Lemma nn_name_eqb_nn r X : In r G -> nullw X <> 0 -> X <> s ->
  Nat.eqb (nn_name nullw nn s (rhead r)) (nn X) = Nat.eqb (rhead r) X.
Proof.
  intros Hr Hn Hs. destruct (Nat.eqb_spec (rhead r) X) as [E|E].
  - rewrite E. unfold nn_name.
    destruct (seqb (nullw X) 0) eqn:E0; [exfalso; apply Hn; apply seqb_true; exact E0|].
    destruct (Nat.eqb_spec X s) as [E1|_]; [exfalso; exact (Hs E1)|]. cbn [orb]. apply Nat.eqb_refl.
  - apply Nat.eqb_neq. unfold nn_name.
    destruct (seqb (nullw (rhead r)) 0 || Nat.eqb (rhead r) s).
    + apply Hhead_nn. exact Hr.
    + intros E'. apply E. apply Hinj. exact E'.
Qed.

Lemma nn_name_eqb_plain r Z : In r G -> pn_pre Z = None -> nullw Z = 0 ->
  Nat.eqb (nn_name nullw nn s (rhead r)) Z = Nat.eqb (rhead r) Z.
Proof.
  intros Hr Hp H0. destruct (Nat.eqb_spec (rhead r) Z) as [E|E].
  - rewrite E. unfold nn_name.
    assert (E0 : seqb (nullw Z) 0 = true) by (apply seqb_spec; exact H0).
    rewrite E0. cbn [orb]. apply Nat.eqb_refl.
  - apply Nat.eqb_neq. unfold nn_name.
    destruct (seqb (nullw (rhead r)) 0) eqn:E0; cbn [orb]; [exact E|].
    destruct (Nat.eqb_spec (rhead r) s) as [E1|E1]; [exact E|].
    apply (pn_pre_none Z Hp (rhead r)); [apply seqb_false; exact E0|exact E1].
Qed.

Lemma nn_name_eqb_dead r Z : In r G -> Z <> s -> pn_pre Z = None -> nullw Z <> 0 ->
  Nat.eqb (nn_name nullw nn s (rhead r)) Z = false.
Proof.
  intros Hr Hs Hp Hn. apply Nat.eqb_neq. unfold nn_name.
  destruct (seqb (nullw (rhead r)) 0) eqn:E0; cbn [orb].
  - intros E. apply Hn. rewrite <- E. apply seqb_true. exact E0.
  - destruct (Nat.eqb_spec (rhead r) s) as [E1|E1].
    + intros E. apply Hs. rewrite <- E. exact E1.
    + apply (pn_pre_none Z Hp (rhead r)); [apply seqb_false; exact E0|exact E1].
Qed.

Lemma pn_ext_nil Z : pn_ext Z [] = if Nat.eqb Z s then nullw s else 0.
Proof.
  unfold pn_ext. destruct (Nat.eqb Z s); [apply Hf0|].
  destruct (pn_pre Z) as [X|]; [reflexivity|].
  destruct (seqb (nullw Z) 0) eqn:E0; [|reflexivity].
  rewrite Hf0. apply seqb_true. exact E0.
Qed.

Lemma push_null_extend_sec : solves S (push_null_weights nullw nn s G) pn_ext.
Proof.
  intros Z xs. rewrite push_null_weights_eq, gstep_app, gstep_drop0, term_mk, gstep_flat_map.
  destruct xs as [|c t].
  - rewrite bsum_zero by (intros r Hr; apply gstep_pn_rules_nil; exact Hr).
    rewrite pn_ext_nil, (Nat.eqb_sym s Z). cbn [Wb]. destruct (Nat.eqb Z s); ring.
  - rewrite (bsum_ext S G _ (fun r => if Nat.eqb (nn_name nullw nn s (rhead r)) Z
                                      then rw r * Wb f (rbody r) (c :: t) else 0))
      by (intros r Hr; apply gstep_pn_rules_cons; exact Hr).
    cbn [Wb].
    transitivity (bsum G (fun r => if Nat.eqb (nn_name nullw nn s (rhead r)) Z
                                   then rw r * Wb f (rbody r) (c :: t) else 0));
      [|destruct (Nat.eqb s Z); ring].
    unfold pn_ext. destruct (Nat.eqb_spec Z s) as [EZ|NZ].
    + subst Z. rewrite (Hsol s (c :: t)). unfold gstep. apply bsum_ext. intros r _.
      rewrite nn_name_eqb_s. reflexivity.
    + destruct (pn_pre Z) as [X|] eqn:EP.
      * destruct (pn_pre_some Z X EP) as [EX [Hn Hs]]. subst Z.
        rewrite (Hsol X (c :: t)). unfold gstep. apply bsum_ext. intros r Hr.
        rewrite (nn_name_eqb_nn r X Hr Hn Hs). reflexivity.
      * destruct (seqb (nullw Z) 0) eqn:E0.
        -- apply seqb_true in E0.
           rewrite (Hsol Z (c :: t)). unfold gstep. apply bsum_ext. intros r Hr.
           rewrite (nn_name_eqb_plain r Z Hr EP E0). reflexivity.
        -- apply seqb_false in E0. symmetry. apply bsum_zero. intros r Hr.
           rewrite (nn_name_eqb_dead r Z Hr NZ EP E0). reflexivity.
Qed.

End Ext.
End PushNull.

End NullUnary.

(* ====================================================================== *)
(* Main statements, with every hypothesis explicit                        *)
(* ====================================================================== *)

(* PART A.  Hypotheses: nts is duplicate-free and contains every head of G and every
   nonterminal that is the body of a unary rule; K = I + U K on nts (HK).  Nothing is
   assumed about K or f outside nts. *)

(* one step of G' is the K-weighted combination of the non-unary part of one step of G
   (the zero-weight filter of the model is invisible) *)
Theorem unaryremove_step :
  forall (S : SR) (G : grammar S) (nts : list nat) (K : nat -> nat -> S)
         (f : nat -> list nat -> S) (Y : nat) (xs : list nat),
    NoDup nts ->
    (forall r, In r G -> is_unary r = false -> In (rhead r) nts) ->
    In Y nts ->
    gstep S (unaryremove K nts G) f Y xs = bsum nts (fun X => K Y X * NUpart S G f X xs).
Proof. intros S G nts K f Y xs Hnd Hheads HY. apply unaryremove_step_sec; assumption. Qed.

(* one step of G splits into its unary and non-unary parts *)
Theorem gstep_unary_split :
  forall (S : SR) (G : grammar S) (nts : list nat) (f : nat -> list nat -> S) (Y : nat) (xs : list nat),
    NoDup nts ->
    (forall r Z, In r G -> rbody r = [N Z] -> In Z nts) ->
    gstep S G f Y xs = bsum nts (fun Z => Umat S G Y Z * f Z xs) + NUpart S G f Y xs.
Proof. intros S G nts f Y xs Hnd Hub. apply gstep_split; assumption. Qed.

(* (A1) for every valuation f, g := one step of G' solves the unary-expanded equation
   g = NU_f + U g on nts *)
Theorem unaryremove_expanded :
  forall (S : SR) (G : grammar S) (nts : list nat) (K : nat -> nat -> S)
         (f : nat -> list nat -> S) (Y : nat) (xs : list nat),
    NoDup nts ->
    (forall r, In r G -> is_unary r = false -> In (rhead r) nts) ->
    (forall Y X, In Y nts -> In X nts ->
       K Y X = (if Nat.eqb Y X then 1 else 0) + bsum nts (fun Z => Umat S G Y Z * K Z X)) ->
    In Y nts ->
    gstep S (unaryremove K nts G) f Y xs
    = NUpart S G f Y xs + bsum nts (fun Z => Umat S G Y Z * gstep S (unaryremove K nts G) f Z xs).
Proof. intros S G nts K f Y xs Hnd Hheads HK HY. apply unaryremove_expanded_sec; assumption. Qed.

(* (A2') every solution of the unary-free grammar is a solution of G (at every nonterminal:
   outside nts both sides are zero) *)
Theorem unaryremove_restrict :
  forall (S : SR) (G : grammar S) (nts : list nat) (K : nat -> nat -> S) (f' : nat -> list nat -> S),
    NoDup nts ->
    (forall r, In r G -> In (rhead r) nts) ->
    (forall r Z, In r G -> rbody r = [N Z] -> In Z nts) ->
    (forall Y X, In Y nts -> In X nts ->
       K Y X = (if Nat.eqb Y X then 1 else 0) + bsum nts (fun Z => Umat S G Y Z * K Z X)) ->
    solves S (unaryremove K nts G) f' -> solves S G f'.
Proof. intros S G nts K f' Hnd Hheads Hub HK Hsol. apply (unaryremove_restrict_sec S G nts K); assumption. Qed.

(* the converse direction (same f) is available when addition is cancellative and K also
   satisfies the right-handed closure equation K = I + K U *)
Theorem unaryremove_extend_cancel :
  forall (S : SR) (G : grammar S) (nts : list nat) (K : nat -> nat -> S) (f : nat -> list nat -> S),
    (forall a b c : S, a + b = a + c -> b = c) ->
    NoDup nts ->
    (forall r, In r G -> In (rhead r) nts) ->
    (forall r Z, In r G -> rbody r = [N Z] -> In Z nts) ->
    (forall Y X, In Y nts -> In X nts ->
       K Y X = (if Nat.eqb Y X then 1 else 0) + bsum nts (fun Z => K Y Z * Umat S G Z X)) ->
    solves S G f -> solves S (unaryremove K nts G) f.
Proof. intros S G nts K f Hc Hnd Hheads Hub HK Hsol. apply (unaryremove_extend_cancel_sec S G nts K); assumption. Qed.

(* PART B.  Hypotheses: nn is injective and its image avoids s, the heads of G and the
   nonterminals in the bodies of G; s occurs in no body; f solves G and gives the empty
   string weight nullw.  (The null equations for nullw follow: null_equation.) *)
Theorem push_null_extend :
  forall (S : SR) (nullw : nat -> S) (nn : nat -> nat) (s : nat) (G : grammar S)
         (f : nat -> list nat -> S),
    (forall p q, nn p = nn q -> p = q) ->
    (forall X, s <> nn X) ->
    (forall r X, In r G -> rhead r <> nn X) ->
    (forall r X, In r G -> ~ In (N (nn X)) (rbody r)) ->
    (forall r, In r G -> ~ In (N s) (rbody r)) ->
    solves S G f ->
    (forall X, f X [] = nullw X) ->
    solves S (push_null_weights nullw nn s G) (pn_ext S nullw nn s G f) /\
    (forall xs, pn_ext S nullw nn s G f s xs = f s xs) /\
    (forall X xs, nullw X <> 0 -> X <> s ->
       pn_ext S nullw nn s G f (nn X) xs = match xs with [] => 0 | _ => f X xs end) /\
    (forall Z xs, Z <> s -> (forall X, Z <> nn X) -> nullw Z = 0 ->
       pn_ext S nullw nn s G f Z xs = f Z xs).
Proof.
  intros S nullw nn s G f Hinj Hs_nn Hhead_nn Hbody_nn Hbody_s Hsol Hf0.
  split; [apply push_null_extend_sec; assumption|].
  split; [intros xs; apply pn_ext_start|].
  split.
  - intros X xs Hn Hs. apply pn_ext_nn; assumption.
  - intros Z xs Hs Hnn H0. apply pn_ext_plain; assumption.
Qed.

Print Assumptions unaryremove_step.
Print Assumptions gstep_unary_split.
Print Assumptions unaryremove_expanded.
Print Assumptions unaryremove_restrict.
Print Assumptions unaryremove_extend_cancel.
Print Assumptions null_expansion_sum.
Print Assumptions null_equation.
Print Assumptions push_null_extend.
