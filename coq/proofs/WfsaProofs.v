(* Weighted automata: forward algorithm = declarative path sum = sum over explicit
   accepting paths; renaming, union and reversal preserve / transform the weight as
   expected; epsilon-aware fuel-bounded path sum coincides with the plain one on
   epsilon-free machines.  No axioms. *)
From Coq Require Import List Arith Bool Lia Permutation.
From GV.lib Require Import Semiring BigSum.
From GV.model Require Import Cfg Wfsa WfsaEps.
Import ListNotations.
Local Open Scope sr_scope.

Section WfsaProofs.
Variable S : SR.
Add Ring SRing : (sth S).

(* ------------------------------------------------------------------ *)
(* generic helpers                                                      *)

Lemma if_bsum {A} (c : bool) (l : list A) (f : A -> S) :
  (if c then bsum l f else 0) = bsum l (fun b => if c then f b else 0).
Proof. destruct c; [reflexivity|]. symmetry; apply bsum_zero; reflexivity. Qed.

Lemma eqb_inj (f : nat -> nat) (Hf : forall p q, f p = f q -> p = q) p q :
  Nat.eqb (f p) (f q) = Nat.eqb p q.
Proof.
  destruct (Nat.eqb p q) eqn:E.
  - apply Nat.eqb_eq in E; subst; apply Nat.eqb_refl.
  - apply Nat.eqb_neq in E. apply Nat.eqb_neq. intro H; apply E, Hf, H.
Qed.

(* ------------------------------------------------------------------ *)
(* 1. forward algorithm = path sum                                      *)

Definition dot (v : wvec S) (g : nat -> S) : S := bsum v (fun e => snd e * g (fst e)).

Lemma dot_fstep (m : wfsa S) (v : wvec S) (a : nat) (g : nat -> S) :
  dot (fstep m v a) g =
  dot v (fun q => bsum (warcs m) (fun ar =>
     if Nat.eqb (asrc ar) q && lbl_eqb (albl ar) a then awt ar * g (adst ar) else 0)).
Proof.
  unfold dot, fstep. rewrite bsum_flat_map.
  transitivity (bsum (warcs m) (fun ar => bsum v (fun e =>
      if Nat.eqb (asrc ar) (fst e) && lbl_eqb (albl ar) a
      then snd e * (awt ar * g (adst ar)) else 0))).
  - apply bsum_ext; intros ar _. destruct (lbl_eqb (albl ar) a).
    + rewrite bsum_cons, bsum_nil. cbn [fst snd]. unfold wget.
      transitivity (bsum v (fun e => if Nat.eqb (asrc ar) (fst e) then snd e else 0)
                    * (awt ar * g (adst ar))); [ring|].
      rewrite <- bsum_mul_r. apply bsum_ext; intros e _.
      rewrite andb_true_r. destruct (Nat.eqb (asrc ar) (fst e)); ring.
    + rewrite bsum_nil. symmetry. apply bsum_zero. intros e _.
      rewrite andb_false_r; reflexivity.
  - rewrite bsum_swap. apply bsum_ext; intros e _. rewrite <- bsum_mul_l.
    apply bsum_ext; intros ar _.
    destruct (Nat.eqb (asrc ar) (fst e) && lbl_eqb (albl ar) a); ring.
Qed.

Lemma dot_final (m : wfsa S) (v : wvec S) :
  bsum (wfinal m) (fun e => wget v (fst e) * snd e) = dot v (fun q => wget (wfinal m) q).
Proof.
  unfold dot, wget.
  transitivity (bsum (wfinal m) (fun f => bsum v (fun e =>
      if Nat.eqb (fst f) (fst e) then snd e * snd f else 0))).
  - apply bsum_ext; intros f _. rewrite <- bsum_mul_r. apply bsum_ext; intros e _.
    destruct (Nat.eqb (fst f) (fst e)); ring.
  - rewrite bsum_swap. apply bsum_ext; intros e _. rewrite <- bsum_mul_l.
    apply bsum_ext; intros f _. rewrite (Nat.eqb_sym (fst e) (fst f)).
    destruct (Nat.eqb (fst f) (fst e)); ring.
Qed.

Lemma forward_gen (m : wfsa S) (xs : list nat) : forall v : wvec S,
  bsum (wfinal m) (fun e => wget (fold_left (fstep m) xs v) (fst e) * snd e)
  = dot v (fun q => pw m q xs).
Proof.
  induction xs as [|a xs IH]; intros v.
  - cbn [fold_left]. apply dot_final.
  - cbn [fold_left]. rewrite IH, dot_fstep. reflexivity.
Qed.

Theorem forward_pathsum : forall (m : wfsa S) (xs : list nat), weight m xs = pathsum m xs.
Proof. intros m xs. unfold weight, fwd, pathsum. apply forward_gen. Qed.

(* ------------------------------------------------------------------ *)
(* 2. path sum = sum over explicit paths                                *)

Lemma pw_paths (m : wfsa S) (xs : list nat) : forall q,
  pw m q xs = bsum (paths_from m q xs) path_weight.
Proof.
  induction xs as [|a xs IH]; intros q.
  - cbn [pw paths_from]. rewrite bsum_map, bsum_filter. unfold wget.
    apply bsum_ext; intros f _. unfold path_weight; cbn [fst snd map sprod].
    destruct (Nat.eqb q (fst f)); ring.
  - cbn [pw paths_from]. rewrite bsum_flat_map. apply bsum_ext; intros ar _.
    destruct (Nat.eqb (asrc ar) q && lbl_eqb (albl ar) a).
    + rewrite bsum_map, IH, <- bsum_mul_l. apply bsum_ext; intros p _.
      unfold path_weight; cbn [fst snd map sprod]. ring.
    + rewrite bsum_nil; reflexivity.
Qed.

Theorem pathsum_paths : forall (m : wfsa S) (xs : list nat),
  pathsum m xs = bsum (apaths m xs) apath_weight.
Proof.
  intros m xs. unfold pathsum, apaths. rewrite bsum_flat_map.
  apply bsum_ext; intros i _. rewrite bsum_map, pw_paths, <- bsum_mul_l.
  apply bsum_ext; intros p _. unfold apath_weight; cbn [fst snd]. reflexivity.
Qed.

(* ------------------------------------------------------------------ *)
(* 3a. injective renaming                                               *)

Lemma pw_rename (f : nat -> nat) (Hf : forall p q, f p = f q -> p = q) (m : wfsa S) (xs : list nat) :
  forall q, pw (rename f m) (f q) xs = pw m q xs.
Proof.
  induction xs as [|a xs IH]; intros q.
  - cbn [pw]. unfold wget, rename; cbn [wfinal]. rewrite bsum_map.
    apply bsum_ext; intros e _. cbn [fst snd]. rewrite (eqb_inj f Hf). reflexivity.
  - cbn [pw]. unfold rename at 1; cbn [warcs]. rewrite bsum_map.
    apply bsum_ext; intros ar _. unfold asrc, albl, adst, awt; cbn [fst snd].
    rewrite (eqb_inj f Hf).
    change (snd (fst ar)) with (adst ar). rewrite IH. reflexivity.
Qed.

Lemma pathsum_rename (f : nat -> nat) (Hf : forall p q, f p = f q -> p = q) (m : wfsa S) xs :
  pathsum (rename f m) xs = pathsum m xs.
Proof.
  unfold pathsum. unfold rename at 1; cbn [winit]. rewrite bsum_map.
  apply bsum_ext; intros e _. cbn [fst snd]. rewrite (pw_rename f Hf). reflexivity.
Qed.

Theorem rename_weight : forall (f : nat -> nat) (m : wfsa S) xs,
  (forall p q, f p = f q -> p = q) -> weight (rename f m) xs = weight m xs.
Proof. intros f m xs Hf. rewrite !forward_pathsum. apply pathsum_rename, Hf. Qed.

(* ------------------------------------------------------------------ *)
(* 3. union                                                             *)

Lemma tagL_inj p q : tagL p = tagL q -> p = q.
Proof. unfold tagL; lia. Qed.
Lemma tagR_inj p q : tagR p = tagR q -> p = q.
Proof. unfold tagR; lia. Qed.
Lemma tagL_tagR p q : Nat.eqb (tagL p) (tagR q) = false.
Proof. apply Nat.eqb_neq. unfold tagL, tagR; lia. Qed.
Lemma tagR_tagL p q : Nat.eqb (tagR p) (tagL q) = false.
Proof. apply Nat.eqb_neq. unfold tagL, tagR; lia. Qed.

Lemma wunion_final (a b : wfsa S) :
  wfinal (wunion a b) = wfinal (rename tagL a) ++ wfinal (rename tagR b).
Proof. reflexivity. Qed.
Lemma wunion_arcs (a b : wfsa S) :
  warcs (wunion a b) = warcs (rename tagL a) ++ warcs (rename tagR b).
Proof. reflexivity. Qed.
Lemma wunion_init (a b : wfsa S) :
  winit (wunion a b) = winit (rename tagL a) ++ winit (rename tagR b).
Proof. reflexivity. Qed.

Lemma pw_union_L (a b : wfsa S) (xs : list nat) : forall q,
  pw (wunion a b) (tagL q) xs = pw a q xs.
Proof.
  induction xs as [|x xs IH]; intros q.
  - cbn [pw]. rewrite wunion_final. unfold wget. rewrite bsum_app.
    unfold rename; cbn [wfinal]. rewrite !bsum_map.
    rewrite (bsum_zero _ (wfinal b)).
    + transitivity (bsum (wfinal a) (fun e => if Nat.eqb q (fst e) then snd e else 0) + 0); [|ring].
      f_equal. apply bsum_ext; intros e _. cbn [fst snd].
      rewrite (eqb_inj tagL tagL_inj). reflexivity.
    + intros e _. cbn [fst snd]. rewrite tagL_tagR. reflexivity.
  - cbn [pw]. rewrite wunion_arcs, bsum_app.
    unfold rename at 1 2; cbn [warcs]. rewrite !bsum_map.
    rewrite (bsum_zero _ (warcs b)).
    + match goal with |- ?l + 0 = ?r => transitivity l; [ring|] end.
      apply bsum_ext; intros ar _. unfold asrc, albl, adst, awt; cbn [fst snd].
      rewrite (eqb_inj tagL tagL_inj).
      change (snd (fst ar)) with (adst ar). rewrite IH. reflexivity.
    + intros ar _. unfold asrc at 1; cbn [fst snd]. rewrite tagR_tagL. reflexivity.
Qed.

Lemma pw_union_R (a b : wfsa S) (xs : list nat) : forall q,
  pw (wunion a b) (tagR q) xs = pw b q xs.
Proof.
  induction xs as [|x xs IH]; intros q.
  - cbn [pw]. rewrite wunion_final. unfold wget. rewrite bsum_app.
    unfold rename; cbn [wfinal]. rewrite !bsum_map.
    rewrite (bsum_zero _ (wfinal a)).
    + transitivity (0 + bsum (wfinal b) (fun e => if Nat.eqb q (fst e) then snd e else 0)); [|ring].
      f_equal. apply bsum_ext; intros e _. cbn [fst snd].
      rewrite (eqb_inj tagR tagR_inj). reflexivity.
    + intros e _. cbn [fst snd]. rewrite tagR_tagL. reflexivity.
  - cbn [pw]. rewrite wunion_arcs, bsum_app.
    unfold rename at 1 2; cbn [warcs]. rewrite !bsum_map.
    rewrite (bsum_zero _ (warcs a)).
    + match goal with |- 0 + ?l = ?r => transitivity l; [ring|] end.
      apply bsum_ext; intros ar _. unfold asrc, albl, adst, awt; cbn [fst snd].
      rewrite (eqb_inj tagR tagR_inj).
      change (snd (fst ar)) with (adst ar). rewrite IH. reflexivity.
    + intros ar _. unfold asrc at 1; cbn [fst snd]. rewrite tagL_tagR. reflexivity.
Qed.

Lemma pathsum_union (a b : wfsa S) xs :
  pathsum (wunion a b) xs = pathsum a xs + pathsum b xs.
Proof.
  unfold pathsum. rewrite wunion_init, bsum_app.
  unfold rename at 1 2; cbn [winit]. rewrite !bsum_map. f_equal.
  - apply bsum_ext; intros e _. cbn [fst snd]. rewrite pw_union_L. reflexivity.
  - apply bsum_ext; intros e _. cbn [fst snd]. rewrite pw_union_R. reflexivity.
Qed.

Theorem union_weight : forall (a b : wfsa S) xs,
  weight (wunion a b) xs = weight a xs + weight b xs.
Proof. intros a b xs. rewrite !forward_pathsum. apply pathsum_union. Qed.

(* ------------------------------------------------------------------ *)
(* 5. epsilon-free machines: fuel-bounded epsilon-aware sum = plain sum *)

Lemma pwe_pw (m : wfsa S) (Hm : forall ar, In ar (warcs m) -> albl ar <> None) (xs : list nat) :
  forall fuel q, length xs <= fuel -> pwe m fuel q xs = pw m q xs.
Proof.
  induction xs as [|x xs IH]; intros fuel q Hlen.
  - destruct fuel as [|fuel]; cbn [pwe pw]; [ring|].
    rewrite bsum_zero; [ring|]. intros ar Har.
    destruct (Nat.eqb (asrc ar) q); [|reflexivity].
    destruct (albl ar) eqn:E; [reflexivity|]. exfalso; exact (Hm ar Har E).
  - destruct fuel as [|fuel]; [cbn [length] in Hlen; lia|].
    cbn [length] in Hlen. assert (Hlen' : length xs <= fuel) by lia.
    cbn [pwe pw].
    match goal with |- 0 + ?l = ?r => transitivity l; [ring|] end.
    apply bsum_ext; intros ar Har.
    destruct (Nat.eqb (asrc ar) q); cbn [andb]; [|reflexivity].
    destruct (albl ar) as [b|] eqn:E; [|exfalso; exact (Hm ar Har E)].
    cbn [lbl_eqb]. rewrite (Nat.eqb_sym x b).
    destruct (Nat.eqb b x); [|reflexivity].
    rewrite (IH fuel (adst ar) Hlen'). reflexivity.
Qed.

Theorem epsfree_pathsum_e : forall (m : wfsa S) xs fuel,
  (forall ar, In ar (warcs m) -> albl ar <> None) -> length xs <= fuel ->
  pathsum_e m fuel xs = pathsum m xs.
Proof.
  intros m xs fuel Hm Hlen. unfold pathsum_e, pathsum.
  apply bsum_ext; intros e _. rewrite (pwe_pw m Hm xs fuel (fst e) Hlen). reflexivity.
Qed.

(* ------------------------------------------------------------------ *)
(* 4. reversal                                                          *)

(* total weight of the arc sequences from p to q spelling xs *)
Fixpoint pth (m : wfsa S) (p : nat) (xs : list nat) (q : nat) : S :=
  match xs with
  | [] => if Nat.eqb p q then 1 else 0
  | a :: xs' => bsum (warcs m) (fun ar =>
      if Nat.eqb (asrc ar) p && lbl_eqb (albl ar) a then awt ar * pth m (adst ar) xs' q else 0)
  end.

Lemma pw_pth (m : wfsa S) (xs : list nat) : forall p,
  pw m p xs = bsum (wfinal m) (fun f => pth m p xs (fst f) * snd f).
Proof.
  induction xs as [|a xs IH]; intros p.
  - cbn [pw pth]. unfold wget. apply bsum_ext; intros f _.
    destruct (Nat.eqb p (fst f)); ring.
  - cbn [pw pth].
    transitivity (bsum (warcs m) (fun ar => bsum (wfinal m) (fun f =>
        if Nat.eqb (asrc ar) p && lbl_eqb (albl ar) a
        then awt ar * pth m (adst ar) xs (fst f) * snd f else 0))).
    + apply bsum_ext; intros ar _. rewrite <- if_bsum.
      destruct (Nat.eqb (asrc ar) p && lbl_eqb (albl ar) a); [|reflexivity].
      rewrite IH, <- bsum_mul_l. apply bsum_ext; intros f _. ring.
    + rewrite bsum_swap. apply bsum_ext; intros f _. rewrite <- bsum_mul_r.
      apply bsum_ext; intros ar _.
      destruct (Nat.eqb (asrc ar) p && lbl_eqb (albl ar) a); ring.
Qed.

Lemma pth_snoc (m : wfsa S) (a : nat) (q : nat) (xs : list nat) : forall p,
  pth m p (xs ++ [a]) q =
  bsum (warcs m) (fun ar =>
    if Nat.eqb (adst ar) q && lbl_eqb (albl ar) a then pth m p xs (asrc ar) * awt ar else 0).
Proof.
  induction xs as [|b xs IH]; intros p.
  - cbn [app pth]. apply bsum_ext; intros ar _.
    rewrite (Nat.eqb_sym p (asrc ar)).
    destruct (Nat.eqb (asrc ar) p), (lbl_eqb (albl ar) a), (Nat.eqb (adst ar) q);
      cbn [andb]; ring.
  - cbn [app]. cbn [pth].
    transitivity (bsum (warcs m) (fun ar => bsum (warcs m) (fun ar' =>
        if Nat.eqb (asrc ar) p && lbl_eqb (albl ar) b then
          if Nat.eqb (adst ar') q && lbl_eqb (albl ar') a
          then awt ar * pth m (adst ar) xs (asrc ar') * awt ar' else 0
        else 0))).
    + apply bsum_ext; intros ar _. rewrite <- if_bsum.
      destruct (Nat.eqb (asrc ar) p && lbl_eqb (albl ar) b); [|reflexivity].
      rewrite IH, <- bsum_mul_l. apply bsum_ext; intros ar' _.
      destruct (Nat.eqb (adst ar') q && lbl_eqb (albl ar') a); ring.
    + rewrite bsum_swap. apply bsum_ext; intros ar' _.
      destruct (Nat.eqb (adst ar') q && lbl_eqb (albl ar') a).
      * rewrite <- bsum_mul_r. apply bsum_ext; intros ar _.
        destruct (Nat.eqb (asrc ar) p && lbl_eqb (albl ar) b); ring.
      * apply bsum_zero; intros ar _.
        destruct (Nat.eqb (asrc ar) p && lbl_eqb (albl ar) b); reflexivity.
Qed.

Lemma pth_reverse (m : wfsa S) (q : nat) (xs : list nat) : forall p,
  pth (wreverse m) q (rev xs) p = pth m p xs q.
Proof.
  induction xs as [|a xs IH]; intros p.
  - cbn [rev pth]. rewrite (Nat.eqb_sym q p). reflexivity.
  - cbn [rev]. rewrite pth_snoc. cbn [pth].
    unfold wreverse at 1; cbn [warcs]. rewrite bsum_map.
    apply bsum_ext; intros ar _. unfold asrc, albl, adst, awt; cbn [fst snd].
    change (snd (fst ar)) with (adst ar). change (fst (fst (fst ar))) with (asrc ar).
    rewrite IH.
    change (snd (fst (fst ar))) with (albl ar).
    destruct (Nat.eqb (asrc ar) p && lbl_eqb (albl ar) a); ring.
Qed.

Theorem reverse_weight : forall (m : wfsa S) xs, weight (wreverse m) xs = weight m (rev xs).
Proof.
  intros m xs. rewrite !forward_pathsum. unfold pathsum.
  change (winit (wreverse m)) with (wfinal m).
  transitivity (bsum (wfinal m) (fun f => bsum (winit m) (fun i =>
      snd i * pth m (fst i) (rev xs) (fst f) * snd f))).
  - apply bsum_ext; intros f _. rewrite pw_pth.
    change (wfinal (wreverse m)) with (winit m). rewrite <- bsum_mul_l.
    apply bsum_ext; intros i _.
    rewrite <- (rev_involutive xs) at 1. rewrite pth_reverse. ring.
  - rewrite bsum_swap. apply bsum_ext; intros i _. rewrite pw_pth, <- bsum_mul_l.
    apply bsum_ext; intros f _. ring.
Qed.

End WfsaProofs.

Print Assumptions forward_pathsum.
Print Assumptions pathsum_paths.
Print Assumptions rename_weight.
Print Assumptions union_weight.
Print Assumptions reverse_weight.
Print Assumptions epsfree_pathsum_e.
