(* Structural postconditions of the name-inventing grammar transformations of
   model/Transform2.v (binarize, separate_terminals, push_null_weights, unaryremove) and of
   separate_start, for EVERY input grammar, and the shape of the Chomsky-normal-form
   pipeline
     cnf = separate_terminals -> binarize -> separate_start -> push_null_weights
           -> (trim) -> unaryremove -> (trim)
   where the trims only drop rules.  No axioms. *)
From Coq Require Import List Arith Bool Lia Relations.
From GV.lib Require Import Semiring BigSum.
From GV.model Require Import Cfg Transform Cky Transform2 Useful.
From GV.proofs Require Import TrimProofs.
Import ListNotations.
Local Open Scope sr_scope.

Section ShapeProofs.
Variable S : SR.
Add Ring SRingShape : (sth S).

(* a body is a single terminal or contains no terminal *)
Definition tfu (b : list sym) : Prop := (exists a, b = [T a]) \/ (forall a, ~ In (T a) b).

(* ================= 1. binarize ================= *)

Lemma bin_body_arity : forall fuel fresh (w : S) head body,
  length body <= fuel + 2 ->
  forall r, In r (fst (bin_body fuel fresh w head body)) -> length (rbody r) <= 2.
Proof.
  induction fuel as [|f IH]; intros fresh w head body Hlen r Hr.
  - simpl in Hr. destruct Hr as [Hr|[]]. subst r. unfold rbody; simpl. lia.
  - simpl in Hr.
    destruct body as [|y1 [|y2 [|y3 rest]]];
      try (destruct Hr as [Hr|[]]; subst r; unfold rbody; simpl; lia).
    destruct (bin_body f (Datatypes.S fresh) w head (N fresh :: y3 :: rest)) as [rs fr] eqn:E.
    simpl in Hr. destruct Hr as [Hr|Hr].
    + subst r. unfold rbody; simpl. lia.
    + apply (IH (Datatypes.S fresh) w head (N fresh :: y3 :: rest)).
      * simpl in *. lia.
      * rewrite E. exact Hr.
Qed.

(* every emitted body is the input body, or comes from a body of length >= 3 and contains
   no terminal that the input body does not contain *)
Lemma bin_body_terms : forall fuel fresh (w : S) head body r,
  In r (fst (bin_body fuel fresh w head body)) ->
  rbody r = body \/ (3 <= length body /\ forall a, In (T a) (rbody r) -> In (T a) body).
Proof.
  induction fuel as [|f IH]; intros fresh w head body r Hr.
  - simpl in Hr. destruct Hr as [Hr|[]]. subst r. left; reflexivity.
  - simpl in Hr.
    destruct body as [|y1 [|y2 [|y3 rest]]];
      try (destruct Hr as [Hr|[]]; subst r; left; reflexivity).
    destruct (bin_body f (Datatypes.S fresh) w head (N fresh :: y3 :: rest)) as [rs fr] eqn:E.
    simpl in Hr. right. split; [simpl; lia|].
    destruct Hr as [Hr|Hr].
    + subst r. unfold rbody; simpl. intros a [H|[H|[]]]; [left|right; left]; assumption.
    + assert (Hr' : In r (fst (bin_body f (Datatypes.S fresh) w head (N fresh :: y3 :: rest))))
        by (rewrite E; exact Hr).
      destruct (IH _ _ _ _ _ Hr') as [Hb|[_ Hb]]; intros a Ha.
      * rewrite Hb in Ha. destruct Ha as [Ha|Ha]; [discriminate|]. right; right; exact Ha.
      * specialize (Hb a Ha). destruct Hb as [Hb|Hb]; [discriminate|]. right; right; exact Hb.
Qed.

Definition bstep (acc : (grammar S * nat)%type) (r : rule S) : (grammar S * nat)%type :=
  let (out, fr) := acc in
  let (rs, fr') := bin_body (length (rbody r)) fr (rw r) (rhead r) (rbody r) in
  (out ++ rs, fr').

Lemma binarize_from_fold fresh (G : grammar S) : binarize_from fresh G = fold_left bstep G ([], fresh).
Proof. reflexivity. Qed.

Lemma bstep_eq out fr (r : rule S) :
  bstep (out, fr) r = (out ++ fst (bin_body (length (rbody r)) fr (rw r) (rhead r) (rbody r)),
                       snd (bin_body (length (rbody r)) fr (rw r) (rhead r) (rbody r))).
Proof. unfold bstep. destruct (bin_body _ _ _ _ _); reflexivity. Qed.

Lemma fold_bstep_in : forall (G : grammar S) out fr r,
  In r (fst (fold_left bstep G (out, fr))) ->
  In r out \/ exists r0 fr0, In r0 G /\
     In r (fst (bin_body (length (rbody r0)) fr0 (rw r0) (rhead r0) (rbody r0))).
Proof.
  induction G as [|r1 t IH]; intros out fr r Hr.
  - left; exact Hr.
  - change (In r (fst (fold_left bstep t (bstep (out, fr) r1)))) in Hr.
    rewrite bstep_eq in Hr. apply IH in Hr. destruct Hr as [Hr|[r0 [fr0 [H0 Hr]]]].
    + apply in_app_or in Hr. destruct Hr as [Hr|Hr]; [left; exact Hr|].
      right. exists r1, fr. split; [left; reflexivity|exact Hr].
    + right. exists r0, fr0. split; [right; exact H0|exact Hr].
Qed.

Lemma binarize_in : forall fresh (G : grammar S) r, In r (binarize fresh G) ->
  exists r0 fr0, In r0 G /\
     In r (fst (bin_body (length (rbody r0)) fr0 (rw r0) (rhead r0) (rbody r0))).
Proof.
  intros fresh G r Hr. unfold binarize in Hr. rewrite binarize_from_fold in Hr.
  apply fold_bstep_in in Hr. destruct Hr as [[]|Hr]. exact Hr.
Qed.

Theorem binarize_arity : forall (fresh : nat) (G : grammar S), arity_le2 (binarize fresh G) = true.
Proof.
  intros fresh G. apply arity_le2_spec. intros r Hr.
  destruct (binarize_in fresh G r Hr) as [r0 [fr0 [_ Hin]]].
  apply (bin_body_arity _ _ _ _ _ (Nat.le_add_r _ 2) r Hin).
Qed.

Lemma binarize_tfu : forall fresh (G : grammar S),
  (forall r, In r G -> tfu (rbody r)) -> forall r, In r (binarize fresh G) -> tfu (rbody r).
Proof.
  intros fresh G HG r Hr.
  destruct (binarize_in fresh G r Hr) as [r0 [fr0 [H0 Hin]]].
  destruct (bin_body_terms _ _ _ _ _ _ Hin) as [E|[Hlen Hsub]].
  - rewrite E. apply HG; exact H0.
  - destruct (HG r0 H0) as [[a Ea]|Hn].
    + rewrite Ea in Hlen. simpl in Hlen. lia.
    + right. intros a Ha. apply (Hn a). apply Hsub; exact Ha.
Qed.

(* ================= 2. separate_terminals ================= *)

Lemma sep_no_T (pt : nat -> nat) (b : list sym) a : ~ In (T a) (map (sep_sym pt) b).
Proof.
  intros H. apply in_map_iff in H. destruct H as [[c|x] [E _]]; simpl in E; discriminate.
Qed.

Lemma separate_terminals_tfu : forall (pt : nat -> nat) (G : grammar S) r,
  In r (separate_terminals pt G) -> tfu (rbody r).
Proof.
  intros pt G r Hr. unfold separate_terminals in Hr. apply in_app_or in Hr.
  destruct Hr as [Hr|Hr]; apply in_map_iff in Hr.
  - destruct Hr as [a [E _]]. subst r. left. exists a. reflexivity.
  - destruct Hr as [r0 [E _]].
    destruct (rbody r0) as [|[a|x] [|s t]] eqn:Eb; subst r;
      try (right; intros c; apply (sep_no_T pt _ c)).
    left. exists a. exact Eb.
Qed.

Theorem separate_terminals_shape : forall (pt : nat -> nat) (G : grammar S),
  terminals_separated (separate_terminals pt G) = true.
Proof.
  intros pt G. apply terminals_separated_spec. intros r Hr.
  exact (separate_terminals_tfu pt G r Hr).
Qed.

(* ================= 3. push_null_weights ================= *)

Lemma null_exp_sub (nullw : nat -> S) nn s : forall b e,
  In e (null_expansions nullw nn s b) ->
  length (snd e) <= length b /\
  forall y, In y (snd e) -> exists y0, In y0 b /\ y = nn_sym nullw nn s y0.
Proof.
  induction b as [|y0 rest IH]; intros e He; simpl in He.
  - destruct He as [He|[]]. subst e. simpl. split; [lia|intros y []].
  - apply in_app_or in He. destruct He as [He|He]; apply in_map_iff in He;
      destruct He as [e0 [E He0]]; subst e; destruct (IH e0 He0) as [Hl Hs]; simpl.
    + split; [lia|]. intros y [Hy|Hy].
      * exists y0. split; [left; reflexivity|symmetry; exact Hy].
      * destruct (Hs y Hy) as [y1 [H1 E1]]. exists y1. split; [right; exact H1|exact E1].
    + split; [lia|]. intros y Hy.
      destruct (Hs y Hy) as [y1 [H1 E1]]. exists y1. split; [right; exact H1|exact E1].
Qed.

Lemma push_null_in : forall (nullw : nat -> S) nn s (G : grammar S) r,
  In r (push_null_weights nullw nn s G) ->
  (rbody r = [] /\ rhead r = s) \/
  (exists r0 e, In r0 G /\ In e (null_expansions nullw nn s (rbody r0)) /\
                rbody r = snd e /\ snd e <> []).
Proof.
  intros nullw nn s G r Hr. unfold push_null_weights in Hr. apply in_app_or in Hr.
  destruct Hr as [Hr|Hr].
  - left. destruct (seqb (nullw s) 0); [destruct Hr|].
    destruct Hr as [Hr|[]]. subst r. split; reflexivity.
  - right. apply in_flat_map in Hr. destruct Hr as [r0 [H0 Hr]].
    exists r0.
    assert (Hr' : In r (flat_map (fun e : S * list sym => match snd e with
                    | [] => []
                    | y :: l => if seqb (rw r0 * fst e) 0 then []
                                else [(rw r0 * fst e, nn_name nullw nn s (rhead r0), y :: l)]
                    end) (null_expansions nullw nn s (rbody r0)))).
    { destruct (rbody r0) as [|y0 b0]; [destruct Hr|]. exact Hr. }
    clear Hr. apply in_flat_map in Hr'. destruct Hr' as [e [He Hr]].
    exists e. split; [exact H0|]. split; [exact He|].
    destruct (snd e) as [|y1 nb] eqn:Ee; [destruct Hr|].
    destruct (seqb (rw r0 * fst e) 0); [destruct Hr|].
    destruct Hr as [Hr|[]]. subst r. split; [reflexivity|discriminate].
Qed.

Theorem push_null_no_nullary : forall nullw nn s (G : grammar S),
  no_nullary_except s (push_null_weights nullw nn s G) = true.
Proof.
  intros nullw nn s G. apply no_nullary_except_spec. intros r Hr Eb.
  destruct (push_null_in nullw nn s G r Hr) as [[_ H]|[r0 [e [_ [_ [E Hne]]]]]]; [exact H|].
  exfalso. apply Hne. rewrite <- E. exact Eb.
Qed.

(* ================= 4. unaryremove ================= *)

Lemma unaryremove_in : forall (K : nat -> nat -> S) nts (G : grammar S) r,
  In r (unaryremove K nts G) ->
  exists r0 Y, In r0 G /\ is_unary r0 = false /\ In Y nts /\
               seqb (K Y (rhead r0) * rw r0) 0 = false /\
               r = (K Y (rhead r0) * rw r0, Y, rbody r0).
Proof.
  intros K nts G r Hr. unfold unaryremove in Hr. apply in_flat_map in Hr.
  destruct Hr as [r0 [H0 Hr]]. destruct (is_unary r0) eqn:Eu; [destruct Hr|].
  apply in_flat_map in Hr. destruct Hr as [Y [HY Hr]].
  destruct (seqb (K Y (rhead r0) * rw r0) 0) eqn:Ez; [destruct Hr|].
  destruct Hr as [Hr|[]]. exists r0, Y. repeat split; try assumption. symmetry; exact Hr.
Qed.

Theorem unaryremove_no_unary : forall K nts (G : grammar S), no_unary (unaryremove K nts G) = true.
Proof.
  intros K nts G. apply no_unary_spec. intros r y Hr E.
  destruct (unaryremove_in K nts G r Hr) as [r0 [Y [_ [Hu [_ [_ Er]]]]]].
  subst r. unfold rbody in E; simpl in E. unfold is_unary in Hu. unfold rbody in Hu.
  rewrite E in Hu. discriminate.
Qed.

(* ================= 5. separate_start ================= *)

Lemma separate_start_in : forall (s' s : nat) (G : grammar S) r,
  In r (snd (separate_start s' s G)) -> r = (1, s', [N s]) \/ In r G.
Proof.
  intros s' s G r. unfold separate_start. destruct (on_rhs s G); simpl.
  - intros [H|H]; [left; symmetry; exact H|right; exact H].
  - intros H; right; exact H.
Qed.

Theorem separate_start_shape : forall (s' s : nat) (G : grammar S),
  (forall r, In r G -> ~ In (N s') (rbody r)) -> s' <> s ->
  start_not_on_rhs (fst (separate_start s' s G)) (snd (separate_start s' s G)) = true.
Proof.
  intros s' s G Hfresh Hne. unfold separate_start. destruct (on_rhs s G) eqn:E; simpl.
  - apply start_not_on_rhs_spec. intros r [Hr|Hr].
    + subst r. unfold rbody; simpl. intros [H|[]]. injection H as H. apply Hne. symmetry; exact H.
    + apply Hfresh; exact Hr.
  - unfold start_not_on_rhs. rewrite E. reflexivity.
Qed.

(* ================= 6. the CNF pipeline ================= *)

(* shape after push_null_weights: the only nullary rule is at the start symbol; the other
   bodies have length 1 or 2, are a single terminal or terminal-free, and do not mention
   the start symbol *)
Definition pre_cnf (s : nat) (G : grammar S) : Prop :=
  forall r, In r G ->
    (rbody r = [] /\ rhead r = s) \/
    (rbody r <> [] /\ length (rbody r) <= 2 /\ tfu (rbody r) /\
     forall y, In (N y) (rbody r) -> y <> s).

Lemma pre_cnf_incl : forall s (G G' : grammar S), incl G' G -> pre_cnf s G -> pre_cnf s G'.
Proof. intros s G G' Hi H r Hr. apply H. apply Hi; exact Hr. Qed.

Lemma separate_start_tfu : forall (s' s : nat) (G : grammar S),
  (forall r, In r G -> tfu (rbody r)) ->
  forall r, In r (snd (separate_start s' s G)) -> tfu (rbody r).
Proof.
  intros s' s G HG r Hr. destruct (separate_start_in s' s G r Hr) as [E|Hin].
  - subst r. right. unfold rbody; simpl. intros a [H|[]]. discriminate.
  - apply HG; exact Hin.
Qed.

Lemma separate_start_le2 : forall (s' s : nat) (G : grammar S),
  (forall r, In r G -> length (rbody r) <= 2) ->
  forall r, In r (snd (separate_start s' s G)) -> length (rbody r) <= 2.
Proof.
  intros s' s G HG r Hr. destruct (separate_start_in s' s G r Hr) as [E|Hin].
  - subst r. unfold rbody; simpl. lia.
  - apply HG; exact Hin.
Qed.

Lemma push_null_pre_cnf : forall (nullw : nat -> S) nn s (G : grammar S),
  (forall r, In r G -> tfu (rbody r)) ->
  (forall r, In r G -> length (rbody r) <= 2) ->
  (forall r, In r G -> ~ In (N s) (rbody r)) ->
  (forall x, nn x <> s) ->
  pre_cnf s (push_null_weights nullw nn s G).
Proof.
  intros nullw nn s G Htfu Hle Hrhs Hnn r Hr.
  destruct (push_null_in nullw nn s G r Hr) as [H|[r0 [e [H0 [He [Eb Hne]]]]]]; [left; exact H|].
  right. destruct (null_exp_sub nullw nn s (rbody r0) e He) as [Hlen Hsub].
  rewrite Eb. split; [exact Hne|]. split; [specialize (Hle r0 H0); lia|]. split.
  - destruct (Htfu r0 H0) as [[a Ea]|Hn].
    + left. exists a. rewrite Ea in Hlen, Hsub. simpl in Hlen.
      destruct (snd e) as [|y1 [|y2 t]]; [exfalso; apply Hne; reflexivity| |simpl in Hlen; lia].
      destruct (Hsub y1 (or_introl eq_refl)) as [y0 [[Hy0|[]] E]]. subst y0. simpl in E. rewrite E.
      reflexivity.
    + right. intros a Ha. destruct (Hsub (T a) Ha) as [y0 [Hy0 E]].
      destruct y0 as [c|x]; simpl in E; [|discriminate].
      injection E as E. subst c. apply (Hn a Hy0).
  - intros y Hy. destruct (Hsub (N y) Hy) as [y0 [Hy0 E]].
    destruct y0 as [c|x]; simpl in E; [discriminate|]. injection E as E. subst y.
    unfold nn_name. destruct (seqb (nullw x) 0 || Nat.eqb x s) eqn:Ec.
    + intros Ex. subst x. apply (Hrhs r0 H0 Hy0).
    + apply Hnn.
Qed.

Lemma unaryremove_cnf : forall (K : nat -> nat -> S) nts s (G : grammar S),
  pre_cnf s G -> (forall Y, Y <> s -> K Y s = 0) ->
  in_cnf s (unaryremove K nts G) = true.
Proof.
  intros K nts s G Hpre HK. unfold in_cnf. apply forallb_forall. intros r Hr.
  destruct (unaryremove_in K nts G r Hr) as [r0 [Y [H0 [Hu [_ [Hz Er]]]]]].
  subst r. unfold cnf_rule. unfold rbody at 1, rhead at 1. simpl.
  unfold is_unary in Hu.
  destruct (Hpre r0 H0) as [[Eb Eh]|[Hne [Hlen [Ht Hs]]]].
  - rewrite Eb. apply Nat.eqb_eq. destruct (Nat.eq_dec Y s) as [E|E]; [exact E|exfalso].
    rewrite Eh, (HK Y E) in Hz.
    assert (Ez : 0 * rw r0 = 0) by ring. rewrite Ez in Hz.
    assert (Ht' : seqb (0 : S) 0 = true) by (apply seqb_spec; reflexivity).
    congruence.
  - destruct (rbody r0) as [|y1 [|y2 [|y3 t]]].
    + exfalso; apply Hne; reflexivity.
    + destruct y1 as [a|x]; [reflexivity|discriminate].
    + destruct Ht as [[a Ea]|Hn]; [discriminate|].
      destruct y1 as [a|y]; [exfalso; apply (Hn a); left; reflexivity|].
      destruct y2 as [a|z]; [exfalso; apply (Hn a); right; left; reflexivity|].
      assert (Hy : y <> s) by (apply Hs; left; reflexivity).
      assert (Hzz : z <> s) by (apply Hs; right; left; reflexivity).
      apply Nat.eqb_neq in Hy. apply Nat.eqb_neq in Hzz. rewrite Hy, Hzz. reflexivity.
    + simpl in Hlen. lia.
Qed.

(* dropping rules preserves CNF *)
Lemma in_cnf_incl : forall s (G' G'' : grammar S),
  incl G'' G' -> in_cnf s G' = true -> in_cnf s G'' = true.
Proof.
  intros s G' G'' Hi H. unfold in_cnf in *. rewrite forallb_forall in *.
  intros r Hr. apply H. apply Hi; exact Hr.
Qed.

(* the grammar after the first four stages *)
Lemma cnf_pipeline_pre : forall (G : grammar S) (pt : nat -> nat) (fresh s' s : nat)
    (nullw : nat -> S) (nn : nat -> nat),
  let G1 := separate_terminals pt G in
  let G2 := binarize fresh G1 in
  let s2 := fst (separate_start s' s G2) in
  let G3 := snd (separate_start s' s G2) in
  let G4 := push_null_weights nullw nn s2 G3 in
  (forall r, In r G2 -> ~ In (N s') (rbody r)) -> s' <> s ->
  (forall x, nn x <> s2) ->
  pre_cnf s2 G4.
Proof.
  intros G pt fresh s' s nullw nn G1 G2 s2 G3 G4 Hfresh Hne Hnn.
  apply push_null_pre_cnf.
  - apply separate_start_tfu. apply binarize_tfu. apply separate_terminals_tfu.
  - apply separate_start_le2. apply arity_le2_spec. apply binarize_arity.
  - apply start_not_on_rhs_spec. apply separate_start_shape; assumption.
  - exact Hnn.
Qed.

(* simpler packaging: unaryremove of any sub-grammar of G4 is in CNF *)
Theorem cnf_pipeline_sub : forall (G : grammar S) (pt : nat -> nat) (fresh s' s : nat)
    (nullw : nat -> S) (nn : nat -> nat) (K : nat -> nat -> S) (nts : list nat) (G4' : grammar S),
  let G1 := separate_terminals pt G in
  let G2 := binarize fresh G1 in
  let s2 := fst (separate_start s' s G2) in
  let G3 := snd (separate_start s' s G2) in
  let G4 := push_null_weights nullw nn s2 G3 in
  (forall r, In r G2 -> ~ In (N s') (rbody r)) -> s' <> s ->
  (forall x, nn x <> s2) ->
  (forall Y, Y <> s2 -> K Y s2 = 0) ->
  incl G4' G4 ->
  in_cnf s2 (unaryremove K nts G4') = true.
Proof.
  intros G pt fresh s' s nullw nn K nts G4' G1 G2 s2 G3 G4 Hfresh Hne Hnn HK Hincl.
  apply unaryremove_cnf; [|exact HK].
  apply (pre_cnf_incl s2 G4 G4' Hincl).
  apply cnf_pipeline_pre; assumption.
Qed.

(* the requested packaging *)
Theorem cnf_pipeline_shape : forall (G : grammar S) (pt : nat -> nat) (fresh s' s : nat)
    (nullw : nat -> S) (nn : nat -> nat) (K : nat -> nat -> S) (nts : list nat) (G5 : grammar S),
  let G1 := separate_terminals pt G in
  let G2 := binarize fresh G1 in
  let s2 := fst (separate_start s' s G2) in
  let G3 := snd (separate_start s' s G2) in
  let G4 := push_null_weights nullw nn s2 G3 in
  (forall r, In r G2 -> ~ In (N s') (rbody r)) -> s' <> s ->
  (forall x, nn x <> s2) ->
  (forall Y, Y <> s2 -> K Y s2 = 0) ->
  (forall r, In r G5 -> exists G4', (forall r', In r' G4' -> In r' G4) /\ In r (unaryremove K nts G4')) ->
  in_cnf s2 G5 = true.
Proof.
  intros G pt fresh s' s nullw nn K nts G5 G1 G2 s2 G3 G4 Hfresh Hne Hnn HK H5.
  unfold in_cnf. apply forallb_forall. intros r Hr.
  destruct (H5 r Hr) as [G4' [Hsub Hin]].
  assert (Hc : in_cnf s2 (unaryremove K nts G4') = true).
  { apply (cnf_pipeline_sub G pt fresh s' s nullw nn K nts G4'); assumption. }
  unfold in_cnf in Hc. rewrite forallb_forall in Hc. apply Hc; exact Hin.
Qed.

End ShapeProofs.

Print Assumptions binarize_arity.
Print Assumptions separate_terminals_shape.
Print Assumptions push_null_no_nullary.
Print Assumptions unaryremove_no_unary.
Print Assumptions separate_start_shape.
Print Assumptions in_cnf_incl.
Print Assumptions cnf_pipeline_sub.
Print Assumptions cnf_pipeline_shape.
