(* The product construction [compose_nf] (FST._pruned_compose without pruning)
   computes relational composition: when the left machine never writes epsilon
   and the right machine never reads epsilon, the product relates x to z with
   weight  sum over the middle strings y of  a(x,y) * b(y,z). *)
From Coq Require Import List Arith Bool Lia.
From GV.lib Require Import Semiring BigSum.
From GV.model Require Import Fst.
Import ListNotations.
Local Open Scope sr_scope.

(* all words over V of length exactly n / at most n *)
Fixpoint words_eq (V : list nat) (n : nat) : list (list nat) :=
  match n with
  | O => [[]]
  | Datatypes.S n' => flat_map (fun a => map (cons a) (words_eq V n')) V
  end.
Fixpoint words_le (V : list nat) (n : nat) : list (list nat) :=
  match n with
  | O => [[]]
  | Datatypes.S n' => words_le V n' ++ words_eq V (Datatypes.S n')
  end.

(* ---------- pair encoding ---------- *)

Lemma penc_inj (M p q p' q' : nat) :
  q < M -> q' < M -> penc M p q = penc M p' q' -> p = p' /\ q = q'.
Proof.
  unfold penc. intros Hq Hq' E.
  assert (Hp : p = p') by nia.
  subst p'. split; [reflexivity|lia].
Qed.

Section Product.
Variable S : SR.
Add Ring SRing : (sth S).

(* ---------- sums over words ---------- *)

Lemma bsum_words_eq_S (V : list nat) (n : nat) (g : list nat -> S) :
  bsum (words_eq V (Datatypes.S n)) g =
  bsum V (fun c => bsum (words_eq V n) (fun w => g (c :: w))).
Proof.
  change (words_eq V (Datatypes.S n)) with (flat_map (fun a => map (cons a) (words_eq V n)) V).
  rewrite bsum_flat_map. apply bsum_ext; intros c _. apply bsum_map.
Qed.

Lemma bsum_words_le_S (V : list nat) (n : nat) (g : list nat -> S) :
  bsum (words_le V (Datatypes.S n)) g =
  g [] + bsum V (fun c => bsum (words_le V n) (fun w => g (c :: w))).
Proof.
  induction n as [|n IH].
  - change (words_le V 1) with ([[]] ++ words_eq V 1).
    rewrite bsum_app, bsum_words_eq_S.
    change (words_le V O) with [@nil nat]. change (words_eq V O) with [@nil nat].
    rewrite bsum_cons, bsum_nil. ring.
  - change (words_le V (Datatypes.S (Datatypes.S n)))
      with (words_le V (Datatypes.S n) ++ words_eq V (Datatypes.S (Datatypes.S n))).
    rewrite bsum_app, IH, bsum_words_eq_S.
    change (words_le V (Datatypes.S n)) with (words_le V n ++ words_eq V (Datatypes.S n)).
    rewrite (bsum_ext S V
               (fun c => bsum (words_le V n ++ words_eq V (Datatypes.S n)) (fun w => g (c :: w)))
               (fun c => bsum (words_le V n) (fun w => g (c :: w)) +
                         bsum (words_eq V (Datatypes.S n)) (fun w => g (c :: w))))
      by (intros c _; apply bsum_app).
    rewrite bsum_add. ring.
Qed.

Lemma bsum_single (V : list nat) (cx : nat) (g : nat -> S) :
  NoDup V -> In cx V -> (forall c, c <> cx -> g c = 0) -> bsum V g = g cx.
Proof.
  induction 1 as [|a t Hn Hd IH]; intros Hin Hz; [destruct Hin|].
  rewrite bsum_cons. destruct Hin as [->|Hin].
  - rewrite (bsum_zero S t g); [ring|]. intros c Hc. apply Hz. intros ->. contradiction.
  - rewrite IH by assumption. rewrite (Hz a); [ring|]. intros ->. contradiction.
Qed.

Lemma bsum_swap3 {A B C} (la : list A) (lb : list B) (lc : list C) (f : A -> B -> C -> S) :
  bsum la (fun a => bsum lb (fun b => bsum lc (fun c => f a b c))) =
  bsum lc (fun c => bsum la (fun a => bsum lb (fun b => f a b c))).
Proof.
  transitivity (bsum la (fun a => bsum lc (fun c => bsum lb (fun b => f a b c)))).
  - apply bsum_ext; intros a _. apply (bsum_swap S lb lc (fun b c => f a b c)).
  - apply (bsum_swap S la lc (fun a c => bsum lb (fun b => f a b c))).
Qed.

Lemma bsum_swap4 {A B C D} (la : list A) (lb : list B) (lc : list C) (ld : list D)
      (f : A -> B -> C -> D -> S) :
  bsum la (fun a => bsum lb (fun b => bsum lc (fun c => bsum ld (fun d => f a b c d)))) =
  bsum lc (fun c => bsum ld (fun d => bsum la (fun a => bsum lb (fun b => f a b c d)))).
Proof.
  rewrite (bsum_swap3 la lb lc (fun a b c => bsum ld (fun d => f a b c d))).
  apply bsum_ext; intros c _.
  apply (bsum_swap3 la lb ld (fun a b d => f a b c d)).
Qed.

(* ---------- final / initial weights of the product ---------- *)

Lemma fget_pair (M : nat) (u v : list (nat * S)) (p q : nat) :
  q < M -> (forall j, In j v -> fst j < M) ->
  fget (flat_map (fun i => map (fun j => (penc M (fst i) (fst j), snd i * snd j)) v) u) (penc M p q)
  = fget u p * fget v q.
Proof.
  intros Hq Hv. unfold fget. rewrite bsum_flat_map, bsum_bsum_mul.
  apply bsum_ext; intros i _. rewrite bsum_map. apply bsum_ext; intros j Hj. cbn [fst snd].
  destruct (Nat.eqb_spec (penc M p q) (penc M (fst i) (fst j))) as [E|E].
  - apply penc_inj in E; [|assumption|apply Hv; assumption]. destruct E as [E1 E2].
    rewrite E1, E2, !Nat.eqb_refl. reflexivity.
  - destruct (Nat.eqb_spec p (fst i)) as [E1|E1]; destruct (Nat.eqb_spec q (fst j)) as [E2|E2];
      try ring.
    exfalso; apply E; congruence.
Qed.

(* ---------- one step of trelf ---------- *)

Definition arcterm (m : fst_t S) (f : nat) (q : nat) (xs ys : list nat) (x : tarc S) : S :=
  if Nat.eqb (tsrc x) q then
    match eat (tin x) xs, eat (tout x) ys with
    | Some xs', Some ys' => twt x * trelf m f (tdst x) xs' ys'
    | _, _ => 0
    end
  else 0.

Lemma trelf_O (m : fst_t S) q xs ys :
  trelf m O q xs ys = (match xs, ys with [], [] => fget (tfinal m) q | _, _ => 0 end) + 0.
Proof. reflexivity. Qed.

Lemma trelf_S (m : fst_t S) f q xs ys :
  trelf m (Datatypes.S f) q xs ys =
  (match xs, ys with [], [] => fget (tfinal m) q | _, _ => 0 end) +
  bsum (tarcs m) (arcterm m f q xs ys).
Proof. reflexivity. Qed.

Lemma trelf_S_cons_r (m : fst_t S) f q xs c ys :
  trelf m (Datatypes.S f) q xs (c :: ys) = bsum (tarcs m) (arcterm m f q xs (c :: ys)).
Proof. rewrite trelf_S. destruct xs; cbv beta iota; ring. Qed.

Lemma trelf_S_cons_l (m : fst_t S) f q c xs ys :
  trelf m (Datatypes.S f) q (c :: xs) ys = bsum (tarcs m) (arcterm m f q (c :: xs) ys).
Proof. rewrite trelf_S. cbv beta iota. ring. Qed.

Lemma eat_some_cons c d (w : list nat) :
  eat (Some c) (d :: w) = if Nat.eqb c d then Some w else None.
Proof. reflexivity. Qed.

Lemma eat_some_nil c : eat (Some c) [] = None.
Proof. reflexivity. Qed.

Lemma arcterm_mk (m : fst_t S) f q xs ys s i o d (w : S) :
  arcterm m f q xs ys (s, i, o, d, w) =
  if Nat.eqb s q then
    match eat i xs, eat o ys with
    | Some xs', Some ys' => w * trelf m f d xs' ys'
    | _, _ => 0
    end
  else 0.
Proof. reflexivity. Qed.

Lemma arcterm_out_eq (m : fst_t S) f q xs c w x :
  tout x = Some c ->
  arcterm m f q xs (c :: w) x =
  if Nat.eqb (tsrc x) q then
    match eat (tin x) xs with Some xs' => twt x * trelf m f (tdst x) xs' w | None => 0 end
  else 0.
Proof.
  intros H. unfold arcterm. rewrite H, eat_some_cons, Nat.eqb_refl.
  destruct (Nat.eqb (tsrc x) q); [|reflexivity]. destruct (eat (tin x) xs); reflexivity.
Qed.

Lemma arcterm_out_ne (m : fst_t S) f q xs c d w x :
  tout x = Some c -> c <> d -> arcterm m f q xs (d :: w) x = 0.
Proof.
  intros H Hne. unfold arcterm. rewrite H, eat_some_cons.
  destruct (Nat.eqb_spec c d) as [E|E]; [contradiction|].
  destruct (Nat.eqb (tsrc x) q); [|reflexivity]. destruct (eat (tin x) xs); reflexivity.
Qed.

Lemma arcterm_out_nil (m : fst_t S) f q xs c x :
  tout x = Some c -> arcterm m f q xs [] x = 0.
Proof.
  intros H. unfold arcterm. rewrite H, eat_some_nil.
  destruct (Nat.eqb (tsrc x) q); [|reflexivity]. destruct (eat (tin x) xs); reflexivity.
Qed.

Lemma arcterm_in_eq (m : fst_t S) f q c w zs y :
  tin y = Some c ->
  arcterm m f q (c :: w) zs y =
  if Nat.eqb (tsrc y) q then
    match eat (tout y) zs with Some zs' => twt y * trelf m f (tdst y) w zs' | None => 0 end
  else 0.
Proof.
  intros H. unfold arcterm. rewrite H, eat_some_cons, Nat.eqb_refl. reflexivity.
Qed.

Lemma arcterm_in_ne (m : fst_t S) f q c d w zs y :
  tin y = Some c -> c <> d -> arcterm m f q (d :: w) zs y = 0.
Proof.
  intros H Hne. unfold arcterm. rewrite H, eat_some_cons.
  destruct (Nat.eqb_spec c d) as [E|E]; [contradiction|].
  destruct (Nat.eqb (tsrc y) q); reflexivity.
Qed.

Lemma arcterm_in_nil (m : fst_t S) f q c zs y :
  tin y = Some c -> arcterm m f q [] zs y = 0.
Proof.
  intros H. unfold arcterm. rewrite H, eat_some_nil.
  destruct (Nat.eqb (tsrc y) q); reflexivity.
Qed.

(* ---------- the product ---------- *)

Section Main.
Variables (M : nat) (V : list nat) (a b : fst_t S).
Hypothesis HV : NoDup V.
Hypothesis Ha : forall ar, In ar (tarcs a) -> exists y, tout ar = Some y /\ In y V.
Hypothesis Hb : forall ar, In ar (tarcs b) -> exists y, tin ar = Some y.
Hypothesis Hst : forall q,
  (In q (map fst (tinit b)) \/ In q (map fst (tfinal b)) \/
   (exists ar, In ar (tarcs b) /\ (tsrc ar = q \/ tdst ar = q))) -> q < M.

Lemma tarcs_compose :
  tarcs (compose_nf M a b) =
  flat_map (fun x => flat_map (fun y =>
      if olbl_eqb (tout x) (tin y)
      then [(penc M (tsrc x) (tsrc y), tin x, tout y, penc M (tdst x) (tdst y), twt x * twt y)]
      else []) (tarcs b)) (tarcs a).
Proof. reflexivity. Qed.

Lemma tinit_compose :
  tinit (compose_nf M a b) =
  flat_map (fun i => map (fun j => (penc M (fst i) (fst j), snd i * snd j)) (tinit b)) (tinit a).
Proof. reflexivity. Qed.

Lemma tfinal_compose :
  tfinal (compose_nf M a b) =
  flat_map (fun i => map (fun j => (penc M (fst i) (fst j), snd i * snd j)) (tfinal b)) (tfinal a).
Proof. reflexivity. Qed.

Lemma final_compose p q : q < M ->
  fget (tfinal (compose_nf M a b)) (penc M p q) = fget (tfinal a) p * fget (tfinal b) q.
Proof.
  intros Hq. rewrite tfinal_compose. apply fget_pair; [assumption|].
  intros j Hj. apply Hst. right; left. apply in_map; assumption.
Qed.

Lemma trelf_a_nil fuel p xs :
  trelf a fuel p xs [] = match xs with [] => fget (tfinal a) p | _ :: _ => 0 end.
Proof.
  destruct fuel as [|f].
  - rewrite trelf_O. destruct xs; cbv beta iota; ring.
  - rewrite trelf_S, bsum_zero.
    + destruct xs; cbv beta iota; ring.
    + intros ar Har. destruct (Ha ar Har) as [y [Hy _]]. eapply arcterm_out_nil; eassumption.
Qed.

Lemma trelf_b_nil fuel q zs :
  trelf b fuel q [] zs = match zs with [] => fget (tfinal b) q | _ :: _ => 0 end.
Proof.
  destruct fuel as [|f].
  - rewrite trelf_O. destruct zs; cbv beta iota; ring.
  - rewrite trelf_S, bsum_zero.
    + destruct zs; cbv beta iota; ring.
    + intros ar Har. destruct (Hb ar Har) as [y Hy]. eapply arcterm_in_nil; eassumption.
Qed.

(* the contribution of one pair of arcs *)
Lemma pair_term f p q xs zs x y :
  (forall p q xs zs, q < M ->
     trelf (compose_nf M a b) f (penc M p q) xs zs =
     bsum (words_le V f) (fun ys => trelf a f p xs ys * trelf b f q ys zs)) ->
  q < M -> In x (tarcs a) -> In y (tarcs b) ->
  bsum (if olbl_eqb (tout x) (tin y)
        then [(penc M (tsrc x) (tsrc y), tin x, tout y, penc M (tdst x) (tdst y), twt x * twt y)]
        else [])
       (arcterm (compose_nf M a b) f (penc M p q) xs zs)
  = bsum V (fun c => bsum (words_le V f) (fun w =>
      arcterm a f p xs (c :: w) x * arcterm b f q (c :: w) zs y)).
Proof.
  intros IH Hq Hx Hy.
  destruct (Ha x Hx) as [cx [Hox Hcx]]. destruct (Hb y Hy) as [cy Hiy].
  assert (Hsy : tsrc y < M) by (apply Hst; right; right; exists y; auto).
  assert (Hdy : tdst y < M) by (apply Hst; right; right; exists y; auto).
  rewrite (bsum_single V cx _ HV Hcx).
  2:{ intros c Hc. apply bsum_zero; intros w _.
      rewrite (arcterm_out_ne a f p xs cx c w x Hox) by congruence. ring. }
  cbv beta.
  unfold olbl_eqb. rewrite Hox, Hiy.
  destruct (Nat.eqb_spec cx cy) as [Ec|Ec].
  - subst cy. rewrite bsum_cons, bsum_nil, arcterm_mk.
    destruct (Nat.eqb_spec (penc M (tsrc x) (tsrc y)) (penc M p q)) as [E|E].
    + apply penc_inj in E; try assumption. destruct E as [E1 E2].
      destruct (eat (tin x) xs) as [xs'|] eqn:Ex; destruct (eat (tout y) zs) as [zs'|] eqn:Ey.
      * rewrite IH by assumption.
        transitivity (bsum (words_le V f) (fun ys =>
            (twt x * twt y) * (trelf a f (tdst x) xs' ys * trelf b f (tdst y) ys zs'))).
        { rewrite bsum_mul_l. ring. }
        apply bsum_ext; intros w _.
        rewrite (arcterm_out_eq a f p xs cx w x Hox), (arcterm_in_eq b f q cx w zs y Hiy).
        rewrite E1, E2, !Nat.eqb_refl, Ex, Ey. ring.
      * transitivity (0 : S); [ring|]. symmetry. apply bsum_zero; intros w _.
        rewrite (arcterm_out_eq a f p xs cx w x Hox), (arcterm_in_eq b f q cx w zs y Hiy).
        rewrite E1, E2, !Nat.eqb_refl, Ex, Ey. ring.
      * transitivity (0 : S); [ring|]. symmetry. apply bsum_zero; intros w _.
        rewrite (arcterm_out_eq a f p xs cx w x Hox), (arcterm_in_eq b f q cx w zs y Hiy).
        rewrite E1, E2, !Nat.eqb_refl, Ex, Ey. ring.
      * transitivity (0 : S); [ring|]. symmetry. apply bsum_zero; intros w _.
        rewrite (arcterm_out_eq a f p xs cx w x Hox), (arcterm_in_eq b f q cx w zs y Hiy).
        rewrite E1, E2, !Nat.eqb_refl, Ex, Ey. ring.
    + transitivity (0 : S); [ring|]. symmetry. apply bsum_zero; intros w _.
      rewrite (arcterm_out_eq a f p xs cx w x Hox), (arcterm_in_eq b f q cx w zs y Hiy).
      destruct (Nat.eqb_spec (tsrc x) p) as [E1|E1];
        destruct (Nat.eqb_spec (tsrc y) q) as [E2|E2]; try ring.
      exfalso; apply E; congruence.
  - rewrite bsum_nil. symmetry. apply bsum_zero; intros w _.
    rewrite (arcterm_in_ne b f q cy cx w zs y Hiy) by congruence. ring.
Qed.

(* state-level statement *)
Lemma compose_state : forall fuel p q xs zs, q < M ->
  trelf (compose_nf M a b) fuel (penc M p q) xs zs =
  bsum (words_le V fuel) (fun ys => trelf a fuel p xs ys * trelf b fuel q ys zs).
Proof.
  induction fuel as [|f IH]; intros p q xs zs Hq.
  - change (words_le V O) with [@nil nat]. rewrite bsum_cons, bsum_nil.
    rewrite trelf_a_nil, trelf_b_nil, trelf_O.
    destruct xs; destruct zs; cbv beta iota; rewrite ?final_compose by assumption; ring.
  - rewrite bsum_words_le_S. cbv beta.
    rewrite trelf_a_nil, trelf_b_nil, (trelf_S (compose_nf M a b)).
    assert (HF : match xs, zs with
                 | [], [] => fget (tfinal (compose_nf M a b)) (penc M p q)
                 | _, _ => 0 end =
                 match xs with [] => fget (tfinal a) p | _ :: _ => 0 end *
                 match zs with [] => fget (tfinal b) q | _ :: _ => 0 end).
    { destruct xs; destruct zs; cbv beta iota; rewrite ?final_compose by assumption; ring. }
    rewrite HF. f_equal.
    transitivity (bsum (tarcs a) (fun x => bsum (tarcs b) (fun y =>
        bsum V (fun c => bsum (words_le V f) (fun w =>
          arcterm a f p xs (c :: w) x * arcterm b f q (c :: w) zs y))))).
    + rewrite tarcs_compose, bsum_flat_map. apply bsum_ext; intros x Hx.
      rewrite bsum_flat_map. apply bsum_ext; intros y Hy.
      apply pair_term; assumption.
    + rewrite (bsum_swap4 (tarcs a) (tarcs b) V (words_le V f)
                 (fun x y c w => arcterm a f p xs (c :: w) x * arcterm b f q (c :: w) zs y)).
      apply bsum_ext; intros c _. apply bsum_ext; intros w _.
      rewrite trelf_S_cons_r, trelf_S_cons_l, bsum_bsum_mul. reflexivity.
Qed.

End Main.

Theorem compose_nf_relational : forall (M : nat) (V : list nat) (a b : fst_t S) (fuel : nat) (xs zs : list nat),
    NoDup V ->
    (forall ar, In ar (tarcs a) -> exists y, tout ar = Some y /\ In y V) ->
    (forall ar, In ar (tarcs b) -> exists y, tin ar = Some y) ->
    (forall q, (In q (map fst (tinit b)) \/ In q (map fst (tfinal b)) \/ (exists ar, In ar (tarcs b) /\ (tsrc ar = q \/ tdst ar = q))) -> q < M) ->
    trel (compose_nf M a b) fuel xs zs = bsum (words_le V fuel) (fun ys => trel a fuel xs ys * trel b fuel ys zs).
Proof.
  intros M V a b fuel xs zs HV Ha Hb Hst.
  unfold trel. rewrite tinit_compose, bsum_flat_map.
  transitivity (bsum (tinit a) (fun i => bsum (tinit b) (fun j =>
      bsum (words_le V fuel) (fun ys =>
        (snd i * trelf a fuel (fst i) xs ys) * (snd j * trelf b fuel (fst j) ys zs))))).
  - apply bsum_ext; intros i _. rewrite bsum_map. apply bsum_ext; intros j Hj. cbn [fst snd].
    rewrite (compose_state M V a b HV Ha Hb Hst)
      by (apply Hst; left; apply in_map; assumption).
    rewrite <- bsum_mul_l. apply bsum_ext; intros ys _. ring.
  - rewrite (bsum_swap3 (tinit a) (tinit b) (words_le V fuel)
               (fun i j ys => (snd i * trelf a fuel (fst i) xs ys) * (snd j * trelf b fuel (fst j) ys zs))).
    apply bsum_ext; intros ys _. rewrite bsum_bsum_mul. reflexivity.
Qed.

End Product.

Print Assumptions compose_nf_relational.
