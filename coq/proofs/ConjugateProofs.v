(* Conjugation of weighted automata in matrix form preserves the language
   (model/Conjugate.v; field_wfsa forward_conjugate / backward_conjugate / min).
   - intertwine_act, conjugate_equivalent: if F intertwines A and B (alpha_A = alpha_B F,
     F M^A_a = M^B_a F, omega_B = F omega_A) then A and B give every word the same weight;
   - conjugate_equivalent_backward: the dual statement (M^A_a G = G M^B_a, ...), obtained
     both directly and through the reversed automaton;
   - min_equivalent: forward conjugation followed by backward conjugation;
   - conj_equivalent & co: the concrete conjugate (alpha P, F M_a P, F omega) is intertwined
     with the original automaton under "alpha = alpha P F" and "F M_a = F M_a P F", which in
     turn follow from  F P F = F  (true of any pseudo-inverse, in particular of a right inverse),
     alpha in the row space of F and the row space of F closed under every M_a.
   Everything holds over an arbitrary commutative semiring.  No axioms. *)
From Coq Require Import List Arith Bool Lia Ring ZArith PArith Qcanon.
From GV.lib Require Import Semiring BigSum.
From GV.model Require Import Conjugate.
Import ListNotations.
Local Open Scope sr_scope.

Section ConjugateProofs.
Variable S : SR.
Add Ring CjRing : (sth S).

Notation mauto := (mauto S).

(* ------------------------------------------------------------------ *)
(* 0. a triple exchange of summation order                              *)

Lemma bsum_swap3 {X Y Z} (lx : list X) (ly : list Y) (lz : list Z) (f : X -> Y -> Z -> S) :
  bsum lx (fun x => bsum ly (fun y => bsum lz (fun z => f x y z)))
  = bsum lz (fun z => bsum ly (fun y => bsum lx (fun x => f x y z))).
Proof.
  rewrite bsum_swap.
  transitivity (bsum ly (fun y => bsum lz (fun z => bsum lx (fun x => f x y z)))).
  - apply bsum_ext. intros y _. apply bsum_swap.
  - apply bsum_swap.
Qed.

(* ------------------------------------------------------------------ *)
(* 1. forward intertwining                                              *)

Theorem intertwine_act (F : nat -> nat -> S) (A B : mauto) :
  intertwines F A B ->
  forall w i, In i (dim B) -> mact B w i = bsum (dim A) (fun j => F i j * mact A w j).
Proof.
  intros [Hs [Hm Ho]] w. induction w as [|a t IH]; intros i Hi; simpl.
  - apply Ho, Hi.
  - transitivity (bsum (dim B) (fun k => bsum (dim A) (fun j => marc B a i k * F k j * mact A t j))).
    { apply bsum_ext. intros k Hk. rewrite (IH k Hk). rewrite <- bsum_mul_l.
      apply bsum_ext. intros j _. ring. }
    rewrite bsum_swap.
    transitivity (bsum (dim A) (fun j => bsum (dim A) (fun k => F i k * marc A a k j * mact A t j))).
    { apply bsum_ext. intros j Hj. rewrite !bsum_mul_r. rewrite (Hm a i j Hi Hj). reflexivity. }
    rewrite bsum_swap. apply bsum_ext. intros k _. rewrite <- bsum_mul_l.
    apply bsum_ext. intros j _. ring.
Qed.

Theorem conjugate_equivalent (F : nat -> nat -> S) (A B : mauto) :
  intertwines F A B -> forall w, mweight A w = mweight B w.
Proof.
  intros HF w. pose proof (intertwine_act F A B HF w) as Hact.
  destruct HF as [Hs [Hm Ho]]. unfold mweight.
  transitivity (bsum (dim A) (fun j => bsum (dim B) (fun i => mstart B i * F i j * mact A w j))).
  { apply bsum_ext. intros j Hj. rewrite (Hs j Hj). rewrite <- bsum_mul_r. reflexivity. }
  rewrite bsum_swap. apply bsum_ext. intros i Hi. rewrite (Hact i Hi). rewrite <- bsum_mul_l.
  apply bsum_ext. intros j _. ring.
Qed.

(* ------------------------------------------------------------------ *)
(* 2. backward intertwining, directly                                   *)

(* a backward intertwining from A to B is a forward intertwining from B to A *)
Lemma intertwines_back_iff (G : nat -> nat -> S) (A B : mauto) :
  intertwines_back G A B <-> intertwines G B A.
Proof.
  unfold intertwines_back, intertwines. split; intros [H1 [H2 H3]]; (split; [exact H1|split; [|exact H3]]);
    intros a i j Hi Hj; symmetry; apply H2; assumption.
Qed.

Theorem intertwine_act_back (G : nat -> nat -> S) (A B : mauto) :
  intertwines_back G A B ->
  forall w i, In i (dim A) -> mact A w i = bsum (dim B) (fun j => G i j * mact B w j).
Proof. intros HG. apply intertwine_act, intertwines_back_iff, HG. Qed.

Theorem conjugate_equivalent_backward (G : nat -> nat -> S) (A B : mauto) :
  intertwines_back G A B -> forall w, mweight A w = mweight B w.
Proof.
  intros HG w. symmetry. apply (conjugate_equivalent G B A). apply intertwines_back_iff, HG.
Qed.

Theorem min_equivalent (F G : nat -> nat -> S) (A B C : mauto) :
  intertwines F A B -> intertwines_back G B C -> forall w, mweight A w = mweight C w.
Proof.
  intros HF HG w. rewrite (conjugate_equivalent F A B HF w). apply (conjugate_equivalent_backward G B C HG).
Qed.

(* ------------------------------------------------------------------ *)
(* 3. the reversed automaton (backward_conjugate is forward_conjugate on the reversal) *)

Fixpoint vact (d : list nat) (M : nat -> nat -> nat -> S) (w : list nat) (v : nat -> S) : nat -> S :=
  match w with
  | [] => v
  | a :: t => fun i => bsum d (fun j => M a i j * vact d M t v j)
  end.

Definition tr3 (M : nat -> nat -> nat -> S) : nat -> nat -> nat -> S := fun a i j => M a j i.

Lemma mact_vact (A : mauto) w i : mact A w i = vact (dim A) (marc A) w (mstop A) i.
Proof.
  revert i. induction w as [|a t IH]; intros i; simpl; [reflexivity|].
  apply bsum_ext. intros j _. rewrite IH. reflexivity.
Qed.

Lemma vact_app d M w1 w2 v i : vact d M (w1 ++ w2) v i = vact d M w1 (vact d M w2 v) i.
Proof.
  revert i. induction w1 as [|a t IH]; intros i; simpl; [reflexivity|].
  apply bsum_ext. intros j _. rewrite IH. reflexivity.
Qed.

(* u . (M_w v) = (M^T_{rev w} u) . v *)
Lemma dot_vact_transpose d M w :
  forall u v, bsum d (fun i => u i * vact d M w v i) = bsum d (fun i => vact d (tr3 M) (rev w) u i * v i).
Proof.
  induction w as [|a t IH]; intros u v; simpl; [reflexivity|].
  transitivity (bsum d (fun j => vact d (tr3 M) [a] u j * vact d M t v j)).
  - transitivity (bsum d (fun i => bsum d (fun j => u i * M a i j * vact d M t v j))).
    { apply bsum_ext. intros i _. rewrite <- bsum_mul_l. apply bsum_ext. intros j _. ring. }
    rewrite bsum_swap. apply bsum_ext. intros j _. simpl. unfold tr3. rewrite <- bsum_mul_r.
    apply bsum_ext. intros i _. ring.
  - rewrite IH. apply bsum_ext. intros i _. rewrite vact_app. reflexivity.
Qed.

Theorem mweight_reverse (A : mauto) w : mweight (mreverse A) (rev w) = mweight A w.
Proof.
  unfold mweight. simpl.
  transitivity (bsum (dim A) (fun i => vact (dim A) (tr3 (marc A)) (rev w) (mstart A) i * mstop A i)).
  - apply bsum_ext. intros i _. rewrite mact_vact. simpl. unfold tr3. ring.
  - rewrite <- dot_vact_transpose. apply bsum_ext. intros i _. rewrite mact_vact. reflexivity.
Qed.

Lemma mreverse_involutive_weight (A : mauto) w : mweight (mreverse (mreverse A)) w = mweight A w.
Proof.
  rewrite <- (mweight_reverse A w). rewrite <- (mweight_reverse (mreverse A) (rev w)).
  rewrite rev_involutive. reflexivity.
Qed.

(* backward intertwining by G = forward intertwining of the reversed automata by G^T *)
Lemma intertwines_back_reverse (G : nat -> nat -> S) (A B : mauto) :
  intertwines_back G A B <-> intertwines (transpose G) (mreverse A) (mreverse B).
Proof.
  unfold intertwines_back, intertwines, transpose. simpl. split; intros [H1 [H2 H3]].
  - split; [|split].
    + intros j Hj. rewrite (H3 j Hj). apply bsum_ext. intros i _. ring.
    + intros a i j Hi Hj.
      transitivity (bsum (dim A) (fun k => marc A a j k * G k i)); [apply bsum_ext; intros k _; ring|].
      rewrite (H2 a j i Hj Hi). apply bsum_ext. intros k _. ring.
    + intros i Hi. rewrite (H1 i Hi). apply bsum_ext. intros j _. ring.
  - split; [|split].
    + intros j Hj. rewrite (H3 j Hj). apply bsum_ext. intros i _. ring.
    + intros a i j Hi Hj.
      transitivity (bsum (dim A) (fun k => G k j * marc A a i k)); [apply bsum_ext; intros k _; ring|].
      rewrite (H2 a j i Hj Hi). apply bsum_ext. intros k _. ring.
    + intros i Hi. rewrite (H1 i Hi). apply bsum_ext. intros j _. ring.
Qed.

(* the same theorem as conjugate_equivalent_backward, obtained the way the code does it *)
Theorem conjugate_equivalent_backward_via_reverse (G : nat -> nat -> S) (A B : mauto) :
  intertwines_back G A B -> forall w, mweight A w = mweight B w.
Proof.
  intros HG w. apply intertwines_back_reverse in HG.
  rewrite <- (mweight_reverse A w), <- (mweight_reverse B w).
  apply (conjugate_equivalent _ _ _ HG).
Qed.

(* ------------------------------------------------------------------ *)
(* 4. the concrete conjugates                                           *)

Section Concrete.
Variable A : mauto.
Variable dimB : list nat.

(* forward: F is (dimB x dim A), P is (dim A x dimB) *)
Section Forward.
Variables F P : nat -> nat -> S.

(* alpha = (alpha P) F *)
Definition start_in_rowspace : Prop :=
  forall j, In j (dim A) ->
    mstart A j = bsum dimB (fun i => bsum (dim A) (fun k => mstart A k * P k i) * F i j).
(* F M_a = (F M_a P) F *)
Definition rowspace_closed : Prop :=
  forall a i j, In i dimB -> In j (dim A) ->
    bsum (dim A) (fun k => F i k * marc A a k j)
    = bsum dimB (fun k' => bsum (dim A) (fun k => bsum (dim A) (fun l => F i k * marc A a k l * P l k')) * F k' j).

Theorem conj_intertwines :
  start_in_rowspace -> rowspace_closed -> intertwines F A (conj dimB F P A).
Proof.
  intros H1 H2. unfold intertwines. simpl. split; [|split].
  - exact H1.
  - exact H2.
  - intros i _. reflexivity.
Qed.

Theorem conj_equivalent :
  start_in_rowspace -> rowspace_closed -> forall w, mweight A w = mweight (conj dimB F P A) w.
Proof. intros H1 H2. apply (conjugate_equivalent F), conj_intertwines; assumption. Qed.

(* The two hypotheses from more primitive facts:  F P F = F  (first Moore-Penrose identity),
   alpha = c F for some c,  F M_a = N_a F for some N_a. *)
Definition FPF : Prop :=
  forall i j, In i dimB -> In j (dim A) ->
    bsum (dim A) (fun k => bsum dimB (fun k' => F i k * P k k' * F k' j)) = F i j.

Lemma start_in_rowspace_of (c : nat -> S) :
  FPF -> (forall j, In j (dim A) -> mstart A j = bsum dimB (fun i => c i * F i j)) -> start_in_rowspace.
Proof.
  intros HP Hc j Hj.
  transitivity (bsum dimB (fun i' => bsum (dim A) (fun k => bsum dimB (fun i => c i' * (F i' k * P k i * F i j))))).
  - rewrite (Hc j Hj). apply bsum_ext. intros i' Hi'. rewrite <- (HP i' j Hi' Hj) at 1.
    rewrite <- bsum_mul_l. apply bsum_ext. intros k _. rewrite <- bsum_mul_l. reflexivity.
  - rewrite bsum_swap3. apply bsum_ext. intros i _. rewrite <- bsum_mul_r. apply bsum_ext. intros k Hk.
    rewrite (Hc k Hk). rewrite <- !bsum_mul_r. apply bsum_ext. intros i' _. ring.
Qed.

Lemma rowspace_closed_of (N : nat -> nat -> nat -> S) :
  FPF ->
  (forall a i j, In i dimB -> In j (dim A) ->
     bsum (dim A) (fun k => F i k * marc A a k j) = bsum dimB (fun n => N a i n * F n j)) ->
  rowspace_closed.
Proof.
  intros HP HN a i j Hi Hj.
  transitivity (bsum dimB (fun n => bsum (dim A) (fun l => bsum dimB (fun k' => N a i n * (F n l * P l k' * F k' j))))).
  - rewrite (HN a i j Hi Hj). apply bsum_ext. intros n Hn. rewrite <- (HP n j Hn Hj) at 1.
    rewrite <- bsum_mul_l. apply bsum_ext. intros l _. rewrite <- bsum_mul_l. reflexivity.
  - rewrite bsum_swap3. apply bsum_ext. intros k' _. rewrite (bsum_swap S (dim A) (dim A)).
    rewrite <- bsum_mul_r. apply bsum_ext. intros l Hl.
    transitivity (bsum (dim A) (fun k => F i k * marc A a k l) * P l k' * F k' j).
    + rewrite (HN a i l Hi Hl). rewrite <- !bsum_mul_r. apply bsum_ext. intros n _. ring.
    + rewrite <- (bsum_mul_r S (dim A) (fun k => F i k * marc A a k l) (P l k')). reflexivity.
Qed.

(* a right inverse (F P = I on dimB) satisfies F P F = F *)
Lemma FPF_of_right_inverse :
  NoDup dimB ->
  (forall i i', In i dimB -> In i' dimB ->
     bsum (dim A) (fun k => F i k * P k i') = if Nat.eqb i' i then 1 else 0) ->
  FPF.
Proof.
  intros Hnd HI i j Hi Hj. rewrite bsum_swap.
  transitivity (bsum dimB (fun k' => if Nat.eqb k' i then F k' j else 0)).
  - apply bsum_ext. intros k' Hk'.
    transitivity (bsum (dim A) (fun k => F i k * P k k') * F k' j).
    + rewrite <- bsum_mul_r. reflexivity.
    + rewrite (HI i k' Hi Hk'). destruct (Nat.eqb k' i); ring.
  - rewrite (bsum_delta S Nat.eqb Nat.eqb_eq dimB i (fun k' => F k' j) Hnd).
    assert (E : existsb (fun a => Nat.eqb a i) dimB = true).
    { apply existsb_exists. exists i. split; [exact Hi|apply Nat.eqb_refl]. }
    rewrite E. reflexivity.
Qed.

Theorem conj_equivalent_pinv (c : nat -> S) (N : nat -> nat -> nat -> S) :
  FPF ->
  (forall j, In j (dim A) -> mstart A j = bsum dimB (fun i => c i * F i j)) ->
  (forall a i j, In i dimB -> In j (dim A) ->
     bsum (dim A) (fun k => F i k * marc A a k j) = bsum dimB (fun n => N a i n * F n j)) ->
  forall w, mweight A w = mweight (conj dimB F P A) w.
Proof.
  intros HP Hc HN. apply conj_equivalent.
  - apply (start_in_rowspace_of c HP Hc).
  - apply (rowspace_closed_of N HP HN).
Qed.
End Forward.

(* backward: G is (dim A x dimB), Q is (dimB x dim A) *)
Section Backward.
Variables G Q : nat -> nat -> S.

(* omega = G (Q omega) *)
Definition stop_in_colspace : Prop :=
  forall i, In i (dim A) ->
    mstop A i = bsum dimB (fun j => G i j * bsum (dim A) (fun k => Q j k * mstop A k)).
(* M_a G = G (Q M_a G) *)
Definition colspace_closed : Prop :=
  forall a i j, In i (dim A) -> In j dimB ->
    bsum (dim A) (fun k => marc A a i k * G k j)
    = bsum dimB (fun k' => G i k' * bsum (dim A) (fun k => bsum (dim A) (fun l => Q k' k * marc A a k l * G l j))).

Theorem conj_back_intertwines :
  stop_in_colspace -> colspace_closed -> intertwines_back G A (conj_back dimB G Q A).
Proof.
  intros H1 H2. unfold intertwines_back. simpl. split; [|split].
  - intros j _. reflexivity.
  - exact H2.
  - exact H1.
Qed.

Theorem conj_back_equivalent :
  stop_in_colspace -> colspace_closed -> forall w, mweight A w = mweight (conj_back dimB G Q A) w.
Proof. intros H1 H2. apply (conjugate_equivalent_backward G), conj_back_intertwines; assumption. Qed.
End Backward.
End Concrete.

(* min = forward_conjugate().backward_conjugate() *)
Theorem conj_min_equivalent (A : mauto) (dimB dimC : list nat) (F P G Q : nat -> nat -> S) :
  start_in_rowspace A dimB F P -> rowspace_closed A dimB F P ->
  stop_in_colspace (conj dimB F P A) dimC G Q -> colspace_closed (conj dimB F P A) dimC G Q ->
  forall w, mweight A w = mweight (conj_back dimC G Q (conj dimB F P A)) w.
Proof.
  intros H1 H2 H3 H4 w.
  apply (min_equivalent F G A (conj dimB F P A)).
  - apply conj_intertwines; assumption.
  - apply conj_back_intertwines; assumption.
Qed.

End ConjugateProofs.

(* ------------------------------------------------------------------ *)
(* 5. a concrete instance over the rationals: two forward-equivalent states merged by
      F = [[1, 1]] with P = pinv(F) = [[1/2], [1/2]]                                   *)

Section Example.
Let two : QcSR := mkq 2%Z 1%positive.
Let five : QcSR := mkq 5%Z 1%positive.
Let half : QcSR := mkq 1%Z 2%positive.

(* alpha = [1, 1],  M_0 = [[1, 2], [2, 1]],  omega = [2; 5] *)
Definition exA : mauto QcSR :=
  mkMauto [0%nat; 1%nat]
    (fun _ => 1)
    (fun _ i j => if Nat.eqb i j then 1 else two)
    (fun i => if Nat.eqb i 0%nat then two else five).
Definition exF : nat -> nat -> QcSR := fun _ _ => 1.
Definition exP : nat -> nat -> QcSR := fun _ _ => half.
Definition exB : mauto QcSR := conj [0%nat] exF exP exA.

Ltac qc := apply Qcanon.Qc_is_canon; vm_compute; reflexivity.

Example ex_start_in_rowspace : start_in_rowspace QcSR exA [0%nat] exF exP.
Proof. intros j [Hj|[Hj|[]]]; subst j; qc. Qed.

Example ex_rowspace_closed : rowspace_closed QcSR exA [0%nat] exF exP.
Proof. intros a i j [Hi|[]] [Hj|[Hj|[]]]; subst i j; qc. Qed.

Example ex_intertwines : intertwines exF exA exB.
Proof. apply conj_intertwines; [exact ex_start_in_rowspace|exact ex_rowspace_closed]. Qed.

(* the merged automaton is 1-state: start 1, M_0 = 3, stop 7 *)
Example ex_B_values : mstart exB 0%nat = 1 /\ marc exB 0%nat 0%nat 0%nat = mkq 3%Z 1%positive /\ mstop exB 0%nat = mkq 7%Z 1%positive.
Proof. repeat split; qc. Qed.

Example ex_weight_A : mweight exA [0%nat; 0%nat] = mkq 63%Z 1%positive.
Proof. qc. Qed.
Example ex_weight_B : mweight exB [0%nat; 0%nat] = mkq 63%Z 1%positive.
Proof. qc. Qed.

Example ex_equivalent : forall w, mweight exA w = mweight exB w.
Proof. apply conj_equivalent; [exact ex_start_in_rowspace|exact ex_rowspace_closed]. Qed.

(* the same instance through the F P F = F route, with c = [1] and N_0 = [[3]] *)
Example ex_equivalent_pinv : forall w, mweight exA w = mweight exB w.
Proof.
  apply (conj_equivalent_pinv QcSR exA [0%nat] exF exP (fun _ => 1) (fun _ _ _ => mkq 3%Z 1%positive)).
  - intros i j [Hi|[]] [Hj|[Hj|[]]]; subst i j; qc.
  - intros j [Hj|[Hj|[]]]; subst j; qc.
  - intros a i j [Hi|[]] [Hj|[Hj|[]]]; subst i j; qc.
Qed.
End Example.

Print Assumptions intertwine_act.
Print Assumptions conjugate_equivalent.
Print Assumptions conjugate_equivalent_backward.
Print Assumptions conjugate_equivalent_backward_via_reverse.
Print Assumptions mweight_reverse.
Print Assumptions min_equivalent.
Print Assumptions conj_intertwines.
Print Assumptions conj_equivalent.
Print Assumptions conj_equivalent_pinv.
Print Assumptions FPF_of_right_inverse.
Print Assumptions conj_back_equivalent.
Print Assumptions conj_min_equivalent.
Print Assumptions ex_equivalent.
Print Assumptions ex_equivalent_pinv.
Print Assumptions ex_weight_A.
Print Assumptions ex_weight_B.
