(* The language of the automaton built from a regex DFA (interegular_to_wfsa post-processing):
   the path sum of a string is non-negative, and it is non-zero exactly when the DFA, restricted
   to single-character moves of the character set into live states, accepts the string. *)
From Coq Require Import List Arith Bool ZArith QArith Qcanon Lia.
From GV.lib Require Import Semiring BigSum.
From GV.model Require Import Regex Wfsa.
From GV.proofs Require Import RegexProofs.
Import ListNotations.

(* the automaton the code builds: initial weight 1 on the DFA's initial state *)
Definition re_wfsa (charset : list nat) (D : dfa) : wfsa QcSR :=
  mkW (S:=QcSR) [(d_init D, 1%Qc)] (re_finals charset D)
      (map (fun a => match a with (i, x, j, w) => (i, Some x, j, w) end) (re_arcs charset D)).

(* acceptance by the DFA restricted to single-character moves of the character set into live states *)
Inductive dfa_run (charset : list nat) (D : dfa) : nat -> list nat -> Prop :=
| run_nil : forall i outs, In (i, outs) (d_map D) -> memn i (d_finals D) = true -> dfa_run charset D i []
| run_cons : forall i outs x j xs, In (i, outs) (d_map D) -> In (x, j) (moves charset D outs) ->
    dfa_run charset D j xs -> dfa_run charset D i (x :: xs).

(* ---------- order facts over Qc ---------- *)

Lemma Qc_add_nonneg : forall a b : Qc, (0 <= a)%Qc -> (0 <= b)%Qc -> (0 <= a + b)%Qc.
Proof.
  intros a b Ha Hb. pose proof (Qcplus_le_compat 0 a 0 b Ha Hb) as H.
  rewrite Qcplus_0_l in H. exact H.
Qed.

Lemma Qc_add_pos_iff : forall a b : Qc, (0 <= a)%Qc -> (0 <= b)%Qc ->
  ((0 < a + b)%Qc <-> ((0 < a)%Qc \/ (0 < b)%Qc)).
Proof.
  intros a b Ha Hb. split.
  - intros H. destruct (Qcle_lt_or_eq _ _ Ha) as [Hlt|Heq]; [left; exact Hlt|].
    right. rewrite <- Heq, Qcplus_0_l in H. exact H.
  - intros [H|H].
    + apply Qclt_le_trans with (y := a); [exact H|].
      pose proof (Qcplus_le_compat a a 0 b (Qcle_refl a) Hb) as H2.
      rewrite Qcplus_0_r in H2. exact H2.
    + apply Qclt_le_trans with (y := b); [exact H|].
      pose proof (Qcplus_le_compat 0 a b b Ha (Qcle_refl b)) as H2.
      rewrite Qcplus_0_l in H2. exact H2.
Qed.

Lemma Qc_mul_nonneg : forall w p : Qc, (0 <= w)%Qc -> (0 <= p)%Qc -> (0 <= w * p)%Qc.
Proof.
  intros w p Hw Hp. pose proof (Qcmult_le_compat_r 0 w p Hw Hp) as H.
  rewrite Qcmult_0_l in H. exact H.
Qed.

Lemma Qc_mul_pos_iff : forall w p : Qc, (0 < w)%Qc -> (0 <= p)%Qc -> ((0 < w * p)%Qc <-> (0 < p)%Qc).
Proof.
  intros w p Hw Hp. split.
  - intros H. destruct (Qcle_lt_or_eq _ _ Hp) as [Hlt|Heq]; [exact Hlt|].
    rewrite <- Heq, Qcmult_0_r in H. exfalso. exact (Qclt_not_eq _ _ H eq_refl).
  - intros H. pose proof (Qcmult_lt_compat_r 0 w p H Hw) as H2.
    rewrite Qcmult_0_l in H2. exact H2.
Qed.

Lemma Qc_lt_irrefl0 : ~ (0 < 0)%Qc.
Proof. intros H. exact (Qclt_not_eq _ _ H eq_refl). Qed.

(* ---------- sums of non-negative rationals ---------- *)

Lemma bsum_Qc_nonneg : forall {A} (l : list A) (f : A -> Qc),
  (forall a, In a l -> (0 <= f a)%Qc) -> (0 <= bsum (S:=QcSR) l f)%Qc.
Proof.
  intros A l f. induction l as [|a t IH]; intros H.
  - rewrite bsum_nil. apply Qcle_refl.
  - rewrite bsum_cons. change (0 <= f a + bsum (S:=QcSR) t f)%Qc.
    apply Qc_add_nonneg; [apply H; left; reflexivity|].
    apply IH. intros b Hb. apply H. right. exact Hb.
Qed.

Lemma bsum_Qc_pos_iff : forall {A} (l : list A) (f : A -> Qc),
  (forall a, In a l -> (0 <= f a)%Qc) ->
  ((0 < bsum (S:=QcSR) l f)%Qc <-> exists a, In a l /\ (0 < f a)%Qc).
Proof.
  intros A l f. induction l as [|a t IH]; intros H.
  - rewrite bsum_nil. split.
    + intros H0. exfalso. exact (Qc_lt_irrefl0 H0).
    + intros [a [[] _]].
  - rewrite bsum_cons.
    assert (Ht : forall b, In b t -> (0 <= f b)%Qc) by (intros b Hb; apply H; right; exact Hb).
    assert (Ha : (0 <= f a)%Qc) by (apply H; left; reflexivity).
    pose proof (Qc_add_pos_iff (f a) (bsum (S:=QcSR) t f) Ha (bsum_Qc_nonneg t f Ht)) as Hadd.
    change (((0 < f a + bsum (S:=QcSR) t f)%Qc) <-> exists a0, In a0 (a :: t) /\ (0 < f a0)%Qc).
    rewrite Hadd. rewrite (IH Ht). split.
    + intros [H1|[b [Hb Hp]]].
      * exists a. split; [left; reflexivity|exact H1].
      * exists b. split; [right; exact Hb|exact Hp].
    + intros [b [[<-|Hb] Hp]].
      * left. exact Hp.
      * right. exists b. split; assumption.
Qed.

(* ---------- entries of the result ---------- *)

Lemma re_arcs_intro : forall charset D i outs x j,
  In (i, outs) (d_map D) -> In (x, j) (moves charset D outs) ->
  In (i, x, j, invK (fanout charset D i outs)) (re_arcs charset D) /\ fanout charset D i outs <> O.
Proof.
  intros charset D i outs x j He Hm.
  assert (HK : fanout charset D i outs <> O).
  { unfold fanout. destruct (moves charset D outs) as [|m0 ms]; [destruct Hm|]. cbn [length]. lia. }
  split; [|exact HK].
  unfold re_arcs. apply in_flat_map. exists (i, outs). split; [exact He|].
  cbv zeta. cbn [fst snd].
  destruct (Nat.eqb_spec (fanout charset D i outs) 0) as [E|_]; [contradiction|].
  apply in_map_iff. exists (x, j). split; [reflexivity|exact Hm].
Qed.

Lemma re_finals_intro : forall charset D i outs,
  In (i, outs) (d_map D) -> memn i (d_finals D) = true ->
  In (i, invK (fanout charset D i outs)) (re_finals charset D) /\ fanout charset D i outs <> O.
Proof.
  intros charset D i outs He Hf.
  assert (HK : fanout charset D i outs <> O).
  { unfold fanout. rewrite Hf. lia. }
  split; [|exact HK].
  unfold re_finals. apply in_flat_map. exists (i, outs). split; [exact He|].
  cbv zeta. cbn [fst snd].
  destruct (Nat.eqb_spec (fanout charset D i outs) 0) as [E|_]; [contradiction|].
  rewrite Hf. left. reflexivity.
Qed.

Lemma re_warcs_inv : forall charset D (ar : arc QcSR),
  In ar (warcs (re_wfsa charset D)) ->
  exists i x j w, ar = (i, Some x, j, w) /\ In (i, x, j, w) (re_arcs charset D).
Proof.
  intros charset D ar Hin. cbn [re_wfsa warcs] in Hin.
  apply in_map_iff in Hin. destruct Hin as [[[[i x] j] w] [Heq Hin]].
  exists i, x, j, w. split; [symmetry; exact Heq|exact Hin].
Qed.

Lemma re_final_term_nonneg : forall charset D q (e : nat * Qc),
  In e (re_finals charset D) -> (0 <= (if Nat.eqb q (fst e) then snd e else 0%Qc))%Qc.
Proof.
  intros charset D q [i w] Hin. cbn [fst snd].
  destruct (Nat.eqb q i); [|apply Qcle_refl].
  destruct (regex_finals_weight _ _ _ _ Hin) as [outs [_ [_ [-> HK]]]].
  apply Qclt_le_weak, regex_weights_positive, HK.
Qed.

(* ---------- per-state statements ---------- *)

Lemma re_pw_nonneg : forall charset D xs q, (0 <= pw (re_wfsa charset D) q xs)%Qc.
Proof.
  intros charset D xs. induction xs as [|a xs IH]; intros q.
  - cbn [pw]. unfold wget. cbn [re_wfsa wfinal].
    apply (bsum_Qc_nonneg (re_finals charset D)).
    intros e He. apply re_final_term_nonneg with (charset := charset) (D := D). exact He.
  - cbn [pw].
    apply (bsum_Qc_nonneg (warcs (re_wfsa charset D))).
    intros ar Har.
    destruct (re_warcs_inv _ _ _ Har) as [i [x [j [w [-> Hin]]]]].
    unfold asrc, albl, adst, awt. cbn [fst snd].
    destruct (Nat.eqb i q && lbl_eqb (Some x) a); [|apply Qcle_refl].
    destruct (regex_arcs_single_char _ _ _ _ _ _ Hin) as [outs [_ [_ [-> HK]]]].
    apply Qc_mul_nonneg; [apply Qclt_le_weak, regex_weights_positive, HK|apply IH].
Qed.

Lemma re_pw_pos_iff : forall charset D xs q,
  (0 < pw (re_wfsa charset D) q xs)%Qc <-> dfa_run charset D q xs.
Proof.
  intros charset D xs. induction xs as [|a xs IH]; intros q.
  - cbn [pw]. unfold wget. cbn [re_wfsa wfinal].
    rewrite (bsum_Qc_pos_iff (re_finals charset D)
               (fun e => if Nat.eqb q (fst e) then snd e else 0%Qc)
               (fun e He => re_final_term_nonneg charset D q e He)).
    split.
    + intros [[i w] [Hin Hp]]. cbn [fst snd] in Hp.
      destruct (Nat.eqb_spec q i) as [->|_]; [|exfalso; exact (Qc_lt_irrefl0 Hp)].
      destruct (regex_finals_weight _ _ _ _ Hin) as [outs [He [Hf _]]].
      exact (run_nil charset D i outs He Hf).
    + intros Hr. inversion Hr as [i outs He Hf|]; subst.
      destruct (re_finals_intro charset D q outs He Hf) as [Hin HK].
      exists (q, invK (fanout charset D q outs)). split; [exact Hin|].
      cbn [fst snd]. rewrite Nat.eqb_refl. apply regex_weights_positive, HK.
  - cbn [pw].
    assert (Hnn : forall ar : arc QcSR, In ar (warcs (re_wfsa charset D)) ->
              (0 <= (if Nat.eqb (asrc ar) q && lbl_eqb (albl ar) a
                     then (awt ar * pw (re_wfsa charset D) (adst ar) xs)%Qc else 0%Qc))%Qc).
    { intros ar Har.
      destruct (re_warcs_inv _ _ _ Har) as [i [x [j [w [-> Hin]]]]].
      unfold asrc, albl, adst, awt. cbn [fst snd].
      destruct (Nat.eqb i q && lbl_eqb (Some x) a); [|apply Qcle_refl].
      destruct (regex_arcs_single_char _ _ _ _ _ _ Hin) as [outs [_ [_ [-> HK]]]].
      apply Qc_mul_nonneg; [apply Qclt_le_weak, regex_weights_positive, HK|apply re_pw_nonneg]. }
    pose proof (bsum_Qc_pos_iff (warcs (re_wfsa charset D)) _ Hnn) as Hiff.
    cbv beta in Hiff.
    change (smul (awt ?x) ?y) with (awt x * y)%Qc.
    etransitivity; [exact Hiff|]. clear Hiff Hnn.
    split.
    + intros [ar [Har Hp]].
      destruct (re_warcs_inv _ _ _ Har) as [i [x [j [w [-> Hin]]]]].
      unfold asrc, albl, adst, awt in Hp. cbn [fst snd] in Hp.
      destruct (Nat.eqb_spec i q) as [->|_]; [|exfalso; exact (Qc_lt_irrefl0 Hp)].
      cbn [andb lbl_eqb] in Hp.
      destruct (Nat.eqb_spec a x) as [->|_]; [|exfalso; exact (Qc_lt_irrefl0 Hp)].
      destruct (regex_arcs_single_char _ _ _ _ _ _ Hin) as [outs [He [Hm [-> HK]]]].
      apply (Qc_mul_pos_iff _ _ (regex_weights_positive _ HK) (re_pw_nonneg charset D xs j)) in Hp.
      apply IH in Hp.
      exact (run_cons charset D q outs x j xs He Hm Hp).
    + intros Hr. inversion Hr as [|i outs x j xs' He Hm Hrj]; subst.
      destruct (re_arcs_intro charset D q outs a j He Hm) as [Hin HK].
      exists (q, Some a, j, invK (fanout charset D q outs)). split.
      * cbn [re_wfsa warcs]. apply in_map_iff.
        exists (q, a, j, invK (fanout charset D q outs)). split; [reflexivity|exact Hin].
      * unfold asrc, albl, adst, awt. cbn [fst snd lbl_eqb]. rewrite !Nat.eqb_refl. cbn [andb].
        apply (Qc_mul_pos_iff _ _ (regex_weights_positive _ HK) (re_pw_nonneg charset D xs j)).
        apply IH. exact Hrj.
Qed.

(* ---------- the automaton ---------- *)

Lemma re_pathsum_pw : forall charset D xs,
  pathsum (re_wfsa charset D) xs = pw (re_wfsa charset D) (d_init D) xs.
Proof.
  intros charset D xs. unfold pathsum. cbn [re_wfsa winit].
  rewrite bsum_cons, bsum_nil. cbn [fst snd].
  change (1 * pw (re_wfsa charset D) (d_init D) xs + 0 = pw (re_wfsa charset D) (d_init D) xs)%Qc.
  ring.
Qed.

Theorem re_pathsum_nonneg : forall charset D xs, (0 <= pathsum (re_wfsa charset D) xs)%Qc.
Proof. intros charset D xs. rewrite re_pathsum_pw. apply re_pw_nonneg. Qed.

Theorem re_language_pos : forall charset D xs,
  (0 < pathsum (re_wfsa charset D) xs)%Qc <-> dfa_run charset D (d_init D) xs.
Proof. intros charset D xs. rewrite re_pathsum_pw. apply re_pw_pos_iff. Qed.

Theorem re_language : forall charset D xs,
  pathsum (re_wfsa charset D) xs <> 0%Qc <-> dfa_run charset D (d_init D) xs.
Proof.
  intros charset D xs. rewrite <- re_language_pos. split.
  - intros Hne. destruct (Qcle_lt_or_eq _ _ (re_pathsum_nonneg charset D xs)) as [H|H]; [exact H|].
    exfalso. apply Hne. symmetry. exact H.
  - intros Hp Heq. rewrite Heq in Hp. exact (Qc_lt_irrefl0 Hp).
Qed.

Theorem re_wfsa_eps_free : forall charset D, eps_free (re_wfsa charset D).
Proof.
  intros charset D ar Har.
  destruct (re_warcs_inv _ _ _ Har) as [i [x [j [w [-> _]]]]].
  unfold albl. cbn [fst snd]. discriminate.
Qed.

(* ---------- a concrete DFA ---------- *)

Local Open Scope nat_scope.
Definition exD : dfa :=
  mkD 0 [1] [0; 1] [(0, [(0, 1)]); (1, [(0, 1)])] [(0, Explicit [[7]])] [[7]].

Example exD_accepts_77 : pathsum (re_wfsa [7; 8] exD) [7; 7] = Q2Qc (1 # 4).
Proof. vm_compute. reflexivity. Qed.

Example exD_rejects_8 : pathsum (re_wfsa [7; 8] exD) [8] = 0%Qc.
Proof. vm_compute. reflexivity. Qed.

Example exD_run_77 : dfa_run [7; 8] exD 0 [7; 7].
Proof.
  apply run_cons with (outs := [(0, 1)]) (j := 1); [left; reflexivity|left; reflexivity|].
  apply run_cons with (outs := [(0, 1)]) (j := 1); [right; left; reflexivity|left; reflexivity|].
  apply run_nil with (outs := [(0, 1)]); [right; left; reflexivity|reflexivity].
Qed.

Example exD_pos_77 : (0 < pathsum (re_wfsa [7; 8] exD) [7; 7])%Qc.
Proof. apply re_language_pos. exact exD_run_77. Qed.

Print Assumptions re_pathsum_nonneg.
Print Assumptions re_language_pos.
Print Assumptions re_language.
Print Assumptions re_wfsa_eps_free.
Print Assumptions exD_accepts_77.
Print Assumptions exD_rejects_8.
Print Assumptions exD_run_77.
