(* Soundness and completeness of the checkers of model/Cky.v (in_cnf) and model/Useful.v
   (reachable, all_useful, unary_cyclic).  No axioms. *)
From Coq Require Import List Arith Bool Lia Relations.
From GV.lib Require Import Semiring BigSum.
From GV.model Require Import Cfg Transform Cky Transform2 Useful.
From GV.proofs Require Import TrimProofs.
Import ListNotations.
Local Open Scope sr_scope.

(* ---------- generic: folds whose steps only push new elements in front ---------- *)

Definition ext (R R' : list nat) : Prop := exists l, R' = l ++ R.

Lemma ext_refl R : ext R R.
Proof. exists []; reflexivity. Qed.
Lemma ext_trans R1 R2 R3 : ext R1 R2 -> ext R2 R3 -> ext R1 R3.
Proof. intros [l1 E1] [l2 E2]. subst. exists (l2 ++ l1). rewrite app_assoc. reflexivity. Qed.
Lemma ext_length R R' : ext R R' -> length R <= length R'.
Proof. intros [l E]. subst. rewrite app_length. lia. Qed.
Lemma ext_same R R' : ext R R' -> length R' = length R -> R' = R.
Proof. intros [l E] H. subst. rewrite app_length in H. destruct l; [reflexivity|simpl in H; lia]. Qed.
Lemma ext_incl R R' : ext R R' -> incl R R'.
Proof. intros [l E]. subst. apply incl_appr, incl_refl. Qed.

Section XFold.
Context {A : Type} (f : list nat -> A -> list nat).
Hypothesis f_ext : forall R a, ext R (f R a).

Lemma xfold_ext : forall l R, ext R (fold_left f l R).
Proof.
  induction l as [|a t IH]; intros R; simpl; [apply ext_refl|].
  eapply ext_trans; [apply f_ext|apply IH].
Qed.

(* a fold that adds nothing: every step was the identity *)
Lemma xfold_same : forall l R, length (fold_left f l R) = length R ->
  forall a, In a l -> f R a = R.
Proof.
  induction l as [|a0 t IH]; intros R Hlen a Ha; [destruct Ha|].
  simpl in Hlen.
  pose proof (ext_length _ _ (f_ext R a0)) as H1.
  pose proof (ext_length _ _ (xfold_ext t (f R a0))) as H2.
  assert (E : f R a0 = R) by (apply ext_same; [apply f_ext|lia]).
  rewrite E in Hlen. destruct Ha as [Ha|Ha]; [subst a0; exact E|].
  apply (IH R Hlen a Ha).
Qed.
End XFold.

Lemma xfold_inv {A} (P : list nat -> Prop) (f : list nat -> A -> list nat) : forall l,
  (forall R a, In a l -> P R -> P (f R a)) -> forall R, P R -> P (fold_left f l R).
Proof.
  induction l as [|a t IH]; intros Hstep R HR; simpl; [exact HR|].
  apply IH.
  - intros R' a' Ha'. apply Hstep. right; exact Ha'.
  - apply Hstep; [left; reflexivity|exact HR].
Qed.

Lemma xfold_id {A} (f : list nat -> A -> list nat) : forall l R,
  (forall a, In a l -> f R a = R) -> fold_left f l R = R.
Proof.
  induction l as [|a t IH]; intros R H; simpl; [reflexivity|].
  rewrite (H a (or_introl eq_refl)). apply IH. intros a' Ha'. apply H. right; exact Ha'.
Qed.

Lemma memb_spec (x : nat) (l : list nat) : memb x l = true <-> In x l.
Proof. apply mem_spec. Qed.
Lemma memb_false (x : nat) (l : list nat) : memb x l = false <-> ~ In x l.
Proof. apply mem_false. Qed.

Lemma NoDup_app_disj {A} (l1 l2 : list A) :
  NoDup l1 -> NoDup l2 -> (forall x, In x l1 -> ~ In x l2) -> NoDup (l1 ++ l2).
Proof.
  induction l1 as [|a t IH]; intros H1 H2 Hd; simpl; [exact H2|].
  inversion H1 as [|a' t' Hn Ht]; subst. constructor.
  - intros H. apply in_app_or in H. destruct H as [H|H]; [apply Hn; exact H|].
    apply (Hd a (or_introl eq_refl) H).
  - apply IH; [exact Ht|exact H2|]. intros x Hx. apply Hd. right; exact Hx.
Qed.

Lemma NoDup_filter' {A} (p : A -> bool) (l : list A) : NoDup l -> NoDup (filter p l).
Proof.
  induction 1 as [|a t Hn Hd IH]; simpl; [constructor|].
  destruct (p a); [|exact IH]. constructor; [|exact IH].
  intros H. apply filter_In in H. apply Hn. exact (proj1 H).
Qed.

(* nonterminals of a list of symbols *)
Definition nts_of (l : list sym) : list nat :=
  flat_map (fun y => match y with N x => [x] | T _ => [] end) l.

Lemma nts_of_In (l : list sym) x : In x (nts_of l) <-> In (N x) l.
Proof.
  unfold nts_of. rewrite in_flat_map. split.
  - intros [[a|y] [Hy H]]; [destruct H|]. destruct H as [H|[]]. subst y. exact Hy.
  - intros H. exists (N x). split; [exact H|left; reflexivity].
Qed.

Lemma nts_of_length (l : list sym) : length (nts_of l) <= length l.
Proof. induction l as [|[a|x] t IH]; simpl; lia. Qed.

Section UsefulProofs.
Variable S : SR.

(* ================= 7. in_cnf ================= *)

Theorem in_cnf_spec : forall s (G : grammar S), in_cnf s G = true <->
  (forall r, In r G ->
     (rbody r = [] /\ rhead r = s) \/ (exists a, rbody r = [T a]) \/
     (exists y z, rbody r = [N y; N z] /\ y <> s /\ z <> s)).
Proof.
  intros s G. unfold in_cnf. rewrite forallb_forall. split; intros H r Hr; specialize (H r Hr).
  - unfold cnf_rule in H. destruct (rbody r) as [|[a|y] [|[b|z] [|u t]]]; try discriminate.
    + left. split; [reflexivity|apply Nat.eqb_eq; exact H].
    + right; left. exists a; reflexivity.
    + right; right. exists y, z. apply andb_true_iff in H. destruct H as [H1 H2].
      apply negb_true_iff in H1. apply negb_true_iff in H2.
      apply Nat.eqb_neq in H1. apply Nat.eqb_neq in H2. repeat split; assumption.
  - unfold cnf_rule. destruct H as [[E Eh]|[[a E]|[y [z [E [Hy Hz]]]]]]; rewrite E.
    + apply Nat.eqb_eq; exact Eh.
    + reflexivity.
    + apply Nat.eqb_neq in Hy. apply Nat.eqb_neq in Hz. rewrite Hy, Hz. reflexivity.
Qed.

(* ================= 8. reachability ================= *)

Inductive reach (G : grammar S) (s : nat) : nat -> Prop :=
| reach_start : reach G s s
| reach_rule : forall r y, In r G -> reach G s (rhead r) -> In (N y) (rbody r) -> reach G s y.

Definition rsym (R : list nat) (y : sym) : list nat :=
  match y with N x => if memb x R then R else x :: R | T _ => R end.
Definition rstep (R : list nat) (r : rule S) : list nat :=
  if memb (rhead r) R then fold_left rsym (rbody r) R else R.

Lemma reach_pass_fold (G : grammar S) R : reach_pass S G R = fold_left rstep G R.
Proof. reflexivity. Qed.

Lemma rsym_ext R y : ext R (rsym R y).
Proof.
  destruct y as [a|x]; simpl; [apply ext_refl|].
  destruct (memb x R); [apply ext_refl|]. exists [x]; reflexivity.
Qed.

Lemma rstep_ext R r : ext R (rstep R r).
Proof.
  unfold rstep. destruct (memb (rhead r) R); [|apply ext_refl].
  apply xfold_ext. exact rsym_ext.
Qed.

Lemma reach_pass_ext (G : grammar S) R : ext R (reach_pass S G R).
Proof. rewrite reach_pass_fold. apply xfold_ext. exact rstep_ext. Qed.

Lemma reach_iter_ext (G : grammar S) : forall fuel R, ext R (reach_iter S G fuel R).
Proof.
  induction fuel as [|f IH]; intros R; simpl; [apply ext_refl|].
  eapply ext_trans; [apply reach_pass_ext|apply IH].
Qed.

Lemma rsym_id R y : rsym R y = R <-> (forall x, y = N x -> In x R).
Proof.
  split.
  - intros H x E. subst y. simpl in H. destruct (memb x R) eqn:Em; [apply memb_spec; exact Em|].
    exfalso. assert (Hl : length (x :: R) = length R) by (rewrite H; reflexivity).
    simpl in Hl. lia.
  - intros H. destruct y as [a|x]; simpl; [reflexivity|].
    rewrite (proj2 (memb_spec x R) (H x eq_refl)). reflexivity.
Qed.

Lemma rstep_id R r :
  rstep R r = R <-> (In (rhead r) R -> forall y, In (N y) (rbody r) -> In y R).
Proof.
  split.
  - intros H Hh y Hy. unfold rstep in H. rewrite (proj2 (memb_spec _ _) Hh) in H.
    assert (Hl : length (fold_left rsym (rbody r) R) = length R) by (rewrite H; reflexivity).
    pose proof (xfold_same rsym rsym_ext (rbody r) R Hl (N y) Hy) as E.
    apply (proj1 (rsym_id R (N y)) E y eq_refl).
  - intros H. unfold rstep. destruct (memb (rhead r) R) eqn:Em; [|reflexivity].
    apply memb_spec in Em. apply xfold_id. intros y Hy. apply rsym_id.
    intros x E. subst y. apply (H Em x Hy).
Qed.

Definition rclosed (G : grammar S) (R : list nat) : Prop :=
  forall r, In r G -> In (rhead r) R -> forall y, In (N y) (rbody r) -> In y R.

Lemma reach_pass_same_closed (G : grammar S) R :
  length (reach_pass S G R) = length R -> rclosed G R.
Proof.
  intros H r Hr. rewrite reach_pass_fold in H.
  apply rstep_id. apply (xfold_same rstep rstep_ext G R H r Hr).
Qed.

Lemma reach_pass_closed_id (G : grammar S) R : rclosed G R -> reach_pass S G R = R.
Proof.
  intros Hcl. rewrite reach_pass_fold. apply xfold_id. intros r Hr. apply rstep_id. apply Hcl; exact Hr.
Qed.

Lemma reach_iter_closed_id (G : grammar S) fuel R : rclosed G R -> reach_iter S G fuel R = R.
Proof.
  intros Hcl. induction fuel as [|f IH]; simpl; [reflexivity|].
  rewrite reach_pass_closed_id by exact Hcl. exact IH.
Qed.

(* invariants of a pass *)
Lemma rstep_inv (P : list nat -> Prop) (r : rule S) :
  (forall R y, In y (rbody r) -> In (rhead r) R -> P R -> P (rsym R y)) ->
  forall R, P R -> P (rstep R r).
Proof.
  intros Hstep R HR. unfold rstep. destruct (memb (rhead r) R) eqn:Em; [|exact HR].
  apply memb_spec in Em.
  assert (H : (fun R' => In (rhead r) R' /\ P R') (fold_left rsym (rbody r) R)).
  { apply xfold_inv; [|split; assumption].
    intros R' y Hy [Hh HP]. split; [apply (ext_incl _ _ (rsym_ext R' y)); exact Hh|].
    apply Hstep; assumption. }
  exact (proj2 H).
Qed.

Lemma reach_pass_inv (P : list nat -> Prop) (G : grammar S) :
  (forall R r y, In r G -> In y (rbody r) -> In (rhead r) R -> P R -> P (rsym R y)) ->
  forall R, P R -> P (reach_pass S G R).
Proof.
  intros Hstep R HR. rewrite reach_pass_fold. apply xfold_inv; [|exact HR].
  intros R' r Hr HP. apply rstep_inv; [|exact HP].
  intros R'' y Hy Hh HP'. apply (Hstep R'' r y); assumption.
Qed.

Lemma reach_iter_inv (P : list nat -> Prop) (G : grammar S) :
  (forall R r y, In r G -> In y (rbody r) -> In (rhead r) R -> P R -> P (rsym R y)) ->
  forall fuel R, P R -> P (reach_iter S G fuel R).
Proof.
  intros Hstep fuel. induction fuel as [|f IH]; intros R HR; simpl; [exact HR|].
  apply IH. apply reach_pass_inv; assumption.
Qed.

Theorem reachable_sound : forall s (G : grammar S) X, In X (reachable s G) -> reach G s X.
Proof.
  intros s G. unfold reachable.
  apply (reach_iter_inv (fun R => forall X, In X R -> reach G s X) G).
  - intros R r y Hr Hy Hh HP X HX. destruct y as [a|x]; simpl in HX; [apply HP; exact HX|].
    destruct (memb x R); [apply HP; exact HX|].
    destruct HX as [HX|HX]; [|apply HP; exact HX]. subst X.
    apply (reach_rule G s r x Hr (HP _ Hh) Hy).
  - intros X [HX|[]]. subst X. apply reach_start.
Qed.

(* the universe of names that can ever be added *)
Definition runiv (s : nat) (G : grammar S) : list nat := s :: nts_of (flat_map (fun r => rbody r) G).

Lemma runiv_length s (G : grammar S) : length (runiv s G) <= Datatypes.S (nts_count S G).
Proof.
  unfold runiv, nts_count. simpl.
  pose proof (nts_of_length (flat_map (fun r : rule S => rbody r) G)). lia.
Qed.

Lemma reach_pass_NoDup (G : grammar S) R : NoDup R -> NoDup (reach_pass S G R).
Proof.
  apply (reach_pass_inv (@NoDup nat) G). intros R' r y _ _ _ HR'.
  destruct y as [a|x]; simpl; [exact HR'|].
  destruct (memb x R') eqn:Em; [exact HR'|]. constructor; [apply memb_false; exact Em|exact HR'].
Qed.

Lemma reach_pass_univ s (G : grammar S) R : incl R (runiv s G) -> incl (reach_pass S G R) (runiv s G).
Proof.
  apply (reach_pass_inv (fun R => incl R (runiv s G)) G). intros R' r y Hr Hy _ HR'.
  destruct y as [a|x]; simpl; [exact HR'|].
  destruct (memb x R'); [exact HR'|]. intros z [Hz|Hz]; [|apply HR'; exact Hz]. subst z.
  right. apply nts_of_In. apply in_flat_map. exists r. split; assumption.
Qed.

(* pigeonhole: with enough fuel the iteration reaches a closed set *)
Lemma reach_iter_closed s (G : grammar S) : forall fuel R,
  NoDup R -> incl R (runiv s G) -> length (runiv s G) < fuel + length R ->
  rclosed G (reach_iter S G fuel R).
Proof.
  induction fuel as [|f IH]; intros R Hnd Hincl Hlen.
  - exfalso. pose proof (NoDup_incl_length Hnd Hincl). lia.
  - cbn [reach_iter]. destruct (Nat.eq_dec (length (reach_pass S G R)) (length R)) as [E|E].
    + pose proof (reach_pass_same_closed G R E) as Hcl.
      rewrite reach_pass_closed_id by exact Hcl.
      rewrite reach_iter_closed_id by exact Hcl. exact Hcl.
    + apply IH.
      * apply reach_pass_NoDup; exact Hnd.
      * apply reach_pass_univ; exact Hincl.
      * pose proof (ext_length _ _ (reach_pass_ext G R)). lia.
Qed.

Theorem reachable_closed : forall s (G : grammar S), rclosed G (reachable s G).
Proof.
  intros s G. unfold reachable. apply (reach_iter_closed s).
  - constructor; [intros []|constructor].
  - intros x [Hx|[]]. subst x. left; reflexivity.
  - pose proof (runiv_length s G). cbn [length]. lia.
Qed.

Lemma reachable_start : forall s (G : grammar S), In s (reachable s G).
Proof.
  intros s G. unfold reachable.
  apply (ext_incl _ _ (reach_iter_ext G (Datatypes.S (nts_count S G)) [s])). left; reflexivity.
Qed.

Theorem reachable_complete_if_closed : forall s (G : grammar S) R,
  In s R -> rclosed G R -> forall X, reach G s X -> In X R.
Proof.
  intros s G R Hs Hcl X HX. induction HX as [|r y Hr _ IH Hy]; [exact Hs|].
  apply (Hcl r Hr IH y Hy).
Qed.

Theorem reachable_complete : forall s (G : grammar S) X, reach G s X -> In X (reachable s G).
Proof.
  intros s G. apply reachable_complete_if_closed; [apply reachable_start|apply reachable_closed].
Qed.

Theorem reachable_spec : forall s (G : grammar S) X, In X (reachable s G) <-> reach G s X.
Proof. intros s G X; split; [apply reachable_sound|apply reachable_complete]. Qed.

(* ================= 9. all_useful ================= *)

Theorem all_useful_spec : forall s (G : grammar S), all_useful s G = true <->
  (forall r, In r G ->
     (productive G (rhead r) /\ reach G s (rhead r)) /\
     (forall x, In (N x) (rbody r) -> productive G x /\ reach G s x)).
Proof.
  intros s G. unfold all_useful. cbv zeta. rewrite forallb_forall.
  split; intros H r Hr; specialize (H r Hr).
  - apply andb_true_iff in H. destruct H as [H12 H3].
    apply andb_true_iff in H12. destruct H12 as [H1 H2].
    apply memb_spec in H1. apply memb_spec in H2.
    split.
    + split; [apply generating_spec; exact H1|apply reachable_sound; exact H2].
    + intros x Hx. rewrite forallb_forall in H3. specialize (H3 (N x) Hx). simpl in H3.
      apply andb_true_iff in H3. destruct H3 as [H4 H5].
      apply memb_spec in H4. apply memb_spec in H5.
      split; [apply generating_spec; exact H4|apply reachable_sound; exact H5].
  - destruct H as [[Hp Hr'] Hb].
    apply andb_true_iff. split; [apply andb_true_iff; split|].
    + apply memb_spec. apply generating_spec. exact Hp.
    + apply memb_spec. apply reachable_complete. exact Hr'.
    + apply forallb_forall. intros [a|x] Hy; [reflexivity|].
      destruct (Hb x Hy) as [Hpx Hrx]. apply andb_true_iff. split; apply memb_spec.
      * apply generating_spec. exact Hpx.
      * apply reachable_complete. exact Hrx.
Qed.

(* ================= 10. unary cycles ================= *)

Definition uedge (G : grammar S) (X Y : nat) : Prop :=
  exists r, In r G /\ rhead r = X /\ rbody r = [N Y].

Lemma unary_succ_spec (G : grammar S) X y : In y (unary_succ G X) <-> uedge G X y.
Proof.
  unfold unary_succ, uedge. rewrite in_flat_map. split.
  - intros [r [Hr H]]. destruct (rbody r) as [|[a|z] [|u t]] eqn:E; try (destruct H; fail).
    destruct (Nat.eqb (rhead r) X) eqn:Eh; [|destruct H].
    destruct H as [H|[]]. subst z. exists r. apply Nat.eqb_eq in Eh. repeat split; assumption.
  - intros [r [Hr [Eh Eb]]]. exists r. split; [exact Hr|].
    rewrite Eb, Eh, Nat.eqb_refl. left; reflexivity.
Qed.

Definition bfs_fresh (G : grammar S) (front seen : list nat) : list nat :=
  filter (fun y => negb (memb y seen)) (nodup Nat.eq_dec (flat_map (unary_succ G) front)).

Lemma reach_from_S (G : grammar S) f front seen :
  reach_from G (Datatypes.S f) front seen =
  match bfs_fresh G front seen with
  | [] => seen
  | _ => reach_from G f (bfs_fresh G front seen) (bfs_fresh G front seen ++ seen)
  end.
Proof. reflexivity. Qed.

Lemma bfs_fresh_In (G : grammar S) front seen y :
  In y (bfs_fresh G front seen) <-> (exists x, In x front /\ uedge G x y) /\ ~ In y seen.
Proof.
  unfold bfs_fresh. rewrite filter_In, nodup_In, in_flat_map, negb_true_iff, memb_false.
  split; intros [[x [Hx H]] Hn]; (split; [exists x; split; [exact Hx|apply unary_succ_spec; exact H]|exact Hn]).
Qed.

Lemma bfs_fresh_NoDup (G : grammar S) front seen : NoDup (bfs_fresh G front seen).
Proof. unfold bfs_fresh. apply NoDup_filter'. apply NoDup_nodup. Qed.

Lemma reach_from_sound (G : grammar S) X : forall fuel front seen,
  (forall y, In y front -> y = X \/ clos_trans nat (uedge G) X y) ->
  (forall y, In y seen -> clos_trans nat (uedge G) X y) ->
  forall y, In y (reach_from G fuel front seen) -> clos_trans nat (uedge G) X y.
Proof.
  induction fuel as [|f IH]; intros front seen Hf Hs y Hy; [apply Hs; exact Hy|].
  rewrite reach_from_S in Hy.
  assert (Hfr : forall z, In z (bfs_fresh G front seen) -> clos_trans nat (uedge G) X z).
  { intros z Hz. apply bfs_fresh_In in Hz. destruct Hz as [[x [Hx He]] _].
    destruct (Hf x Hx) as [E|Hc].
    - subst x. apply t_step. exact He.
    - eapply t_trans; [exact Hc|apply t_step; exact He]. }
  destruct (bfs_fresh G front seen) as [|z0 t] eqn:Ef; [apply Hs; exact Hy|].
  apply (IH (z0 :: t) ((z0 :: t) ++ seen)); [| |exact Hy].
  - intros z Hz. right. apply Hfr; exact Hz.
  - intros z Hz. apply in_app_or in Hz. destruct Hz as [Hz|Hz]; [apply Hfr; exact Hz|apply Hs; exact Hz].
Qed.

Theorem unary_cyclic_sound : forall (G : grammar S),
  unary_cyclic G = true -> exists X, clos_trans nat (uedge G) X X.
Proof.
  intros G H. unfold unary_cyclic in H. apply existsb_exists in H.
  destruct H as [X [_ HX]]. exists X. apply memb_spec in HX.
  apply (reach_from_sound G X (Datatypes.S (length G)) [X] []); [| |exact HX].
  - intros y [Hy|[]]. left; symmetry; exact Hy.
  - intros y [].
Qed.

(* targets of unary rules: the universe of the search *)
Definition uuniv (G : grammar S) : list nat :=
  flat_map (fun r => match rbody r with [N y] => [y] | _ => [] end) G.

Lemma uuniv_length (G : grammar S) : length (uuniv G) <= length G.
Proof.
  unfold uuniv. induction G as [|r t IH]; simpl; [lia|].
  rewrite app_length. destruct (rbody r) as [|[a|z] [|u v]]; simpl; lia.
Qed.

Lemma uuniv_In (G : grammar S) x y : uedge G x y -> In y (uuniv G).
Proof.
  intros [r [Hr [_ Eb]]]. unfold uuniv. apply in_flat_map. exists r. split; [exact Hr|].
  rewrite Eb. left; reflexivity.
Qed.

(* with enough fuel the search returns a set closed under the unary edges *)
Lemma reach_from_closed (G : grammar S) X : forall fuel front seen,
  NoDup seen -> incl seen (uuniv G) -> length (uuniv G) < fuel + length seen ->
  (forall y, y = X \/ In y seen -> In y front \/ (forall z, uedge G y z -> In z seen)) ->
  forall y, y = X \/ In y (reach_from G fuel front seen) ->
  forall z, uedge G y z -> In z (reach_from G fuel front seen).
Proof.
  induction fuel as [|f IH]; intros front seen Hnd Hincl Hlen Hinv.
  - exfalso. pose proof (NoDup_incl_length Hnd Hincl). simpl in Hlen. lia.
  - rewrite reach_from_S.
    pose proof (bfs_fresh_In G front seen) as Hfr.
    pose proof (bfs_fresh_NoDup G front seen) as Hfnd.
    destruct (bfs_fresh G front seen) as [|z0 t] eqn:Ef.
    + intros y Hy z Hz. destruct (Hinv y Hy) as [Hyf|Hex]; [|apply Hex; exact Hz].
      destruct (in_dec Nat.eq_dec z seen) as [Hin|Hnin]; [exact Hin|].
      exfalso. apply (proj2 (Hfr z)). split; [exists y; split; assumption|exact Hnin].
    + apply IH.
      * apply NoDup_app_disj; [exact Hfnd|exact Hnd|].
        intros x Hx. apply (proj1 (Hfr x)) in Hx. exact (proj2 Hx).
      * intros x Hx. apply in_app_or in Hx. destruct Hx as [Hx|Hx]; [|apply Hincl; exact Hx].
        apply (proj1 (Hfr x)) in Hx. destruct Hx as [[x0 [_ He]] _]. apply (uuniv_In G x0 x He).
      * rewrite app_length. simpl. simpl in Hlen. lia.
      * intros y Hy.
        assert (Hcase : In y (z0 :: t) \/ (y = X \/ In y seen)).
        { destruct Hy as [Hy|Hy]; [right; left; exact Hy|].
          apply in_app_or in Hy. destruct Hy as [Hy|Hy]; [left; exact Hy|right; right; exact Hy]. }
        destruct Hcase as [Hy1|Hy2]; [left; exact Hy1|]. right.
        intros z Hz. destruct (Hinv y Hy2) as [Hyf|Hex].
        -- destruct (in_dec Nat.eq_dec z seen) as [Hin|Hnin]; [apply in_or_app; right; exact Hin|].
           apply in_or_app. left. apply (proj2 (Hfr z)).
           split; [exists y; split; assumption|exact Hnin].
        -- apply in_or_app. right. apply Hex; exact Hz.
Qed.

Theorem unary_cyclic_complete : forall (G : grammar S),
  (exists X, clos_trans nat (uedge G) X X) -> unary_cyclic G = true.
Proof.
  intros G [X HX]. unfold unary_cyclic. apply existsb_exists. exists X. split.
  - apply nodup_In. apply clos_trans_t1n in HX.
    assert (He : exists z, uedge G X z).
    { assert (Hg : forall x y, clos_trans_1n nat (uedge G) x y -> exists z, uedge G x z).
      { intros x y Hxy. destruct Hxy as [y He|z w He _]; [exists y|exists z]; exact He. }
      apply (Hg X X HX). }
    destruct He as [z [r [Hr [Eh _]]]]. rewrite <- Eh. apply in_map. exact Hr.
  - apply memb_spec.
    pose proof (reach_from_closed G X (Datatypes.S (length G)) [X] []) as Hcl.
    assert (Hcl' : forall y, y = X \/ In y (reach_from G (Datatypes.S (length G)) [X] []) ->
                   forall z, uedge G y z -> In z (reach_from G (Datatypes.S (length G)) [X] [])).
    { apply Hcl.
      - constructor.
      - intros x [].
      - pose proof (uuniv_length G). simpl. lia.
      - intros y [Hy|[]]. left. left. symmetry; exact Hy. }
    clear Hcl. apply clos_trans_tn1 in HX.
    assert (Hall : forall z, clos_trans_n1 nat (uedge G) X z ->
                   In z (reach_from G (Datatypes.S (length G)) [X] [])).
    { intros z Hz. induction Hz as [z He|y z He _ IH].
      - apply (Hcl' X (or_introl eq_refl) z He).
      - apply (Hcl' y (or_intror IH) z He). }
    apply Hall. exact HX.
Qed.

Theorem unary_cyclic_spec : forall (G : grammar S),
  unary_cyclic G = true <-> exists X, clos_trans nat (uedge G) X X.
Proof. intros G; split; [apply unary_cyclic_sound|apply unary_cyclic_complete]. Qed.

End UsefulProofs.

Print Assumptions in_cnf_spec.
Print Assumptions reachable_sound.
Print Assumptions reachable_closed.
Print Assumptions reachable_complete_if_closed.
Print Assumptions reachable_complete.
Print Assumptions reachable_spec.
Print Assumptions all_useful_spec.
Print Assumptions unary_cyclic_sound.
Print Assumptions unary_cyclic_complete.
Print Assumptions unary_cyclic_spec.
