(* Over the expectation semiring the Kleene iteration of the LIFTED grammar (the lifting of
   CFG.expected_length: rule weight w becomes <w, w * #terminals(body)>) computes, at every
   height h, the pair
       < total weight of the derivation trees of height <= h,
         sum over those trees of weight * length of the yield >
   of the ORIGINAL grammar: "over the expectation semiring the same computation yields the
   weight-weighted total string length".  Valid over any commutative semiring. *)
From Coq Require Import List Arith Bool Lia NArith.
From GV.lib Require Import Semiring BigSum.
From GV.model Require Import Cfg Agenda Expect.
From GV.proofs Require Import CfgTrees AgendaProofs ProductProofs ExpectProofs TotalStringsProofs.
Import ListNotations.
Local Open Scope sr_scope.

(* ---------- generic list lemmas ---------- *)

Lemma flat_map_map_l {A B C} (g : A -> B) (f : B -> list C) (l : list A) :
  flat_map f (map g l) = flat_map (fun a => f (g a)) l.
Proof. induction l as [|a t IH]; simpl; [reflexivity|rewrite IH; reflexivity]. Qed.

Lemma map_flat_map_l {A B C} (f : B -> C) (g : A -> list B) (l : list A) :
  map f (flat_map g l) = flat_map (fun a => map f (g a)) l.
Proof. induction l as [|a t IH]; simpl; [reflexivity|rewrite map_app, IH; reflexivity]. Qed.

Lemma flat_map_ext_l {A B} (f g : A -> list B) (l : list A) :
  (forall a, f a = g a) -> flat_map f l = flat_map g l.
Proof. intros H. induction l as [|a t IH]; simpl; [reflexivity|rewrite H, IH; reflexivity]. Qed.

Lemma combine_seq_map {A B} (f : A -> B) (l : list A) : forall s,
  combine (seq s (length (map f l))) (map f l)
  = map (fun ir => (fst ir, f (snd ir))) (combine (seq s (length l)) l).
Proof.
  induction l as [|x l IH]; intros s; simpl; [reflexivity|].
  rewrite IH. reflexivity.
Qed.

Section ExpectTotal.
Variable S : SR.
Add Ring SRing : (sth S).

(* the lifted grammar of CFG.expected_length, over the expectation semiring *)
Definition glift (G : grammar S) : grammar (ExpSR S) :=
  map (fun r => lift_rule r : rule (ExpSR S)) G.

(* ---------- 1. the enumeration of trees commutes with lifting ---------- *)

Lemma rhead_lift (r : rule S) : @rhead (ExpSR S) (lift_rule r) = rhead r.
Proof. reflexivity. Qed.
Lemma rbody_lift (r : rule S) : @rbody (ExpSR S) (lift_rule r) = rbody r.
Proof. reflexivity. Qed.

Lemma indexed_lift (G : grammar S) :
  indexed (ExpSR S) (glift G)
  = map (fun ir => (fst ir, lift_rule (snd ir) : rule (ExpSR S))) (indexed S G).
Proof. unfold indexed, glift. apply combine_seq_map. Qed.

Lemma forests_lift (tr : nat -> list (tree S)) (tr' : nat -> list (tree (ExpSR S))) :
  (forall Y, tr' Y = map (tlift S) (tr Y)) ->
  forall body, forests_of tr' body = map (flift S) (forests_of tr body).
Proof.
  intros Htr. induction body as [|s rest IH]; [reflexivity|].
  destruct s as [a|Y]; cbn [forests_of].
  - rewrite IH, !map_map. apply map_ext; intros fo. reflexivity.
  - rewrite Htr, flat_map_map_l, map_flat_map_l. apply flat_map_ext_l; intros t.
    rewrite IH, !map_map. apply map_ext; intros fo. reflexivity.
Qed.

Theorem trees_lift : forall (G : grammar S) (h X : nat),
  trees (glift G) h X = map (tlift S) (trees G h X).
Proof.
  intros G h; induction h as [|h IH]; intros X; [reflexivity|].
  cbn [trees]. rewrite indexed_lift, flat_map_map_l, map_flat_map_l.
  apply flat_map_ext_l; intros [i r]. cbn [fst snd].
  rewrite rhead_lift, rbody_lift.
  destruct (Nat.eqb (rhead r) X); [|reflexivity].
  rewrite (forests_lift (trees G h) (trees (glift G) h) IH), !map_map.
  apply map_ext; intros fo. reflexivity.
Qed.

(* ---------- 2. sums of pairs are componentwise ---------- *)

Lemma bsum_pair {A} (l : list A) (u v : A -> S) :
  bsum (S := ExpSR S) l (fun a => (u a, v a)) = (bsum l u, bsum l v).
Proof.
  induction l as [|a t IH]; [reflexivity|].
  rewrite !bsum_cons, IH. reflexivity.
Qed.

(* ---------- 3. the Kleene iterate of the lifted grammar ---------- *)

Theorem expectation_iterate : forall (G : grammar S) (h X : nat),
  bu_iter (glift G) h X
  = (bu_iter G h X,
     bsum (trees G h X) (fun t => tweight t * nat_s (length (tyield t)))).
Proof.
  intros G h X.
  rewrite (bu_iter_trees (ExpSR S)), trees_lift, bsum_map.
  rewrite (bu_iter_trees S).
  rewrite <- bsum_pair. apply bsum_ext; intros t Ht.
  apply trees_sound in Ht. destruct Ht as [Hw _].
  exact (expectation_tree_weight S G t X Hw).
Qed.

(* the two components separately *)
Corollary expectation_iterate_fst : forall (G : grammar S) (h X : nat),
  fst (bu_iter (glift G) h X) = bu_iter G h X.
Proof. intros. rewrite expectation_iterate. reflexivity. Qed.

Corollary expectation_iterate_snd : forall (G : grammar S) (h X : nat),
  snd (bu_iter (glift G) h X)
  = bsum (trees G h X) (fun t => tweight t * nat_s (length (tyield t))).
Proof. intros. rewrite expectation_iterate. reflexivity. Qed.

(* ---------- 4. the string-level reading ---------- *)

(* the weight-weighted total yield length is the sum over all strings of
   (height-h derivation sum of the string) * (its length) *)
Theorem weighted_length_is_sum_of_strings :
  forall (G : grammar S) (V : list nat) (h X L : nat), NoDup V ->
  yields_within S G h X V L ->
  bsum (trees G h X) (fun t => tweight t * nat_s (length (tyield t)))
  = bsum (words_le V L) (fun xs => W G h X xs * nat_s (length xs)).
Proof.
  intros G V h X L HV Hy.
  transitivity (bsum (words_le V L) (fun xs =>
                  bsum (trees G h X) (fun t => if yields xs t
                                               then tweight t * nat_s (length (tyield t)) else 0))).
  2:{ apply bsum_ext; intros xs _. rewrite W_trees, bsum_filter, <- bsum_mul_r.
      apply bsum_ext; intros t _. unfold yields.
      destruct (list_eqb Nat.eqb (tyield t) xs) eqn:E; [|ring].
      apply list_eqb_nat_spec in E. rewrite E. reflexivity. }
  rewrite bsum_swap. apply bsum_ext; intros t Ht. unfold yields.
  rewrite (bsum_delta S (fun a b : list nat => list_eqb Nat.eqb b a)
             (fun a b => conj (fun H => eq_sym (proj1 (list_eqb_nat_spec b a) H))
                              (fun H => proj2 (list_eqb_nat_spec b a) (eq_sym H)))
             (words_le V L) (tyield t) (fun _ => tweight t * nat_s (length (tyield t)))
             (words_le_NoDup V HV L)).
  assert (E : existsb (fun a => list_eqb Nat.eqb (tyield t) a) (words_le V L) = true).
  { apply existsb_exists. exists (tyield t). split; [apply Hy; exact Ht|].
    apply list_eqb_nat_spec; reflexivity. }
  rewrite E. reflexivity.
Qed.

Corollary expectation_iterate_strings :
  forall (G : grammar S) (V : list nat) (h X L : nat), NoDup V ->
  yields_within S G h X V L ->
  bu_iter (glift G) h X
  = (bsum (words_le V L) (fun xs => W G h X xs),
     bsum (words_le V L) (fun xs => W G h X xs * nat_s (length xs))).
Proof.
  intros G V h X L HV Hy. rewrite expectation_iterate.
  rewrite (total_is_sum_of_strings S G V h X L HV Hy).
  rewrite (weighted_length_is_sum_of_strings G V h X L HV Hy). reflexivity.
Qed.

End ExpectTotal.

Print Assumptions trees_lift.
Print Assumptions bsum_pair.
Print Assumptions expectation_iterate.
Print Assumptions weighted_length_is_sum_of_strings.
Print Assumptions expectation_iterate_strings.

(* ---------- non-vacuity: a concrete grammar over N ---------- *)
Local Close Scope sr_scope.

Definition ex_GE : grammar NSR :=
  [ (2%N, 0, [T 1; N 1]); (3%N, 1, [T 0]); (5%N, 1, []) ].

(* trees for 0 at height 3: yield [1;0], weight 6, length 2 -> 12; yield [1], weight 10,
   length 1 -> 10; total weight 16, weight-weighted total length 22 *)
Example ex_GE_iterate : bu_iter (glift NSR ex_GE) 3 0 = (16%N, 22%N).
Proof. vm_compute. reflexivity. Qed.

Example ex_GE_sides :
  bu_iter ex_GE 3 0 = 16%N /\
  bsum (trees ex_GE 3 0) (fun t => smul (tweight t) (nat_s (length (tyield t)))) = 22%N /\
  bsum (words_le [0; 1] 2) (fun xs => smul (W ex_GE 3 0 xs) (nat_s (length xs))) = 22%N /\
  map (fun t => (tyield t, tweight t)) (trees ex_GE 3 0) = [([1; 0], 6%N); ([1], 10%N)].
Proof. vm_compute. repeat split; reflexivity. Qed.

Print Assumptions ex_GE_iterate.
Print Assumptions ex_GE_sides.
