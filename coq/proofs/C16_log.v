(* Semiring laws for the regenerated Log class (scores in R ∪ {-inf}). *)
From Coq Require Import Reals Lra Psatz Bool.
From GV.lib Require Import NumDialect.
From GV.gen Require Import Gen_Semiring.
Import RD.
Local Open Scope R_scope.
Import RR.Log.

Definition lse (a b : R) : R := ln (exp a + exp b).

Lemma L_spec x y : x + ln (1 + exp (y - x)) = ln (exp x + exp y).
Proof. rewrite <- (ln_exp x) at 1. rewrite <- ln_mult; [|apply exp_pos|pose proof (exp_pos (y-x)); lra].
  f_equal. rewrite Rmult_plus_distr_l, <- exp_plus. f_equal; [ring|f_equal; ring]. Qed.

Lemma kposb_pos x : 0 < x -> kposb x = true.
Proof. intros; unfold kposb; destruct (Rlt_dec 0 x); [reflexivity|contradiction]. Qed.

Lemma add_fin a b : add (Fin a) (Fin b) = Fin (lse a b).
Proof. unfold add, zero, eeqb, egtb, eadd, esub, eexp, elog, elit, lse. simpl.
  unfold kgtb. destruct (Rlt_dec b a).
  - rewrite kposb_pos by (pose proof (exp_pos (b - a)); lra). f_equal. apply L_spec.
  - rewrite kposb_pos by (pose proof (exp_pos (a - b)); lra). f_equal. rewrite L_spec. f_equal; ring. Qed.

Lemma add_neg_l a : add NegInf a = a. Proof. reflexivity. Qed.
Lemma add_neg_r a : add a NegInf = a. Proof. destruct a; reflexivity. Qed.
Lemma mul_fin a b : mul (Fin a) (Fin b) = Fin (a + b). Proof. reflexivity. Qed.
Lemma mul_neg_l a : mul NegInf a = NegInf. Proof. reflexivity. Qed.
Lemma mul_neg_r a : mul a NegInf = NegInf. Proof. destruct a; reflexivity. Qed.

Lemma exp_lse a b : exp (lse a b) = exp a + exp b.
Proof. unfold lse. apply exp_ln. pose proof (exp_pos a); pose proof (exp_pos b); lra. Qed.

Lemma add_assoc a b c : add a (add b c) = add (add a b) c.
Proof. destruct a as [|a], b as [|b], c as [|c]; rewrite ?add_neg_l, ?add_neg_r, ?add_fin, ?add_neg_l, ?add_neg_r; try reflexivity.
  f_equal. unfold lse at 1 3. rewrite !exp_lse. f_equal; ring. Qed.
Lemma add_comm a b : add a b = add b a.
Proof. destruct a as [|a], b as [|b]; rewrite ?add_neg_l, ?add_neg_r, ?add_fin; try reflexivity. unfold lse; f_equal; f_equal; ring. Qed.
Lemma add_0_l a : add zero a = a. Proof. reflexivity. Qed.
Lemma mul_assoc a b c : mul a (mul b c) = mul (mul a b) c.
Proof. destruct a as [|a], b as [|b], c as [|c]; try reflexivity. rewrite !mul_fin. f_equal; ring. Qed.
Lemma mul_comm a b : mul a b = mul b a.
Proof. destruct a as [|a], b as [|b]; try reflexivity. rewrite !mul_fin. f_equal; ring. Qed.
Lemma mul_1_l a : mul one a = a.
Proof. destruct a as [|a]; try reflexivity. unfold one, elit. rewrite mul_fin. f_equal; ring. Qed.
Lemma mul_0_l a : mul zero a = zero. Proof. reflexivity. Qed.
Lemma lse_shift a b c : a + lse b c = lse (a + b) (a + c).
Proof. unfold lse. rewrite !exp_plus, <- Rmult_plus_distr_l, ln_mult; [rewrite ln_exp; reflexivity|apply exp_pos|].
  pose proof (exp_pos b); pose proof (exp_pos c); lra. Qed.
Lemma distr_l a b c : mul a (add b c) = add (mul a b) (mul a c).
Proof. destruct a as [|a], b as [|b], c as [|c];
  rewrite ?add_neg_l, ?add_neg_r, ?add_fin, ?mul_neg_l, ?mul_neg_r, ?mul_fin, ?add_neg_l, ?add_neg_r, ?add_fin; try reflexivity.
  f_equal. apply lse_shift. Qed.
Lemma distr_r a b c : mul (add b c) a = add (mul b a) (mul c a).
Proof. rewrite (mul_comm (add b c) a), (mul_comm b a), (mul_comm c a). apply distr_l. Qed.

(* star on the convergence domain: score < 0 (including -inf) *)
Definition neg (a : T) := match a with NegInf => True | Fin x => x < 0 end.
Lemma star_l a : neg a -> star a = add one (mul a (star a)).
Proof. destruct a as [|x]; simpl; intros Hx.
  - unfold star, eexp, eopp, eadd, elit, elog. rewrite kposb_pos by lra.
    unfold one, elit. rewrite mul_neg_l, add_neg_r. f_equal.
    replace (1 + - 0) with 1 by ring. rewrite ln_1; ring.
  - assert (He : exp x < 1) by (rewrite <- exp_0; apply exp_increasing; assumption).
    unfold star, eexp, eopp, eadd, elit, elog. rewrite kposb_pos by lra.
    unfold one, elit. rewrite mul_fin, add_fin. f_equal. unfold lse.
    rewrite exp_0, exp_plus, exp_Ropp, exp_ln by lra.
    rewrite <- ln_Rinv by lra. f_equal. field. lra. Qed.
Lemma star_r a : neg a -> star a = add one (mul (star a) a).
Proof. intros H. rewrite (mul_comm (star a) a). apply star_l; assumption. Qed.
