(* Extra facts about the closure computed by Lehmann elimination:
   (1) for nilpotent (acyclic) systems the solution of X = I + A X is unique and
       equals the finite path sum  sum_{m<n} A^m, in every commutative semiring;
   (2) over the Boolean semiring the closure is exactly reachability.
   No axioms. *)
From Coq Require Import List Arith Bool Lia Relations.
From GV.lib Require Import Semiring BigSum.
From GV.model Require Import Linear.
From GV.proofs Require Import LehmannProof.
Import ListNotations.
Local Open Scope sr_scope.

(* Every commutative semiring is a star semiring with an everywhere-undefined
   star: statements over [StarSR] that never use star/sdef are therefore
   statements about arbitrary commutative semirings. *)
Definition TrivStar (R : SR) : StarSR.
Proof.
  refine (mkStarSR R (fun x => x) (fun _ => False) _ _); intros x H; destruct H.
Defined.

(* ====================================================================== *)
(* PART 1: nilpotent systems                                              *)
(* ====================================================================== *)

Section Nilpotent.
Variable S : StarSR.
Add Ring SRingCE : (sth S).

Fixpoint fpow (nodes : list nat) (A : nat -> nat -> S) (n : nat) : nat -> nat -> S :=
  match n with O => fid | Datatypes.S n' => fmul nodes A (fpow nodes A n') end.

Definition on_nodes (nodes : list nat) (P : nat -> nat -> Prop) :=
  forall i k, In i nodes -> In k nodes -> P i k.

(* A^n X, computed by repeated left multiplication *)
Fixpoint frest (nodes : list nat) (A X : nat -> nat -> S) (n : nat) : nat -> nat -> S :=
  match n with O => X | Datatypes.S n' => fmul nodes A (frest nodes A X n') end.

Lemma bsum_fid_l (l : list nat) (g : nat -> S) i :
  NoDup l -> In i l -> bsum l (fun j => fid i j * g j) = g i.
Proof.
  intros Hnd Hi.
  transitivity (bsum l (fun j => g j * fid j i)).
  - apply bsum_ext. intros j _. unfold fid. rewrite (Nat.eqb_sym i j). ring.
  - apply bsum_fid; assumption.
Qed.

Section Fix.
Variables (nodes : list nat) (A X : nat -> nat -> S).
Hypothesis HX : forall i k, In i nodes -> In k nodes ->
  X i k = fid i k + bsum nodes (fun j => A i j * X j k).

Lemma unroll (m : nat) : forall i k, In i nodes -> In k nodes ->
  X i k = bsum (seq O m) (fun t => fpow nodes A t i k) + frest nodes A X m i k.
Proof.
  induction m as [|m IH]; intros i k Hi Hk.
  - simpl. rewrite bsum_nil. ring.
  - rewrite (HX i k Hi Hk).
    rewrite (bsum_ext S nodes _
               (fun j => bsum (seq O m) (fun t => A i j * fpow nodes A t j k)
                         + A i j * frest nodes A X m j k)).
    2:{ intros j Hj. rewrite (IH j k Hj Hk) at 1. rewrite bsum_mul_l. ring. }
    rewrite bsum_add, bsum_swap.
    change (seq O (Datatypes.S m)) with (O :: seq 1 m).
    rewrite <- seq_shift, bsum_cons, bsum_map.
    change (frest nodes A X (Datatypes.S m) i k)
      with (bsum nodes (fun j => A i j * frest nodes A X m j k)).
    change (fpow nodes A O i k) with (@fid S i k).
    rewrite (bsum_ext S (seq O m) (fun t => fpow nodes A (Datatypes.S t) i k)
               (fun t => bsum nodes (fun j => A i j * fpow nodes A t j k)))
      by (intros; reflexivity).
    ring.
Qed.

Lemma frest_fpow (m : nat) : forall i k, In i nodes -> In k nodes ->
  frest nodes A X m i k
  = bsum (nodup Nat.eq_dec nodes) (fun j => fpow nodes A m i j * X j k).
Proof.
  induction m as [|m IH]; intros i k Hi Hk.
  - simpl. symmetry.
    apply (bsum_fid_l (nodup Nat.eq_dec nodes) (fun j => X j k) i).
    + apply NoDup_nodup.
    + apply nodup_In; exact Hi.
  - change (frest nodes A X (Datatypes.S m) i k)
      with (bsum nodes (fun l => A i l * frest nodes A X m l k)).
    rewrite (bsum_ext S nodes _
               (fun l => bsum (nodup Nat.eq_dec nodes)
                           (fun j => A i l * (fpow nodes A m l j * X j k)))).
    2:{ intros l Hl. rewrite (IH l k Hl Hk). rewrite bsum_mul_l. reflexivity. }
    rewrite bsum_swap.
    apply bsum_ext. intros j _.
    change (fpow nodes A (Datatypes.S m) i j)
      with (bsum nodes (fun l => A i l * fpow nodes A m l j)).
    rewrite <- bsum_mul_r. apply bsum_ext. intros l _. ring.
Qed.

End Fix.

Theorem nilpotent_unique : forall (nodes : list nat) (A X : nat -> nat -> S) (n : nat),
  (forall i k, In i nodes -> In k nodes ->
     X i k = fid i k + bsum nodes (fun j => A i j * X j k)) ->
  (forall i k, In i nodes -> In k nodes -> fpow nodes A n i k = 0) ->
  forall i k, In i nodes -> In k nodes ->
    X i k = bsum (seq O n) (fun m => fpow nodes A m i k).
Proof.
  intros nodes A X n HX Hnil i k Hi Hk.
  rewrite (unroll nodes A X HX n i k Hi Hk).
  rewrite (frest_fpow nodes A X n i k Hi Hk).
  rewrite (bsum_zero S (nodup Nat.eq_dec nodes)).
  - ring.
  - intros j Hj. apply nodup_In in Hj. rewrite (Hnil i j Hi Hj). ring.
Qed.

Corollary lehmann_acyclic_pathsum : forall (nodes : list nat) (A : mat S) (n : nat),
  NoDup nodes -> defined S nodes A ->
  (forall i k, In i nodes -> In k nodes -> fpow nodes (mget A) n i k = 0) ->
  forall i k, In i nodes -> In k nodes ->
    mget (lehmann nodes A) i k = bsum (seq O n) (fun m => fpow nodes (mget A) m i k).
Proof.
  intros nodes A n Hnd Hdef Hnil.
  apply (nilpotent_unique nodes (mget A) (mget (lehmann nodes A)) n).
  - apply lehmann_fixpoint_l; assumption.
  - exact Hnil.
Qed.

End Nilpotent.

(* the same statement, read over an arbitrary commutative semiring *)
Corollary nilpotent_unique_SR : forall (R : SR) (nodes : list nat) (A X : nat -> nat -> R) (n : nat),
  (forall i k, In i nodes -> In k nodes ->
     X i k = @fid (TrivStar R) i k + bsum nodes (fun j => A i j * X j k)) ->
  (forall i k, In i nodes -> In k nodes -> fpow (TrivStar R) nodes A n i k = 0) ->
  forall i k, In i nodes -> In k nodes ->
    X i k = bsum (seq O n) (fun m => fpow (TrivStar R) nodes A m i k).
Proof. intros R. exact (nilpotent_unique (TrivStar R)). Qed.

(* ====================================================================== *)
(* PART 2: Boolean semiring, closure = reachability                       *)
(* ====================================================================== *)

Section BoolClosure.

Definition edge (A : mat BoolStar) (i k : nat) : Prop := mget A i k = true.

Inductive reachN (nodes : list nat) (A : mat BoolStar) : nat -> nat -> Prop :=
| reachN_refl : forall i, reachN nodes A i i
| reachN_step : forall i j k, In j nodes -> mget A i j = true ->
                  reachN nodes A j k -> reachN nodes A i k.

Lemma reachN_trans nodes A i j k :
  reachN nodes A i j -> reachN nodes A j k -> reachN nodes A i k.
Proof.
  intros H1 H2. induction H1 as [i|i j' j Hj' Hij' H1 IH].
  - exact H2.
  - apply (reachN_step nodes A i j' k Hj' Hij'). apply IH; exact H2.
Qed.

Lemma badd_true (a b : BoolStar) : a + b = true <-> a = true \/ b = true.
Proof. apply orb_true_iff. Qed.

Lemma bmul_true (a b : BoolStar) : a * b = true <-> a = true /\ b = true.
Proof. apply andb_true_iff. Qed.

Lemma bsum_true {X} (l : list X) (f : X -> BoolStar) :
  bsum l f = true <-> exists x, In x l /\ f x = true.
Proof.
  induction l as [|a t IH].
  - rewrite bsum_nil. split.
    + intros H; discriminate H.
    + intros [x [[] _]].
  - rewrite bsum_cons, badd_true, IH. split.
    + intros [H|[x [Hx Hf]]].
      * exists a; split; [left; reflexivity|exact H].
      * exists x; split; [right; exact Hx|exact Hf].
    + intros [x [[E|Hx] Hf]].
      * subst x; left; exact Hf.
      * right; exists x; split; assumption.
Qed.

Lemma bool_pivots_defined nodes todo (B : mat BoolStar) :
  pivots_defined BoolStar nodes todo B.
Proof.
  revert B. induction todo as [|j t IH]; intros B; simpl.
  - exact I.
  - split; [exact I|apply IH].
Qed.

Lemma bool_defined nodes (A : mat BoolStar) : defined BoolStar nodes A.
Proof. apply bool_pivots_defined. Qed.

Theorem lehmann_bool_complete : forall nodes (A : mat BoolStar) i k,
  NoDup nodes -> In i nodes -> In k nodes ->
  reachN nodes A i k -> mget (lehmann nodes A) i k = true.
Proof.
  intros nodes A i k Hnd Hi Hk Hr.
  pose proof (lehmann_fixpoint_l BoolStar nodes A Hnd (bool_defined nodes A)) as Hfix.
  induction Hr as [i|i j k Hj Hij Hr IH].
  - rewrite (Hfix i i Hi Hi). apply badd_true. left.
    unfold fid. rewrite Nat.eqb_refl. reflexivity.
  - rewrite (Hfix i k Hi Hk). apply badd_true. right.
    apply bsum_true. exists j. split; [exact Hj|].
    apply bmul_true. split; [exact Hij|]. apply IH; assumption.
Qed.

(* soundness invariant through the elimination *)
Definition binv (nodes : list nat) (A : mat BoolStar) (J : list nat) (B : mat BoolStar) : Prop :=
  forall i k, In i nodes -> In k nodes -> mget B i k = true -> reachN nodes A i k.

Lemma binv_step nodes A m J B :
  In m nodes -> incl J nodes -> binv nodes A J B -> sdef BoolStar (mget B m m) ->
  binv nodes A (m :: J) (elim_step nodes m B).
Proof.
  intros Hm _ Hinv _ i k Hi Hk H.
  rewrite mget_elim_step in H by assumption.
  apply badd_true in H. destruct H as [H|H].
  - apply Hinv; assumption.
  - apply bmul_true in H. destruct H as [H Hmk].
    apply bmul_true in H. destruct H as [Him _].
    apply (reachN_trans nodes A i m k).
    + apply Hinv; assumption.
    + apply Hinv; assumption.
Qed.

Lemma lehmann_trans_bool_sound nodes (A : mat BoolStar) :
  forall i k, In i nodes -> In k nodes ->
    mget (lehmann_trans nodes A) i k = true -> reachN nodes A i k.
Proof.
  unfold lehmann_trans.
  pose proof (fold_inv BoolStar nodes (binv nodes A) (binv_step nodes A) nodes []
                (tabulate nodes (mget A)) (incl_refl _) (incl_nil_l _)) as H.
  apply H.
  - intros i k Hi Hk E. rewrite mget_tabulate in E by assumption.
    apply (reachN_step nodes A i k k Hk E). apply reachN_refl.
  - apply bool_pivots_defined.
Qed.

Theorem lehmann_bool_sound : forall nodes (A : mat BoolStar) i k,
  NoDup nodes -> In i nodes -> In k nodes ->
  mget (lehmann nodes A) i k = true -> reachN nodes A i k.
Proof.
  intros nodes A i k _ Hi Hk H.
  rewrite mget_lehmann in H by assumption.
  apply badd_true in H. destruct H as [H|H].
  - apply lehmann_trans_bool_sound; assumption.
  - unfold fid in H. destruct (Nat.eqb i k) eqn:E.
    + apply Nat.eqb_eq in E. subst k. apply reachN_refl.
    + discriminate H.
Qed.

Theorem lehmann_bool_reach : forall nodes (A : mat BoolStar) i k,
  NoDup nodes -> In i nodes -> In k nodes ->
  (mget (lehmann nodes A) i k = true <-> reachN nodes A i k).
Proof.
  intros nodes A i k Hnd Hi Hk. split.
  - apply lehmann_bool_sound; assumption.
  - apply lehmann_bool_complete; assumption.
Qed.

End BoolClosure.

Print Assumptions nilpotent_unique.
Print Assumptions lehmann_acyclic_pathsum.
Print Assumptions nilpotent_unique_SR.
Print Assumptions lehmann_bool_complete.
Print Assumptions lehmann_bool_sound.
Print Assumptions lehmann_bool_reach.
