(* Sound-and-complete specifications of the Boolean checkers of model/Det.v (Section CHK):
   1. [deterministic_spec]   [deterministic m = true] iff at most one initial state, no epsilon arcs, and at most
      one arc per (source state, symbol);
   2. [is_trim2_spec], [all_states_spec]   trimness, stated with the verified searches of model/TrimSearch.v:
      every state mentioned by the machine lies on a path from an initial to a final state;
   3. [det_accessible_spec], [det_coaccessible_spec], [is_trim_agree], [is_trim_spec]   the [grow]-based searches of
      Det.v compute the same sets, so the old checker [is_trim] agrees with [is_trim2]. *)
From Coq Require Import List Arith NArith Bool Lia.
From GV.lib Require Import Semiring BigSum.
From GV.model Require Import Wfsa TrimW TrimSearch Det.
From GV.proofs Require Import TrimSearchProofs.
Import ListNotations.

(* ---------- list facts ---------- *)

Lemma nodup_le1 (l : list nat) :
  length (nodup Nat.eq_dec l) <= 1 <-> (forall x y, In x l -> In y l -> x = y).
Proof.
  split.
  - intros H x y Hx Hy. apply (nodup_In Nat.eq_dec) in Hx. apply (nodup_In Nat.eq_dec) in Hy.
    destruct (nodup Nat.eq_dec l) as [|a [|b t]]; simpl in *.
    + contradiction.
    + destruct Hx as [Hx|[]]. destruct Hy as [Hy|[]]. congruence.
    + lia.
  - intros H. pose proof (NoDup_nodup Nat.eq_dec l) as ND.
    assert (H0 : forall x y, In x (nodup Nat.eq_dec l) -> In y (nodup Nat.eq_dec l) -> x = y).
    { intros x y Hx Hy. apply H; apply (nodup_In Nat.eq_dec); assumption. }
    destruct (nodup Nat.eq_dec l) as [|a [|b t]]; simpl; try lia.
    exfalso. assert (E : a = b) by (apply H0; simpl; auto).
    inversion ND as [|? ? Hn _]; subst. apply Hn. left; reflexivity.
Qed.

Lemma no_dup_keys_spec (l : list (nat * nat)) : no_dup_keys l = true <-> NoDup l.
Proof.
  induction l as [|[i a] t IH]; simpl.
  - split; intros _; [constructor|reflexivity].
  - rewrite andb_true_iff, negb_true_iff, IH. split.
    + intros [H1 H2]. constructor; [|assumption]. intros Hin.
      assert (E : existsb (fun e => Nat.eqb i (fst e) && Nat.eqb a (snd e)) t = true).
      { apply existsb_exists. exists (i, a). split; [assumption|]. simpl. rewrite !Nat.eqb_refl. reflexivity. }
      congruence.
    + intros H. inversion H as [|? ? Hn Ht]; subst. split; [|assumption].
      destruct (existsb (fun e => Nat.eqb i (fst e) && Nat.eqb a (snd e)) t) eqn:E; [|reflexivity].
      exfalso. apply existsb_exists in E. destruct E as [[i' a'] [Hin E]]. simpl in E.
      apply andb_true_iff in E. destruct E as [E1 E2]. apply Nat.eqb_eq in E1. apply Nat.eqb_eq in E2.
      subst. contradiction.
Qed.

Lemma NoDup_nth_error_Some {A} (l : list A) :
  NoDup l <-> (forall i j x, nth_error l i = Some x -> nth_error l j = Some x -> i = j).
Proof.
  split.
  - intros ND i j x Hi Hj. apply (proj1 (NoDup_nth_error l) ND).
    + apply nth_error_Some. congruence.
    + congruence.
  - intros H. apply NoDup_nth_error. intros i j Hlt E.
    destruct (nth_error l i) as [x|] eqn:Ei.
    + apply (H i j x); [assumption|symmetry; assumption].
    + apply nth_error_Some in Hlt. contradiction.
Qed.


Lemma filter_len_le {A} (p1 p2 : A -> bool) (l : list A) :
  (forall a, p2 a = true -> p1 a = true) -> length (filter p2 l) <= length (filter p1 l).
Proof.
  intros H. induction l as [|a t IH]; simpl; [lia|].
  destruct (p2 a) eqn:E2.
  - rewrite (H a E2). simpl. lia.
  - destruct (p1 a); simpl; lia.
Qed.

Lemma filter_len_lt {A} (p1 p2 : A -> bool) (l : list A) :
  (forall a, p2 a = true -> p1 a = true) ->
  (exists a, In a l /\ p1 a = true /\ p2 a = false) -> length (filter p2 l) < length (filter p1 l).
Proof.
  intros H. induction l as [|a t IH]; intros [x [Hx [E1 E2]]]; [destruct Hx|].
  simpl. destruct Hx as [->|Hx].
  - rewrite E1, E2. simpl. pose proof (filter_len_le p1 p2 t H). lia.
  - assert (L : length (filter p2 t) < length (filter p1 t)) by (apply IH; exists x; auto).
    destruct (p2 a) eqn:E; [rewrite (H a E); simpl; lia|]. destruct (p1 a); simpl; lia.
Qed.

Lemma filter_len_all {A} (p : A -> bool) (l : list A) : length (filter p l) <= length l.
Proof. induction l as [|a t IH]; simpl; [lia|]. destruct (p a); simpl; lia. Qed.

Lemma memq_spec (x : nat) (l : list nat) : memq x l = true <-> In x l.
Proof. exact (inb_spec x l). Qed.

Lemma memq_false (x : nat) (l : list nat) : memq x l = false <-> ~ In x l.
Proof. exact (inb_false x l). Qed.

Section DetChecker.
Variable S : SR.

(* ---------- 1. the determinism checker ---------- *)

Definition key (ar : arc S) : nat * nat := (asrc ar, match albl ar with Some a => a | None => O end).

Lemma keys_map (l : list (arc S)) : (forall ar, In ar l -> albl ar <> None) ->
  flat_map (fun ar => match albl ar with Some a => [(asrc ar, a)] | None => [] end) l = map key l.
Proof.
  induction l as [|ar t IH]; intros H; simpl; [reflexivity|].
  rewrite IH by (intros ar' H'; apply H; right; assumption).
  pose proof (H ar (or_introl eq_refl)) as Hn. unfold key.
  destruct (albl ar); [reflexivity|congruence].
Qed.

Lemma no_eps_forallb (l : list (arc S)) :
  forallb (fun ar => negb (is_eps (albl ar))) l = true <-> (forall ar, In ar l -> albl ar <> None).
Proof.
  rewrite forallb_forall. split; intros H ar Har; specialize (H ar Har).
  - destruct (albl ar); simpl in H; congruence.
  - destruct (albl ar); simpl; [reflexivity|congruence].
Qed.

Lemma NoDup_keys (l : list (arc S)) : (forall ar, In ar l -> albl ar <> None) ->
  NoDup (map key l) <->
  (forall i j ar1 ar2 a, nth_error l i = Some ar1 -> nth_error l j = Some ar2 ->
     asrc ar1 = asrc ar2 -> albl ar1 = Some a -> albl ar2 = Some a -> i = j).
Proof.
  intros Hne. rewrite NoDup_nth_error_Some. split.
  - intros H i j ar1 ar2 a Hi Hj Es E1 E2. apply (H i j (key ar1)).
    + apply map_nth_error. assumption.
    + replace (key ar1) with (key ar2) by (unfold key; rewrite Es, E1, E2; reflexivity).
      apply map_nth_error. assumption.
  - intros H i j x Hi Hj. rewrite nth_error_map in Hi, Hj.
    destruct (nth_error l i) as [ar1|] eqn:Ei; simpl in Hi; [|discriminate].
    destruct (nth_error l j) as [ar2|] eqn:Ej; simpl in Hj; [|discriminate].
    pose proof (Hne _ (nth_error_In _ _ Ei)) as N1. pose proof (Hne _ (nth_error_In _ _ Ej)) as N2.
    assert (E : key ar1 = key ar2) by congruence. unfold key in E.
    destruct (albl ar1) as [a|] eqn:E1; [|congruence]. destruct (albl ar2) as [b|] eqn:E2; [|congruence].
    inversion E; subst. apply (H i j ar1 ar2 b); assumption.
Qed.

Theorem deterministic_spec : forall (m : wfsa S),
  deterministic m = true <->
  ( (forall e1 e2, In e1 (winit m) -> In e2 (winit m) -> fst e1 = fst e2)
    /\ (forall ar, In ar (warcs m) -> albl ar <> None)
    /\ (forall i j ar1 ar2 a, nth_error (warcs m) i = Some ar1 -> nth_error (warcs m) j = Some ar2 ->
          asrc ar1 = asrc ar2 -> albl ar1 = Some a -> albl ar2 = Some a -> i = j) ).
Proof.
  intros m. unfold deterministic. rewrite !andb_true_iff, Nat.leb_le, nodup_le1, no_eps_forallb.
  assert (HI : (forall x y, In x (map fst (winit m)) -> In y (map fst (winit m)) -> x = y) <->
               (forall e1 e2 : nat * S, In e1 (winit m) -> In e2 (winit m) -> fst e1 = fst e2)).
  { split.
    - intros H e1 e2 H1 H2. apply H; apply in_map; assumption.
    - intros H x y Hx Hy. apply in_map_iff in Hx. apply in_map_iff in Hy.
      destruct Hx as [e1 [E1 H1]]. destruct Hy as [e2 [E2 H2]]. subst. apply H; assumption. }
  rewrite HI. split.
  - intros [[H1 H2] H3]. split; [assumption|]. split; [assumption|].
    rewrite keys_map in H3 by assumption. apply no_dup_keys_spec in H3.
    apply (NoDup_keys _ H2). assumption.
  - intros [H1 [H2 H3]]. split; [split; assumption|].
    rewrite keys_map by assumption. apply no_dup_keys_spec. apply (NoDup_keys _ H2). assumption.
Qed.

(* ---------- 2. trimness via the verified searches ---------- *)

Definition is_trim2 (m : wfsa S) : bool := forallb (fun q => inb q (TrimSearch.active m)) (all_states m).

Lemma active_spec (m : wfsa S) q :
  inb q (TrimSearch.active m) = true <->
  (exists e, In e (winit m) /\ path_to m (fst e) q) /\ (exists e, In e (wfinal m) /\ path_to m q (fst e)).
Proof.
  rewrite inb_spec. unfold TrimSearch.active. rewrite filter_In, inb_spec, accessible_spec, coaccessible_spec.
  reflexivity.
Qed.

Theorem is_trim2_spec : forall (m : wfsa S),
  is_trim2 m = true <->
  forall q, In q (all_states m) ->
    (exists e, In e (winit m) /\ path_to m (fst e) q) /\ (exists e, In e (wfinal m) /\ path_to m q (fst e)).
Proof.
  intros m. unfold is_trim2. rewrite forallb_forall.
  split; intros H q Hq; apply active_spec; apply H; assumption.
Qed.

Theorem all_states_spec : forall (m : wfsa S) q,
  In q (all_states m) <->
  (exists e, In e (winit m) /\ fst e = q) \/ (exists e, In e (wfinal m) /\ fst e = q) \/
  (exists ar, In ar (warcs m) /\ (asrc ar = q \/ adst ar = q)).
Proof.
  intros m q. unfold all_states. rewrite nodup_In, !in_app_iff, !in_map_iff, in_flat_map.
  split.
  - intros [[e [E He]]|[[e [E He]]|[ar [Har Hq]]]].
    + left. exists e. split; assumption.
    + right. left. exists e. split; assumption.
    + right. right. exists ar. split; [assumption|]. simpl in Hq. tauto.
  - intros [[e [He E]]|[[e [He E]]|[ar [Har Hq]]]].
    + left. exists e. split; assumption.
    + right. left. exists e. split; assumption.
    + right. right. exists ar. split; [assumption|]. simpl. tauto.
Qed.

(* ---------- 3. the [grow]-based searches of Det.v compute the same sets ---------- *)

Lemma succs_In (m : wfsa S) (R : list nat) y :
  In y (succs S m R) <-> exists ar, In ar (warcs m) /\ In (asrc ar) R /\ adst ar = y.
Proof.
  unfold succs. rewrite nodup_In, in_flat_map. split; intros [ar [Har H]]; exists ar; (split; [assumption|]).
  - destruct (memq (asrc ar) R) eqn:E; [|destruct H]. apply memq_spec in E.
    destruct H as [H|[]]. split; assumption.
  - destruct H as [Hs Hd]. apply memq_spec in Hs. rewrite Hs. left. assumption.
Qed.

Lemma grow_incl (step : list nat -> list nat) : forall fuel R, incl R (grow step fuel R).
Proof.
  induction fuel as [|f IH]; intros R x Hx; simpl; [assumption|].
  destruct (filter (fun x => negb (memq x R)) (step R)) as [|y fr] eqn:E; [assumption|].
  apply IH. apply in_or_app. right. assumption.
Qed.

Lemma grow_inv (P : nat -> Prop) (step : list nat -> list nat) :
  (forall R, (forall x, In x R -> P x) -> forall y, In y (step R) -> P y) ->
  forall fuel R, (forall x, In x R -> P x) -> forall x, In x (grow step fuel R) -> P x.
Proof.
  intros Hstep. induction fuel as [|f IH]; intros R HR x Hx; simpl in Hx; [apply HR; assumption|].
  destruct (filter (fun x => negb (memq x R)) (step R)) as [|y fr] eqn:E; [apply HR; assumption|].
  apply (IH (y :: fr ++ R)); [|assumption].
  intros z Hz. change (y :: fr ++ R) with ((y :: fr) ++ R) in Hz. apply in_app_or in Hz.
  destruct Hz as [Hz|Hz]; [|apply HR; assumption].
  rewrite <- E in Hz. apply filter_In in Hz. apply (Hstep R HR). apply Hz.
Qed.

Definition gmeasure (m : wfsa S) (R : list nat) : nat :=
  length (filter (fun ar => negb (memq (adst ar) R)) (warcs m)).

Lemma grow_closed (m : wfsa S) : forall fuel R, gmeasure m R < fuel -> aclosed m (grow (succs S m) fuel R).
Proof.
  induction fuel as [|f IH]; intros R Hm; [lia|]. simpl.
  destruct (filter (fun x => negb (memq x R)) (succs S m R)) as [|y fr] eqn:E.
  - intros ar Har Hs. destruct (memq (adst ar) R) eqn:Ed; [apply memq_spec; assumption|].
    exfalso. assert (Hin : In (adst ar) (filter (fun x => negb (memq x R)) (succs S m R))).
    { apply filter_In. split; [|rewrite Ed; reflexivity]. apply succs_In. exists ar. auto. }
    rewrite E in Hin. destruct Hin.
  - apply IH. simpl app. assert (Hy : In y (filter (fun x => negb (memq x R)) (succs S m R))) by (rewrite E; left; reflexivity).
    apply filter_In in Hy. destruct Hy as [Hy Hn]. apply negb_true_iff in Hn.
    apply succs_In in Hy. destruct Hy as [ar [Har [_ Hd]]].
    assert (L : gmeasure m (y :: fr ++ R) < gmeasure m R); [|lia].
    unfold gmeasure. apply filter_len_lt.
    + intros a Ha. apply negb_true_iff in Ha. apply negb_true_iff. apply memq_false. apply memq_false in Ha.
      intros Hin. apply Ha. right. apply in_or_app. right. assumption.
    + exists ar. split; [assumption|]. rewrite Hd. split.
      * rewrite Hn. reflexivity.
      * apply negb_false_iff. apply memq_spec. left. reflexivity.
Qed.

Theorem det_accessible_spec : forall (m : wfsa S) (q : nat),
  In q (Det.accessible m) <-> exists e, In e (winit m) /\ path_to m (fst e) q.
Proof.
  intros m q. unfold Det.accessible. split.
  - revert q. apply (grow_inv (fun q => exists e, In e (winit m) /\ path_to m (fst e) q)).
    + intros R HR y Hy. apply succs_In in Hy. destruct Hy as [ar [Har [Hs Hd]]].
      destruct (HR _ Hs) as [e [He Hp]]. exists e. split; [assumption|]. subst y.
      apply (path_to_snoc S m (fst e) (asrc ar) Hp ar Har eq_refl).
    + intros x Hx. apply nodup_In in Hx. apply in_map_iff in Hx. destruct Hx as [e [E He]].
      exists e. split; [assumption|]. rewrite E. apply pt_refl.
  - intros [e [He Hp]].
    assert (H0 : In (fst e) (grow (succs S m) (Datatypes.S (length (warcs m))) (nodup Nat.eq_dec (map fst (winit m))))).
    { apply grow_incl. apply nodup_In. apply in_map. assumption. }
    assert (Hc : aclosed m (grow (succs S m) (Datatypes.S (length (warcs m))) (nodup Nat.eq_dec (map fst (winit m))))).
    { apply grow_closed. unfold gmeasure.
      pose proof (filter_len_all (fun ar : arc S => negb (memq (adst ar) (nodup Nat.eq_dec (map fst (winit m))))) (warcs m)).
      lia. }
    induction Hp as [q|q ar q' Har Hs _ IH]; [assumption|].
    apply IH. apply (Hc ar Har). rewrite Hs. assumption.
Qed.

Lemma preds_reverse (m : wfsa S) (R : list nat) : preds S m R = succs S (wreverse m) R.
Proof.
  unfold preds, succs. f_equal. simpl warcs.
  induction (warcs m) as [|ar t IH]; simpl; [reflexivity|]. rewrite IH. reflexivity.
Qed.

Lemma det_coaccessible_reverse (m : wfsa S) : Det.coaccessible m = Det.accessible (wreverse m).
Proof.
  unfold Det.coaccessible, Det.accessible. simpl winit. simpl warcs. rewrite map_length.
  generalize (Datatypes.S (length (warcs m))) as fuel. generalize (nodup Nat.eq_dec (map fst (wfinal m))) as R.
  intros R fuel. revert R. induction fuel as [|f IH]; intros R; simpl; [reflexivity|].
  rewrite preds_reverse.
  destruct (filter (fun x => negb (memq x R)) (succs S (wreverse m) R)); [reflexivity|apply IH].
Qed.

Theorem det_coaccessible_spec : forall (m : wfsa S) (q : nat),
  In q (Det.coaccessible m) <-> exists e, In e (wfinal m) /\ path_to m q (fst e).
Proof.
  intros m q. rewrite det_coaccessible_reverse, det_accessible_spec. simpl winit.
  split; intros [e [He Hp]]; exists e; (split; [assumption|]); apply path_to_reverse; assumption.
Qed.

Theorem is_trim_spec : forall (m : wfsa S),
  is_trim m = true <->
  forall q, In q (all_states m) ->
    (exists e, In e (winit m) /\ path_to m (fst e) q) /\ (exists e, In e (wfinal m) /\ path_to m q (fst e)).
Proof.
  intros m. unfold is_trim. rewrite forallb_forall.
  split; intros H q Hq; specialize (H q Hq).
  - apply andb_true_iff in H. destruct H as [H1 H2]. apply memq_spec in H1. apply memq_spec in H2.
    split; [apply det_accessible_spec|apply det_coaccessible_spec]; assumption.
  - destruct H as [H1 H2]. apply andb_true_iff.
    split; apply memq_spec; [apply det_accessible_spec|apply det_coaccessible_spec]; assumption.
Qed.

Theorem is_trim_agree : forall (m : wfsa S), is_trim m = is_trim2 m.
Proof.
  intros m. destruct (is_trim2 m) eqn:E2.
  - exact (proj2 (is_trim_spec m) (proj1 (is_trim2_spec m) E2)).
  - destruct (is_trim m) eqn:E1; [|reflexivity].
    pose proof (proj2 (is_trim2_spec m) (proj1 (is_trim_spec m) E1)). congruence.
Qed.

End DetChecker.
Arguments is_trim2 {S} m.

Print Assumptions deterministic_spec.
Print Assumptions is_trim2_spec.
Print Assumptions all_states_spec.
Print Assumptions det_accessible_spec.
Print Assumptions det_coaccessible_spec.
Print Assumptions is_trim_spec.
Print Assumptions is_trim_agree.

(* ---------- non-vacuity ---------- *)
(* init 0, final 2;  0 -5-> 1 (2), 1 -6-> 2 (3) *)
Definition dc_ex : wfsa NSR :=
  @mkW NSR [(O, 1%N)] [(2%nat, 1%N)] [ (O, Some 5%nat, 1%nat, 2%N); (1%nat, Some 6%nat, 2%nat, 3%N) ].
(* ... plus 1 -7-> 3 (1): state 3 is a dead end *)
Definition dc_ex_dead : wfsa NSR :=
  @mkW NSR [(O, 1%N)] [(2%nat, 1%N)]
      [ (O, Some 5%nat, 1%nat, 2%N); (1%nat, Some 6%nat, 2%nat, 3%N); (1%nat, Some 7%nat, 3%nat, 1%N) ].
(* ... plus a second arc 0 -5-> 2 (1) *)
Definition dc_ex_nondet : wfsa NSR :=
  @mkW NSR [(O, 1%N)] [(2%nat, 1%N)]
      [ (O, Some 5%nat, 1%nat, 2%N); (1%nat, Some 6%nat, 2%nat, 3%N); (O, Some 5%nat, 2%nat, 1%N) ].

Example dc_ex_ok : deterministic dc_ex = true /\ is_trim2 dc_ex = true /\ is_trim dc_ex = true.
Proof. vm_compute. repeat split; reflexivity. Qed.
Example dc_ex_dead_not_trim :
  is_trim2 dc_ex_dead = false /\ is_trim dc_ex_dead = false /\ deterministic dc_ex_dead = true.
Proof. vm_compute. repeat split; reflexivity. Qed.
Example dc_ex_nondet_not_det : deterministic dc_ex_nondet = false /\ is_trim2 dc_ex_nondet = true.
Proof. vm_compute. repeat split; reflexivity. Qed.

Print Assumptions dc_ex_ok.
Print Assumptions dc_ex_dead_not_trim.
Print Assumptions dc_ex_nondet_not_det.
