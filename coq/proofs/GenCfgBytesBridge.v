(* CFG.to_bytes as regenerated from cfg.py (coq/gen/Gen_CfgBytes.v) is the model of proofs/CfgBytesProofs.v. *)
From Coq Require Import List Arith Bool.
From GV.lib Require Import Semiring BigSum.
From GV.model Require Import Cfg.
From GV.gen Require Import Gen_CfgBytes.
From GV.proofs Require Import CfgBytesProofs.
Import ListNotations.

Lemma gen_cfg_to_bytes_model (S : SR) (enc : nat -> list nat) (G : grammar S) :
  gen_cfg_to_bytes S enc G = cfg_to_bytes S enc G.
Proof. reflexivity. Qed.
Print Assumptions gen_cfg_to_bytes_model.
