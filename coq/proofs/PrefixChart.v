(* The joint tabulation of model/Prefix.v (span chart, prefix chart, totals) agrees
   with the reference semantics: after n rounds the span chart holds W G n, the prefix
   chart holds Wpre G n on every suffix of the input, and the totals hold bu_iter G n.
   A value returned by prefix_lang is the stable value of Wpre.  No axioms. *)
From Coq Require Import List Arith Bool Lia.
From GV.lib Require Import Semiring BigSum.
From GV.model Require Import Cfg Agenda MachSpec Prefix.
From GV.proofs Require Import CfgTrees AgendaProofs CfgChart.
Import ListNotations.
Local Open Scope sr_scope.

(* ---- generic facts --------------------------------------------------------- *)

Lemma pc_sub_length {A} (l : list A) (m n : nat) :
  (n <= length l)%nat -> length (sub l m n) = (n - m)%nat.
Proof. intros H. unfold sub. rewrite firstn_length, skipn_length. lia. Qed.

Lemma pkeyeq_eq (a b : nat * nat) : pkeyeq a b = true -> a = b.
Proof.
  destruct a as [x i], b as [y j]. unfold pkeyeq. cbn [fst snd]. intros H.
  apply andb_true_iff in H. destruct H as [H1 H2].
  apply Nat.eqb_eq in H1. apply Nat.eqb_eq in H2. subst. reflexivity.
Qed.

Lemma pc_combine_forallb_eq {A} (e : A -> A -> bool) (He : forall x y, e x y = true -> x = y) :
  forall a b : list A, length a = length b ->
    forallb (fun p => e (fst p) (snd p)) (combine a b) = true -> a = b.
Proof.
  induction a as [|x a IH]; intros [|y b] Hl H; cbn [length] in Hl; try discriminate;
    [reflexivity|].
  cbn [combine forallb fst snd] in H. apply andb_true_iff in H. destruct H as [H1 H2].
  apply He in H1. subst y. f_equal. apply IH; [lia|exact H2].
Qed.

Section PrefixChart.
Variable S : SR.
Add Ring SRing : (sth S).

Lemma Zb_ext (Z Z' : nat -> S) (body : list sym) :
  (forall Y, Z Y = Z' Y) -> Zb Z body = Zb Z' body.
Proof.
  intros H. unfold Zb. f_equal. apply map_ext. intros [a|Y]; cbn [sval]; [reflexivity|apply H].
Qed.

(* ---- lookups in the generated prefix chart and totals ---------------------- *)

Lemma pget_row_hit (X : nat) (F : nat -> S) (L : list nat) (rest : pchart S) (i : nat) :
  In i L -> pget (map (fun i => ((X, i), F i)) L ++ rest) (X, i) = F i.
Proof.
  induction L as [|j L IH]; intros Hin; [destruct Hin|].
  cbn [map app pget]. unfold pkeyeq. cbn [fst snd]. rewrite Nat.eqb_refl. cbn [andb].
  destruct (Nat.eqb_spec i j) as [E|E]; [subst; reflexivity|].
  apply IH. destruct Hin as [Hin|Hin]; [congruence|exact Hin].
Qed.

Lemma pget_row_miss (X X' : nat) (F : nat -> S) (L : list nat) (rest : pchart S) (i : nat) :
  X <> X' -> pget (map (fun i => ((X', i), F i)) L ++ rest) (X, i) = pget rest (X, i).
Proof.
  intros Hne. induction L as [|j L IH]; [reflexivity|].
  cbn [map app pget]. unfold pkeyeq. cbn [fst snd].
  destruct (Nat.eqb_spec X X') as [E|E]; [contradiction|]. cbn [andb]. exact IH.
Qed.

Lemma pget_grid_hit (F : nat -> nat -> S) (L Hs : list nat) (X i : nat) :
  In X Hs -> In i L ->
  pget (flat_map (fun X => map (fun i => ((X, i), F X i)) L) Hs) (X, i) = F X i.
Proof.
  intros HX Hi. induction Hs as [|Y Hs IH]; [destruct HX|].
  cbn [flat_map]. destruct (Nat.eq_dec X Y) as [E|E].
  - subst Y. apply (pget_row_hit X (F X) L _ i Hi).
  - rewrite (pget_row_miss X Y (F Y) L _ i E). apply IH.
    destruct HX as [HX|HX]; [congruence|exact HX].
Qed.

Lemma pget_grid_miss (F : nat -> nat -> S) (L Hs : list nat) (X i : nat) :
  ~ In X Hs ->
  pget (flat_map (fun X => map (fun i => ((X, i), F X i)) L) Hs) (X, i) = 0.
Proof.
  intros HX. induction Hs as [|Y Hs IH]; [reflexivity|].
  cbn [flat_map]. rewrite (pget_row_miss X Y (F Y) L _ i).
  - apply IH. intros H. apply HX. right. exact H.
  - intros E. apply HX. left. symmetry. exact E.
Qed.

Lemma tget_map_hit (F : nat -> S) (Hs : list nat) (X : nat) :
  In X Hs -> tget (map (fun X => (X, F X)) Hs) X = F X.
Proof.
  induction Hs as [|Y Hs IH]; intros HX; [destruct HX|].
  cbn [map tget]. destruct (Nat.eqb_spec X Y) as [E|E]; [subst; reflexivity|].
  apply IH. destruct HX as [HX|HX]; [congruence|exact HX].
Qed.

Lemma tget_map_miss (F : nat -> S) (Hs : list nat) (X : nat) :
  ~ In X Hs -> tget (map (fun X => (X, F X)) Hs) X = 0.
Proof.
  induction Hs as [|Y Hs IH]; intros HX; [reflexivity|].
  cbn [map tget]. destruct (Nat.eqb_spec X Y) as [E|E].
  - exfalso. apply HX. left. symmetry. exact E.
  - apply IH. intros H. apply HX. right. exact H.
Qed.

Lemma not_head_zero (G : grammar S) (X : nat) (F : rule S -> S) :
  ~ In X (heads S G) ->
  bsum G (fun r => if Nat.eqb (rhead r) X then F r else 0) = 0.
Proof.
  intros HX. apply bsum_zero. intros r Hr.
  destruct (Nat.eqb_spec (rhead r) X) as [E|E]; [|reflexivity].
  exfalso. apply HX. unfold heads. apply nodup_In. subst X. apply in_map. exact Hr.
Qed.

Section Fixed.
Variable G : grammar S.
Variable xs : list nat.

(* the proper splits of a suffix of xs are its cut positions *)
Lemma bsum_splits_ne_sub (F : list nat * list nat -> S) (i : nat) :
  (i <= length xs)%nat ->
  bsum (splits_ne (sub xs i (length xs))) F
  = bsum (seq i (length xs - i)) (fun m => F (sub xs i m, sub xs m (length xs))).
Proof.
  intros Hi. unfold splits_ne. rewrite bsum_filter.
  rewrite (splits_sub xs i (length xs) Hi (le_n _)). rewrite bsum_map.
  replace (Datatypes.S (length xs) - i)%nat with (Datatypes.S (length xs - i)) by lia.
  rewrite seq_S, bsum_app, bsum_cons, bsum_nil. cbn [fst snd].
  replace (i + (length xs - i))%nat with (length xs) by lia.
  rewrite sub_nil. cbn [length Nat.eqb negb].
  rewrite (bsum_ext S (seq i (length xs - i)) _
             (fun m => F (sub xs i m, sub xs m (length xs)))).
  - ring.
  - intros m Hm. apply in_seq in Hm. rewrite pc_sub_length by lia.
    destruct (length xs - m)%nat eqn:E; [lia|reflexivity].
Qed.

(* value of the next prefix iterate at (X, i) *)
Definition pval (c : chart S) (pc : pchart S) (tc : tchart S) (X i : nat) : S :=
  bsum G (fun r => if Nat.eqb (rhead r) X
                   then rw r * body_pre S c pc tc xs (rbody r) i else 0).

Lemma pget_pstep (c : chart S) (pc : pchart S) (tc : tchart S) (X i : nat) :
  (i <= length xs)%nat -> pget (pstep S G xs c pc tc) (X, i) = pval c pc tc X i.
Proof.
  intros Hi. destruct (in_dec Nat.eq_dec X (heads S G)) as [HX|HX].
  - apply (pget_grid_hit (pval c pc tc) (seq O (Datatypes.S (length xs))) (heads S G) X i HX).
    apply in_seq. lia.
  - unfold pval. rewrite (not_head_zero G X _ HX).
    apply (pget_grid_miss (pval c pc tc) (seq O (Datatypes.S (length xs))) (heads S G) X i HX).
Qed.

Lemma tget_tstep (tc : tchart S) (X : nat) :
  tget (tstep S G tc) X = bu_step G (tget tc) X.
Proof.
  unfold tstep. destruct (in_dec Nat.eq_dec X (heads S G)) as [HX|HX].
  - apply (tget_map_hit (fun X => bu_step G (tget tc) X) (heads S G) X HX).
  - unfold bu_step. rewrite (not_head_zero G X _ HX).
    apply (tget_map_miss (fun X => bu_step G (tget tc) X) (heads S G) X HX).
Qed.

(* the state holds the height-n quantities *)
Definition pstate_ok (st : pstate S) (n : nat) : Prop :=
  chart_ok S G xs (fst (fst st)) n /\
  (forall X i, (i <= length xs)%nat ->
     pget (snd (fst st)) (X, i) = Wpre G n X (sub xs i (length xs))) /\
  (forall X, tget (snd st) X = bu_iter G n X).

Lemma body_pre_ok (c : chart S) (pc : pchart S) (tc : tchart S) (n : nat) :
  pstate_ok (c, pc, tc) n ->
  forall body i, (i <= length xs)%nat ->
    body_pre S c pc tc xs body i
    = WBpre (W G n) (Wpre G n) (bu_iter G n) body (sub xs i (length xs)).
Proof.
  intros [Hc [Hpc Htc]]. cbn [fst snd] in Hc, Hpc, Htc.
  induction body as [|s rest IH]; intros i Hi.
  - cbn [body_pre WBpre]. destruct (Nat.eqb_spec i (length xs)) as [E|E].
    + subst i. rewrite sub_nil. reflexivity.
    + destruct (cc_nth_error_some xs i) as [b Hb]; [lia|].
      rewrite (sub_cons xs i (length xs) b) by (lia || exact Hb). reflexivity.
  - destruct s as [a|Y].
    + cbn [body_pre WBpre]. destruct (Nat.eqb_spec i (length xs)) as [E|E].
      * subst i. rewrite sub_nil. unfold zb_exec. apply Zb_ext. exact Htc.
      * destruct (cc_nth_error_some xs i) as [b Hb]; [lia|].
        rewrite Hb. rewrite (sub_cons xs i (length xs) b) by (lia || exact Hb).
        destruct (Nat.eqb a b); [|reflexivity].
        apply IH. lia.
    + cbn [body_pre WBpre]. f_equal.
      * rewrite (bsum_splits_ne_sub _ i Hi). apply bsum_ext. intros m Hm.
        apply in_seq in Hm. cbn [fst snd].
        rewrite (Hc Y i m) by lia. rewrite (IH m) by lia. reflexivity.
      * rewrite (Hpc Y i Hi). unfold zb_exec. rewrite (Zb_ext _ _ rest Htc). reflexivity.
Qed.

Lemma pstate_ok_nil : pstate_ok ([], [], []) O.
Proof.
  split; [|split].
  - apply chart_ok_nil.
  - intros X i _. reflexivity.
  - intros X. reflexivity.
Qed.

Lemma pstate_ok_step (st : pstate S) (n : nat) :
  pstate_ok st n -> pstate_ok (pstep_all G xs st) (Datatypes.S n).
Proof.
  destruct st as [[c pc] tc]. intros Hok. pose proof Hok as [Hc [Hpc Htc]].
  cbn [fst snd] in Hc, Hpc, Htc. cbn [pstep_all]. split; [|split]; cbn [fst snd].
  - apply chart_ok_step. exact Hc.
  - intros X i Hi. rewrite (pget_pstep c pc tc X i Hi). unfold pval. cbn [Wpre].
    apply bsum_ext. intros r _.
    destruct (Nat.eqb (rhead r) X); [|reflexivity].
    rewrite (body_pre_ok c pc tc n Hok (rbody r) i Hi). reflexivity.
  - intros X. rewrite tget_tstep. cbn [bu_iter]. unfold bu_step.
    apply bsum_ext. intros r _.
    destruct (Nat.eqb (rhead r) X); [|reflexivity].
    f_equal. exact (Zb_ext _ _ (rbody r) Htc).
Qed.

Lemma pstate_ok_piter (n : nat) : forall (st : pstate S) (k : nat),
  pstate_ok st k -> pstate_ok (piter G xs n st) (n + k)%nat.
Proof.
  induction n as [|n IH]; intros st k Hok; cbn [piter].
  - exact Hok.
  - replace (Datatypes.S n + k)%nat with (n + Datatypes.S k)%nat by lia.
    apply IH. apply pstate_ok_step. exact Hok.
Qed.

Lemma piter_add (n m : nat) : forall st : pstate S,
  piter G xs (n + m)%nat st = piter G xs m (piter G xs n st).
Proof.
  induction n as [|n IH]; intros st; cbn [Nat.add piter]; [reflexivity|].
  apply IH.
Qed.

Lemma piter_fixed (st : pstate S) (m : nat) : pstep_all G xs st = st -> piter G xs m st = st.
Proof.
  intros H. induction m as [|m IH]; cbn [piter]; [reflexivity|].
  rewrite H. exact IH.
Qed.

End Fixed.

(* ---- the state comparison decides equality --------------------------------- *)

Lemma pchart_eqb_eq (a b : pchart S) : pchart_eqb S a b = true -> a = b.
Proof.
  unfold pchart_eqb. intros H. apply andb_true_iff in H. destruct H as [Hl H].
  apply Nat.eqb_eq in Hl.
  apply (pc_combine_forallb_eq
           (fun x y : nat * nat * S => pkeyeq (fst x) (fst y) && seqb (snd x) (snd y)));
    [|exact Hl|exact H].
  intros [k v] [k' v'] E. cbn [fst snd] in E. apply andb_true_iff in E. destruct E as [E1 E2].
  apply pkeyeq_eq in E1. apply seqb_spec in E2. subst. reflexivity.
Qed.

Lemma tchart_eqb_eq (a b : tchart S) : tchart_eqb S a b = true -> a = b.
Proof.
  unfold tchart_eqb. intros H. apply andb_true_iff in H. destruct H as [Hl H].
  apply Nat.eqb_eq in Hl.
  apply (pc_combine_forallb_eq
           (fun x y : nat * S => Nat.eqb (fst x) (fst y) && seqb (snd x) (snd y)));
    [|exact Hl|exact H].
  intros [k v] [k' v'] E. cbn [fst snd] in E. apply andb_true_iff in E. destruct E as [E1 E2].
  apply Nat.eqb_eq in E1. apply seqb_spec in E2. subst. reflexivity.
Qed.

Lemma pstate_eqb_eq (a b : pstate S) : pstate_eqb S a b = true -> a = b.
Proof.
  destruct a as [[c pc] tc], b as [[c' pc'] tc']. cbn [pstate_eqb]. intros H.
  apply andb_true_iff in H. destruct H as [H H3].
  apply andb_true_iff in H. destruct H as [H1 H2].
  apply chart_eqb_eq in H1. apply pchart_eqb_eq in H2. apply tchart_eqb_eq in H3.
  subst. reflexivity.
Qed.

(* ---- main theorems ---------------------------------------------------------- *)

Theorem piter_correct : forall (G : grammar S) (xs : list nat) (n : nat),
  let st := piter G xs n ([], [], []) in
  (forall X i j, i <= j -> j <= length xs ->
     cget (fst (fst st)) (X, i, j) = W G n X (sub xs i j)) /\
  (forall X i, i <= length xs ->
     pget (snd (fst st)) (X, i) = Wpre G n X (sub xs i (length xs))) /\
  (forall X, tget (snd st) X = bu_iter G n X).
Proof.
  intros G xs n st.
  pose proof (pstate_ok_piter G xs n ([], [], []) O (pstate_ok_nil G xs)) as H.
  rewrite Nat.add_0_r in H. exact H.
Qed.

Theorem pfix_piter : forall (G : grammar S) xs fuel st st',
  pfix G xs fuel st = Some st' ->
  exists n, piter G xs n st = st' /\ pstep_all G xs st' = st'.
Proof.
  intros G xs fuel. induction fuel as [|f IH]; intros st st' H; cbn [pfix] in H;
    [discriminate|].
  cbv zeta in H. destruct (pstate_eqb S st (pstep_all G xs st)) eqn:E.
  - inversion H. subst st'. exists O. split; [reflexivity|].
    symmetry. apply pstate_eqb_eq. exact E.
  - destruct (IH _ _ H) as [n [Hn Hfix]].
    exists (Datatypes.S n). split; [exact Hn|exact Hfix].
Qed.

Theorem prefix_lang_stable : forall (G : grammar S) fuel X xs v,
  prefix_lang G fuel X xs = Some v -> exists H, forall h, H <= h -> Wpre G h X xs = v.
Proof.
  intros G fuel X xs v H. unfold prefix_lang in H.
  destruct (pfix G xs fuel ([], [], [])) as [[[c pc] tc]|] eqn:E; [|discriminate].
  inversion H as [Hv]. clear H.
  destruct (pfix_piter G xs fuel _ _ E) as [n [Hn Hfix]].
  exists n. intros h Hh.
  destruct (piter_correct G xs h) as [_ [HP _]].
  specialize (HP X O (Nat.le_0_l _)). rewrite sub_full in HP. rewrite <- HP.
  replace h with (n + (h - n))%nat by lia.
  rewrite piter_add, Hn, (piter_fixed G xs _ (h - n) Hfix). reflexivity.
Qed.

End PrefixChart.

Print Assumptions piter_correct.
Print Assumptions pfix_piter.
Print Assumptions prefix_lang_stable.
