(* The definitions regenerated from cfg.py / cfglm.py (gen/Gen_Cfg.v) coincide with the hand-written
   models of model/Transform.v and model/Norm.v that the theorems are about. *)
From Coq Require Import List Arith Bool.
From GV.lib Require Import Semiring BigSum.
From GV.model Require Import Cfg Transform Norm.
From GV.gen Require Import Gen_Cfg.
Import ListNotations.
Local Open Scope sr_scope.

Section Bridge.
Variable S : SR.

Lemma map_rule_id (G : grammar S) : map (fun r => (rw r, rhead r, rbody r)) G = G.
Proof. induction G as [|[[w h] b] G IH]; cbn; [reflexivity|rewrite IH; reflexivity]. Qed.

Theorem gen_rename_model (f : nat -> nat) (G : grammar S) : gen_rename S f G = rename_g f G.
Proof.
  unfold gen_rename, rename_g. apply map_ext. intros r. f_equal.
Qed.

Lemma flat_map_filter (A : Type) (p : A -> bool) (l : list A) :
  flat_map (fun x => if p x then [x] else []) l = filter p l.
Proof. induction l as [|x l IH]; cbn; [reflexivity|]. destruct (p x); cbn; rewrite IH; reflexivity. Qed.

Theorem gen_trim_model (C : list nat) (G : grammar S) :
  gen_trim S (gen_sym C) G = filter (fun r => existsb (Nat.eqb (rhead r)) C && forallb (gen_sym C) (rbody r)) G.
Proof.
  unfold gen_trim. rewrite <- flat_map_filter. apply flat_map_ext. intros [[w h] b]. reflexivity.
Qed.

Theorem gen_cotrim_model (G : grammar S) : gen_trim S (gen_sym (generating G)) G = cotrim G.
Proof. unfold cotrim. cbv zeta. apply gen_trim_model. Qed.

Theorem gen_separate_start_model (s' s : nat) (G : grammar S) :
  gen_separate_start S s' s G = separate_start s' s G.
Proof. unfold gen_separate_start, separate_start, on_rhs. rewrite map_rule_id. reflexivity. Qed.

Theorem gen_add_eos_model (s' s eos : nat) (G : grammar S) : gen_add_eos S s' s eos G = add_eos s' s eos G.
Proof. unfold gen_add_eos, add_eos. rewrite map_rule_id. reflexivity. Qed.

End Bridge.

Print Assumptions gen_rename_model.
Print Assumptions gen_cotrim_model.
Print Assumptions gen_separate_start_model.
Print Assumptions gen_add_eos_model.
