(* The definitions regenerated from wfsa/base.py (gen/Gen_Wfsa.v) coincide with the hand-written
   model of model/Wfsa.v that the theorems of WfsaProofs / RationalOps are about. *)
From Coq Require Import List Arith Bool.
From GV.lib Require Import Semiring BigSum.
From GV.model Require Import Linear Wfsa.
From GV.gen Require Import Gen_Wfsa.
Import ListNotations.
Local Open Scope sr_scope.

Section Bridge.
Variable S : SR.

Lemma map_pair_id (A B : Type) (l : list (A * B)) : map (fun e => (fst e, snd e)) l = l.
Proof. induction l as [|[x y] l IH]; cbn; [reflexivity|rewrite IH; reflexivity]. Qed.

Lemma map_arc_id (l : list (arc S)) : map (fun ar => (asrc ar, albl ar, adst ar, awt ar)) l = l.
Proof. induction l as [|[[[i a] j] w] l IH]; cbn; [reflexivity|rewrite IH; reflexivity]. Qed.

Lemma wfsa_eta (a : wfsa S) : mkW (winit a) (wfinal a) (warcs a) = a.
Proof. destruct a; reflexivity. Qed.

Lemma gen_spawn_fields (ki ka ks : bool) (a : wfsa S) :
  winit (gen_spawn S ki ka ks a) = (if ki then winit a else []) /\
  wfinal (gen_spawn S ki ka ks a) = (if ks then wfinal a else []) /\
  warcs (gen_spawn S ki ka ks a) = (if ka then warcs a else []).
Proof.
  unfold gen_spawn; cbn [winit wfinal warcs].
  rewrite !map_pair_id, map_arc_id. repeat split.
Qed.

Lemma gen_spawn_all (a : wfsa S) : gen_spawn S true true true a = a.
Proof. unfold gen_spawn. rewrite !map_pair_id, map_arc_id. apply wfsa_eta. Qed.

Theorem gen_rename_model (f : nat -> nat) (a : wfsa S) : gen_rename S f a = rename f a.
Proof. reflexivity. Qed.

Theorem gen_reverse_model (a : wfsa S) : gen_reverse S a = wreverse a.
Proof. unfold gen_reverse, wreverse. rewrite !map_pair_id. reflexivity. Qed.

Theorem gen_add_model (a b : wfsa S) : gen_add S a b = wunion a b.
Proof.
  unfold gen_add, wunion, gen_apart_self, gen_apart_other. cbv zeta.
  rewrite gen_spawn_all, !gen_rename_model, !map_pair_id, map_arc_id. reflexivity.
Qed.

Theorem gen_mul_model (a b : wfsa S) : gen_mul S a b = wconcat a b.
Proof.
  unfold gen_mul, wconcat, gen_apart_self, gen_apart_other. cbv zeta.
  rewrite !gen_rename_model.
  destruct (gen_spawn_fields true true false (rename tagL a)) as (Hi & Hf & Ha).
  rewrite Hi, Hf, Ha, !map_pair_id, map_arc_id. cbn [app]. reflexivity.
Qed.

Theorem gen_kleene_plus_model (a : wfsa S) : gen_kleene_plus S a = wplus a.
Proof. unfold gen_kleene_plus, wplus. rewrite gen_spawn_all. reflexivity. Qed.

Theorem gen_lift_model (x : option nat) (w : S) : gen_lift S x w = wlift x w.
Proof. reflexivity. Qed.

Theorem gen_one_model : gen_one S = wone.
Proof. reflexivity. Qed.

Theorem gen_zero_model : gen_zero S = wzero.
Proof. reflexivity. Qed.

Theorem gen_star_model (a : wfsa S) : gen_star S a = wstar a.
Proof. unfold gen_star, wstar. rewrite gen_add_model, gen_kleene_plus_model, gen_one_model. reflexivity. Qed.

End Bridge.

Section BridgeEps.
Variable S : StarSR.

Theorem gen_epsremove_model (K : mat S) (a : wfsa S) :
  gen_epsremove_with S K (states_of a) a = epsremove_with K a.
Proof.
  unfold gen_epsremove_with, epsremove_with. cbv zeta.
  destruct (gen_spawn_fields S false false true a) as (Hi & Hf & Ha).
  rewrite Hi, Hf, Ha. cbn [app]. reflexivity.
Qed.

End BridgeEps.

Print Assumptions gen_add_model.
Print Assumptions gen_mul_model.
Print Assumptions gen_star_model.
Print Assumptions gen_epsremove_model.
