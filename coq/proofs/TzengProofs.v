(* Correctness of the equivalence test for automata over a field (model/Tzeng.v):
   - a returned counterexample (w, v) really has v = d . M_w eta <> 0, and w is over the alphabet;
   - the answer "no counterexample" (without running out of fuel) implies d . M_w eta = 0 for
     EVERY word w over the alphabet;
   - Gram-Schmidt facts: the residual [proj u basis] is u minus a combination of the basis, and it
     is orthogonal to an orthogonal basis of non-zero vectors (formally real field);
   - the rationals are formally real, so everything instantiates at QcFR.
   No axioms. *)
From Coq Require Import List Arith Bool Lia Field Ring.
From GV.lib Require Import Semiring BigSum.
From GV.model Require Import Tzeng.
Import ListNotations.
Local Open Scope sr_scope.

Section TzengProofs.
Variable F : FR.
Variable idx : list nat.
Hypothesis idx_nodup : NoDup idx.
Hypothesis dot_pos : forall u : nat -> F, dot idx u u = 0 -> forall i, In i idx -> u i = 0.
Add Field TzField : (fth F).

Definition veq (u v : nat -> F) : Prop := forall i, In i idx -> u i = v i.

Lemma veq_refl u : veq u u.
Proof. intros i _; reflexivity. Qed.
Lemma veq_sym u v : veq u v -> veq v u.
Proof. intros H i Hi; symmetry; apply H, Hi. Qed.
Lemma veq_trans u v w : veq u v -> veq v w -> veq u w.
Proof. intros H1 H2 i Hi; rewrite (H1 i Hi); apply H2, Hi. Qed.

Lemma tz_seqb_true (x y : F) : seqb x y = true -> x = y.
Proof. intros E. apply (seqb_spec F); exact E. Qed.
Lemma tz_seqb_neq (x y : F) : seqb x y = false -> x <> y.
Proof. intros E H. apply (seqb_spec F) in H. rewrite H in E. discriminate E. Qed.

(* ------------------------------------------------------------------ *)
(* 1. freeze, extensionality, linearity                                 *)

Lemma lookup_map (u : nat -> F) (l : list nat) i :
  In i l -> lookup (map (fun i => (i, u i)) l) i = u i.
Proof.
  induction l as [|k t IH]; simpl; [tauto|]. intros [Hk|Hi].
  - subst k. rewrite Nat.eqb_refl. reflexivity.
  - destruct (Nat.eqb i k) eqn:E.
    + apply Nat.eqb_eq in E; subst; reflexivity.
    + apply IH, Hi.
Qed.

Lemma freeze_eq : forall (u : nat -> F) i, In i idx -> freeze idx u i = u i.
Proof. intros u i Hi. unfold freeze. apply lookup_map, Hi. Qed.

Lemma freeze_veq (u : nat -> F) : veq (freeze idx u) u.
Proof. intros i Hi; apply freeze_eq, Hi. Qed.

Lemma dot_ext (u u' v v' : nat -> F) : veq u u' -> veq v v' -> dot idx u v = dot idx u' v'.
Proof. intros Hu Hv. unfold dot. apply bsum_ext. intros i Hi. rewrite (Hu i Hi), (Hv i Hi). reflexivity. Qed.

Lemma mv_ext (M : nat -> nat -> F) (v v' : nat -> F) : veq v v' -> forall i, mv idx M v i = mv idx M v' i.
Proof. intros Hv i. unfold mv. apply bsum_ext. intros j Hj. rewrite (Hv j Hj). reflexivity. Qed.

Lemma bsum_fsub {A} (l : list A) (f g : A -> F) :
  bsum l (fun a => fsub F (f a) (g a)) = fsub F (bsum l f) (bsum l g).
Proof.
  induction l as [|a t IH].
  - rewrite !bsum_nil. ring.
  - rewrite !bsum_cons, IH. ring.
Qed.

Lemma dot_sym (u v : nat -> F) : dot idx u v = dot idx v u.
Proof. unfold dot. apply bsum_ext. intros; ring. Qed.

Lemma dot_zero_r (u : nat -> F) : dot idx u vzero = 0.
Proof. unfold dot, vzero. apply bsum_zero. intros; ring. Qed.

Lemma dot_add_r (d u v : nat -> F) : dot idx d (fun i => u i + v i) = dot idx d u + dot idx d v.
Proof. unfold dot. rewrite <- bsum_add. apply bsum_ext. intros; ring. Qed.

Lemma dot_scale_r (d u : nat -> F) c : dot idx d (vscale c u) = c * dot idx d u.
Proof. unfold dot, vscale. rewrite <- bsum_mul_l. apply bsum_ext. intros; ring. Qed.

Lemma dot_sub_r (d u v : nat -> F) : dot idx d (vsub u v) = fsub F (dot idx d u) (dot idx d v).
Proof. unfold dot, vsub. rewrite <- bsum_fsub. apply bsum_ext. intros; ring. Qed.

Lemma dot_zero_l (u : nat -> F) : dot idx vzero u = 0.
Proof. rewrite dot_sym. apply dot_zero_r. Qed.
Lemma dot_add_l (d u v : nat -> F) : dot idx (fun i => u i + v i) d = dot idx u d + dot idx v d.
Proof. rewrite dot_sym, dot_add_r, (dot_sym d u), (dot_sym d v). reflexivity. Qed.
Lemma dot_scale_l (d u : nat -> F) c : dot idx (vscale c u) d = c * dot idx u d.
Proof. rewrite dot_sym, dot_scale_r, (dot_sym d u). reflexivity. Qed.
Lemma dot_sub_l (d u v : nat -> F) : dot idx (vsub u v) d = fsub F (dot idx u d) (dot idx v d).
Proof. rewrite dot_sym, dot_sub_r, (dot_sym d u), (dot_sym d v). reflexivity. Qed.

Lemma mv_zero (M : nat -> nat -> F) i : mv idx M vzero i = 0.
Proof. unfold mv, vzero. apply bsum_zero. intros; ring. Qed.
Lemma mv_add (M : nat -> nat -> F) (u v : nat -> F) i :
  mv idx M (fun j => u j + v j) i = mv idx M u i + mv idx M v i.
Proof. unfold mv. rewrite <- bsum_add. apply bsum_ext. intros; ring. Qed.
Lemma mv_scale (M : nat -> nat -> F) (u : nat -> F) c i :
  mv idx M (vscale c u) i = c * mv idx M u i.
Proof. unfold mv, vscale. rewrite <- bsum_mul_l. apply bsum_ext. intros; ring. Qed.
Lemma mv_sub (M : nat -> nat -> F) (u v : nat -> F) i :
  mv idx M (vsub u v) i = fsub F (mv idx M u i) (mv idx M v i).
Proof. unfold mv, vsub. rewrite <- bsum_fsub. apply bsum_ext. intros; ring. Qed.

Lemma is_zero_true (u : nat -> F) : is_zero idx u = true -> veq u vzero.
Proof.
  unfold is_zero. rewrite forallb_forall. intros H i Hi. apply tz_seqb_true, H, Hi.
Qed.

Lemma is_zero_false (u : nat -> F) : is_zero idx u = false -> exists i, In i idx /\ u i <> 0.
Proof.
  unfold is_zero. generalize idx as l. induction l as [|k t IH]; simpl; [discriminate|].
  destruct (seqb (u k) 0) eqn:E; simpl.
  - intros H. destruct (IH H) as [i [Hi Hne]]. exists i; split; [right; exact Hi|exact Hne].
  - intros _. exists k; split; [left; reflexivity|apply tz_seqb_neq, E].
Qed.

(* ------------------------------------------------------------------ *)
(* 2 / 4. soundness of a returned counterexample                        *)

Section Sound.
Variable M : nat -> nat -> nat -> F.
Variables d eta : nat -> F.
Variable alphabet : list nat.

Definition good (p : list nat * (nat -> F)) : Prop :=
  veq (snd p) (act idx M (fst p) eta) /\ (forall a, In a (fst p) -> In a alphabet).

Definition good_cex (c : list nat * F) : Prop :=
  snd c = dot idx d (act idx M (fst c) eta) /\ snd c <> 0 /\ (forall a, In a (fst c) -> In a alphabet).

Lemma expand_good : forall al w V work basis,
  incl al alphabet -> good (w, V) -> Forall good work ->
  match expand idx M d al w V work basis with
  | inl c => good_cex c
  | inr (work', _) => Forall good work'
  end.
Proof.
  induction al as [|a rest IH]; intros w V work basis Hal HV Hwork; simpl.
  - exact Hwork.
  - pose proof HV as [HV1 HV2]. simpl in HV1, HV2. revert HV1 HV2. intros HV1 HV2.
    assert (Ha : In a alphabet) by (apply Hal; left; reflexivity).
    assert (Hrest : incl rest alphabet) by (intros x Hx; apply Hal; right; exact Hx).
    assert (Hu : veq (freeze idx (mv idx (M a) V)) (act idx M (a :: w) eta)).
    { intros i Hi. rewrite freeze_eq by exact Hi. simpl. apply mv_ext. exact HV1. }
    destruct (seqb (dot idx d (freeze idx (mv idx (M a) V))) 0) eqn:E; simpl.
    + destruct (is_zero idx (proj idx (freeze idx (mv idx (M a) V)) basis)).
      * apply IH; assumption.
      * apply IH; try assumption. constructor; [|exact Hwork].
        split; simpl; [exact Hu|]. intros x [Hx|Hx]; [subst; exact Ha|apply HV2, Hx].
    + split; [|split]; simpl.
      * apply dot_ext; [apply veq_refl|exact Hu].
      * apply tz_seqb_neq, E.
      * intros x [Hx|Hx]; [subst; exact Ha|apply HV2, Hx].
Qed.

Lemma search_good : forall fuel work basis c,
  Forall good work -> search idx M d alphabet fuel work basis = Some (Some c) -> good_cex c.
Proof.
  induction fuel as [|f IH]; intros work basis c Hwork; simpl; [discriminate|].
  destruct work as [|[w V] rest]; [discriminate|].
  inversion Hwork as [|x l HV Hrest]; subst.
  pose proof (expand_good alphabet w V rest basis (incl_refl _) HV Hrest) as HE.
  destruct (expand idx M d alphabet w V rest basis) as [c'|[work' basis']].
  - intros H; inversion H; subst; exact HE.
  - apply IH, HE.
Qed.

Lemma counterexample_good : forall fuel c,
  counterexample idx M d eta alphabet fuel = Some (Some c) -> good_cex c.
Proof.
  intros fuel c. unfold counterexample.
  destruct (seqb (dot idx d eta) 0) eqn:E; simpl.
  - destruct (is_zero idx eta); [discriminate|].
    apply search_good. constructor; [|constructor].
    split; simpl; [apply freeze_veq|tauto].
  - intros H; inversion H; subst. split; [|split]; simpl.
    + reflexivity.
    + apply tz_seqb_neq, E.
    + tauto.
Qed.
End Sound.

Theorem cex_sound : forall (M : nat -> nat -> nat -> F) (d eta : nat -> F) alphabet fuel w v,
  counterexample idx M d eta alphabet fuel = Some (Some (w, v)) ->
  v = dot idx d (act idx M w eta) /\ v <> 0.
Proof.
  intros M d eta alphabet fuel w v H.
  destruct (counterexample_good M d eta alphabet fuel (w, v) H) as [H1 [H2 _]].
  split; assumption.
Qed.

Theorem cex_word_over_alphabet : forall (M : nat -> nat -> nat -> F) (d eta : nat -> F) alphabet fuel w v,
  counterexample idx M d eta alphabet fuel = Some (Some (w, v)) ->
  forall a, In a w -> In a alphabet.
Proof.
  intros M d eta alphabet fuel w v H.
  destruct (counterexample_good M d eta alphabet fuel (w, v) H) as [_ [_ H3]]. exact H3.
Qed.

(* ------------------------------------------------------------------ *)
(* 3. completeness of the answer "no counterexample"                    *)

(* linear span of a set of vectors (everything up to equality on idx) *)
Inductive span (P : (nat -> F) -> Prop) : (nat -> F) -> Prop :=
| span_zero : forall v, veq v vzero -> span P v
| span_add : forall v c q z, P q -> span P z -> veq v (fun i => c * q i + z i) -> span P v.

Lemma span_veq P v v' : span P v -> veq v' v -> span P v'.
Proof.
  intros H Hv. destruct H as [v Hz|v c q z Hq Hs Hz].
  - apply span_zero. eapply veq_trans; eassumption.
  - eapply span_add; [exact Hq|exact Hs|]. eapply veq_trans; eassumption.
Qed.

Lemma span_gen (P : (nat -> F) -> Prop) q : P q -> span P q.
Proof.
  intros Hq. apply (span_add P q 1 q vzero Hq).
  - apply span_zero, veq_refl.
  - intros i _. unfold vzero. ring.
Qed.

Lemma span_plus P u v w : span P u -> span P v -> veq w (fun i => u i + v i) -> span P w.
Proof.
  intros Hu. revert v w. induction Hu as [u Hz|u c q z Hq Hs IH Hz]; intros v w Hv Hw.
  - apply (span_veq P v); [exact Hv|]. intros i Hi. rewrite (Hw i Hi), (Hz i Hi). unfold vzero. ring.
  - apply (span_add P w c q (fun i => z i + v i) Hq).
    + apply (IH v); [exact Hv|apply veq_refl].
    + intros i Hi. rewrite (Hw i Hi), (Hz i Hi). ring.
Qed.

Lemma span_scale P u w c : span P u -> veq w (vscale c u) -> span P w.
Proof.
  intros Hu. revert w. induction Hu as [u Hz|u c' q z Hq Hs IH Hz]; intros w Hw.
  - apply span_zero. intros i Hi. rewrite (Hw i Hi). unfold vscale. rewrite (Hz i Hi). unfold vzero. ring.
  - apply (span_add P w (c * c') q (vscale c z) Hq).
    + apply (IH _ (veq_refl _)).
    + intros i Hi. rewrite (Hw i Hi). unfold vscale. rewrite (Hz i Hi). ring.
Qed.

Lemma span_sub P u v w : span P u -> span P v -> veq w (vsub u v) -> span P w.
Proof.
  intros Hu Hv Hw.
  apply (span_plus P u (vscale (fopp F 1) v) w Hu).
  - apply (span_scale P v _ (fopp F 1) Hv), veq_refl.
  - intros i Hi. rewrite (Hw i Hi). unfold vsub, vscale. ring.
Qed.

(* span is monotone and idempotent *)
Lemma span_bind (P P' : (nat -> F) -> Prop) v :
  (forall q, P q -> span P' q) -> span P v -> span P' v.
Proof.
  intros HP Hv. induction Hv as [v Hz|v c q z Hq Hs IH Hz].
  - apply span_zero, Hz.
  - apply (span_plus P' (vscale c q) z v).
    + apply (span_scale P' q _ c (HP q Hq)), veq_refl.
    + exact IH.
    + exact Hz.
Qed.

Lemma span_mono (P P' : (nat -> F) -> Prop) v :
  (forall q, P q -> P' q) -> span P v -> span P' v.
Proof. intros HP. apply span_bind. intros q Hq. apply span_gen, HP, Hq. Qed.

(* linear maps send spans to spans *)
Lemma span_mv (P P' : (nat -> F) -> Prop) (Mx : nat -> nat -> F) v :
  (forall q, P q -> span P' (mv idx Mx q)) -> span P v -> span P' (mv idx Mx v).
Proof.
  intros HP Hv. induction Hv as [v Hz|v c q z Hq Hs IH Hz].
  - apply span_zero. intros i _. rewrite (mv_ext Mx v vzero Hz). apply mv_zero.
  - apply (span_plus P' (vscale c (mv idx Mx q)) (mv idx Mx z)).
    + apply (span_scale P' (mv idx Mx q) _ c (HP q Hq)), veq_refl.
    + exact IH.
    + intros i _. rewrite (mv_ext Mx v _ Hz).
      change (fun i0 => c * q i0 + z i0) with (fun i0 => vscale c q i0 + z i0).
      rewrite mv_add, mv_scale. reflexivity.
Qed.

(* a linear form vanishing on the generators vanishes on the span *)
Lemma span_dot0 (P : (nat -> F) -> Prop) (d v : nat -> F) :
  (forall q, P q -> dot idx d q = 0) -> span P v -> dot idx d v = 0.
Proof.
  intros HP Hv. induction Hv as [v Hz|v c q z Hq Hs IH Hz].
  - rewrite (dot_ext d d v vzero (veq_refl d) Hz). apply dot_zero_r.
  - rewrite (dot_ext d d v _ (veq_refl d) Hz).
    change (fun i => c * q i + z i) with (fun i => vscale c q i + z i).
    rewrite dot_add_r, dot_scale_r, (HP q Hq), IH. ring.
Qed.

(* Gram-Schmidt residual: u minus a combination of the vectors of Q (no hypothesis needed) *)
Lemma proj_residual (P : (nat -> F) -> Prop) : forall Q u,
  (forall q, In q Q -> P q) ->
  exists z, span P z /\ veq (proj idx u Q) (vsub u z).
Proof.
  induction Q as [|q Q IH]; intros u HQ.
  - exists vzero. split; [apply span_zero, veq_refl|].
    intros i _. simpl. unfold vsub, vzero. ring.
  - destruct (IH (freeze idx (proj1 idx u q)) (fun p Hp => HQ p (or_intror Hp))) as [z [Hz Hr]].
    set (c := fdiv F (dot idx q u) (dot idx q q)).
    exists (fun i => c * q i + z i). split.
    + apply (span_add P _ c q z (HQ q (or_introl eq_refl)) Hz), veq_refl.
    + intros i Hi. change (proj idx u (q :: Q)) with (proj idx (freeze idx (proj1 idx u q)) Q).
      rewrite (Hr i Hi). unfold vsub at 1. rewrite (freeze_eq _ i Hi).
      unfold proj1, vsub, vscale. fold c. ring.
Qed.

(* the abstract closure argument *)
Lemma closure_complete (M : nat -> nat -> nat -> F) (d eta : nat -> F) (alphabet : list nat)
      (Sp : (nat -> F) -> Prop) :
  Sp eta ->
  (forall a v, In a alphabet -> Sp v -> Sp (mv idx (M a) v)) ->
  (forall v, Sp v -> dot idx d v = 0) ->
  forall w, (forall a, In a w -> In a alphabet) -> dot idx d (act idx M w eta) = 0.
Proof.
  intros Heta Hclo Hd w Hw. apply Hd.
  induction w as [|a t IH]; simpl; [exact Heta|].
  apply Hclo; [apply Hw; left; reflexivity|]. apply IH. intros x Hx; apply Hw; right; exact Hx.
Qed.

Section Complete.
Variable M : nat -> nat -> nat -> F.
Variables d eta : nat -> F.
Variable alphabet : list nat.

Definition inb (basis : list (nat -> F)) : (nat -> F) -> Prop := fun q => In q basis.
Definition seen (work : list (list nat * (nat -> F))) (done : list (nat -> F)) : (nat -> F) -> Prop :=
  fun V => In V (map snd work) \/ In V done.

(* work: pending items; done: vectors already expanded (ghost) *)
Definition Inv (work : list (list nat * (nat -> F))) (basis done : list (nat -> F)) : Prop :=
  (forall q, In q basis -> dot idx d q = 0) /\
  (forall V, seen work done V -> span (inb basis) V) /\
  (forall q, In q basis -> span (seen work done) q) /\
  span (inb basis) eta.

Definition Clo (basis done : list (nat -> F)) : Prop :=
  forall V a, In V done -> In a alphabet -> span (inb basis) (mv idx (M a) V).

Lemma expand_inv : forall al w V work basis done work' basis',
  expand idx M d al w V work basis = inr (work', basis') ->
  Inv work basis (V :: done) ->
  Inv work' basis' (V :: done) /\ incl basis basis' /\
  (forall a, In a al -> span (inb basis') (mv idx (M a) V)).
Proof.
  induction al as [|a rest IH]; intros w V work basis done work' basis' HE HI; simpl in HE.
  - inversion HE; subst. split; [exact HI|]. split; [apply incl_refl|]. intros a [].
  - set (u := freeze idx (mv idx (M a) V)) in *.
    destruct (seqb (dot idx d u) 0) eqn:E; simpl in HE; [|discriminate].
    apply tz_seqb_true in E.
    destruct HI as [Ia [Ib [Ib' Ic]]].
    destruct (proj_residual (inb basis) basis u (fun q Hq => Hq)) as [z [Hz Hr]].
    assert (Hmu : veq (mv idx (M a) V) u) by (apply veq_sym, freeze_veq).
    destruct (is_zero idx (proj idx u basis)) eqn:Z.
    + (* residual zero: u already in the span *)
      assert (Hu : span (inb basis) u).
      { apply (span_veq _ z _ Hz). intros i Hi.
        pose proof (is_zero_true _ Z i Hi) as H0. rewrite (Hr i Hi) in H0.
        unfold vsub, vzero in H0.
        transitivity (fsub F (u i) (z i) + z i); [ring|]. rewrite H0. ring. }
      destruct (IH w V work basis done work' basis' HE (conj Ia (conj Ib (conj Ib' Ic))))
        as [HI' [Hinc Hcl]].
      split; [exact HI'|]. split; [exact Hinc|].
      intros x [Hx|Hx]; [subst x|apply Hcl, Hx].
      apply (span_mono (inb basis)); [intros q Hq; apply Hinc, Hq|].
      apply (span_veq _ u _ Hu Hmu).
    + set (q := proj idx u basis) in *.
      assert (Hmono : forall v, span (inb basis) v -> span (inb (basis ++ [q])) v).
      { intros v. apply span_mono. intros p Hp. apply in_or_app; left; exact Hp. }
      assert (Hq : span (inb (basis ++ [q])) q).
      { apply span_gen. apply in_or_app; right; left; reflexivity. }
      assert (HI2 : Inv ((a :: w, u) :: work) (basis ++ [q]) (V :: done)).
      { split; [|split; [|split]].
        - intros p Hp. apply in_app_or in Hp. destruct Hp as [Hp|[Hp|[]]]; [apply Ia, Hp|subst p].
          rewrite (dot_ext d d q (vsub u z) (veq_refl d) Hr), dot_sub_r, E.
          rewrite (span_dot0 (inb basis) d z Ia Hz). ring.
        - intros X [HX|HX].
          + simpl in HX. destruct HX as [HX|HX].
            * subst X. apply (span_plus _ q z u Hq (Hmono z Hz)).
              intros i Hi. rewrite (Hr i Hi). unfold vsub. ring.
            * apply Hmono, Ib. left; exact HX.
          + apply Hmono, Ib. right; exact HX.
        - assert (Hsm : forall v, span (seen work (V :: done)) v ->
                                  span (seen ((a :: w, u) :: work) (V :: done)) v).
          { intros v. apply span_mono. intros X [HX|HX]; [left; right; exact HX|right; exact HX]. }
          intros p Hp. apply in_app_or in Hp. destruct Hp as [Hp|[Hp|[]]]; [apply Hsm, Ib', Hp|subst p].
          apply (span_sub _ u z q).
          + apply span_gen. left; left; reflexivity.
          + apply Hsm. apply (span_bind (inb basis)); [exact Ib'|exact Hz].
          + exact Hr.
        - apply Hmono, Ic. }
      destruct (IH w V _ _ done work' basis' HE HI2) as [HI' [Hinc Hcl]].
      split; [exact HI'|]. split.
      * intros p Hp. apply Hinc, in_or_app; left; exact Hp.
      * intros x [Hx|Hx]; [subst x|apply Hcl, Hx].
        apply (span_mono (inb (basis ++ [q]))); [intros p Hp; apply Hinc, Hp|].
        apply (span_veq _ u); [|exact Hmu].
        apply (span_plus _ q z u Hq (Hmono z Hz)).
        intros i Hi. rewrite (Hr i Hi). unfold vsub. ring.
Qed.

Lemma search_inv : forall fuel work basis done,
  search idx M d alphabet fuel work basis = Some None ->
  Inv work basis done -> Clo basis done ->
  exists basis' done', Inv [] basis' done' /\ Clo basis' done'.
Proof.
  induction fuel as [|f IH]; intros work basis done HS HI HC; simpl in HS; [discriminate|].
  destruct work as [|[w V] rest].
  - exists basis, done. split; assumption.
  - destruct (expand idx M d alphabet w V rest basis) as [c|[work' basis']] eqn:HE; [discriminate|].
    assert (HI1 : Inv rest basis (V :: done)).
    { destruct HI as [Ia [Ib [Ib' Ic]]]. split; [exact Ia|]. split; [|split; [|exact Ic]].
      - intros X [HX|[HX|HX]]; apply Ib.
        + left; right; exact HX.
        + left; left; exact HX.
        + right; exact HX.
      - intros q Hq. apply (span_mono (seen ((w, V) :: rest) done)); [|apply Ib', Hq].
        intros X [[HX|HX]|HX].
        + right; left; exact HX.
        + left; exact HX.
        + right; right; exact HX. }
    destruct (expand_inv alphabet w V rest basis done work' basis' HE HI1) as [HI' [Hinc Hcl]].
    apply (IH work' basis' (V :: done) HS HI').
    intros X a [HX|HX] Ha.
    + subst X. apply Hcl, Ha.
    + apply (span_mono (inb basis)); [intros p Hp; apply Hinc, Hp|]. apply HC; assumption.
Qed.

Lemma final_complete : forall basis done,
  Inv [] basis done -> Clo basis done ->
  forall w, (forall a, In a w -> In a alphabet) -> dot idx d (act idx M w eta) = 0.
Proof.
  intros basis done [Ia [Ib [Ib' Ic]]] HC.
  apply (closure_complete M d eta alphabet (span (inb basis))).
  - exact Ic.
  - intros a v Ha Hv. apply (span_mv (inb basis)); [|exact Hv].
    intros q Hq. apply (span_mv (seen [] done)); [|apply Ib', Hq].
    intros X [[]|HX]. apply HC; assumption.
  - intros v. apply span_dot0, Ia.
Qed.
End Complete.

Theorem none_complete : forall (M : nat -> nat -> nat -> F) (d eta : nat -> F) alphabet fuel,
  counterexample idx M d eta alphabet fuel = Some None ->
  forall w, (forall a, In a w -> In a alphabet) -> dot idx d (act idx M w eta) = 0.
Proof.
  intros M d eta alphabet fuel H. unfold counterexample in H.
  destruct (seqb (dot idx d eta) 0) eqn:E; simpl in H; [|discriminate].
  apply tz_seqb_true in E.
  destruct (is_zero idx eta) eqn:Z.
  - (* eta = 0: every M_w eta is 0 *)
    apply is_zero_true in Z.
    apply (closure_complete M d eta alphabet (fun v => veq v vzero)).
    + exact Z.
    + intros a v _ Hv i _. rewrite (mv_ext (M a) v vzero Hv). apply mv_zero.
    + intros v Hv. rewrite (dot_ext d d v vzero (veq_refl d) Hv). apply dot_zero_r.
  - destruct (search_inv M d eta alphabet fuel _ _ [] H) as [basis' [done' [HI HC]]].
    + split; [|split; [|split]].
      * intros q [Hq|[]]. subst q.
        rewrite (dot_ext d d _ eta (veq_refl d) (freeze_veq eta)). exact E.
      * intros V [[HV|[]]|[]]. simpl in HV. subst V. apply span_gen. left; reflexivity.
      * intros q [Hq|[]]. subst q. apply span_gen. left; left; reflexivity.
      * apply (span_veq _ (freeze idx eta)); [apply span_gen; left; reflexivity|].
        apply veq_sym, freeze_veq.
    + intros V a [].
    + apply (final_complete M d eta alphabet basis' done' HI HC).
Qed.

(* ------------------------------------------------------------------ *)
(* Gram-Schmidt: orthogonality of the residual (uses that the field is formally real) *)

Fixpoint ortho (Q : list (nat -> F)) : Prop :=
  match Q with [] => True | q :: t => (forall p, In p t -> dot idx q p = 0) /\ ortho t end.
Definition nonzero (q : nat -> F) : Prop := exists i, In i idx /\ q i <> 0.

Lemma dot_self_nonzero q : nonzero q -> dot idx q q <> 0.
Proof. intros [i [Hi Hne]] H0. apply Hne. apply (dot_pos q H0 i Hi). Qed.

(* subtracting components along vectors orthogonal to p does not change p . u *)
Lemma proj_dot_keep : forall (Q : list (nat -> F)) (u p : nat -> F),
  (forall q, In q Q -> dot idx p q = 0) -> dot idx p (proj idx u Q) = dot idx p u.
Proof.
  induction Q as [|q Q IH]; intros u p HQ; [reflexivity|].
  change (proj idx u (q :: Q)) with (proj idx (freeze idx (proj1 idx u q)) Q).
  rewrite IH by (intros q' Hq'; apply HQ; right; exact Hq').
  rewrite (dot_ext p p _ (proj1 idx u q) (veq_refl p) (freeze_veq _)).
  unfold proj1. rewrite dot_sub_r, dot_scale_r, (HQ q (or_introl eq_refl)). ring.
Qed.

Lemma proj_orth : forall (Q : list (nat -> F)) (u : nat -> F), ortho Q -> (forall q, In q Q -> nonzero q) ->
  forall q, In q Q -> dot idx q (proj idx u Q) = 0.
Proof.
  induction Q as [|q0 Q IH]; intros u HO HN q Hq; [destruct Hq|].
  destruct HO as [HO1 HO2].
  change (proj idx u (q0 :: Q)) with (proj idx (freeze idx (proj1 idx u q0)) Q).
  destruct Hq as [Hq|Hq].
  - subst q. rewrite proj_dot_keep by exact HO1.
    rewrite (dot_ext q0 q0 _ (proj1 idx u q0) (veq_refl q0) (freeze_veq _)).
    unfold proj1. rewrite dot_sub_r, dot_scale_r.
    pose proof (dot_self_nonzero q0 (HN q0 (or_introl eq_refl))) as Hne.
    field. exact Hne.
  - apply IH; [exact HO2| |exact Hq]. intros q' Hq'; apply HN; right; exact Hq'.
Qed.

Lemma ortho_snoc : forall (Q : list (nat -> F)) (q : nat -> F), ortho Q -> (forall p, In p Q -> dot idx p q = 0) -> ortho (Q ++ [q]).
Proof.
  induction Q as [|q0 Q IH]; intros q HO Hq; simpl.
  - split; [intros p []|exact I].
  - destruct HO as [HO1 HO2]. split.
    + intros p Hp. apply in_app_or in Hp. destruct Hp as [Hp|[Hp|[]]].
      * apply HO1, Hp.
      * subst p. apply Hq. left; reflexivity.
    + apply IH; [exact HO2|]. intros p Hp; apply Hq; right; exact Hp.
Qed.

(* the basis maintained by [expand] stays orthogonal with non-zero members *)
Lemma expand_basis_ortho : forall (M : nat -> nat -> nat -> F) (d : nat -> F) al w V work basis work' basis',
  expand idx M d al w V work basis = inr (work', basis') ->
  ortho basis -> (forall q, In q basis -> nonzero q) ->
  ortho basis' /\ (forall q, In q basis' -> nonzero q).
Proof.
  intros M d. induction al as [|a rest IH]; intros w V work basis work' basis' HE HO HN; simpl in HE.
  - inversion HE; subst. split; assumption.
  - set (u := freeze idx (mv idx (M a) V)) in *.
    destruct (negb (seqb (dot idx d u) 0)); [discriminate|].
    destruct (is_zero idx (proj idx u basis)) eqn:Z.
    + apply (IH _ _ _ _ _ _ HE HO HN).
    + apply (IH _ _ _ _ _ _ HE).
      * apply ortho_snoc; [exact HO|]. intros p Hp. apply proj_orth; assumption.
      * intros q Hq. apply in_app_or in Hq. destruct Hq as [Hq|[Hq|[]]]; [apply HN, Hq|].
        subst q. apply is_zero_false, Z.
Qed.

(* the two Gram-Schmidt facts used by the search, in terms of [span] *)
Lemma proj_zero_span : forall (basis : list (nat -> F)) (u : nat -> F), is_zero idx (proj idx u basis) = true -> span (inb basis) u.
Proof.
  intros basis u Z.
  destruct (proj_residual (inb basis) basis u (fun q Hq => Hq)) as [z [Hz Hr]].
  apply (span_veq _ z _ Hz). intros i Hi.
  pose proof (is_zero_true _ Z i Hi) as H0. rewrite (Hr i Hi) in H0. unfold vsub, vzero in H0.
  transitivity (fsub F (u i) (z i) + z i); [ring|]. rewrite H0. ring.
Qed.

Lemma proj_span_snoc : forall (basis : list (nat -> F)) (u : nat -> F), span (inb (basis ++ [proj idx u basis])) u.
Proof.
  intros basis u.
  destruct (proj_residual (inb basis) basis u (fun q Hq => Hq)) as [z [Hz Hr]].
  apply (span_plus _ (proj idx u basis) z u).
  - apply span_gen. apply in_or_app; right; left; reflexivity.
  - apply (span_mono (inb basis)); [|exact Hz]. intros p Hp. apply in_or_app; left; exact Hp.
  - intros i Hi. rewrite (Hr i Hi). unfold vsub. ring.
Qed.

(* ------------------------------------------------------------------ *)
(* [span (inb basis)] is the set of explicit finite linear combinations of the basis list *)

Fixpoint lincomb (cs : list F) (Q : list (nat -> F)) : nat -> F :=
  match cs, Q with
  | c :: cs', q :: Q' => fun i => c * q i + lincomb cs' Q' i
  | _, _ => vzero
  end.
Definition lspan (Q : list (nat -> F)) (v : nat -> F) : Prop :=
  exists cs : list F, length cs = length Q /\ veq v (lincomb cs Q).

Fixpoint cadd (cs cs' : list F) : list F :=
  match cs, cs' with c :: t, c' :: t' => (c + c') :: cadd t t' | _, _ => [] end.

Lemma lincomb_span : forall (cs : list F) (Q : list (nat -> F)), span (inb Q) (lincomb cs Q).
Proof.
  induction cs as [|c cs IH]; intros [|q Q]; simpl; try (apply span_zero, veq_refl).
  apply (span_add _ _ c q (lincomb cs Q)).
  - left; reflexivity.
  - apply (span_mono (inb Q)); [intros p Hp; right; exact Hp|apply IH].
  - apply veq_refl.
Qed.

Lemma lincomb_zeros : forall (Q : list (nat -> F)) i, lincomb (map (fun _ => 0) Q) Q i = 0.
Proof. induction Q as [|q Q IH]; intros i; simpl; [reflexivity|]. rewrite IH. ring. Qed.

Lemma lincomb_cadd : forall (Q : list (nat -> F)) (cs cs' : list F),
  length cs = length Q -> length cs' = length Q ->
  length (cadd cs cs') = length Q /\
  forall i, lincomb (cadd cs cs') Q i = lincomb cs Q i + lincomb cs' Q i.
Proof.
  induction Q as [|q Q IH]; intros [|c cs] [|c' cs'] H1 H2; simpl in *; try discriminate.
  - split; [reflexivity|]. intros i. unfold vzero. ring.
  - destruct (IH cs cs') as [HL HS]; [congruence|congruence|].
    split; [congruence|]. intros i. rewrite HS. ring.
Qed.

Lemma lincomb_unit : forall (Q : list (nat -> F)) (q : nat -> F) (c : F), In q Q ->
  exists cs, length cs = length Q /\ forall i, lincomb cs Q i = c * q i.
Proof.
  induction Q as [|q0 Q IH]; intros q c Hq; [destruct Hq|]. destruct Hq as [Hq|Hq].
  - subst q0. exists (c :: map (fun _ => 0) Q). split; [simpl; rewrite map_length; reflexivity|].
    intros i. simpl. rewrite lincomb_zeros. ring.
  - destruct (IH q c Hq) as [cs [HL HS]]. exists (0 :: cs). split; [simpl; congruence|].
    intros i. simpl. rewrite HS. ring.
Qed.

Lemma span_lspan (Q : list (nat -> F)) (v : nat -> F) : span (inb Q) v <-> lspan Q v.
Proof.
  split.
  - intros H. induction H as [v Hz|v c q z Hq Hs IH Hz].
    + exists (map (fun _ => 0) Q). split; [apply map_length|].
      intros i Hi. rewrite (Hz i Hi), lincomb_zeros. reflexivity.
    + destruct IH as [cs [HL HS]]. destruct (lincomb_unit Q q c Hq) as [cs1 [HL1 HS1]].
      destruct (lincomb_cadd Q cs1 cs HL1 HL) as [HL2 HS2].
      exists (cadd cs1 cs). split; [exact HL2|].
      intros i Hi. rewrite (Hz i Hi), HS2, HS1, (HS i Hi). reflexivity.
  - intros [cs [_ Hv]]. apply (span_veq _ (lincomb cs Q) _ (lincomb_span cs Q) Hv).
Qed.

End TzengProofs.

(* ------------------------------------------------------------------ *)
(* 5. the rationals are formally real                                   *)

From Coq Require Import QArith Qcanon.

Lemma Qc_sq_nonneg (x : Qc) : (0 <= x * x)%Qc.
Proof.
  destruct (Qclt_le_dec x 0) as [Hneg|Hpos].
  - assert (H : (0 <= - x)%Qc).
    { apply Qclt_le_weak in Hneg. apply Qcopp_le_compat in Hneg.
      replace (- 0)%Qc with 0%Qc in Hneg by ring. exact Hneg. }
    replace (x * x)%Qc with ((- x) * (- x))%Qc by ring.
    replace 0%Qc with (0 * - x)%Qc at 1 by ring.
    apply Qcmult_le_compat_r; exact H.
  - replace 0%Qc with (0 * x)%Qc at 1 by ring.
    apply Qcmult_le_compat_r; exact Hpos.
Qed.

Lemma Qc_sum_nonneg_zero (a b : Qc) : (0 <= a)%Qc -> (0 <= b)%Qc -> (a + b = 0)%Qc -> a = 0%Qc /\ b = 0%Qc.
Proof.
  intros Ha Hb Hab.
  assert (Ha0 : (a <= 0)%Qc).
  { rewrite <- Hab. replace a with (a + 0)%Qc at 1 by ring. apply Qcplus_le_compat; [apply Qcle_refl|exact Hb]. }
  assert (Ea : a = 0%Qc) by (apply Qcle_antisym; assumption).
  split; [exact Ea|]. rewrite Ea in Hab. rewrite <- Hab. ring.
Qed.

Lemma Qc_sumsq_nonneg (l : list nat) (u : nat -> Qc) :
  (0 <= bsum (S:=QcSR) l (fun i => u i * u i)%Qc)%Qc.
Proof.
  induction l as [|k t IH].
  - rewrite bsum_nil. apply Qcle_refl.
  - rewrite bsum_cons. change (0 <= u k * u k + bsum (S:=QcSR) t (fun i => u i * u i)%Qc)%Qc.
    replace 0%Qc with (0 + 0)%Qc by ring. apply Qcplus_le_compat; [apply Qc_sq_nonneg|exact IH].
Qed.

Lemma Qc_dot_pos : forall (idx : list nat) (u : nat -> Qc),
  dot (F:=QcFR) idx u u = 0%Qc -> forall i, In i idx -> u i = 0%Qc.
Proof.
  intros idx u. unfold dot.
  change (bsum (S:=QcSR) idx (fun i => u i * u i)%Qc = 0%Qc -> forall i, In i idx -> u i = 0%Qc).
  induction idx as [|k t IH]; intros H i Hi; [destruct Hi|].
  rewrite bsum_cons in H.
  change (u k * u k + bsum (S:=QcSR) t (fun i => u i * u i)%Qc = 0)%Qc in H.
  destruct (Qc_sum_nonneg_zero _ _ (Qc_sq_nonneg (u k)) (Qc_sumsq_nonneg t u) H) as [Hk Ht].
  destruct Hi as [Hi|Hi].
  - subst i. destruct (Qcmult_integral _ _ Hk); assumption.
  - apply IH; assumption.
Qed.

Corollary Qc_cex_sound : forall idx (M : nat -> nat -> nat -> Qc) (d eta : nat -> Qc) alphabet fuel w v,
  counterexample (F:=QcFR) idx M d eta alphabet fuel = Some (Some (w, v)) ->
  v = dot (F:=QcFR) idx d (act (F:=QcFR) idx M w eta) /\ v <> 0%Qc.
Proof. intros idx. exact (cex_sound QcFR idx). Qed.

Corollary Qc_cex_word_over_alphabet : forall idx (M : nat -> nat -> nat -> Qc) (d eta : nat -> Qc) alphabet fuel w v,
  counterexample (F:=QcFR) idx M d eta alphabet fuel = Some (Some (w, v)) ->
  forall a, In a w -> In a alphabet.
Proof. intros idx. exact (cex_word_over_alphabet QcFR idx). Qed.

Corollary Qc_none_complete : forall idx (M : nat -> nat -> nat -> Qc) (d eta : nat -> Qc) alphabet fuel,
  counterexample (F:=QcFR) idx M d eta alphabet fuel = Some None ->
  forall w, (forall a, In a w -> In a alphabet) -> dot (F:=QcFR) idx d (act (F:=QcFR) idx M w eta) = 0%Qc.
Proof. intros idx. exact (none_complete QcFR idx). Qed.

Corollary Qc_proj_orth : forall idx (Q : list (nat -> Qc)) (u : nat -> Qc),
  ortho QcFR idx Q -> (forall q, In q Q -> nonzero QcFR idx q) ->
  forall q, In q Q -> dot (F:=QcFR) idx q (proj (F:=QcFR) idx u Q) = 0%Qc.
Proof. intros idx. exact (proj_orth QcFR idx (Qc_dot_pos idx)). Qed.

Corollary Qc_expand_basis_ortho : forall idx (M : nat -> nat -> nat -> Qc) (d : nat -> Qc) al w V work basis work' basis',
  expand (F:=QcFR) idx M d al w V work basis = inr (work', basis') ->
  ortho QcFR idx basis -> (forall q, In q basis -> nonzero QcFR idx q) ->
  ortho QcFR idx basis' /\ (forall q, In q basis' -> nonzero QcFR idx q).
Proof. intros idx. exact (expand_basis_ortho QcFR idx (Qc_dot_pos idx)). Qed.

Print Assumptions freeze_eq.
Print Assumptions dot_ext.
Print Assumptions mv_ext.
Print Assumptions cex_sound.
Print Assumptions cex_word_over_alphabet.
Print Assumptions closure_complete.
Print Assumptions proj_residual.
Print Assumptions none_complete.
Print Assumptions proj_orth.
Print Assumptions expand_basis_ortho.
Print Assumptions span_lspan.
Print Assumptions Qc_dot_pos.
Print Assumptions Qc_cex_sound.
Print Assumptions Qc_cex_word_over_alphabet.
Print Assumptions Qc_none_complete.
Print Assumptions Qc_proj_orth.
Print Assumptions Qc_expand_basis_ortho.
