(* The block solvers of WeightedGraph (solve_left / solve_right) compute a fixpoint
   of x = x A + b  (resp. x = A x + b) whenever the blocks partition the nodes,
   edges only go forward in the block order, and every block closure satisfies
   its own fixpoint equation; and soundness of the block-decomposition checker
   [scc_check].  No axioms. *)
From Coq Require Import List Arith Bool Lia Permutation.
From GV.lib Require Import Semiring BigSum.
From GV.model Require Import Linear Blocks.
From GV.proofs Require Import LehmannProof ClosureExtra.
Import ListNotations.
Local Open Scope sr_scope.

(* ====================================================================== *)
(* list facts (independent of the semiring)                               *)
(* ====================================================================== *)

Lemma memn_In x l : memn x l = true <-> In x l.
Proof.
  unfold memn. rewrite existsb_exists. split.
  - intros [y [Hy E]]. apply Nat.eqb_eq in E. subst y; exact Hy.
  - intros H. exists x. split; [exact H|apply Nat.eqb_refl].
Qed.

Lemma memn_false x l : memn x l = false <-> ~ In x l.
Proof.
  rewrite <- memn_In. destruct (memn x l); split; intros H.
  - discriminate H.
  - exfalso; apply H; reflexivity.
  - intro E; discriminate E.
  - reflexivity.
Qed.

Lemma memn_cons x a t : memn x (a :: t) = Nat.eqb x a || memn x t.
Proof. reflexivity. Qed.

Lemma nodupb_NoDup l : nodupb l = true <-> NoDup l.
Proof.
  induction l as [|x t IH]; simpl.
  - split; [intros _; constructor|reflexivity].
  - rewrite andb_true_iff, negb_true_iff, memn_false, IH. split.
    + intros [H1 H2]; constructor; assumption.
    + intros H; inversion H; subst; split; assumption.
Qed.

Lemma NoDup_app_disj {X} (l1 l2 : list X) x :
  NoDup (l1 ++ l2) -> In x l1 -> In x l2 -> False.
Proof.
  induction l1 as [|a t IH]; simpl; intros Hnd H1 H2; [contradiction|].
  inversion Hnd as [|? ? Hn Hd]; subst. destruct H1 as [E|H1].
  - subst a. apply Hn. apply in_or_app; right; exact H2.
  - apply IH; assumption.
Qed.

Lemma NoDup_app_l {X} (l1 l2 : list X) : NoDup (l1 ++ l2) -> NoDup l1.
Proof.
  induction l1 as [|a t IH]; simpl; intros Hnd; [constructor|].
  inversion Hnd as [|? ? Hn Hd]; subst. constructor.
  - intro H; apply Hn; apply in_or_app; left; exact H.
  - apply IH; exact Hd.
Qed.

Lemma NoDup_app_r {X} (l1 l2 : list X) : NoDup (l1 ++ l2) -> NoDup l2.
Proof.
  induction l1 as [|a t IH]; simpl; intros Hnd; [exact Hnd|].
  inversion Hnd; subst. apply IH; assumption.
Qed.

Lemma NoDup_concat_block {X} (bs : list (list X)) b :
  NoDup (concat bs) -> In b bs -> NoDup b.
Proof.
  intros Hnd Hb. apply in_split in Hb. destruct Hb as [l1 [l2 E]]. subst bs.
  rewrite concat_app, concat_cons in Hnd.
  apply NoDup_app_r in Hnd. apply NoDup_app_l in Hnd. exact Hnd.
Qed.

Lemma concat_rev_perm {X} (l : list (list X)) : Permutation (concat (rev l)) (concat l).
Proof.
  induction l as [|a t IH]; simpl; [constructor|].
  rewrite concat_app. simpl. rewrite app_nil_r.
  apply Permutation_trans with (a ++ concat (rev t)).
  - apply Permutation_app_comm.
  - apply Permutation_app_head; exact IH.
Qed.

Lemma In_concat_rev {X} (l : list (list X)) x : In x (concat (rev l)) <-> In x (concat l).
Proof.
  rewrite !in_concat. split; intros [y [Hy Hx]]; exists y; split; try exact Hx.
  - apply in_rev; exact Hy.
  - apply in_rev in Hy; exact Hy.
Qed.

(* block index of a member of a block, when the blocks are disjoint *)
Lemma block_of_app_notin x d r : forall n, ~ In x (concat d) ->
  block_of x (d ++ r) n = block_of x r (n + length d)%nat.
Proof.
  induction d as [|a d IH]; simpl; intros n Hn.
  - f_equal; lia.
  - destruct (memn x a) eqn:E.
    + apply memn_In in E. exfalso; apply Hn, in_or_app; left; exact E.
    + rewrite IH.
      * f_equal; lia.
      * intro H; apply Hn, in_or_app; right; exact H.
Qed.

Lemma block_of_spec x d blk t n :
  NoDup (concat (d ++ blk :: t)) -> In x blk ->
  block_of x (d ++ blk :: t) n = Some (n + length d)%nat.
Proof.
  intros Hnd Hx. rewrite block_of_app_notin.
  - simpl. apply memn_In in Hx. rewrite Hx. reflexivity.
  - intro Hd. rewrite concat_app, concat_cons in Hnd.
    apply (NoDup_app_disj _ _ x Hnd Hd). apply in_or_app; left; exact Hx.
Qed.

Lemma is_partition_spec nodes bs : is_partition nodes bs = true ->
  NoDup (concat bs) /\ (forall x, In x nodes -> In x (concat bs)) /\
  (forall x, In x (concat bs) -> In x nodes).
Proof.
  unfold is_partition. rewrite !andb_true_iff. intros [[[H1 H2] H3] _].
  rewrite forallb_forall in H2, H3. split; [|split].
  - apply nodupb_NoDup; exact H1.
  - intros x Hx. apply memn_In. apply H2; exact Hx.
  - intros x Hx. apply memn_In. apply H3; exact Hx.
Qed.

(* ====================================================================== *)
(* the solvers                                                            *)
(* ====================================================================== *)

Section BlockSolver.
Variable S : StarSR.
Add Ring SRingBS : (sth S).

Lemma forward_edges_spec nodes bs (A : mat S) : forward_edges nodes bs A = true ->
  forall i k, In i nodes -> In k nodes -> mget A i k <> 0 ->
  exists p q, block_of i bs O = Some p /\ block_of k bs O = Some q /\ p <= q.
Proof.
  unfold forward_edges. intros H i k Hi Hk Hne.
  rewrite forallb_forall in H. specialize (H i Hi).
  rewrite forallb_forall in H. specialize (H k Hk).
  assert (E : nonzero A i k = true).
  { unfold nonzero. apply negb_true_iff.
    destruct (seqb (mget A i k) 0) eqn:E; [|reflexivity].
    apply seqb_spec in E. contradiction. }
  rewrite E in H.
  destruct (block_of i bs O) as [p|]; [|discriminate H].
  destruct (block_of k bs O) as [q|]; [|discriminate H].
  exists p, q. split; [reflexivity|]. split; [reflexivity|].
  apply Nat.leb_le; exact H.
Qed.

(* no edge from a later block to an earlier one *)
Lemma forward_order nodes bs (A : mat S) :
  NoDup (concat bs) -> (forall x, In x (concat bs) -> In x nodes) ->
  forward_edges nodes bs A = true ->
  forall d1 b1 d2 b2 d3, bs = d1 ++ b1 :: d2 ++ b2 :: d3 ->
  forall i k, In i b2 -> In k b1 -> mget A i k = 0.
Proof.
  intros Hnd Hsub Hfw d1 b1 d2 b2 d3 E i k Hi Hk.
  destruct (seqb (mget A i k) 0) eqn:Ez; [apply seqb_spec; exact Ez|].
  exfalso.
  assert (Hne : mget A i k <> 0).
  { intro H. apply seqb_spec in H. rewrite H in Ez; discriminate Ez. }
  assert (Hin_i : In i nodes).
  { apply Hsub. rewrite E. apply in_concat. exists b2. split; [|exact Hi].
    apply in_or_app; right; right. apply in_or_app; right; left; reflexivity. }
  assert (Hin_k : In k nodes).
  { apply Hsub. rewrite E. apply in_concat. exists b1. split; [|exact Hk].
    apply in_or_app; right; left; reflexivity. }
  destruct (forward_edges_spec nodes bs A Hfw i k Hin_i Hin_k Hne) as [p [q [Hp [Hq Hle]]]].
  assert (Hk' : block_of k bs O = Some (O + length d1)%nat).
  { rewrite E. apply block_of_spec; [rewrite <- E; exact Hnd|exact Hk]. }
  assert (E2 : bs = (d1 ++ b1 :: d2) ++ b2 :: d3).
  { rewrite E, <- app_assoc. reflexivity. }
  assert (Hi' : block_of i bs O = Some (O + length (d1 ++ b1 :: d2))%nat).
  { rewrite E2. apply block_of_spec; [rewrite <- E2; exact Hnd|exact Hi]. }
  rewrite Hp in Hi'. rewrite Hq in Hk'.
  injection Hi' as Hi'. injection Hk' as Hk'.
  rewrite app_length in Hi'. simpl in Hi'. lia.
Qed.

(* ---------- vectors ---------- *)

Lemma vget_app (u v : vec S) k : vget (u ++ v) k = vget u k + vget v k.
Proof. unfold vget. apply bsum_app. Qed.

Lemma vget_nil k : vget ([] : vec S) k = 0.
Proof. reflexivity. Qed.

Lemma bsum_delta_nat (l : list nat) k (f : nat -> S) : NoDup l ->
  bsum l (fun k' => if Nat.eqb k k' then f k' else 0) = if memn k l then f k else 0.
Proof.
  induction 1 as [|a t Hn Hd IH]; [reflexivity|].
  rewrite bsum_cons, IH, memn_cons.
  destruct (Nat.eqb k a) eqn:E; simpl.
  - apply Nat.eqb_eq in E; subst a. apply memn_false in Hn. rewrite Hn. ring.
  - ring.
Qed.

Lemma bsum_memn (l m : list nat) (g : nat -> S) :
  NoDup l -> NoDup m -> incl m l ->
  bsum l (fun i => if memn i m then g i else 0) = bsum m g.
Proof.
  intros Hl Hm Hinc.
  transitivity (bsum l (fun i => bsum m (fun j => if Nat.eqb i j then g i else 0))).
  - apply bsum_ext; intros i _. symmetry.
    apply (bsum_delta_nat m i (fun _ => g i)); exact Hm.
  - rewrite bsum_swap. apply bsum_ext; intros j Hj.
    rewrite (bsum_ext S l _ (fun i => if Nat.eqb j i then g i else 0))
      by (intros i _; rewrite Nat.eqb_sym; reflexivity).
    rewrite bsum_delta_nat by exact Hl.
    assert (E : memn j l = true) by (apply memn_In, Hinc, Hj).
    rewrite E. reflexivity.
Qed.

Lemma vget_block (blk : list nat) (enter : list (nat * S)) (g : nat * S -> nat -> S) k :
  NoDup blk ->
  vget (flat_map (fun en => map (fun k' => (k', g en k')) blk) enter) k
  = if memn k blk then bsum enter (fun en => g en k) else 0.
Proof.
  intros Hnd. unfold vget. rewrite bsum_flat_map.
  transitivity (bsum enter (fun en => if memn k blk then g en k else 0)).
  - apply bsum_ext; intros en _. rewrite bsum_map. simpl.
    apply (bsum_delta_nat blk k (g en)); exact Hnd.
  - destruct (memn k blk); [reflexivity|apply bsum_const_zero].
Qed.

(* x_k = sum_j e_j K_jk solves x = e + x A_bb when K = I + K A_bb *)
Lemma block_alg (blk : list nat) (e : nat -> S) (Kb a : nat -> nat -> S) :
  NoDup blk ->
  (forall j k, In j blk -> In k blk ->
     Kb j k = fid j k + bsum blk (fun l => Kb j l * a l k)) ->
  forall k, In k blk ->
    bsum blk (fun j => e j * Kb j k)
    = e k + bsum blk (fun l => bsum blk (fun j => e j * Kb j l) * a l k).
Proof.
  intros Hnd HK k Hk.
  rewrite (bsum_ext S blk _ (fun j => e j * fid j k
                                      + bsum blk (fun l => e j * (Kb j l * a l k)))).
  2:{ intros j Hj. rewrite (HK j k Hj Hk), bsum_mul_l. ring. }
  rewrite bsum_add, bsum_fid by assumption.
  rewrite bsum_swap. f_equal.
  apply bsum_ext; intros l _. rewrite <- bsum_mul_r.
  apply bsum_ext; intros j _. ring.
Qed.

(* ---------- the generic fold ---------- *)

Section Generic.
Variables (allnodes : list nat) (b : vec S) (a : nat -> nat -> S)
          (K : list nat -> nat -> nat -> S) (step : vec S -> list nat -> vec S)
          (order : list (list nat)).
Hypothesis Hnd : NoDup allnodes.
Hypothesis step_spec : forall sol blk k, NoDup blk ->
  vget (step sol blk) k
  = vget sol k + (if memn k blk
                  then bsum blk (fun j => (vget b j + bsum allnodes (fun i => vget sol i * a i j)) * K blk j k)
                  else 0).
Hypothesis Hnd_order : NoDup (concat order).
Hypothesis Hsub : forall x, In x (concat order) -> In x allnodes.
Hypothesis HK : forall blk, In blk order -> forall j k, In j blk -> In k blk ->
  K blk j k = fid j k + bsum blk (fun l => K blk j l * a l k).
Hypothesis Hzero : forall d blk t, order = d ++ blk :: t ->
  forall i k, In i blk -> In k (concat d) -> a i k = 0.

Definition Inv (done : list (list nat)) (sol : vec S) : Prop :=
  (forall k, ~ In k (concat done) -> vget sol k = 0) /\
  (forall k, In k (concat done) ->
     vget sol k = vget b k + bsum allnodes (fun i => vget sol i * a i k)).

Lemma inv_step done blk todo sol :
  order = done ++ blk :: todo -> Inv done sol -> Inv (done ++ [blk]) (step sol blk).
Proof.
  intros E [Ha Hb].
  assert (Hin : In blk order) by (rewrite E; apply in_or_app; right; left; reflexivity).
  assert (Hnb : NoDup blk) by (apply (NoDup_concat_block order); assumption).
  assert (Hdisj : forall x, In x blk -> In x (concat done) -> False).
  { intros x Hx Hd. rewrite E, concat_app, concat_cons in Hnd_order.
    apply (NoDup_app_disj _ _ x Hnd_order Hd). apply in_or_app; left; exact Hx. }
  assert (Hinc : incl blk allnodes).
  { intros x Hx. apply Hsub. apply in_concat. exists blk; split; assumption. }
  assert (Hcc : forall k, In k (concat (done ++ [blk])) <-> In k (concat done) \/ In k blk).
  { intros k. rewrite concat_app. simpl. rewrite app_nil_r. apply in_app_iff. }
  set (enter := fun j => vget b j + bsum allnodes (fun i => vget sol i * a i j)).
  set (x := fun k => bsum blk (fun j => enter j * K blk j k)).
  assert (Hstep : forall k, vget (step sol blk) k = vget sol k + (if memn k blk then x k else 0)).
  { intros k. rewrite step_spec by exact Hnb. reflexivity. }
  split.
  - intros k Hk. rewrite Hstep.
    assert (E1 : memn k blk = false).
    { apply memn_false. intro H; apply Hk, Hcc; right; exact H. }
    rewrite E1, Ha; [ring|]. intro H; apply Hk, Hcc; left; exact H.
  - intros k Hk. apply Hcc in Hk. destruct Hk as [Hk|Hk].
    + (* k in an earlier block: later entries do not reach k *)
      assert (E1 : memn k blk = false).
      { apply memn_false. intro H; exact (Hdisj k H Hk). }
      rewrite Hstep, E1, (Hb k Hk).
      rewrite (bsum_ext S allnodes (fun i => vget (step sol blk) i * a i k)
                 (fun i => vget sol i * a i k)).
      * ring.
      * intros i _. rewrite Hstep. destruct (memn i blk) eqn:Ei; [|ring].
        apply memn_In in Ei. rewrite (Hzero done blk todo E i k Ei Hk). ring.
    + (* k in the current block *)
      assert (E1 : memn k blk = true) by (apply memn_In; exact Hk).
      rewrite Hstep, E1, Ha by (intro H; exact (Hdisj k Hk H)).
      rewrite (bsum_ext S allnodes (fun i => vget (step sol blk) i * a i k)
                 (fun i => vget sol i * a i k
                           + (if memn i blk then x i * a i k else 0))).
      2:{ intros i _. rewrite Hstep. destruct (memn i blk); ring. }
      rewrite bsum_add.
      rewrite (bsum_memn allnodes blk (fun i => x i * a i k)) by assumption.
      unfold x at 1.
      rewrite (block_alg blk enter (K blk) a Hnb (HK blk Hin) k Hk).
      subst x enter. cbv beta. ring.
Qed.

Lemma inv_fold : forall todo done sol,
  order = done ++ todo -> Inv done sol -> Inv (done ++ todo) (fold_left step todo sol).
Proof.
  induction todo as [|blk todo IH]; intros done sol E HI; simpl.
  - rewrite app_nil_r. exact HI.
  - replace (done ++ blk :: todo) with ((done ++ [blk]) ++ todo)
      by (rewrite <- app_assoc; reflexivity).
    apply IH.
    + rewrite <- app_assoc. exact E.
    + apply (inv_step done blk todo); assumption.
Qed.

Lemma gen_fixpoint : forall k, In k (concat order) ->
  vget (fold_left step order []) k
  = vget b k + bsum allnodes (fun i => vget (fold_left step order []) i * a i k).
Proof.
  intros k Hk.
  assert (HI : Inv ([] ++ order) (fold_left step order [])).
  { apply inv_fold; [reflexivity|]. split.
    - intros k' _. apply vget_nil.
    - intros k' []. }
  destruct HI as [_ Hb]. apply Hb. exact Hk.
Qed.

End Generic.

(* ---------- solve_left ---------- *)

Lemma solve_left_block_spec allnodes (A : mat S) (b sol : vec S) blk k : NoDup blk ->
  vget (solve_left_block S allnodes A b sol blk) k
  = vget sol k + (if memn k blk
                  then bsum blk (fun j => (vget b j + bsum allnodes (fun i => vget sol i * mget A i j))
                                          * mget (block_closure blk A) j k)
                  else 0).
Proof.
  intros Hnb. unfold solve_left_block. cbv zeta. rewrite vget_app. f_equal.
  rewrite (vget_block blk _ (fun e k' => snd e * mget (block_closure blk A) (fst e) k') k Hnb).
  destruct (memn k blk); [|reflexivity].
  rewrite bsum_map. reflexivity.
Qed.

Theorem solve_left_fixpoint : forall (allnodes : list nat) (blocks : list (list nat)) (A : mat S) (b : vec S),
  NoDup allnodes ->
  is_partition allnodes blocks = true ->
  forward_edges allnodes blocks A = true ->
  (forall blk, In blk blocks -> forall i k, In i blk -> In k blk ->
     mget (block_closure blk A) i k
     = fid i k + bsum blk (fun j => mget (block_closure blk A) i j * mget A j k)) ->
  (forall i k, ~ In i allnodes \/ ~ In k allnodes -> mget A i k = 0) ->
  forall k, In k allnodes ->
    vget (solve_left allnodes blocks A b) k
    = vget b k + bsum allnodes (fun i => vget (solve_left allnodes blocks A b) i * mget A i k).
Proof.
  intros allnodes blocks A b Hnd Hpart Hfw HK _ k Hk.
  destruct (is_partition_spec allnodes blocks Hpart) as [Hndc [Hcov Hsub]].
  unfold solve_left.
  apply (gen_fixpoint allnodes b (mget A) (fun blk => mget (block_closure blk A))
           (solve_left_block S allnodes A b) blocks Hnd).
  - intros sol blk k' Hnb. apply solve_left_block_spec; exact Hnb.
  - exact Hndc.
  - exact Hsub.
  - exact HK.
  - intros d blk t E i k' Hi Hk'.
    apply in_concat in Hk'. destruct Hk' as [b1 [Hb1 Hk']].
    apply in_split in Hb1. destruct Hb1 as [d1 [d2 Ed]].
    apply (forward_order allnodes blocks A Hndc Hsub Hfw d1 b1 d2 blk t); try assumption.
    rewrite E, Ed, <- app_assoc. reflexivity.
  - apply Hcov; exact Hk.
Qed.

(* ---------- solve_right ---------- *)

Lemma solve_right_block_spec allnodes (A : mat S) (b sol : vec S) blk k : NoDup blk ->
  vget (solve_right_block S allnodes A b sol blk) k
  = vget sol k + (if memn k blk
                  then bsum blk (fun j => (vget b j + bsum allnodes (fun i => vget sol i * mget A j i))
                                          * mget (block_closure blk A) k j)
                  else 0).
Proof.
  intros Hnb. unfold solve_right_block. cbv zeta. rewrite vget_app. f_equal.
  rewrite (vget_block blk _ (fun e k' => mget (block_closure blk A) k' (fst e) * snd e) k Hnb).
  destruct (memn k blk); [|reflexivity].
  rewrite bsum_map. apply bsum_ext; intros j _. simpl.
  rewrite (bsum_ext S allnodes (fun i => vget sol i * mget A j i)
             (fun i => mget A j i * vget sol i)) by (intros; ring).
  ring.
Qed.

Theorem solve_right_fixpoint : forall (allnodes : list nat) (blocks : list (list nat)) (A : mat S) (b : vec S),
  NoDup allnodes ->
  is_partition allnodes blocks = true ->
  forward_edges allnodes blocks A = true ->
  (forall blk, In blk blocks -> forall i k, In i blk -> In k blk ->
     mget (block_closure blk A) i k
     = fid i k + bsum blk (fun j => mget A i j * mget (block_closure blk A) j k)) ->
  (forall i k, ~ In i allnodes \/ ~ In k allnodes -> mget A i k = 0) ->
  forall k, In k allnodes ->
    vget (solve_right allnodes blocks A b) k
    = vget b k + bsum allnodes (fun i => mget A k i * vget (solve_right allnodes blocks A b) i).
Proof.
  intros allnodes blocks A b Hnd Hpart Hfw HK _ k Hk.
  destruct (is_partition_spec allnodes blocks Hpart) as [Hndc [Hcov Hsub]].
  unfold solve_right.
  rewrite (bsum_ext S allnodes _
             (fun i => vget (fold_left (solve_right_block S allnodes A b) (rev blocks) []) i
                       * mget A k i)) by (intros; ring).
  apply (gen_fixpoint allnodes b (fun i k' => mget A k' i)
           (fun blk j k' => mget (block_closure blk A) k' j)
           (solve_right_block S allnodes A b) (rev blocks) Hnd).
  - intros sol blk k' Hnb. apply solve_right_block_spec; exact Hnb.
  - apply (Permutation_NoDup (l := concat blocks)); [|exact Hndc].
    apply Permutation_sym, concat_rev_perm.
  - intros x Hx. apply Hsub. apply In_concat_rev; exact Hx.
  - intros blk Hblk j k' Hj Hk'. apply in_rev in Hblk.
    rewrite (HK blk Hblk k' j Hk' Hj).
    unfold fid. rewrite (Nat.eqb_sym k' j). f_equal.
    apply bsum_ext; intros l _. ring.
  - intros d blk t E i k' Hi Hk'.
    apply in_concat in Hk'. destruct Hk' as [b1 [Hb1 Hk']].
    apply in_split in Hb1. destruct Hb1 as [d1 [d2 Ed]].
    (* blocks = rev t ++ blk :: rev d2 ++ b1 :: rev d1 : k' lies in a later block than i *)
    apply (forward_order allnodes blocks A Hndc Hsub Hfw (rev t) blk (rev d2) b1 (rev d1));
      try assumption.
    rewrite <- (rev_involutive blocks), E, Ed.
    rewrite !rev_app_distr. simpl.
    rewrite <- !app_assoc. simpl. reflexivity.
  - apply In_concat_rev. apply Hcov; exact Hk.
Qed.

(* ---------- the checker ---------- *)

Theorem scc_check_sound : forall (nodes : list nat) (bs : list (list nat)) (A : mat S),
  NoDup nodes -> scc_check nodes bs A = true ->
  (forall x, In x nodes <-> exists b, In b bs /\ In x b) /\
  NoDup (concat bs) /\
  (forall i k p q, In i nodes -> In k nodes -> mget A i k <> 0 ->
     block_of i bs O = Some p -> block_of k bs O = Some q -> p <= q) /\
  (forall b i k, In b bs -> In i b -> In k b -> reachN b (adj_bool b A) i k).
Proof.
  intros nodes bs A Hnd Hchk. unfold scc_check in Hchk.
  rewrite !andb_true_iff in Hchk. destruct Hchk as [[Hpart Hfw] Hsc].
  destruct (is_partition_spec nodes bs Hpart) as [Hndc [Hcov Hsub]].
  split; [|split; [|split]].
  - intros x. rewrite <- in_concat. split; [apply Hcov|apply Hsub].
  - exact Hndc.
  - intros i k p q Hi Hk Hne Hp Hq.
    destruct (forward_edges_spec nodes bs A Hfw i k Hi Hk Hne) as [p' [q' [Hp' [Hq' Hle]]]].
    rewrite Hp in Hp'. rewrite Hq in Hq'. injection Hp' as <-. injection Hq' as <-. exact Hle.
  - intros blk i k Hblk Hi Hk.
    rewrite forallb_forall in Hsc. specialize (Hsc blk Hblk).
    unfold strongly_connected in Hsc.
    rewrite forallb_forall in Hsc. specialize (Hsc i Hi).
    rewrite forallb_forall in Hsc. specialize (Hsc k Hk).
    apply lehmann_bool_sound; try assumption.
    apply (NoDup_concat_block bs); assumption.
Qed.

End BlockSolver.

Print Assumptions solve_left_fixpoint.
Print Assumptions scc_check_sound.
Print Assumptions solve_right_fixpoint.
