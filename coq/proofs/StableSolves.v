(* From the reference semantics to the equation system: whenever every string weight is a
   finite (stabilising) derivation sum, the string-weight function solves the grammar's
   equations (solves G f).  Corollaries: uniqueness of stable values, values returned by the
   executable tabulation `lang` form a solution, and acyclic (ranked) grammars are stable
   everywhere.
   Only the library, the model and earlier proof files are required; nothing is modified. *)
From Coq Require Import List Arith Bool Lia.
From GV.lib Require Import Semiring BigSum.
From GV.model Require Import Cfg.
From GV.proofs Require Import UnfoldProofs CkyProofs FoldProofs CfgChart.
Import ListNotations.
Local Open Scope sr_scope.

(* ====================================================================== *)
(* contiguous substrings                                                  *)
(* ====================================================================== *)

Definition infix {A} (ys xs : list A) : Prop := exists pre post, xs = pre ++ ys ++ post.

Definition prefixes {A} (l : list A) : list (list A) := map fst (splits l).
Definition suffixes {A} (l : list A) : list (list A) := map snd (splits l).
(* all the prefixes of all the suffixes *)
Definition infixes {A} (xs : list A) : list (list A) := flat_map prefixes (suffixes xs).

Lemma in_splits {A} : forall (pre post : list A), In (pre, post) (splits (pre ++ post)).
Proof.
  induction pre as [|x pre IH]; intros post.
  - cbn [app]. destruct post as [|y t]; cbn [splits]; left; reflexivity.
  - cbn [app splits]. right. apply in_map_iff. exists (pre, post). split; [reflexivity|apply IH].
Qed.

Lemma infix_refl {A} (xs : list A) : infix xs xs.
Proof. exists [], []. cbn [app]. rewrite app_nil_r. reflexivity. Qed.

Lemma infix_cons {A} (b : A) ys xs : infix ys xs -> infix ys (b :: xs).
Proof. intros [pre [post E]]. exists (b :: pre), post. rewrite E. reflexivity. Qed.

Lemma infix_app_l {A} (u ys v : list A) : infix ys v -> infix ys (u ++ v).
Proof. intros [pre [post E]]. exists (u ++ pre), post. rewrite E, app_assoc. reflexivity. Qed.

Lemma infix_prefix {A} (u v : list A) : infix u (u ++ v).
Proof. exists [], v. reflexivity. Qed.

Lemma infix_infixes {A} (ys xs : list A) : infix ys xs -> In ys (infixes xs).
Proof.
  intros [pre [post E]]. unfold infixes. apply in_flat_map.
  exists (ys ++ post). split.
  - unfold suffixes. apply in_map_iff. exists (pre, ys ++ post).
    split; [reflexivity|]. rewrite E. apply in_splits.
  - unfold prefixes. apply in_map_iff. exists (ys, post).
    split; [reflexivity|]. apply in_splits.
Qed.

Lemma infixes_infix {A} (ys xs : list A) : In ys (infixes xs) -> infix ys xs.
Proof.
  unfold infixes, prefixes, suffixes. intros Hin.
  apply in_flat_map in Hin. destruct Hin as [suf [Hsuf Hys]].
  apply in_map_iff in Hsuf. destruct Hsuf as [p [Ep Hp]].
  apply in_map_iff in Hys. destruct Hys as [q [Eq Hq]].
  apply splits_app in Hp. apply splits_app in Hq.
  exists (fst p), (snd q). rewrite <- Hp, Ep, <- Hq, Eq. reflexivity.
Qed.

(* a finite family of eventually-true properties is eventually true uniformly *)
Lemma uniform_bound {A} (Q : A -> nat -> Prop) :
  (forall a, exists H, forall h, H <= h -> Q a h) ->
  forall l : list A, exists H, forall h, H <= h -> forall a, In a l -> Q a h.
Proof.
  intros HQ. induction l as [|a l IH].
  - exists O. intros h _ a [].
  - destruct IH as [H1 IH]. destruct (HQ a) as [H2 Ha].
    exists (Nat.max H1 H2). intros h Hh b [<-|Hb].
    + apply Ha. lia.
    + apply IH; [lia|exact Hb].
Qed.

Section StableSolves.
Variable S : SR.
Add Ring StableRing : (sth S).

Local Notation Sn := Datatypes.S.

(* ====================================================================== *)
(* (1) Wb only looks at nonterminals of the body on infixes of the string *)
(* ====================================================================== *)

Lemma Wb_ext_sub (f g : nat -> list nat -> S) (body : list sym) : forall xs,
  (forall Y ys, In (N Y) body -> infix ys xs -> f Y ys = g Y ys) ->
  Wb f body xs = Wb g body xs.
Proof.
  induction body as [|s rest IH]; intros xs Hfg.
  - reflexivity.
  - destruct s as [a|Y].
    + cbn [Wb]. destruct xs as [|b xs']; [reflexivity|].
      destruct (Nat.eqb a b); [|reflexivity].
      apply IH. intros Y ys HY Hinf. apply Hfg; [right; exact HY|apply infix_cons; exact Hinf].
    + cbn [Wb]. apply bsum_ext. intros p Hp.
      pose proof (splits_app xs p Hp) as Exs.
      rewrite (Hfg Y (fst p)); [|left; reflexivity|rewrite <- Exs; apply infix_prefix].
      rewrite (IH (snd p)); [reflexivity|].
      intros Y' ys HY Hinf. apply Hfg; [right; exact HY|].
      rewrite <- Exs. apply infix_app_l. exact Hinf.
Qed.

(* ====================================================================== *)
(* (2) uniform height bound over finitely many (nonterminal, infix) pairs *)
(* ====================================================================== *)

Lemma stable_uniform (G : grammar S) (f : nat -> list nat -> S) :
  (forall Y ys, stable S G Y ys (f Y ys)) ->
  forall (nts : list nat) (xs : list nat),
  exists H, forall h, H <= h -> forall Y ys, In Y nts -> In ys (infixes xs) -> W G h Y ys = f Y ys.
Proof.
  intros Hst nts xs.
  destruct (uniform_bound (fun (a : nat * list nat) h => W G h (fst a) (snd a) = f (fst a) (snd a))
              (fun a => Hst (fst a) (snd a)) (list_prod nts (infixes xs))) as [H HH].
  exists H. intros h Hh Y ys HY Hys.
  apply (HH h Hh (Y, ys)). apply in_prod; assumption.
Qed.

(* the nonterminals occurring in the bodies of G *)
Definition body_nts (body : list sym) : list nat :=
  flat_map (fun s => match s with N Y => [Y] | T _ => [] end) body.
Definition gnts (G : grammar S) : list nat := flat_map (fun r => body_nts (rbody r)) G.

Lemma in_gnts (G : grammar S) r Y : In r G -> In (N Y) (rbody r) -> In Y (gnts G).
Proof.
  intros Hr HY. unfold gnts. apply in_flat_map. exists r. split; [exact Hr|].
  unfold body_nts. apply in_flat_map. exists (N Y). split; [exact HY|left; reflexivity].
Qed.

(* ====================================================================== *)
(* (3) stable string weights solve the equations                          *)
(* ====================================================================== *)

Theorem stable_solves : forall (G : grammar S) (f : nat -> list nat -> S),
  (forall X xs, stable S G X xs (f X xs)) -> solves S G f.
Proof.
  intros G f Hst X xs.
  destruct (stable_uniform G f Hst (gnts G) xs) as [H1 HH1].
  destruct (Hst X xs) as [H2 HH2].
  set (H := Nat.max H1 H2).
  rewrite <- (HH2 (Sn H)) by (unfold H; lia).
  rewrite W_succ_gstep. unfold gstep.
  apply bsum_ext. intros r Hr.
  destruct (Nat.eqb (rhead r) X); [|reflexivity].
  f_equal. apply Wb_ext_sub. intros Y ys HY Hinf.
  apply HH1.
  - unfold H; lia.
  - apply (in_gnts G r Y Hr HY).
  - apply infix_infixes. exact Hinf.
Qed.

(* ====================================================================== *)
(* (4) the stable value is unique                                         *)
(* ====================================================================== *)

Corollary stable_value_unique : forall (G : grammar S) X xs (v v' : S),
  stable S G X xs v -> stable S G X xs v' -> v = v'.
Proof.
  intros G X xs v v' [H1 HH1] [H2 HH2].
  rewrite <- (HH1 (Nat.max H1 H2)) by lia.
  rewrite <- (HH2 (Nat.max H1 H2)) by lia. reflexivity.
Qed.

(* ====================================================================== *)
(* (5) the values returned by the tabulation form a solution              *)
(* ====================================================================== *)

Corollary lang_solves : forall (G : grammar S) (f : nat -> list nat -> S),
  (forall X xs, exists fuel, lang G fuel X xs = Some (f X xs)) -> solves S G f.
Proof.
  intros G f Hl. apply stable_solves. intros X xs.
  destruct (Hl X xs) as [fuel E]. exact (lang_stable S G fuel X xs (f X xs) E).
Qed.

(* ====================================================================== *)
(* (6) acyclic (ranked) grammars are stable everywhere                    *)
(* ====================================================================== *)

(* every body nonterminal has a strictly smaller rank than the head *)
Definition ranked (r : nat -> nat) (G : grammar S) : Prop :=
  forall rl Y, In rl G -> In (N Y) (rbody rl) -> r Y < r (rhead rl).

Lemma ranked_W_const_aux (r : nat -> nat) (G : grammar S) : ranked r G ->
  forall n X, r X < n -> forall h, r X < h -> forall xs, W G h X xs = W G (Sn (r X)) X xs.
Proof.
  intros Hrk. induction n as [|n IH]; intros X Hn h Hh xs; [lia|].
  destruct h as [|h']; [lia|].
  rewrite !W_succ_gstep. unfold gstep.
  apply bsum_ext. intros rl Hrl.
  destruct (Nat.eqb_spec (rhead rl) X) as [E|E]; [|reflexivity].
  f_equal. apply Wb_ext_in. intros Y ys HY.
  pose proof (Hrk rl Y Hrl HY) as Hlt. rewrite E in Hlt.
  rewrite (IH Y) by lia.
  symmetry. apply (IH Y); lia.
Qed.

Lemma ranked_W_const (r : nat -> nat) (G : grammar S) : ranked r G ->
  forall X h xs, r X < h -> W G h X xs = W G (Sn (r X)) X xs.
Proof.
  intros Hrk X h xs Hh. apply (ranked_W_const_aux r G Hrk (Sn (r X)) X); lia.
Qed.

Theorem ranked_stable : forall (r : nat -> nat) (G : grammar S), ranked r G ->
  forall X xs, stable S G X xs (W G (Sn (r X)) X xs).
Proof.
  intros r G Hrk X xs. exists (Sn (r X)). intros h Hh.
  apply ranked_W_const; [exact Hrk|lia].
Qed.

Theorem ranked_solves : forall (r : nat -> nat) (G : grammar S), ranked r G ->
  solves S G (fun X xs => W G (Sn (r X)) X xs).
Proof.
  intros r G Hrk. apply stable_solves. intros X xs. apply ranked_stable. exact Hrk.
Qed.

(* with a uniform height: any bound on the ranks of the heads will do *)
Corollary ranked_solves_bound : forall (r : nat -> nat) (G : grammar S) (B : nat), ranked r G ->
  (forall X, r X < B) -> solves S G (W G B).
Proof.
  intros r G B Hrk HB X xs.
  rewrite (ranked_W_const r G Hrk X B xs (HB X)).
  rewrite (ranked_solves r G Hrk X xs). unfold gstep.
  apply bsum_ext. intros rl Hrl.
  destruct (Nat.eqb (rhead rl) X); [|reflexivity].
  f_equal. apply Wb_ext. intros Y ys. symmetry. apply ranked_W_const; [exact Hrk|apply HB].
Qed.

End StableSolves.

Print Assumptions Wb_ext_sub.
Print Assumptions stable_uniform.
Print Assumptions stable_solves.
Print Assumptions stable_value_unique.
Print Assumptions lang_solves.
Print Assumptions ranked_stable.
Print Assumptions ranked_solves.
Print Assumptions ranked_solves_bound.
