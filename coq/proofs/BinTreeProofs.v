(* binarize (model/Transform2.v) preserves the weighted language in the strongest form
   available over an arbitrary commutative semiring: there is a weight- and
   yield-preserving one-to-one correspondence [phi]/[psi] between the derivation trees
   of G and those of G' := binarize fresh G, for every nonterminal X < fresh, under
   the freshness hypotheses
     Hh : forall r, In r G -> rhead r < fresh
     Hb : forall r Y, In r G -> In (N Y) (rbody r) -> Y < fresh.
   A node  Node i (w, X, y1 :: y2 :: y3 :: ... :: yn) [t1; ...; tn]  becomes the left-nested chain
     Node (o+n-2) (w, X, [N F_{n-3}; yn])
       [ Node (o+n-3) (1, F_{n-3}, [N F_{n-4}; y_{n-1}]) [ ... Node o (1, F_0, [y1; y2]) [phi t1; phi t2] ... ; phi t_{n-1} ] ; phi tn ]
   where o = i + D G i is the position in G' of the first rule generated for the i-th
   rule of G, F_k = fresh + D G i + k, and D G i is the number of names invented for
   the rules before the i-th one.  No axioms. *)
From Coq Require Import List Arith Bool Lia NArith.
From GV.lib Require Import Semiring BigSum.
From GV.model Require Import Cfg Transform2.
From GV.proofs Require Import CfgTrees ShapeProofs FoldProofs SepTermProofs.
Import ListNotations.
Local Open Scope sr_scope.

(* ---------- generic list lemmas ---------- *)

Lemma firstn_snoc {A} : forall (l : list A) p y,
  nth_error l p = Some y -> firstn (Datatypes.S p) l = firstn p l ++ [y].
Proof.
  induction l as [|x l IH]; intros p y Hp; destruct p as [|p]; simpl in Hp; try discriminate.
  - injection Hp as Hp. subst y. reflexivity.
  - cbn [firstn app]. cbn [firstn] in IH. rewrite (IH p y Hp). reflexivity.
Qed.

Section BinTree.
Variable S : SR.
Add Ring SRingBin : (sth S).

Local Notation Sn := Datatypes.S.

(* ====================================================================== *)
(* 0. forests as lists                                                    *)
(* ====================================================================== *)

Fixpoint fapp (f g : forest S) : forest S :=
  match f with Fnil => g | Fcons t f' => Fcons t (fapp f' g) end.

Fixpoint flen (f : forest S) : nat :=
  match f with Fnil => O | Fcons _ f' => Sn (flen f') end.

Lemma fapp_nil_r f : fapp f Fnil = f.
Proof. induction f as [|t f IH]; cbn [fapp]; [reflexivity|rewrite IH; reflexivity]. Qed.

Lemma fapp_assoc f g h : fapp (fapp f g) h = fapp f (fapp g h).
Proof. induction f as [|t f IH]; cbn [fapp]; [reflexivity|rewrite IH; reflexivity]. Qed.

Lemma fyield_fapp f g : fyield (fapp f g) = fyield f ++ fyield g.
Proof.
  induction f as [|t f IH]; cbn [fapp fyield]; [reflexivity|].
  rewrite IH, app_assoc. reflexivity.
Qed.

Lemma fweight_fapp f g : fweight (fapp f g) = fweight f * fweight g.
Proof.
  induction f as [|t f IH]; cbn [fapp fweight]; [ring|]. rewrite IH. ring.
Qed.

Lemma fheight_fapp f g : fheight (fapp f g) = Nat.max (fheight f) (fheight g).
Proof.
  induction f as [|t f IH]; cbn [fapp fheight]; [reflexivity|]. rewrite IH. lia.
Qed.

Lemma fwf_fapp (G0 : grammar S) b1 b2 f1 f2 :
  fwf S G0 b1 f1 -> fwf S G0 b2 f2 -> fwf S G0 (b1 ++ b2) (fapp f1 f2).
Proof.
  intros H1 H2. induction H1 as [|s body t f Ht Hf IH]; cbn [app fapp]; [exact H2|].
  constructor; assumption.
Qed.

Lemma fwf_flen (G0 : grammar S) b f : fwf S G0 b f -> flen f = length b.
Proof.
  intros H. induction H as [|s body t f Ht Hf IH]; cbn [flen length]; [reflexivity|].
  rewrite IH. reflexivity.
Qed.

(* ====================================================================== *)
(* 1. the rules generated for one rule, without fuel                      *)
(* ====================================================================== *)

(* number of names invented for a rule: length of the body minus two *)
Definition ninv (r : rule S) : nat :=
  match rbody r with _ :: _ :: rest => length rest | _ => O end.

(* the rules generated for  X -> y1 y2 rest  with weight w and counter fr *)
Fixpoint bins (fr : nat) (w : S) (X : nat) (y1 y2 : sym) (rest : list sym) : list (rule S) :=
  match rest with
  | [] => [(w, X, [y1; y2])]
  | y3 :: rest' => (1, fr, [y1; y2]) :: bins (Sn fr) w X (N fr) y3 rest'
  end.

Definition blkrules (fr : nat) (r : rule S) : list (rule S) :=
  match rbody r with
  | y1 :: y2 :: rest => bins fr (rw r) (rhead r) y1 y2 rest
  | _ => [r]
  end.

Lemma bin_body_bins : forall rest fuel fr (w : S) X y1 y2,
  length rest <= fuel ->
  bin_body fuel fr w X (y1 :: y2 :: rest) = (bins fr w X y1 y2 rest, (fr + length rest)%nat).
Proof.
  induction rest as [|y3 rest IH]; intros fuel fr w X y1 y2 Hl.
  - rewrite bin_body_base by (right; cbn [length]; lia). cbn [bins length].
    rewrite Nat.add_0_r. reflexivity.
  - destruct fuel as [|f]; [cbn [length] in Hl; lia|].
    rewrite bin_body_step. rewrite IH by (cbn [length] in Hl; lia).
    cbn [fst snd bins length]. f_equal. lia.
Qed.

Lemma bb_eq fr (r : rule S) : bb S fr r = (blkrules fr r, (fr + ninv r)%nat).
Proof.
  destruct r as [[w X] body]. unfold bb, blkrules, ninv. cbn [rbody rw rhead fst snd].
  destruct body as [|y1 [|y2 rest]].
  - rewrite bin_body_base by (right; cbn [length]; lia). rewrite Nat.add_0_r. reflexivity.
  - rewrite bin_body_base by (right; cbn [length]; lia). rewrite Nat.add_0_r. reflexivity.
  - apply bin_body_bins. cbn [length]. lia.
Qed.

Lemma bins_length : forall rest fr (w : S) X y1 y2, length (bins fr w X y1 y2 rest) = Sn (length rest).
Proof.
  induction rest as [|y3 rest IH]; intros fr w X y1 y2; cbn [bins length]; [reflexivity|].
  rewrite IH. reflexivity.
Qed.

Lemma blkrules_length fr (r : rule S) : length (blkrules fr r) = Sn (ninv r).
Proof.
  unfold blkrules, ninv. destruct (rbody r) as [|y1 [|y2 rest]]; try reflexivity.
  apply bins_length.
Qed.

(* the p-th generated rule *)
Lemma bins_nth : forall rest fr (w : S) X y1 y2 p r',
  nth_error (bins fr w X y1 y2 rest) p = Some r' ->
  p <= length rest /\
  ((p = length rest /\ rw r' = w /\ rhead r' = X) \/
   (p < length rest /\ rw r' = 1 /\ rhead r' = (fr + p)%nat)) /\
  ((p = O /\ rbody r' = [y1; y2]) \/
   (exists p' y, p = Sn p' /\ nth_error rest p' = Some y /\ rbody r' = [N (fr + p'); y])).
Proof.
  induction rest as [|y3 rest IH]; intros fr w X y1 y2 p r' Hp.
  - cbn [bins] in Hp. destruct p as [|p]; [|destruct p; discriminate Hp].
    cbn [nth_error] in Hp. injection Hp as Hp. subst r'. cbn [length].
    split; [lia|]. split; [left; repeat split|left; split; reflexivity].
  - cbn [bins] in Hp. destruct p as [|q].
    + cbn [nth_error] in Hp. injection Hp as Hp. subst r'. cbn [length].
      split; [lia|]. split.
      * right. split; [lia|]. split; [reflexivity|]. cbn [rhead fst snd]. lia.
      * left. split; reflexivity.
    + cbn [nth_error] in Hp. destruct (IH _ _ _ _ _ _ _ Hp) as [Hle [Hhd Hbd]]. cbn [length].
      split; [lia|]. split.
      * destruct Hhd as [[E1 [E2 E3]]|[E1 [E2 E3]]].
        -- left. split; [lia|]. split; assumption.
        -- right. split; [lia|]. split; [assumption|]. lia.
      * right. destruct Hbd as [[E1 E2]|[p' [y [E1 [E2 E3]]]]].
        -- exists O, y3. subst q. split; [reflexivity|]. split; [reflexivity|].
           rewrite Nat.add_0_r. exact E2.
        -- exists (Sn p'), y. subst q. split; [reflexivity|]. split; [exact E2|].
           replace (fr + Sn p')%nat with (Sn fr + p')%nat by lia. exact E3.
Qed.

(* ====================================================================== *)
(* 2. positions in the binarized grammar                                  *)
(* ====================================================================== *)

(* number of names invented for the first i rules *)
Fixpoint D (G : grammar S) (i : nat) : nat :=
  match i, G with
  | Sn i', r :: t => (ninv r + D t i')%nat
  | _, _ => O
  end.

(* the rule of G from which the j-th rule of the binarized grammar was generated *)
Fixpoint blk (G : grammar S) (j : nat) : nat :=
  match G with
  | [] => O
  | r :: t => if Nat.leb j (ninv r) then O else Sn (blk t (j - Sn (ninv r)))
  end.

Lemma D_zero (G : grammar S) : D G O = O.
Proof. destruct G; reflexivity. Qed.

Lemma D_step : forall (G : grammar S) i r, nth_error G i = Some r -> D G (Sn i) = (D G i + ninv r)%nat.
Proof.
  induction G as [|r0 t IH]; intros i r Hi; [destruct i; discriminate Hi|].
  destruct i as [|i].
  - cbn [nth_error] in Hi. injection Hi as Hi. subst r0. cbn [D]. rewrite D_zero. lia.
  - cbn [nth_error] in Hi. specialize (IH i r Hi). cbn [D] in IH |- *. lia.
Qed.

Lemma D_mono : forall (G : grammar S) i i', i <= i' -> D G i <= D G i'.
Proof.
  induction G as [|r0 t IH]; intros i i' Hle.
  - destruct i, i'; cbn [D]; lia.
  - destruct i as [|i], i' as [|i']; cbn [D]; try lia.
    assert (H := IH i i'). lia.
Qed.

Lemma D_uniq (G : grammar S) i i0 r r0 p p0 :
  nth_error G i = Some r -> nth_error G i0 = Some r0 ->
  p < ninv r -> p0 < ninv r0 -> (D G i + p = D G i0 + p0)%nat -> i = i0.
Proof.
  intros Hi Hi0 Hp Hp0 E.
  destruct (Nat.lt_trichotomy i i0) as [Hlt|[Heq|Hgt]]; [|exact Heq|].
  - exfalso. pose proof (D_step G i r Hi) as H1.
    pose proof (D_mono G (Sn i) i0 Hlt) as H2. lia.
  - exfalso. pose proof (D_step G i0 r0 Hi0) as H1.
    pose proof (D_mono G (Sn i0) i Hgt) as H2. lia.
Qed.

Lemma blk_spec : forall (G : grammar S) i r p,
  nth_error G i = Some r -> p <= ninv r -> blk G (i + D G i + p) = i.
Proof.
  induction G as [|r0 t IH]; intros i r p Hi Hp; [destruct i; discriminate Hi|].
  destruct i as [|i].
  - cbn [nth_error] in Hi. injection Hi as Hi. subst r0. cbn [D blk]. cbn [Nat.add].
    destruct (Nat.leb_spec p (ninv r)) as [H|H]; [reflexivity|lia].
  - cbn [nth_error] in Hi. cbn [D blk].
    destruct (Nat.leb_spec (Sn i + (ninv r0 + D t i) + p) (ninv r0)) as [H|H]; [lia|].
    f_equal.
    replace (Sn i + (ninv r0 + D t i) + p - Sn (ninv r0))%nat with (i + D t i + p)%nat by lia.
    apply (IH i r p Hi Hp).
Qed.

Lemma binz_cons fr (r : rule S) t :
  fst (binz S fr (r :: t)) = blkrules fr r ++ fst (binz S (fr + ninv r) t).
Proof. cbn [binz fst]. rewrite bb_eq. reflexivity. Qed.

Lemma nth_binz_fwd : forall (G : grammar S) fr i r p r',
  nth_error G i = Some r ->
  nth_error (blkrules (fr + D G i) r) p = Some r' ->
  nth_error (fst (binz S fr G)) (i + D G i + p) = Some r'.
Proof.
  induction G as [|r0 t IH]; intros fr i r p r' Hi Hp; [destruct i; discriminate Hi|].
  rewrite binz_cons. destruct i as [|i].
  - cbn [nth_error] in Hi. injection Hi as Hi. subst r0. cbn [D] in Hp |- *.
    rewrite Nat.add_0_r in Hp. cbn [Nat.add].
    rewrite nth_error_app1; [exact Hp|]. apply nth_error_Some. rewrite Hp. discriminate.
  - cbn [nth_error] in Hi. cbn [D] in Hp |- *.
    rewrite nth_error_app2 by (rewrite blkrules_length; lia).
    rewrite blkrules_length.
    replace (Sn i + (ninv r0 + D t i) + p - Sn (ninv r0))%nat with (i + D t i + p)%nat by lia.
    apply (IH (fr + ninv r0)%nat i r p r' Hi).
    replace (fr + ninv r0 + D t i)%nat with (fr + (ninv r0 + D t i))%nat by lia. exact Hp.
Qed.

Lemma nth_binz_bwd : forall (G : grammar S) fr j r',
  nth_error (fst (binz S fr G)) j = Some r' ->
  exists i r p, nth_error G i = Some r /\ j = (i + D G i + p)%nat /\
                nth_error (blkrules (fr + D G i) r) p = Some r'.
Proof.
  induction G as [|r0 t IH]; intros fr j r' Hj.
  - cbn [binz fst] in Hj. destruct j; discriminate Hj.
  - rewrite binz_cons in Hj. destruct (Nat.lt_ge_cases j (Sn (ninv r0))) as [Hlt|Hge].
    + rewrite nth_error_app1 in Hj by (rewrite blkrules_length; exact Hlt).
      exists O, r0, j. split; [reflexivity|]. cbn [D]. split; [lia|].
      rewrite Nat.add_0_r. exact Hj.
    + rewrite nth_error_app2 in Hj by (rewrite blkrules_length; exact Hge).
      rewrite blkrules_length in Hj.
      destruct (IH _ _ _ Hj) as [i [r [p [Hi [Ej Hp]]]]].
      exists (Sn i), r, p. split; [exact Hi|]. cbn [D]. split; [lia|].
      replace (fr + (ninv r0 + D t i))%nat with (fr + ninv r0 + D t i)%nat by lia. exact Hp.
Qed.

(* ====================================================================== *)
(* 3. the chain built for one node, relative to an offset and a counter   *)
(* ====================================================================== *)

(* t1 t2 are the first two children (t1 may be the chain built so far) *)
Fixpoint chain (off fr : nat) (w : S) (X : nat) (y1 y2 : sym) (rest : list sym)
         (t1 t2 : tree S) (ks : forest S) {struct rest} : tree S :=
  match rest, ks with
  | y3 :: rest', Fcons t3 ks' =>
      chain (Sn off) (Sn fr) w X (N fr) y3 rest'
            (Node off (1, fr, [y1; y2]) (Fcons t1 (Fcons t2 Fnil))) t3 ks'
  | _, _ => Node off (w, X, y1 :: y2 :: rest) (Fcons t1 (Fcons t2 ks))
  end.

Definition chainF (off fr : nat) (w : S) (X : nat) (body : list sym) (K : forest S) : tree S :=
  match body, K with
  | y1 :: y2 :: rest, Fcons t1 (Fcons t2 ks) => chain off fr w X y1 y2 rest t1 t2 ks
  | _, _ => Node off (w, X, body) K
  end.

Lemma fweight_nil : fweight (@Fnil S) = 1.
Proof. reflexivity. Qed.
Lemma rw_mk (w : S) X b : rw ((w, X, b) : rule S) = w.
Proof. reflexivity. Qed.

Lemma chain_wf (G0 : grammar S) : forall rest off fr w X y1 y2 t1 t2 ks,
  (forall p r', nth_error (bins fr w X y1 y2 rest) p = Some r' -> nth_error G0 (off + p) = Some r') ->
  twf S G0 y1 t1 -> twf S G0 y2 t2 -> fwf S G0 rest ks ->
  twf S G0 (N X) (chain off fr w X y1 y2 rest t1 t2 ks).
Proof.
  induction rest as [|y3 rest IH]; intros off fr w X y1 y2 t1 t2 ks Hpos H1 H2 Hks.
  - inversion Hks; subst. cbn [chain].
    change (N X) with (N (rhead ((w, X, [y1; y2]) : rule S))). constructor.
    + rewrite <- (Nat.add_0_r off). apply Hpos. reflexivity.
    + cbn [rbody snd]. constructor; [exact H1|]. constructor; [exact H2|constructor].
  - inversion Hks as [|s b t3 ks' H3 Hks']; subst. cbn [chain]. apply IH.
    + intros p r' Hp. replace (Sn off + p)%nat with (off + Sn p)%nat by lia. apply Hpos. exact Hp.
    + change (N fr) with (N (rhead ((1, fr, [y1; y2]) : rule S))). constructor.
      * rewrite <- (Nat.add_0_r off). apply Hpos. reflexivity.
      * cbn [rbody snd]. constructor; [exact H1|]. constructor; [exact H2|constructor].
    + exact H3.
    + exact Hks'.
Qed.

Lemma chain_yield : forall rest off fr (w : S) X y1 y2 t1 t2 ks,
  tyield (chain off fr w X y1 y2 rest t1 t2 ks) = tyield t1 ++ tyield t2 ++ fyield ks.
Proof.
  induction rest as [|y3 rest IH]; intros off fr w X y1 y2 t1 t2 ks.
  - destruct ks; reflexivity.
  - destruct ks as [|t3 ks']; [reflexivity|]. cbn [chain]. rewrite IH.
    cbn [tyield fyield]. rewrite app_nil_r, <- !app_assoc. reflexivity.
Qed.

Lemma chain_weight : forall rest off fr (w : S) X y1 y2 t1 t2 ks,
  tweight (chain off fr w X y1 y2 rest t1 t2 ks) = w * (tweight t1 * (tweight t2 * fweight ks)).
Proof.
  induction rest as [|y3 rest IH]; intros off fr w X y1 y2 t1 t2 ks.
  - destruct ks; reflexivity.
  - destruct ks as [|t3 ks']; [reflexivity|]. cbn [chain]. rewrite IH.
    rewrite tweight_node, !fweight_cons, fweight_nil, rw_mk. ring.
Qed.

Lemma chain_height : forall rest off fr (w : S) X y1 y2 t1 t2 ks,
  Sn (Nat.max (theight t1) (Nat.max (theight t2) (fheight ks)))
    <= theight (chain off fr w X y1 y2 rest t1 t2 ks) /\
  theight (chain off fr w X y1 y2 rest t1 t2 ks)
    <= Sn (Nat.max (theight t1) (Nat.max (theight t2) (fheight ks))) + length rest.
Proof.
  induction rest as [|y3 rest IH]; intros off fr w X y1 y2 t1 t2 ks.
  - destruct ks; cbn [chain length]; rewrite ?theight_node, ?fheight_cons, ?fheight_nil; lia.
  - destruct ks as [|t3 ks'];
      [cbn [chain length]; rewrite ?theight_node, ?fheight_cons, ?fheight_nil; lia|].
    cbn [chain length].
    destruct (IH (Sn off) (Sn fr) w X (N fr) y3
                 (Node off (1, fr, [y1; y2]) (Fcons t1 (Fcons t2 Fnil))) t3 ks') as [H1 H2].
    rewrite ?theight_node, ?fheight_cons, ?fheight_nil in H1.
    rewrite ?theight_node, ?fheight_cons, ?fheight_nil in H2.
    rewrite ?theight_node, ?fheight_cons, ?fheight_nil. lia.
Qed.

Lemma chainF_wf (G0 : grammar S) off fr w X body K :
  (forall p r', nth_error (blkrules fr (w, X, body)) p = Some r' -> nth_error G0 (off + p) = Some r') ->
  fwf S G0 body K -> twf S G0 (N X) (chainF off fr w X body K).
Proof.
  intros Hpos HK. unfold blkrules in Hpos. cbn [rbody rw rhead fst snd] in Hpos.
  destruct body as [|y1 [|y2 rest]].
  - cbn [chainF]. change (N X) with (N (rhead ((w, X, []) : rule S))). constructor; [|exact HK].
    rewrite <- (Nat.add_0_r off). apply Hpos. reflexivity.
  - cbn [chainF]. change (N X) with (N (rhead ((w, X, [y1]) : rule S))). constructor; [|exact HK].
    rewrite <- (Nat.add_0_r off). apply Hpos. reflexivity.
  - inversion HK as [|s b t1 K1 H1 HK1]; subst. inversion HK1 as [|s' b' t2 ks H2 Hks]; subst.
    cbn [chainF]. apply chain_wf; assumption.
Qed.

Lemma chainF_yield off fr (w : S) X body K : tyield (chainF off fr w X body K) = fyield K.
Proof.
  destruct body as [|y1 [|y2 rest]]; try reflexivity.
  destruct K as [|t1 [|t2 ks]]; try reflexivity.
  cbn [chainF]. rewrite chain_yield. reflexivity.
Qed.

Lemma chainF_weight off fr (w : S) X body K : tweight (chainF off fr w X body K) = w * fweight K.
Proof.
  destruct body as [|y1 [|y2 rest]]; try reflexivity.
  destruct K as [|t1 [|t2 ks]]; try reflexivity.
  cbn [chainF]. rewrite chain_weight. reflexivity.
Qed.

Lemma chainF_height off fr (w : S) X body K :
  Sn (fheight K) <= theight (chainF off fr w X body K) /\
  theight (chainF off fr w X body K) <= Sn (fheight K) + ninv (w, X, body).
Proof.
  unfold ninv. cbn [rbody snd].
  destruct body as [|y1 [|y2 rest]]; try (cbn [chainF]; rewrite theight_node; lia).
  destruct K as [|t1 [|t2 ks]]; try (cbn [chainF]; rewrite theight_node; lia).
  cbn [chainF]. rewrite !fheight_cons. apply chain_height.
Qed.

(* the last step of a chain *)
Lemma chain_snoc : forall ra off fr (w : S) X y1 y2 y t1 t2 us t,
  flen us = length ra ->
  chain off fr w X y1 y2 (ra ++ [y]) t1 t2 (fapp us (Fcons t Fnil))
  = Node (off + Sn (length ra)) (w, X, [N (fr + length ra); y])
         (Fcons (chain off fr 1 (fr + length ra) y1 y2 ra t1 t2 us) (Fcons t Fnil)).
Proof.
  induction ra as [|y3 ra IH]; intros off fr w X y1 y2 y t1 t2 us t Hl.
  - destruct us as [|u us]; [|cbn [flen length] in Hl; discriminate Hl].
    cbn [app fapp chain length]. rewrite !Nat.add_0_r.
    replace (off + 1)%nat with (Sn off) by lia. reflexivity.
  - destruct us as [|t3 us]; [cbn [flen length] in Hl; discriminate Hl|].
    cbn [flen length] in Hl. injection Hl as Hl.
    cbn [app fapp chain length]. rewrite (IH _ _ _ _ _ _ _ _ _ _ _ Hl).
    replace (Sn off + Sn (length ra))%nat with (off + Sn (Sn (length ra)))%nat by lia.
    replace (Sn fr + length ra)%nat with (fr + Sn (length ra))%nat by lia.
    reflexivity.
Qed.

Lemma chainF_snoc ra off fr (w : S) X y1 y2 y K t :
  flen K = Sn (Sn (length ra)) ->
  chainF off fr w X ((y1 :: y2 :: ra) ++ [y]) (fapp K (Fcons t Fnil))
  = Node (off + Sn (length ra)) (w, X, [N (fr + length ra); y])
         (Fcons (chainF off fr 1 (fr + length ra) (y1 :: y2 :: ra) K) (Fcons t Fnil)).
Proof.
  intros Hl. destruct K as [|t1 [|t2 us]]; try (cbn [flen] in Hl; discriminate Hl).
  cbn [flen] in Hl. injection Hl as Hl. cbn [app fapp chainF]. apply chain_snoc. exact Hl.
Qed.

(* ====================================================================== *)
(* 4. the two tree maps                                                   *)
(* ====================================================================== *)

Variable fresh : nat.
Variable G : grammar S.

Hypothesis Hh : forall r, In r G -> rhead r < fresh.
Hypothesis Hb : forall r Y, In r G -> In (N Y) (rbody r) -> Y < fresh.

Definition G' : grammar S := binarize fresh G.

Lemma G'_eq : G' = fst (binz S fresh G).
Proof. apply binarize_binz. Qed.

Fixpoint phi (t : tree S) : tree S :=
  match t with
  | Leaf a => Leaf a
  | Node i r kids =>
      chainF (i + D G i) (fresh + D G i) (rw r) (rhead r) (rbody r) (phis kids)
  end
with phis (f : forest S) : forest S :=
  match f with
  | Fnil => Fnil
  | Fcons t f' => Fcons (phi t) (phis f')
  end.

(* replace a first child rooted at an invented nonterminal by its children *)
Definition splice (f : forest S) : forest S :=
  match f with
  | Fcons (Node _ r k) f' => if Nat.leb fresh (rhead r) then fapp k f' else f
  | _ => f
  end.

(* nodes of invented nonterminals keep their rule; the others get the rule of G from
   which their rule was generated *)
Definition mk (j : nat) (r' : rule S) (K : forest S) : tree S :=
  if Nat.leb fresh (rhead r') then Node j r' K
  else Node (blk G j) (nth (blk G j) G r') K.

Fixpoint psi (t : tree S) : tree S :=
  match t with
  | Leaf a => Leaf a
  | Node j r' kids => mk j r' (splice (psis kids))
  end
with psis (f : forest S) : forest S :=
  match f with
  | Fnil => Fnil
  | Fcons t f' => Fcons (psi t) (psis f')
  end.

(* ---------- unfolding lemmas ---------- *)

Lemma phi_node i r kids :
  phi (Node i r kids) = chainF (i + D G i) (fresh + D G i) (rw r) (rhead r) (rbody r) (phis kids).
Proof. reflexivity. Qed.
Lemma phis_cons t f : phis (Fcons t f) = Fcons (phi t) (phis f).
Proof. reflexivity. Qed.
Lemma psi_node j r' kids : psi (Node j r' kids) = mk j r' (splice (psis kids)).
Proof. reflexivity. Qed.
Lemma psis_cons t f : psis (Fcons t f) = Fcons (psi t) (psis f).
Proof. reflexivity. Qed.

Lemma phis_fapp f g : phis (fapp f g) = fapp (phis f) (phis g).
Proof. induction f as [|t f IH]; cbn [fapp phis]; [reflexivity|rewrite IH; reflexivity]. Qed.

Lemma psis_fapp f g : psis (fapp f g) = fapp (psis f) (psis g).
Proof. induction f as [|t f IH]; cbn [fapp psis]; [reflexivity|rewrite IH; reflexivity]. Qed.

Lemma flen_phis f : flen (phis f) = flen f.
Proof. induction f as [|t f IH]; cbn [flen phis]; [reflexivity|rewrite IH; reflexivity]. Qed.

Lemma mk_inv j r' K : fresh <= rhead r' -> mk j r' K = Node j r' K.
Proof. intros H. unfold mk. apply Nat.leb_le in H. rewrite H. reflexivity. Qed.

Lemma mk_orig j r' K i r p :
  rhead r' < fresh -> nth_error G i = Some r -> p <= ninv r -> j = (i + D G i + p)%nat ->
  mk j r' K = Node i r K.
Proof.
  intros H Hi Hp Ej. unfold mk.
  assert (E : Nat.leb fresh (rhead r') = false) by (apply Nat.leb_gt; exact H).
  rewrite E. subst j. rewrite (blk_spec G i r p Hi Hp).
  rewrite (nth_error_nth_eq G i r r' Hi). reflexivity.
Qed.

Lemma splice_fapp a g1 g2 : fapp (splice (Fcons a g1)) g2 = splice (Fcons a (fapp g1 g2)).
Proof.
  destruct a as [b|j r k]; [reflexivity|]. cbn [splice].
  destruct (Nat.leb fresh (rhead r)); [apply fapp_assoc|reflexivity].
Qed.

Lemma splice_inv j r k f : fresh <= rhead r -> splice (Fcons (Node j r k) f) = fapp k f.
Proof. intros H. cbn [splice]. apply Nat.leb_le in H. rewrite H. reflexivity. Qed.

(* a well-formed forest of G has no invented first child *)
Lemma splice_wf body f : fwf S G body f -> splice f = f.
Proof.
  intros H. destruct f as [|t f']; [reflexivity|]. destruct t as [a|j r k]; [reflexivity|].
  inversion H as [|s b t0 f0 Ht Hf]; subst. inversion Ht as [|j0 r0 k0 Hn Hk]; subst.
  cbn [splice].
  assert (E : Nat.leb fresh (rhead r) = false).
  { apply Nat.leb_gt. apply Hh. apply (nth_error_In G j Hn). }
  rewrite E. reflexivity.
Qed.

(* psi undoes a chain *)
Lemma psi_chain : forall rest off fr (w : S) X y1 y2 c1 c2 cs,
  fresh <= fr -> flen cs = length rest ->
  exists r', rhead r' = X /\
    psi (chain off fr w X y1 y2 rest c1 c2 cs)
    = mk (off + length rest) r' (fapp (splice (Fcons (psi c1) (Fcons (psi c2) Fnil))) (psis cs)).
Proof.
  induction rest as [|y3 rest IH]; intros off fr w X y1 y2 c1 c2 cs Hfr Hl.
  - destruct cs as [|c3 cs]; [|cbn [flen length] in Hl; discriminate Hl].
    exists (w, X, [y1; y2]). split; [reflexivity|].
    cbn [chain length psis]. rewrite psi_node, fapp_nil_r, Nat.add_0_r. reflexivity.
  - destruct cs as [|c3 cs]; [cbn [flen length] in Hl; discriminate Hl|].
    cbn [flen length] in Hl. injection Hl as Hl. cbn [chain].
    destruct (IH (Sn off) (Sn fr) w X (N fr) y3
                 (Node off (1, fr, [y1; y2]) (Fcons c1 (Fcons c2 Fnil))) c3 cs
                 (le_S _ _ Hfr) Hl) as [r' [Er' Eq]].
    exists r'. split; [exact Er'|]. rewrite Eq. cbn [length].
    replace (Sn off + length rest)%nat with (off + Sn (length rest))%nat by lia. f_equal.
    rewrite psi_node. rewrite mk_inv by (cbn [rhead fst snd]; exact Hfr).
    rewrite splice_inv by (cbn [rhead fst snd]; exact Hfr).
    cbn [psis]. rewrite fapp_assoc. reflexivity.
Qed.

Lemma psi_chainF off fr (w : S) X body K :
  fresh <= fr -> flen K = length body ->
  exists r', rhead r' = X /\
    psi (chainF off fr w X body K) = mk (off + ninv (w, X, body)) r' (splice (psis K)).
Proof.
  intros Hfr Hl. unfold ninv. cbn [rbody snd].
  destruct body as [|y1 [|y2 rest]].
  - exists (w, X, []). split; [reflexivity|]. cbn [chainF]. rewrite psi_node, Nat.add_0_r. reflexivity.
  - exists (w, X, [y1]). split; [reflexivity|]. cbn [chainF]. rewrite psi_node, Nat.add_0_r. reflexivity.
  - destruct K as [|t1 [|t2 ks]]; try (cbn [flen length] in Hl; discriminate Hl).
    cbn [flen length] in Hl. injection Hl as Hl. cbn [chainF].
    destruct (psi_chain rest off fr w X y1 y2 t1 t2 ks Hfr Hl) as [r' [Er' Eq]].
    exists r'. split; [exact Er'|]. rewrite Eq. f_equal.
    rewrite splice_fapp. reflexivity.
Qed.

(* ====================================================================== *)
(* 5. G to G'                                                             *)
(* ====================================================================== *)

(* largest number of names invented for one rule (largest body length minus two) *)
Definition maxinv : nat := fold_right (fun r m => Nat.max (ninv r) m) O G.

Lemma maxinv_ge r : In r G -> ninv r <= maxinv.
Proof.
  unfold maxinv. clear Hh Hb. induction G as [|r0 t IH]; intros Hr; [destruct Hr|].
  cbn [fold_right]. destruct Hr as [Hr|Hr]; [subst r0; lia|].
  specialize (IH Hr). lia.
Qed.

Definition hb (h : nat) : nat := (h * Sn maxinv)%nat.

Lemma G'_pos i r p r' :
  nth_error G i = Some r -> nth_error (blkrules (fresh + D G i) r) p = Some r' ->
  nth_error G' (i + D G i + p) = Some r'.
Proof. intros Hi Hp. rewrite G'_eq. apply (nth_binz_fwd G fresh i r p r' Hi Hp). Qed.

Definition Pphi (s : sym) (t : tree S) : Prop :=
  match s with
  | T a => t = Leaf a
  | N X => twf S G' (N X) (phi t) /\ tyield (phi t) = tyield t /\ tweight (phi t) = tweight t /\
           (theight t <= theight (phi t) /\ theight (phi t) <= hb (theight t)) /\
           psi (phi t) = t
  end.

Definition Qphi (body : list sym) (f : forest S) : Prop :=
  fwf S G' body (phis f) /\ fyield (phis f) = fyield f /\ fweight (phis f) = fweight f /\
  (fheight f <= fheight (phis f) /\ fheight (phis f) <= hb (fheight f)) /\
  psis (phis f) = f.

Lemma phi_mut :
  (forall s t, twf S G s t -> Pphi s t) /\ (forall body f, fwf S G body f -> Qphi body f).
Proof.
  apply twf_fwf_ind.
  - intros a. reflexivity.
  - intros i r kids Hn Hk [Hw [Hy [Hwt [[Hh1 Hh2] Hps]]]]. unfold Pphi.
    assert (HrG : In r G) by (apply (nth_error_In G i Hn)).
    assert (HX : rhead r < fresh) by (apply Hh; exact HrG).
    pose proof (maxinv_ge r HrG) as HM.
    rewrite phi_node. destruct r as [[w X] body]. cbn [rw rhead rbody fst snd] in *.
    split; [|split; [|split; [|split]]].
    + apply chainF_wf; [|exact Hw]. intros p r' Hp. apply (G'_pos i _ p r' Hn Hp).
    + rewrite chainF_yield. exact Hy.
    + rewrite chainF_weight, Hwt. reflexivity.
    + destruct (chainF_height (i + D G i) (fresh + D G i) w X body (phis kids)) as [H1 H2].
      rewrite theight_node. unfold hb in *. rewrite Nat.mul_succ_l. lia.
    + assert (Hl : flen (phis kids) = length body) by (apply (fwf_flen G' _ _ Hw)).
      destruct (psi_chainF (i + D G i) (fresh + D G i) w X body (phis kids)
                           (Nat.le_add_r _ _) Hl) as [r' [Er' Eq]].
      rewrite Eq, Hps. rewrite (splice_wf body kids Hk).
      apply (mk_orig _ r' kids i (w, X, body) (ninv (w, X, body))); [|exact Hn|lia|reflexivity].
      rewrite Er'. exact HX.
  - repeat split; try constructor; cbn; lia.
  - intros s body t f Ht IHt Hf [Hw [Hy [Hwt [[Hh1 Hh2] Hps]]]].
    unfold Qphi. rewrite phis_cons. destruct s as [a|X]; unfold Pphi in IHt.
    + subst t. cbn [phi].
      split; [|split; [|split; [|split]]].
      * constructor; [constructor|exact Hw].
      * rewrite !fyield_cons, Hy. reflexivity.
      * rewrite !fweight_cons, Hwt. reflexivity.
      * rewrite !fheight_cons, theight_leaf. cbn [Nat.max]. lia.
      * rewrite psis_cons, Hps. reflexivity.
    + destruct IHt as [Htw [Hty [Htwt [[Hth1 Hth2] Htps]]]].
      split; [|split; [|split; [|split]]].
      * constructor; [exact Htw|exact Hw].
      * rewrite !fyield_cons, Hty, Hy. reflexivity.
      * rewrite !fweight_cons, Htwt, Hwt. reflexivity.
      * rewrite !fheight_cons. unfold hb in *. rewrite <- Nat.mul_max_distr_r. lia.
      * rewrite psis_cons, Htps, Hps. reflexivity.
Qed.

(* ====================================================================== *)
(* 6. G' to G                                                             *)
(* ====================================================================== *)

(* a body without invented nonterminals *)
Definition orig (b : list sym) : Prop := forall Y, In (N Y) b -> Y < fresh.

(* t' is rooted at the invented nonterminal Z = the p-th name of the i-th rule of G:
   psi t' collects the first p+2 children of the node of G, and t' is the chain built
   from them *)
Definition Inv (Z : nat) (t' : tree S) : Prop :=
  exists i w X y1 y2 rest p j r1 K,
    nth_error G i = Some (w, X, y1 :: y2 :: rest) /\ p < length rest /\
    Z = (fresh + D G i + p)%nat /\
    psi t' = Node j r1 K /\ rhead r1 = Z /\
    fwf S G (y1 :: y2 :: firstn p rest) K /\
    fyield K = tyield t' /\ fweight K = tweight t' /\ fheight K <= theight t' /\
    t' = chainF (i + D G i) (fresh + D G i) 1 Z (y1 :: y2 :: firstn p rest) (phis K).

Definition Ppsi (s' : sym) (t' : tree S) : Prop :=
  match s' with
  | T a => t' = Leaf a
  | N Z =>
      (Z < fresh ->
         twf S G (N Z) (psi t') /\ tyield (psi t') = tyield t' /\ tweight (psi t') = tweight t' /\
         theight (psi t') <= theight t' /\ phi (psi t') = t') /\
      (fresh <= Z -> Inv Z t')
  end.

Definition Qo (body' : list sym) (f' : forest S) : Prop :=
  orig body' ->
  fwf S G body' (psis f') /\ fyield (psis f') = fyield f' /\ fweight (psis f') = fweight f' /\
  fheight (psis f') <= fheight f' /\ phis (psis f') = f'.

Definition Qpsi (body' : list sym) (f' : forest S) : Prop :=
  Qo body' f' /\
  match body', f' with
  | s' :: b, Fcons t' f'' => Ppsi s' t' /\ Qo b f''
  | _, _ => True
  end.

Lemma rule_eta (r : rule S) : r = (rw r, rhead r, rbody r).
Proof. destruct r as [[w X] b]. reflexivity. Qed.

Lemma G'_locate j r' :
  nth_error G' j = Some r' ->
  exists i r p, nth_error G i = Some r /\ j = (i + D G i + p)%nat /\
                nth_error (blkrules (fresh + D G i) r) p = Some r'.
Proof. intros Hj. rewrite G'_eq in Hj. apply (nth_binz_bwd G fresh j r' Hj). Qed.

(* the node case for a rule of G with at most one body symbol *)
Lemma psi_node_short i w X body j r' kids :
  nth_error G i = Some (w, X, body) -> length body <= 1 ->
  nth_error (blkrules (fresh + D G i) (w, X, body)) (j - (i + D G i)) = Some r' ->
  i + D G i <= j ->
  Qpsi (rbody r') kids -> Ppsi (N (rhead r')) (Node j r' kids).
Proof.
  intros Hi Hlen Hp Hj IHk.
  assert (HrG : In (w, X, body) G) by (apply (nth_error_In G i Hi)).
  assert (HX : X < fresh) by (apply (Hh _ HrG)).
  assert (Hob : orig body) by (intros Y HY; apply (Hb _ Y HrG HY)).
  assert (Hblk : blkrules (fresh + D G i) (w, X, body) = [(w, X, body)]).
  { unfold blkrules. cbn [rbody snd]. destruct body as [|y1 [|y2 rest]]; try reflexivity.
    cbn [length] in Hlen. lia. }
  rewrite Hblk in Hp.
  assert (Ej : j = (i + D G i)%nat).
  { destruct (j - (i + D G i))%nat as [|q] eqn:E; [lia|]. destruct q; discriminate Hp. }
  subst j. rewrite Nat.sub_diag in Hp. cbn [nth_error] in Hp. injection Hp as Hp. subst r'.
  cbn [rhead rbody fst snd] in *. split; [intros _|intros Hge; exfalso; lia].
  destruct (proj1 IHk Hob) as [Hw [Hy [Hwt [Hht Hph]]]].
  assert (Eps : psi (Node (i + D G i) (w, X, body) kids) = Node i (w, X, body) (psis kids)).
  { rewrite psi_node. rewrite (splice_wf body (psis kids) Hw).
    apply (mk_orig _ _ _ i (w, X, body) O); [exact HX|exact Hi|lia|lia]. }
  rewrite Eps.
  split; [|split; [|split; [|split]]].
  - change (N X) with (N (rhead ((w, X, body) : rule S))). constructor; [exact Hi|exact Hw].
  - rewrite !tyield_node. exact Hy.
  - rewrite !tweight_node, Hwt. reflexivity.
  - rewrite !theight_node. lia.
  - rewrite phi_node. cbn [rw rhead rbody fst snd]. rewrite Hph.
    destruct body as [|y1 [|y2 rest]]; try reflexivity. cbn [length] in Hlen. lia.
Qed.

(* the node case for a rule of G with at least two body symbols *)
Lemma psi_node_long i w X y1 y2 rest p j r' kids :
  nth_error G i = Some (w, X, y1 :: y2 :: rest) ->
  nth_error (bins (fresh + D G i) w X y1 y2 rest) p = Some r' ->
  j = (i + D G i + p)%nat ->
  fwf S G' (rbody r') kids ->
  Qpsi (rbody r') kids -> Ppsi (N (rhead r')) (Node j r' kids).
Proof.
  intros Hi Hp Ej Hk IHk.
  assert (HrG : In (w, X, y1 :: y2 :: rest) G) by (apply (nth_error_In G i Hi)).
  assert (HX : X < fresh) by (apply (Hh _ HrG)).
  assert (Hob : orig (y1 :: y2 :: rest)) by (intros Y HY; apply (Hb _ Y HrG HY)).
  destruct (bins_nth _ _ _ _ _ _ _ _ Hp) as [Hple [Hhd Hbd]].
  set (K := splice (psis kids)).
  (* the unified description of the flattened children *)
  assert (U : fwf S G (y1 :: y2 :: firstn p rest) K /\ fyield K = fyield kids /\
              fweight K = fweight kids /\ fheight K <= fheight kids /\
              Node j r' kids
              = chainF (i + D G i) (fresh + D G i) (rw r') (rhead r')
                       (y1 :: y2 :: firstn p rest) (phis K)).
  { destruct Hbd as [[Ep Eb]|[p' [y [Ep [Hy Eb]]]]].
    - (* the first rule of the block: both children are original *)
      subst p. rewrite Eb in Hk, IHk.
      assert (Ho2 : orig [y1; y2]).
      { intros Y HY. apply Hob. destruct HY as [HY|[HY|[]]]; [left|right; left]; exact HY. }
      destruct (proj1 IHk Ho2) as [Hw [Hyk [Hwt [Hht Hph]]]].
      unfold K. rewrite (splice_wf _ _ Hw). cbn [firstn].
      split; [exact Hw|]. split; [exact Hyk|]. split; [exact Hwt|]. split; [exact Hht|].
      rewrite Hph.
      inversion Hk as [|s b c1 k1 Hc1 Hk1]; subst. inversion Hk1 as [|s' b' c2 k2 Hc2 Hk2]; subst.
      inversion Hk2; subst. cbn [chainF chain]. rewrite Nat.add_0_r.
      rewrite (rule_eta r') at 1. rewrite Eb. reflexivity.
    - (* a later rule: the first child is rooted at an invented nonterminal *)
      subst p. rewrite Eb in Hk, IHk.
      inversion Hk as [|s b c1 k1 Hc1 Hk1]; subst. inversion Hk1 as [|s' b' c2 k2 Hc2 Hk2]; subst.
      inversion Hk2; subst.
      destruct IHk as [_ [IH1 IH2]]. cbn [Ppsi] in IH1. destruct IH1 as [_ IH1].
      destruct (IH1 (Nat.le_trans _ _ _ (Nat.le_add_r _ _) (Nat.le_add_r _ _)))
        as [i0 [w0 [X0 [z1 [z2 [rest0 [p0 [j1 [r1 [K1 [Hi0 [Hp0 [EZ [Eps [Er1 [HK1 [Hy1 [Hw1 [Hh1 Ec1]]]]]]]]]]]]]]]]]]].
      assert (Hp'lt : p' < length rest) by lia.
      assert (Ei : i = i0).
      { apply (D_uniq G i i0 (w, X, y1 :: y2 :: rest) (w0, X0, z1 :: z2 :: rest0) p' p0 Hi Hi0);
          [exact Hp'lt|exact Hp0|lia]. }
      subst i0. rewrite Hi in Hi0. injection Hi0 as E1 E2 E3 E4 E5. subst w0 X0 z1 z2 rest0.
      assert (Ep0 : p0 = p') by lia. subst p0.
      assert (Hoy : orig [y]).
      { intros Y [HY|[]]. apply Hob. right; right. rewrite <- HY. apply (nth_error_In rest p' Hy). }
      destruct (IH2 Hoy) as [Hw2 [Hy2 [Hwt2 [Hht2 Hph2]]]].
      assert (EK : K = fapp K1 (psis (Fcons c2 Fnil))).
      { unfold K. rewrite psis_cons, Eps. apply splice_inv. rewrite Er1. lia. }
      rewrite EK. rewrite (firstn_snoc rest p' y Hy).
      change (y1 :: y2 :: firstn p' rest ++ [y]) with ((y1 :: y2 :: firstn p' rest) ++ [y]).
      split; [apply fwf_fapp; assumption|].
      split; [rewrite fyield_fapp, Hy1, Hy2; reflexivity|].
      split; [rewrite fweight_fapp, Hw1, Hwt2; reflexivity|].
      split; [rewrite fheight_fapp, fheight_cons; lia|].
      rewrite phis_fapp, Hph2.
      assert (Hlen : length (firstn p' rest) = p') by (apply firstn_length_le; lia).
      rewrite chainF_snoc by (rewrite flen_phis, (fwf_flen G _ _ HK1); cbn [length]; rewrite Hlen; reflexivity).
      rewrite Hlen. rewrite <- Ec1.
      rewrite (rule_eta r') at 1. rewrite Eb.
      reflexivity. }
  destruct U as [UK [Uy [Uw [Uh Uc]]]].
  assert (Eps : psi (Node j r' kids) = mk j r' K) by (apply psi_node).
  destruct Hhd as [[Ep [Ew Ehd]]|[Ep [Ew Ehd]]].
  - (* the last rule of the block: head X *)
    rewrite Ehd. split; [intros _|intros Hge; exfalso; lia].
    subst p. rewrite firstn_all in UK, Uc.
    assert (Eps' : psi (Node j r' kids) = Node i (w, X, y1 :: y2 :: rest) K).
    { rewrite Eps. apply (mk_orig _ _ _ i (w, X, y1 :: y2 :: rest) (length rest));
        [rewrite Ehd; exact HX|exact Hi|unfold ninv; cbn [rbody snd]; lia|exact Ej]. }
    rewrite Eps'.
    split; [|split; [|split; [|split]]].
    + change (N X) with (N (rhead ((w, X, y1 :: y2 :: rest) : rule S))). constructor; [exact Hi|exact UK].
    + rewrite !tyield_node. exact Uy.
    + rewrite !tweight_node, Uw, Ew. reflexivity.
    + rewrite !theight_node. lia.
    + rewrite phi_node. cbn [rw rhead rbody fst snd]. rewrite Uc, Ew, Ehd. reflexivity.
  - (* an inner rule: head invented *)
    split; [intros Hlt; exfalso; lia|intros _].
    exists i, w, X, y1, y2, rest, p, j, r', K.
    split; [exact Hi|]. split; [exact Ep|]. split; [exact Ehd|].
    split; [rewrite Eps; apply mk_inv; lia|]. split; [reflexivity|].
    split; [exact UK|]. split; [rewrite tyield_node; exact Uy|].
    split; [rewrite tweight_node, Uw, Ew; ring|].
    split; [rewrite theight_node; lia|].
    rewrite Uc at 1. rewrite Ew. reflexivity.
Qed.

Lemma psi_mut :
  (forall s' t', twf S G' s' t' -> Ppsi s' t') /\
  (forall body' f', fwf S G' body' f' -> Qpsi body' f').
Proof.
  apply twf_fwf_ind.
  - intros a. reflexivity.
  - intros j r' kids Hn Hk IHk.
    destruct (G'_locate j r' Hn) as [i [r [p [Hi [Ej Hp]]]]].
    destruct r as [[w X] body].
    destruct body as [|y1 [|y2 rest]].
    + apply (psi_node_short i w X [] j r' kids Hi); [cbn [length]; lia| |lia|exact IHk].
      replace (j - (i + D G i))%nat with p by lia. exact Hp.
    + apply (psi_node_short i w X [y1] j r' kids Hi); [cbn [length]; lia| |lia|exact IHk].
      replace (j - (i + D G i))%nat with p by lia. exact Hp.
    + apply (psi_node_long i w X y1 y2 rest p j r' kids Hi Hp Ej Hk IHk).
  - split; [|exact I]. intros _.
    split; [constructor|]. split; [reflexivity|]. split; [reflexivity|].
    split; [cbn; lia|reflexivity].
  - intros s' body' t' f' Ht' IHt' Hf' IHf'.
    split; [|split; [exact IHt'|exact (proj1 IHf')]].
    intros Ho.
    assert (Ho' : orig body') by (intros Y HY; apply Ho; right; exact HY).
    destruct (proj1 IHf' Ho') as [Hw [Hy [Hwt [Hht Hph]]]].
    rewrite psis_cons. destruct s' as [a|Z]; cbn [Ppsi] in IHt'.
    + subst t'. cbn [psi].
      split; [constructor; [constructor|exact Hw]|].
      split; [rewrite !fyield_cons, Hy; reflexivity|].
      split; [rewrite !fweight_cons, Hwt; reflexivity|].
      split; [rewrite !fheight_cons; lia|].
      rewrite phis_cons, Hph. reflexivity.
    + assert (HZ : Z < fresh) by (apply Ho; left; reflexivity).
      destruct (proj1 IHt' HZ) as [Htw [Hty [Htwt [Hth Htph]]]].
      split; [constructor; assumption|].
      split; [rewrite !fyield_cons, Hty, Hy; reflexivity|].
      split; [rewrite !fweight_cons, Htwt, Hwt; reflexivity|].
      split; [rewrite !fheight_cons; lia|].
      rewrite phis_cons, Htph, Hph. reflexivity.
Qed.

(* ====================================================================== *)
(* 7. main theorems                                                       *)
(* ====================================================================== *)

(* a nonterminal that roots a tree of G is below the counter *)
Lemma twf_root_lt X t : twf S G (N X) t -> X < fresh.
Proof.
  intros H. inversion H as [|i r kids Hn Hk]; subst. apply Hh. apply (nth_error_In G i Hn).
Qed.

(* (1), (2), (4a): from G to G' *)
Theorem phi_wf X t : twf S G (N X) t -> twf S G' (N X) (phi t).
Proof. intros H. exact (proj1 (proj1 phi_mut (N X) t H)). Qed.

Theorem phi_yield X t : twf S G (N X) t -> tyield (phi t) = tyield t.
Proof. intros H. exact (proj1 (proj2 (proj1 phi_mut (N X) t H))). Qed.

Theorem phi_weight X t : twf S G (N X) t -> tweight (phi t) = tweight t.
Proof. intros H. exact (proj1 (proj2 (proj2 (proj1 phi_mut (N X) t H)))). Qed.

(* hb h = h * (1 + maxinv), maxinv = the largest body length of G minus two *)
Theorem phi_height X t :
  twf S G (N X) t -> theight t <= theight (phi t) /\ theight (phi t) <= hb (theight t).
Proof. intros H. exact (proj1 (proj2 (proj2 (proj2 (proj1 phi_mut (N X) t H))))). Qed.

Theorem psi_phi X t : twf S G (N X) t -> psi (phi t) = t.
Proof. intros H. exact (proj2 (proj2 (proj2 (proj2 (proj1 phi_mut (N X) t H))))). Qed.

(* the forest versions *)
Theorem phis_facts body f :
  fwf S G body f ->
  fwf S G' body (phis f) /\ fyield (phis f) = fyield f /\ fweight (phis f) = fweight f /\
  (fheight f <= fheight (phis f) /\ fheight (phis f) <= hb (fheight f)) /\
  psis (phis f) = f.
Proof. intros H. exact (proj2 phi_mut body f H). Qed.

(* (3), (4b): from G' to G *)
Lemma psi_all X t' :
  X < fresh -> twf S G' (N X) t' ->
  twf S G (N X) (psi t') /\ tyield (psi t') = tyield t' /\ tweight (psi t') = tweight t' /\
  theight (psi t') <= theight t' /\ phi (psi t') = t'.
Proof. intros HX H. exact (proj1 (proj1 psi_mut (N X) t' H) HX). Qed.

Theorem psi_wf X t' : X < fresh -> twf S G' (N X) t' -> twf S G (N X) (psi t').
Proof. intros HX H. exact (proj1 (psi_all X t' HX H)). Qed.

Theorem psi_yield X t' : X < fresh -> twf S G' (N X) t' -> tyield (psi t') = tyield t'.
Proof. intros HX H. exact (proj1 (proj2 (psi_all X t' HX H))). Qed.

Theorem psi_weight X t' : X < fresh -> twf S G' (N X) t' -> tweight (psi t') = tweight t'.
Proof. intros HX H. exact (proj1 (proj2 (proj2 (psi_all X t' HX H)))). Qed.

Theorem psi_height X t' : X < fresh -> twf S G' (N X) t' -> theight (psi t') <= theight t'.
Proof. intros HX H. exact (proj1 (proj2 (proj2 (proj2 (psi_all X t' HX H))))). Qed.

Theorem phi_psi X t' : X < fresh -> twf S G' (N X) t' -> phi (psi t') = t'.
Proof. intros HX H. exact (proj2 (proj2 (proj2 (proj2 (psi_all X t' HX H))))). Qed.

(* the trees of an invented nonterminal: psi collects the children of the partial chain *)
Theorem invented_tree_shape Z t' : fresh <= Z -> twf S G' (N Z) t' -> Inv Z t'.
Proof. intros HZ H. exact (proj2 (proj1 psi_mut (N Z) t' H) HZ). Qed.

(* (5) injectivity and the enumerations *)
Theorem phi_inj X Y t1 t2 :
  twf S G (N X) t1 -> twf S G (N Y) t2 -> phi t1 = phi t2 -> t1 = t2.
Proof.
  intros H1 H2 E. rewrite <- (psi_phi X t1 H1), <- (psi_phi Y t2 H2), E. reflexivity.
Qed.

Theorem psi_inj X Y t1 t2 :
  X < fresh -> Y < fresh ->
  twf S G' (N X) t1 -> twf S G' (N Y) t2 -> psi t1 = psi t2 -> t1 = t2.
Proof.
  intros HX HY H1 H2 E. rewrite <- (phi_psi X t1 HX H1), <- (phi_psi Y t2 HY H2), E. reflexivity.
Qed.

Lemma hb_mono a b : a <= b -> hb a <= hb b.
Proof. intros H. unfold hb. apply Nat.mul_le_mono_r. exact H. Qed.

Theorem trees_phi h X t : In t (trees G h X) -> In (phi t) (trees G' (hb h) X).
Proof.
  intros Hin. destruct (trees_sound S G h X t Hin) as [Hw Hht].
  apply trees_complete; [apply phi_wf; exact Hw|].
  destruct (phi_height X t Hw) as [_ H2]. pose proof (hb_mono _ _ Hht). lia.
Qed.

Theorem trees_psi h X t' :
  X < fresh -> In t' (trees G' h X) -> In (psi t') (trees G h X).
Proof.
  intros HX Hin. destruct (trees_sound S G' h X t' Hin) as [Hw Hht].
  apply trees_complete; [apply psi_wf; assumption|].
  pose proof (psi_height X t' HX Hw) as H2. lia.
Qed.

(* every tree of G' is the image of a tree of G of no greater height, and vice versa *)
Theorem trees_phi_onto h X t' :
  X < fresh -> In t' (trees G' h X) -> exists t, In t (trees G h X) /\ phi t = t'.
Proof.
  intros HX Hin. exists (psi t'). split; [apply trees_psi; assumption|].
  destruct (trees_sound S G' h X t' Hin) as [Hw _]. apply (phi_psi X t' HX Hw).
Qed.

Theorem trees_psi_onto h X t :
  In t (trees G h X) -> exists t', In t' (trees G' (hb h) X) /\ psi t' = t.
Proof.
  intros Hin. exists (phi t). split; [apply trees_phi; exact Hin|].
  destruct (trees_sound S G h X t Hin) as [Hw _]. apply (psi_phi X t Hw).
Qed.

(* the weighted form: W G h X xs is a sum over a duplicate-free sub-list of the trees of
   G' of height <= hb h, with the same weights and yields *)
Theorem W_sub_sum h X xs :
  NoDup (map phi (trees G h X)) /\
  incl (map phi (trees G h X)) (trees G' (hb h) X) /\
  W G h X xs = bsum (filter (yields xs) (map phi (trees G h X))) tweight.
Proof.
  split; [|split].
  - apply NoDup_map_inj_in; [|apply trees_NoDup].
    intros t1 t2 H1 H2. apply (phi_inj X X).
    + exact (proj1 (trees_sound S G h X t1 H1)).
    + exact (proj1 (trees_sound S G h X t2 H2)).
  - intros t' Hin. apply in_map_iff in Hin. destruct Hin as [t [Et Hin]]. subst t'.
    apply trees_phi. exact Hin.
  - rewrite W_trees. rewrite !bsum_filter, bsum_map. apply bsum_ext. intros t Hin.
    destruct (trees_sound S G h X t Hin) as [Hw _].
    unfold yields. rewrite (phi_yield X t Hw), (phi_weight X t Hw). reflexivity.
Qed.

(* and W G' h X xs is a sum over a duplicate-free sub-list of the trees of G of height <= h *)
Theorem W'_sub_sum h X xs :
  X < fresh ->
  NoDup (map psi (trees G' h X)) /\
  incl (map psi (trees G' h X)) (trees G h X) /\
  W G' h X xs = bsum (filter (yields xs) (map psi (trees G' h X))) tweight.
Proof.
  intros HX. split; [|split].
  - apply NoDup_map_inj_in; [|apply trees_NoDup].
    intros t1 t2 H1 H2. apply (psi_inj X X t1 t2 HX HX).
    + exact (proj1 (trees_sound S G' h X t1 H1)).
    + exact (proj1 (trees_sound S G' h X t2 H2)).
  - intros t Hin. apply in_map_iff in Hin. destruct Hin as [t' [Et Hin]]. subst t.
    apply trees_psi; assumption.
  - rewrite W_trees. rewrite !bsum_filter, bsum_map. apply bsum_ext. intros t' Hin.
    destruct (trees_sound S G' h X t' Hin) as [Hw _].
    unfold yields. rewrite (psi_yield X t' HX Hw), (psi_weight X t' HX Hw). reflexivity.
Qed.

(* consequence: the height-bounded sums sandwich each other, tree by tree:
   the trees of G' of height <= h map one-to-one (by psi) into those of G of height <= h,
   which map one-to-one (by phi) into those of G' of height <= hb h; psi and phi are
   mutually inverse, so on trees of height <= h the composite is the identity *)
Theorem trees_sandwich h X t' :
  X < fresh -> In t' (trees G' h X) ->
  In (psi t') (trees G h X) /\ In (phi (psi t')) (trees G' (hb h) X) /\ phi (psi t') = t'.
Proof.
  intros HX Hin. pose proof (trees_psi h X t' HX Hin) as H1.
  split; [exact H1|]. split; [apply trees_phi; exact H1|].
  destruct (trees_sound S G' h X t' Hin) as [Hw _]. apply (phi_psi X t' HX Hw).
Qed.

End BinTree.

(* a concrete instance over the natural numbers: one rule 0 -> a1 a2 a3 a4 of weight 7
   preceded by a binary rule, fresh = 5 *)
Example phi_example :
  let r0 : rule NSR := (3%N, 1%nat, [T 1; T 2]) in
  let r1 : rule NSR := (7%N, O, [T 1; T 2; T 3; T 4]) in
  let f5 : rule NSR := (1%N, 5%nat, [T 1; T 2]) in
  let f6 : rule NSR := (1%N, 6%nat, [N 5; T 3]) in
  let r1' : rule NSR := (7%N, O, [N 6; T 4]) in
  let G : grammar NSR := [r0; r1] in
  let t : tree NSR :=
    Node 1 r1 (Fcons (Leaf 1) (Fcons (Leaf 2) (Fcons (Leaf 3) (Fcons (Leaf 4) Fnil)))) in
  let t' : tree NSR :=
    Node 3 r1' (Fcons (Node 2 f6 (Fcons (Node 1 f5 (Fcons (Leaf 1) (Fcons (Leaf 2) Fnil)))
                                        (Fcons (Leaf 3) Fnil)))
                      (Fcons (Leaf 4) Fnil)) in
  binarize 5 G = [r0; f5; f6; r1'] /\ phi NSR 5 G t = t' /\ psi NSR 5 G t' = t.
Proof. repeat split. Qed.

Print Assumptions phi_wf.
Print Assumptions phi_yield.
Print Assumptions phi_weight.
Print Assumptions phi_height.
Print Assumptions psi_phi.
Print Assumptions phis_facts.
Print Assumptions psi_wf.
Print Assumptions psi_yield.
Print Assumptions psi_weight.
Print Assumptions psi_height.
Print Assumptions phi_psi.
Print Assumptions invented_tree_shape.
Print Assumptions phi_inj.
Print Assumptions psi_inj.
Print Assumptions trees_phi.
Print Assumptions trees_psi.
Print Assumptions trees_phi_onto.
Print Assumptions trees_psi_onto.
Print Assumptions W_sub_sum.
Print Assumptions W'_sub_sum.
Print Assumptions trees_sandwich.
