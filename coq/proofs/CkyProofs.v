(* Invariance of the derivation sum W under rule reordering and injective renaming,
   CFG.separate_start, and correctness of the CKY recursion on grammars in Chomsky
   normal form (cky = W as soon as the height bound exceeds the string length).
   Self-contained: only the library and the model files are required. *)
From Coq Require Import List Arith Bool Lia Permutation.
From GV.lib Require Import Semiring BigSum.
From GV.model Require Import Cfg Cky Transform.
Import ListNotations.
Local Open Scope sr_scope.

Section CkyProofs.
Variable S : SR.
Add Ring CkyRing : (sth S).

(* ---------- basic unfolding lemmas ---------- *)

Lemma W_S (G : grammar S) h X xs :
  W G (Datatypes.S h) X xs
  = bsum G (fun r => if Nat.eqb (rhead r) X then rw r * Wb (W G h) (rbody r) xs else 0).
Proof. reflexivity. Qed.

(* Wb only looks at the nonterminals that occur in the body *)
Lemma Wb_ext_in (f g : nat -> list nat -> S) (body : list sym) :
  (forall Y ys, In (N Y) body -> f Y ys = g Y ys) ->
  forall xs, Wb f body xs = Wb g body xs.
Proof.
  induction body as [|s rest IH]; intros Hfg xs.
  - reflexivity.
  - destruct s as [a|Y].
    + cbn [Wb]. destruct xs as [|b xs']; [reflexivity|].
      destruct (Nat.eqb a b); [|reflexivity].
      apply IH. intros Y ys HY. apply Hfg. right; exact HY.
    + cbn [Wb]. apply bsum_ext. intros p _.
      rewrite (Hfg Y (fst p)) by (left; reflexivity).
      rewrite IH; [reflexivity|]. intros Y' ys HY. apply Hfg. right; exact HY.
Qed.

Lemma Wb_ext (f g : nat -> list nat -> S) :
  (forall Y ys, f Y ys = g Y ys) -> forall body xs, Wb f body xs = Wb g body xs.
Proof. intros Hfg body xs. apply Wb_ext_in. intros Y ys _. apply Hfg. Qed.

(* ====================================================================== *)
(* 1. rule order is irrelevant                                            *)
(* ====================================================================== *)

Theorem W_perm : forall (G G' : grammar S) h X xs,
  Permutation G G' -> W G h X xs = W G' h X xs.
Proof.
  intros G G' h X xs HP. revert X xs.
  induction h as [|h IH]; intros X xs; [reflexivity|].
  rewrite !W_S. rewrite (bsum_perm S G G' _ HP).
  apply bsum_ext; intros r _.
  destruct (Nat.eqb (rhead r) X); [|reflexivity].
  f_equal. apply Wb_ext. exact IH.
Qed.

(* ====================================================================== *)
(* 2. injective renaming of the nonterminals                              *)
(* ====================================================================== *)

Lemma eqb_inj_f (f : nat -> nat) (Hinj : forall p q, f p = f q -> p = q) p q :
  Nat.eqb (f p) (f q) = Nat.eqb p q.
Proof.
  destruct (Nat.eqb_spec p q) as [E|E].
  - subst. apply Nat.eqb_refl.
  - apply Nat.eqb_neq. intros H. apply E, Hinj, H.
Qed.

Lemma Wb_rename (f : nat -> nat) (g' g : nat -> list nat -> S) :
  (forall Y ys, g' (f Y) ys = g Y ys) ->
  forall body xs, Wb g' (map (rename_sym f) body) xs = Wb g body xs.
Proof.
  intros Hg. induction body as [|[a|Y] rest IH]; intros xs.
  - reflexivity.
  - cbn [map rename_sym Wb]. destruct xs as [|b xs']; [reflexivity|].
    destruct (Nat.eqb a b); [apply IH|reflexivity].
  - cbn [map rename_sym Wb]. apply bsum_ext; intros p _. rewrite Hg, IH. reflexivity.
Qed.

Lemma bsum_rename_g (f : nat -> nat) (G : grammar S) (F : rule S -> S) :
  bsum (rename_g f G) F
  = bsum G (fun r => F (rw r, f (rhead r), map (rename_sym f) (rbody r))).
Proof. unfold rename_g. apply bsum_map. Qed.

Theorem W_rename : forall (f : nat -> nat) (G : grammar S) h X xs,
  (forall p q, f p = f q -> p = q) ->
  W (rename_g f G) h (f X) xs = W G h X xs.
Proof.
  intros f G h X xs Hinj. revert X xs.
  induction h as [|h IH]; intros X xs; [reflexivity|].
  rewrite !W_S, bsum_rename_g.
  apply bsum_ext; intros [[w hd] body] _.
  cbn [rhead rw rbody fst snd].
  rewrite (eqb_inj_f f Hinj).
  destruct (Nat.eqb hd X); [|reflexivity].
  f_equal. apply Wb_rename. exact IH.
Qed.

(* ====================================================================== *)
(* body shapes                                                            *)
(* ====================================================================== *)

Definition nilw (l : list nat) : S := match l with [] => 1 | _ => 0 end.

Lemma splits_nilw (g : list nat -> S) : forall t,
  bsum (splits t) (fun p => g (fst p) * nilw (snd p)) = g t.
Proof.
  intros t; revert g; induction t as [|x t IH]; intros g.
  - simpl splits. rewrite bsum_cons, bsum_nil. simpl. ring.
  - simpl splits. rewrite bsum_cons, bsum_map. simpl fst; simpl snd.
    rewrite (IH (fun l => g (x :: l))). simpl. ring.
Qed.

Lemma Wb_N1 (g : nat -> list nat -> S) Y xs : Wb g [N Y] xs = g Y xs.
Proof.
  change (Wb g [N Y] xs) with (bsum (splits xs) (fun p => g Y (fst p) * nilw (snd p))).
  apply (splits_nilw (g Y)).
Qed.

Lemma Wb_NN (g : nat -> list nat -> S) y z xs :
  Wb g [N y; N z] xs = bsum (splits xs) (fun p => g y (fst p) * g z (snd p)).
Proof.
  change (Wb g [N y; N z] xs) with (bsum (splits xs) (fun p => g y (fst p) * Wb g [N z] (snd p))).
  apply bsum_ext; intros p _. rewrite Wb_N1. reflexivity.
Qed.

Lemma Wb_T1 (g : nat -> list nat -> S) a xs :
  Wb g [T a] xs = match xs with [b] => if Nat.eqb a b then 1 else 0 | _ => 0 end.
Proof. destruct xs as [|b [|c t]]; simpl; try reflexivity; destruct (Nat.eqb a b); reflexivity. Qed.

Lemma Wb_nil_cons (g : nat -> list nat -> S) a t : Wb g [] (a :: t) = 0.
Proof. reflexivity. Qed.

Lemma Wb_nil_nil (g : nat -> list nat -> S) : Wb g [] [] = 1.
Proof. reflexivity. Qed.

Lemma splits_app {A} : forall (l : list A) p, In p (splits l) -> fst p ++ snd p = l.
Proof.
  induction l as [|x t IH]; intros p Hp; simpl in Hp.
  - destruct Hp as [<-|[]]. reflexivity.
  - destruct Hp as [<-|Hp]; [reflexivity|].
    apply in_map_iff in Hp. destruct Hp as [q [<- Hq]]. cbn [fst snd].
    simpl. f_equal. apply IH. exact Hq.
Qed.

Lemma splits_length {A} (l : list A) p :
  In p (splits l) -> (length (fst p) + length (snd p))%nat = length l.
Proof. intros Hp. rewrite <- app_length. f_equal. apply splits_app. exact Hp. Qed.

(* ====================================================================== *)
(* 4. separate_start                                                      *)
(* ====================================================================== *)

(* an extra rule whose head does not occur in any body of G does not change the
   derivation sums of the other nonterminals *)
Lemma W_cons_other (G : grammar S) (r0 : rule S) :
  (forall r, In r G -> ~ In (N (rhead r0)) (rbody r)) ->
  forall h X xs, X <> rhead r0 -> W (r0 :: G) h X xs = W G h X xs.
Proof.
  intros Hbodies. induction h as [|h IH]; intros X xs HX; [reflexivity|].
  rewrite !W_S, bsum_cons.
  assert (E : Nat.eqb (rhead r0) X = false)
    by (apply Nat.eqb_neq; intros E; apply HX; symmetry; exact E).
  rewrite E.
  match goal with |- 0 + ?a = ?b => assert (Hab : a = b); [|rewrite Hab; ring] end.
  apply bsum_ext; intros r Hr.
  destruct (Nat.eqb (rhead r) X); [|reflexivity].
  f_equal. apply Wb_ext_in. intros Y ys HY. apply IH.
  intros EY. subst Y. exact (Hbodies r Hr HY).
Qed.

Theorem separate_start_W : forall (G : grammar S) (s' s : nat) h xs,
  (forall r, In r G -> rhead r <> s') ->
  (forall r, In r G -> ~ In (N s') (rbody r)) ->
  s' <> s ->
  W (snd (separate_start s' s G)) (Datatypes.S h) (fst (separate_start s' s G)) xs
  = if on_rhs s G then W G h s xs else W G (Datatypes.S h) s xs.
Proof.
  intros G s' s h xs Hheads Hbodies Hs.
  unfold separate_start. destruct (on_rhs s G); cbn [fst snd]; [|reflexivity].
  rewrite W_S, bsum_cons.
  change (rhead (1, s', [N s])) with s'.
  change (rw (1, s', [N s])) with (@s1 S).
  change (rbody (1, s', [N s])) with [N s].
  rewrite Nat.eqb_refl, Wb_N1.
  match goal with |- _ * ?w + ?a = _ =>
    assert (Hw : w = W G h s xs); [|assert (Ha : a = 0); [|rewrite Hw, Ha; ring]] end.
  - apply (W_cons_other G (1, s', [N s]) Hbodies h s xs).
    intros E; apply Hs; symmetry; exact E.
  - apply bsum_zero; intros r Hr.
    assert (E : Nat.eqb (rhead r) s' = false) by (apply Nat.eqb_neq; apply Hheads; exact Hr).
    rewrite E. reflexivity.
Qed.

(* ====================================================================== *)
(* 5. CKY                                                                 *)
(* ====================================================================== *)

Lemma cnf_shape (s : nat) (r : rule S) :
  cnf_rule s r = true ->
  (rbody r = [] /\ rhead r = s)
  \/ (exists a, rbody r = [T a])
  \/ (exists y z, rbody r = [N y; N z] /\ y <> s /\ z <> s).
Proof.
  unfold cnf_rule. destruct (rbody r) as [|[a|y] [|[b|z] [|c l]]]; intros H; try discriminate.
  - left; split; [reflexivity|apply Nat.eqb_eq; exact H].
  - right; left; exists a; reflexivity.
  - right; right; exists y, z.
    apply andb_true_iff in H. destruct H as [H1 H2].
    apply negb_true_iff in H1. apply negb_true_iff in H2.
    apply Nat.eqb_neq in H1. apply Nat.eqb_neq in H2. auto.
Qed.

Lemma in_cnf_In (s : nat) (G : grammar S) :
  in_cnf s G = true -> forall r, In r G -> cnf_rule s r = true.
Proof. unfold in_cnf. intros H. apply forallb_forall. exact H. Qed.

(* (a) nonterminals other than the start symbol do not derive the empty string *)
Lemma cnf_W_empty_nonstart (G : grammar S) (s : nat) :
  in_cnf s G = true -> forall h X, X <> s -> W G h X [] = 0.
Proof.
  intros Hc. induction h as [|h IH]; intros X HX; [reflexivity|].
  rewrite W_S. apply bsum_zero; intros r Hr.
  destruct (Nat.eqb_spec (rhead r) X) as [E|E]; [|reflexivity].
  destruct (cnf_shape s r (in_cnf_In s G Hc r Hr)) as [[Eb Eh]|[[a Eb]|[y [z [Eb [Hy Hz]]]]]]; rewrite Eb.
  - exfalso. apply HX. rewrite <- E. exact Eh.
  - rewrite Wb_T1. ring.
  - rewrite Wb_NN. simpl splits. rewrite bsum_cons, bsum_nil. cbn [fst snd].
    rewrite (IH y Hy). ring.
Qed.

(* the empty string from the start symbol: only the nullary rules contribute *)
Lemma cnf_W_empty_start (G : grammar S) (s : nat) :
  in_cnf s G = true -> forall h,
  W G (Datatypes.S h) s [] = bsum G (fun r => match rbody r with [] => rw r | _ => 0 end).
Proof.
  intros Hc h. rewrite W_S. apply bsum_ext; intros r Hr.
  destruct (cnf_shape s r (in_cnf_In s G Hc r Hr)) as [[Eb Eh]|[[a Eb]|[y [z [Eb [Hy Hz]]]]]]; rewrite Eb.
  - rewrite Eh, Nat.eqb_refl, Wb_nil_nil. ring.
  - rewrite Wb_T1. destruct (Nat.eqb (rhead r) s); ring.
  - rewrite Wb_NN. simpl splits. rewrite bsum_cons, bsum_nil. cbn [fst snd].
    rewrite (cnf_W_empty_nonstart G s Hc h y Hy).
    destruct (Nat.eqb (rhead r) s); ring.
Qed.

(* (b) non-empty strings *)
Lemma cnf_W_ckyf (G : grammar S) (s : nat) :
  in_cnf s G = true ->
  forall n xs X h f, length xs = n -> n <> O -> n <= h -> n <= f ->
  W G h X xs = ckyf G f X xs.
Proof.
  intros Hc n. induction n as [n IH] using lt_wf_ind.
  intros xs X h f Hl Hn Hh Hf.
  destruct h as [|h]; [lia|]. destruct f as [|f]; [lia|].
  destruct xs as [|a t]; [simpl in Hl; lia|].
  rewrite W_S. destruct t as [|b t].
  - (* a single symbol *)
    cbn [ckyf]. apply bsum_ext; intros r Hr.
    destruct (cnf_shape s r (in_cnf_In s G Hc r Hr)) as [[Eb Eh]|[[c Eb]|[y [z [Eb [Hy Hz]]]]]];
      rewrite Eb; cbv beta iota.
    + rewrite Wb_nil_cons. destruct (Nat.eqb (rhead r) X); ring.
    + rewrite Wb_T1. rewrite (Nat.eqb_sym a c).
      destruct (Nat.eqb (rhead r) X); destruct (Nat.eqb c a); cbn [andb]; ring.
    + rewrite Wb_NN. simpl splits. rewrite !bsum_cons, bsum_nil. cbn [fst snd].
      rewrite (cnf_W_empty_nonstart G s Hc h y Hy), (cnf_W_empty_nonstart G s Hc h z Hz).
      destruct (Nat.eqb (rhead r) X); ring.
  - (* at least two symbols *)
    cbn [ckyf]. apply bsum_ext; intros r Hr.
    destruct (cnf_shape s r (in_cnf_In s G Hc r Hr)) as [[Eb Eh]|[[c Eb]|[y [z [Eb [Hy Hz]]]]]];
      rewrite Eb; cbv beta iota.
    + rewrite Wb_nil_cons. destruct (Nat.eqb (rhead r) X); ring.
    + rewrite Wb_T1. destruct (Nat.eqb (rhead r) X); ring.
    + destruct (Nat.eqb (rhead r) X); [|reflexivity].
      rewrite Wb_NN. unfold psplits. rewrite bsum_filter, <- bsum_mul_l.
      apply bsum_ext; intros [u v] Hp.
      pose proof (splits_length _ _ Hp) as Hlen. cbn [fst snd] in Hlen |- *.
      destruct u as [|u0 u].
      * cbn [length Nat.eqb negb andb].
        rewrite (cnf_W_empty_nonstart G s Hc h y Hy). ring.
      * destruct v as [|v0 v].
        -- cbn [length Nat.eqb negb andb].
           rewrite (cnf_W_empty_nonstart G s Hc h z Hz). ring.
        -- cbn [length Nat.eqb negb andb].
           cbn [length] in Hlen, Hl.
           assert (H1 : W G h y (u0 :: u) = ckyf G f y (u0 :: u)).
           { apply (IH (length (u0 :: u))); cbn [length]; lia. }
           assert (H2 : W G h z (v0 :: v) = ckyf G f z (v0 :: v)).
           { apply (IH (length (v0 :: v))); cbn [length]; lia. }
           rewrite H1, H2. ring.
Qed.

Theorem cky_W : forall (G : grammar S) (s : nat) (xs : list nat) (h : nat),
  in_cnf s G = true -> length xs < h ->
  W G h s xs = cky G s xs.
Proof.
  intros G s xs h Hc Hl. destruct xs as [|a t].
  - destruct h as [|h]; [simpl in Hl; lia|].
    unfold cky. apply cnf_W_empty_start. exact Hc.
  - unfold cky.
    apply (cnf_W_ckyf G s Hc (length (a :: t))); cbn [length] in *; lia.
Qed.

End CkyProofs.

Print Assumptions W_perm.
Print Assumptions W_rename.
Print Assumptions separate_start_W.
Print Assumptions cky_W.
