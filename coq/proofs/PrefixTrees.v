(* The prefix weight Wpre of model/Prefix.v is the total weight of the enumerated
   derivation trees (of bounded height) whose yield begins with the given string.
   Corollaries: the empty prefix gives the total weight bu_iter, and over the Boolean
   semiring a prefix is viable iff some derivation tree has a yield beginning with it.
   No axioms. *)
From Coq Require Import List Arith Bool Lia.
From GV.lib Require Import Semiring BigSum.
From GV.model Require Import Cfg Agenda MachSpec Prefix.
From GV.proofs Require Import CfgTrees AgendaProofs CfgChart.
Import ListNotations.
Local Open Scope sr_scope.

(* ---- generic list facts -------------------------------------------------- *)

Lemma pt_filter_map {A B} (P : B -> bool) (g : A -> B) (l : list A) :
  filter P (map g l) = map g (filter (fun a => P (g a)) l).
Proof.
  induction l as [|a t IH]; simpl; [reflexivity|].
  destruct (P (g a)); simpl; rewrite IH; reflexivity.
Qed.

Lemma splits_ne_nil {A} : splits_ne (@nil A) = [].
Proof. reflexivity. Qed.

Lemma splits_ne_cons {A} (a : A) (p : list A) :
  splits_ne (a :: p) = ([], a :: p) :: map (fun s => (a :: fst s, snd s)) (splits_ne p).
Proof.
  unfold splits_ne. cbn [splits filter snd length Nat.eqb negb].
  rewrite pt_filter_map. reflexivity.
Qed.

Lemma is_prefix_nil_r (p : list nat) : is_prefix p [] = match p with [] => true | _ => false end.
Proof. destruct p; reflexivity. Qed.

Section PrefixTrees.
Variable S : SR.
Add Ring SRing : (sth S).

Lemma fyield_cons (t : tree S) fo : fyield (Fcons t fo) = tyield t ++ fyield fo.
Proof. reflexivity. Qed.
Lemma fyield_nil : fyield (@Fnil S) = [].
Proof. reflexivity. Qed.
Lemma tyield_leaf a : tyield (@Leaf S a) = [a].
Proof. reflexivity. Qed.
Lemma tyield_node i (r : rule S) k : tyield (Node i r k) = fyield k.
Proof. reflexivity. Qed.

(* p is a prefix of u ++ v  iff  p is a prefix of u, or u is a proper prefix of p and
   the rest of p is a prefix of v; the alternatives are exclusive *)
Lemma prefix_split (c : S) (v : list nat) : forall (p u : list nat),
  (if is_prefix p (u ++ v) then c else 0)
  = (if is_prefix p u then c else 0)
    + bsum (splits_ne p) (fun s => if list_eqb Nat.eqb u (fst s)
                                    then (if is_prefix (snd s) v then c else 0) else 0).
Proof.
  induction p as [|a p IH]; intros u.
  - rewrite splits_ne_nil, bsum_nil. cbn [is_prefix]. ring.
  - rewrite splits_ne_cons, bsum_cons, bsum_map. cbn [fst snd].
    destruct u as [|b u].
    + cbn [app is_prefix list_eqb]. rewrite bsum_zero by (intros; reflexivity). ring.
    + cbn [app is_prefix list_eqb]. destruct (Nat.eqb_spec a b) as [E|E].
      * subst b. rewrite Nat.eqb_refl. cbn [andb]. rewrite (IH u). ring.
      * replace (Nat.eqb b a) with false by (symmetry; apply Nat.eqb_neq; auto).
        cbn [andb]. rewrite bsum_zero by (intros; reflexivity). ring.
Qed.

Lemma WBpre_forests (tr : nat -> list (tree S)) (w wp : nat -> list nat -> S) (Z : nat -> S) :
  (forall Y ys, w Y ys = bsum (filter (yields ys) (tr Y)) tweight) ->
  (forall Y q, wp Y q = bsum (filter (fun t => is_prefix q (tyield t)) (tr Y)) tweight) ->
  (forall Y, Z Y = bsum (tr Y) tweight) ->
  forall body p,
    WBpre w wp Z body p
    = bsum (filter (fun fo => is_prefix p (fyield fo)) (forests_of tr body)) fweight.
Proof.
  intros Hw Hwp HZ. induction body as [|s rest IH]; intros p.
  - cbn [WBpre forests_of]. rewrite bsum_filter, bsum_cons, bsum_nil, fyield_nil, fweight_nil.
    rewrite is_prefix_nil_r. destruct p; ring.
  - destruct s as [a|Y].
    + cbn [WBpre forests_of]. rewrite bsum_filter, bsum_map. destruct p as [|b p'].
      * unfold Zb. rewrite (sprod_forests S tr Z HZ). apply bsum_ext; intros fo _.
        cbn [is_prefix]. rewrite fweight_cons, tweight_leaf. ring.
      * destruct (Nat.eqb_spec a b) as [E|E].
        -- subst b. rewrite IH, bsum_filter. apply bsum_ext; intros fo _.
           rewrite fyield_cons, tyield_leaf, fweight_cons, tweight_leaf.
           cbn [app is_prefix]. rewrite Nat.eqb_refl. cbn [andb].
           destruct (is_prefix p' (fyield fo)); ring.
        -- symmetry; apply bsum_zero; intros fo _.
           rewrite fyield_cons, tyield_leaf. cbn [app is_prefix].
           replace (Nat.eqb b a) with false by (symmetry; apply Nat.eqb_neq; auto).
           reflexivity.
    + cbn [WBpre forests_of]. rewrite bsum_filter, bsum_flat_map.
      transitivity (bsum (tr Y) (fun t => bsum (forests_of tr rest) (fun fo =>
         if is_prefix p (tyield t ++ fyield fo) then tweight t * fweight fo else 0))).
      2:{ apply bsum_ext; intros t _. rewrite bsum_map. apply bsum_ext; intros fo _.
          rewrite fyield_cons, fweight_cons. reflexivity. }
      transitivity (bsum (tr Y) (fun t => bsum (forests_of tr rest) (fun fo =>
         bsum (splits_ne p) (fun s => if list_eqb Nat.eqb (tyield t) (fst s)
            then (if is_prefix (snd s) (fyield fo) then tweight t * fweight fo else 0) else 0)))
         + bsum (tr Y) (fun t => bsum (forests_of tr rest) (fun fo =>
            if is_prefix p (tyield t) then tweight t * fweight fo else 0))).
      2:{ rewrite <- bsum_add. apply bsum_ext; intros t _.
          rewrite <- bsum_add. apply bsum_ext; intros fo _.
          rewrite (prefix_split (tweight t * fweight fo) (fyield fo) p (tyield t)). ring. }
      f_equal.
      * (* proper-prefix part *)
        transitivity (bsum (splits_ne p) (fun s => bsum (tr Y) (fun t =>
           bsum (forests_of tr rest) (fun fo =>
             (if list_eqb Nat.eqb (tyield t) (fst s) then tweight t else 0)
             * (if is_prefix (snd s) (fyield fo) then fweight fo else 0))))).
        { apply bsum_ext; intros s _. rewrite Hw, IH, !bsum_filter.
          unfold yields. apply bsum_bsum_mul. }
        rewrite bsum_swap. apply bsum_ext; intros t _.
        rewrite bsum_swap. apply bsum_ext; intros fo _.
        apply bsum_ext; intros s _.
        destruct (list_eqb Nat.eqb (tyield t) (fst s));
          destruct (is_prefix (snd s) (fyield fo)); ring.
      * (* p inside the first subtree *)
        rewrite Hwp, bsum_filter. unfold Zb. rewrite (sprod_forests S tr Z HZ).
        rewrite bsum_bsum_mul. apply bsum_ext; intros t _. apply bsum_ext; intros fo _.
        destruct (is_prefix p (tyield t)); ring.
Qed.

Theorem Wpre_trees : forall (G : grammar S) (h X : nat) (p : list nat),
  Wpre G h X p = bsum (filter (fun t => is_prefix p (tyield t)) (trees G h X)) tweight.
Proof.
  intros G h; induction h as [|h IH]; intros X p; [reflexivity|].
  cbn [Wpre trees]. rewrite bsum_filter, bsum_flat_map.
  rewrite <- bsum_indexed. apply bsum_ext; intros [i r] _. simpl fst; simpl snd.
  destruct (Nat.eqb (rhead r) X); [|reflexivity].
  rewrite bsum_map.
  rewrite (WBpre_forests (trees G h) (W G h) (Wpre G h) (bu_iter G h)
             (W_trees S G h) IH (bu_iter_trees S G h)).
  rewrite bsum_filter, <- bsum_mul_l.
  apply bsum_ext; intros fo _.
  rewrite tyield_node, tweight_node.
  destruct (is_prefix p (fyield fo)); ring.
Qed.

Corollary Wpre_nil : forall (G : grammar S) (h X : nat), Wpre G h X [] = bu_iter G h X.
Proof.
  intros G h X. rewrite Wpre_trees, bu_iter_trees, bsum_filter.
  apply bsum_ext; intros t _. reflexivity.
Qed.

End PrefixTrees.

(* ---- Boolean semiring: viable prefixes ------------------------------------ *)

Lemma bool_bsum_true {A} (l : list A) (f : A -> BoolSR) :
  bsum l f = true <-> exists x, In x l /\ f x = true.
Proof.
  induction l as [|a t IH].
  - rewrite bsum_nil. split; [intros H; discriminate H|intros [x [[] _]]].
  - rewrite bsum_cons. change (orb (f a) (bsum t f) = true <-> exists x, In x (a :: t) /\ f x = true).
    rewrite orb_true_iff, IH. split.
    + intros [H|[x [Hx Hf]]]; [exists a; split; [left; reflexivity|exact H]|exists x; split; [right; exact Hx|exact Hf]].
    + intros [x [[E|Hx] Hf]]; [left; subst x; exact Hf|right; exists x; split; assumption].
Qed.

Theorem Wpre_bool_viable : forall (G : grammar BoolSR) (X : nat) (p : list nat),
  (exists h, Wpre G h X p = true) <->
  (exists t, twf BoolSR G (N X) t /\ is_prefix p (tyield t) = true /\ tweight t = true).
Proof.
  intros G X p. split.
  - intros [h Hh]. rewrite Wpre_trees in Hh. apply bool_bsum_true in Hh.
    destruct Hh as [t [Hin Hw]]. apply filter_In in Hin. destruct Hin as [Hin Hp].
    exists t. split; [exact (proj1 (trees_sound BoolSR G h X t Hin))|split; assumption].
  - intros [t [Hwf [Hp Hw]]]. exists (theight t). rewrite Wpre_trees.
    apply bool_bsum_true. exists t. split; [|exact Hw].
    apply filter_In. split; [|exact Hp].
    apply trees_complete; [exact Hwf|apply le_n].
Qed.

Print Assumptions Wpre_trees.
Print Assumptions Wpre_nil.
Print Assumptions Wpre_bool_viable.
