(* Agenda priorities of the two Earley parsers (regenerated: Gen_Exprs.priority_earley/rescaled,
   order_max_earley/rescaled).  A completed item (J,Y) of column K is popped before an item (I,X)
   it can contribute to: either it has a strictly shorter span (I < J <= K), or the
   same span and a smaller order.  Items are popped at maximal priority. *)
From Coq Require Import ZArith Lia.
From GV.gen Require Import Gen_Exprs.
Local Open Scope Z_scope.

(* m = max of the order values; every order lies in [0, m] *)
Definition span_first (prio : Z -> Z -> Z -> Z -> Z) (om : Z -> Z) : Prop :=
  forall m K I J oX oY, 0 <= oX <= m -> 0 <= oY <= m -> I < J -> J <= K ->
    prio K J (om m) oY > prio K I (om m) oX.
Definition order_first (prio : Z -> Z -> Z -> Z -> Z) (om : Z -> Z) : Prop :=
  forall m K I oX oY, oY < oX -> prio K I (om m) oY > prio K I (om m) oX.

Lemma earley_span_first : span_first priority_earley order_max_earley.
Proof. unfold span_first, priority_earley, order_max_earley. intros m K I J oX oY HX HY HIJ HJK.
  assert (Hd : 0 <= (J - I - 1) * (1 + m)) by (apply Z.mul_nonneg_nonneg; lia).
  replace ((K - I) * (1 + m)) with ((K - J) * (1 + m) + (J - I - 1) * (1 + m) + (1 + m)) by ring. lia. Qed.
Lemma earley_order_first : order_first priority_earley order_max_earley.
Proof. unfold order_first, priority_earley, order_max_earley. intros. lia. Qed.
