(* The arithmetic of linear.py as regenerated (gen/Gen_Linear.v) is the arithmetic of the models
   of model/Linear.v: elimination step, reflexive step, block solvers.  Proved by conversion, so
   the ORDER of the factors is checked too. *)
From Coq Require Import List Arith Bool.
From GV.lib Require Import Semiring BigSum.
From GV.model Require Import Linear.
From GV.gen Require Import Gen_Linear.
Import ListNotations.
Local Open Scope sr_scope.

Section Bridge.
Variable S : StarSR.

Theorem gen_elim_step_model (nodes : list nat) (j : nat) (old : mat S) :
  elim_step nodes j old =
  tabulate nodes (fun i k => gen_elim_upd S (mget old i k) (mget old i j) (sstar S (mget old j j)) (mget old j k)).
Proof. reflexivity. Qed.

Theorem gen_lehmann_refl_model (nodes : list nat) (A : mat S) :
  lehmann nodes A =
  tabulate nodes (fun i k => if Nat.eqb i k then gen_refl_upd S (mget (lehmann_trans nodes A) i k) else mget (lehmann_trans nodes A) i k).
Proof. reflexivity. Qed.

Theorem gen_solve_left_block_model (allnodes : list nat) (A : mat S) (b sol : vec S) (block : list nat) :
  solve_left_block S allnodes A b sol block =
  (let B := block_closure block A in
   let enter := map (fun j => (j, vget b j + bsum allnodes (fun i => gen_left_enter S (vget sol i) (mget A i j)))) block in
   sol ++ flat_map (fun e => map (fun k => (k, gen_left_complete S (snd e) (mget B (fst e) k))) block) enter).
Proof. reflexivity. Qed.

Theorem gen_solve_right_block_model (allnodes : list nat) (A : mat S) (b sol : vec S) (block : list nat) :
  solve_right_block S allnodes A b sol block =
  (let B := block_closure block A in
   let enter := map (fun j => (j, vget b j + bsum allnodes (fun k => gen_right_enter S (mget A j k) (vget sol k)))) block in
   sol ++ flat_map (fun e => map (fun i => (i, gen_right_complete S (mget B i (fst e)) (snd e))) block) enter).
Proof. reflexivity. Qed.

End Bridge.

Print Assumptions gen_elim_step_model.
Print Assumptions gen_lehmann_refl_model.
Print Assumptions gen_solve_left_block_model.
Print Assumptions gen_solve_right_block_model.
