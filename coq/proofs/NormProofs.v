(* Local normalisation (cfglm.locally_normalize), EOS wrapping (cfglm.add_EOS) and
   the chain rule of language models (lm.LM): proofs about model/Norm.v with the
   regenerated expression Gen_Exprs.norm_factor plugged in. *)
From Coq Require Import List Arith Bool Lia Field Ring.
From GV.lib Require Import Semiring BigSum.
From GV.model Require Import Cfg Norm.
From GV.gen Require Import Gen_Exprs.
Import ListNotations.
Local Open Scope sr_scope.

Scheme np_twf_ind2 := Minimality for twf Sort Prop with np_fwf_ind2 := Minimality for fwf Sort Prop.
Combined Scheme np_twf_fwf_ind from np_twf_ind2, np_fwf_ind2.

(* ====================================================================== *)
(* PART A: local normalisation                                            *)
(* ====================================================================== *)
Section NormA.
Variable F : FR.
Add Field NPFieldA : (fth F).

Lemma bsum_fdiv {A} (l : list A) (f : A -> F) (c : F) :
  c <> 0 -> bsum l (fun a => fdiv F (f a) c) = fdiv F (bsum l f) c.
Proof.
  intros Hc. induction l as [|a t IH].
  - rewrite !bsum_nil. field. exact Hc.
  - rewrite !bsum_cons, IH. field. exact Hc.
Qed.

Lemma seqb_false_neq (a b : F) : a <> b -> seqb a b = false.
Proof.
  intros H. destruct (seqb a b) eqn:E; [|reflexivity].
  apply seqb_spec in E. contradiction.
Qed.

Lemma seqb_true_eq (a b : F) : seqb a b = true -> a = b.
Proof. apply seqb_spec. Qed.

(* ---- A1 ---- *)
Theorem lnorm_heads_sum_to_one : forall (Z : sym -> F) (G : grammar F) (X : nat),
  solves Z G -> Z (N X) <> 0 -> head_mass (lnorm (norm_factor F) Z G) X = 1.
Proof.
  intros Z G X [HT HN] HX.
  unfold head_mass, lnorm. rewrite bsum_flat_map.
  transitivity (bsum G (fun r : rule F =>
     fdiv F (if Nat.eqb (rhead r) X then rw r * prodZ Z (rbody r) else 0) (Z (N X)))).
  - apply bsum_ext. intros r _.
    destruct (Nat.eqb (rhead r) X) eqn:E.
    + apply Nat.eqb_eq in E. rewrite E.
      rewrite (seqb_false_neq _ _ HX).
      rewrite bsum_cons, bsum_nil.
      change (rhead (norm_factor F (rw r) (prodZ Z (rbody r)) (Z (N X)), X, rbody r)) with X.
      rewrite Nat.eqb_refl.
      change (rw (norm_factor F (rw r) (prodZ Z (rbody r)) (Z (N X)), X, rbody r))
        with (norm_factor F (rw r) (prodZ Z (rbody r)) (Z (N X))).
      unfold norm_factor. field. exact HX.
    + destruct (seqb (Z (N (rhead r))) 0).
      * rewrite bsum_nil. field. exact HX.
      * rewrite bsum_cons, bsum_nil.
        change (rhead (norm_factor F (rw r) (prodZ Z (rbody r)) (Z (N (rhead r))), rhead r, rbody r))
          with (rhead r).
        rewrite E. field. exact HX.
  - rewrite (bsum_fdiv G _ (Z (N X)) HX). rewrite <- (HN X). field. exact HX.
Qed.

(* ---- A2 ---- *)

(* the rule of the normalised grammar that corresponds to r *)
Definition nrule (Z : sym -> F) (r : rule F) : rule F :=
  (norm_factor F (rw r) (prodZ Z (rbody r)) (Z (N (rhead r))), rhead r, rbody r).

Fixpoint tmap (Z : sym -> F) (t : tree F) : tree F :=
  match t with
  | Leaf a => Leaf a
  | Node i r k => Node i (nrule Z r) (fmap Z k)
  end
with fmap (Z : sym -> F) (f : forest F) : forest F :=
  match f with
  | Fnil => Fnil
  | Fcons t f' => Fcons (tmap Z t) (fmap Z f')
  end.

Fixpoint occurs_nt (X : nat) (t : tree F) : Prop :=
  match t with
  | Leaf _ => False
  | Node _ r k => rhead r = X \/ occurs_ntf X k
  end
with occurs_ntf (X : nat) (f : forest F) : Prop :=
  match f with
  | Fnil => False
  | Fcons t f' => occurs_nt X t \/ occurs_ntf X f'
  end.

Lemma tmap_leaf Z a : tmap Z (Leaf a) = Leaf a. Proof. reflexivity. Qed.
Lemma tmap_node Z i r k : tmap Z (Node i r k) = Node i (nrule Z r) (fmap Z k). Proof. reflexivity. Qed.
Lemma fmap_nil Z : fmap Z Fnil = Fnil. Proof. reflexivity. Qed.
Lemma fmap_cons Z t f : fmap Z (Fcons t f) = Fcons (tmap Z t) (fmap Z f). Proof. reflexivity. Qed.
Lemma tweight_leaf a : tweight (@Leaf F a) = 1. Proof. reflexivity. Qed.
Lemma tweight_node i (r : rule F) k : tweight (Node i r k) = rw r * fweight k. Proof. reflexivity. Qed.
Lemma fweight_nil : fweight (@Fnil F) = 1. Proof. reflexivity. Qed.
Lemma fweight_cons (t : tree F) f : fweight (Fcons t f) = tweight t * fweight f. Proof. reflexivity. Qed.
Lemma occurs_nt_node X i (r : rule F) k : occurs_nt X (Node i r k) = (rhead r = X \/ occurs_ntf X k).
Proof. reflexivity. Qed.
Lemma occurs_ntf_cons X (t : tree F) f : occurs_ntf X (Fcons t f) = (occurs_nt X t \/ occurs_ntf X f).
Proof. reflexivity. Qed.
Lemma prodZ_nil (Z : sym -> F) : prodZ Z [] = 1. Proof. reflexivity. Qed.
Lemma prodZ_cons (Z : sym -> F) s body : prodZ Z (s :: body) = Z s * prodZ Z body. Proof. reflexivity. Qed.

Lemma lnorm_tree_mut (Z : sym -> F) (G : grammar F) :
  (forall a, Z (T a) = 1) ->
  (forall s t, twf F G s t -> (forall X, occurs_nt X t -> Z (N X) <> 0) ->
     tweight (tmap Z t) * Z s = tweight t) /\
  (forall body f, fwf F G body f -> (forall X, occurs_ntf X f -> Z (N X) <> 0) ->
     fweight (fmap Z f) * prodZ Z body = fweight f).
Proof.
  intros HT. apply np_twf_fwf_ind.
  - intros a _. rewrite tmap_leaf, tweight_leaf, HT. ring.
  - intros i r kids Hnth Hfwf IHk Hocc.
    rewrite tmap_node, !tweight_node.
    assert (Hh : Z (N (rhead r)) <> 0).
    { apply Hocc. rewrite occurs_nt_node. left; reflexivity. }
    rewrite <- IHk.
    + unfold nrule. change (rw (?w, ?h, ?b)) with w.
      unfold norm_factor. field. exact Hh.
    + intros X HX. apply Hocc. rewrite occurs_nt_node. right; exact HX.
  - intros _. rewrite fmap_nil, fweight_nil, prodZ_nil. ring.
  - intros s body t f Htwf IHt Hfwf IHf Hocc.
    rewrite fmap_cons, !fweight_cons, prodZ_cons.
    rewrite <- IHt, <- IHf.
    + ring.
    + intros X HX. apply Hocc. rewrite occurs_ntf_cons. right; exact HX.
    + intros X HX. apply Hocc. rewrite occurs_ntf_cons. left; exact HX.
Qed.

Theorem lnorm_tree_proportional : forall (Z : sym -> F) (G : grammar F),
  (forall a, Z (T a) = 1) ->
  forall t s, twf F G s t -> (forall X, occurs_nt X t -> Z (N X) <> 0) ->
    tweight (tmap Z t) * Z s = tweight t.
Proof.
  intros Z G HT t s Hwf Hocc. exact (proj1 (lnorm_tree_mut Z G HT) s t Hwf Hocc).
Qed.

Theorem lnorm_forest_proportional : forall (Z : sym -> F) (G : grammar F),
  (forall a, Z (T a) = 1) ->
  forall f body, fwf F G body f -> (forall X, occurs_ntf X f -> Z (N X) <> 0) ->
    fweight (fmap Z f) * prodZ Z body = fweight f.
Proof.
  intros Z G HT f body Hwf Hocc. exact (proj2 (lnorm_tree_mut Z G HT) body f Hwf Hocc).
Qed.

(* ---- A3 ---- *)
Theorem lnorm_rule_in : forall (Z : sym -> F) (G : grammar F) (r : rule F),
  In r G -> Z (N (rhead r)) <> 0 ->
  In (norm_factor F (rw r) (prodZ Z (rbody r)) (Z (N (rhead r))), rhead r, rbody r)
     (lnorm (norm_factor F) Z G).
Proof.
  intros Z G r Hin Hne. unfold lnorm. apply in_flat_map. exists r. split; [exact Hin|].
  rewrite (seqb_false_neq _ _ Hne). left; reflexivity.
Qed.

Theorem lnorm_rule_from : forall (Z : sym -> F) (G : grammar F) (r' : rule F),
  In r' (lnorm (norm_factor F) Z G) ->
  exists r, In r G /\ Z (N (rhead r)) <> 0 /\
    r' = (norm_factor F (rw r) (prodZ Z (rbody r)) (Z (N (rhead r))), rhead r, rbody r).
Proof.
  intros Z G r' Hin. unfold lnorm in Hin. apply in_flat_map in Hin.
  destruct Hin as [r [Hr Hin]]. exists r. split; [exact Hr|].
  destruct (seqb (Z (N (rhead r))) 0) eqn:E.
  - contradiction.
  - destruct Hin as [Hin|[]]. split; [|symmetry; exact Hin].
    intros Hz. rewrite Hz in E.
    assert (E' : seqb (0 : F) 0 = true) by (apply seqb_spec; reflexivity).
    rewrite E' in E. discriminate.
Qed.

End NormA.

Print Assumptions lnorm_heads_sum_to_one.
Print Assumptions lnorm_tree_proportional.
Print Assumptions lnorm_rule_in.
Print Assumptions lnorm_rule_from.

(* ====================================================================== *)
(* PART B: EOS wrapping                                                   *)
(* ====================================================================== *)
Section EosB.
Variable S : SR.
Add Ring NPRingB : (sth S).

(* Wb only looks at the nonterminals that occur in the body *)
Lemma Wb_ext_body (f g : nat -> list nat -> S) (body : list sym) :
  (forall Y ys, In (N Y) body -> f Y ys = g Y ys) ->
  forall xs, Wb f body xs = Wb g body xs.
Proof.
  induction body as [|s rest IH]; intros Hfg xs.
  - reflexivity.
  - destruct s as [a|Y].
    + cbn [Wb]. destruct xs as [|b xs']; [reflexivity|].
      destruct (Nat.eqb a b); [|reflexivity].
      apply IH. intros Y ys HY. apply Hfg. right; exact HY.
    + cbn [Wb]. apply bsum_ext. intros p _.
      rewrite (Hfg Y (fst p)) by (left; reflexivity).
      rewrite IH; [reflexivity|]. intros Y' ys HY. apply Hfg. right; exact HY.
Qed.

Lemma W_add_eos_unfold (G : grammar S) (s' s eos h X : nat) (ys : list nat) :
  W (add_eos s' s eos G) (Datatypes.S h) X ys =
  (if Nat.eqb s' X then 1 * Wb (W (add_eos s' s eos G) h) [N s; T eos] ys else 0)
  + bsum G (fun r => if Nat.eqb (rhead r) X
                     then rw r * Wb (W (add_eos s' s eos G) h) (rbody r) ys else 0).
Proof. reflexivity. Qed.

Lemma W_succ (G : grammar S) (h X : nat) (ys : list nat) :
  W G (Datatypes.S h) X ys =
  bsum G (fun r => if Nat.eqb (rhead r) X then rw r * Wb (W G h) (rbody r) ys else 0).
Proof. reflexivity. Qed.

(* ---- B1a ---- *)
Theorem add_eos_W_old : forall (G : grammar S) (s' s eos : nat),
  (forall r, In r G -> rhead r <> s') ->
  (forall r, In r G -> ~ In (N s') (rbody r)) ->
  forall h X ys, X <> s' -> W (add_eos s' s eos G) h X ys = W G h X ys.
Proof.
  intros G s' s eos Hheads Hbodies. induction h as [|h IH]; intros X ys HX.
  - reflexivity.
  - rewrite W_add_eos_unfold, W_succ.
    assert (E : Nat.eqb s' X = false) by (apply Nat.eqb_neq; intros E; apply HX; symmetry; exact E).
    rewrite E.
    transitivity (bsum G (fun r => if Nat.eqb (rhead r) X
                     then rw r * Wb (W (add_eos s' s eos G) h) (rbody r) ys else 0)); [ring|].
    apply bsum_ext. intros r Hr.
    destruct (Nat.eqb (rhead r) X); [|reflexivity].
    f_equal. apply Wb_ext_body. intros Y zs HY. apply IH.
    intros EY. subst Y. exact (Hbodies r Hr HY).
Qed.

(* no rule with head X: the derivation sum from X is zero *)
Lemma W_no_head (G : grammar S) (X : nat) :
  (forall r, In r G -> rhead r <> X) -> forall h ys, W G h X ys = 0.
Proof.
  intros Hheads h ys. destruct h as [|h]; [reflexivity|].
  rewrite W_succ. apply bsum_zero. intros r Hr.
  assert (E : Nat.eqb (rhead r) X = false) by (apply Nat.eqb_neq; apply Hheads; exact Hr).
  rewrite E. reflexivity.
Qed.

Definition eos_tail (eos : nat) (l : list nat) : S :=
  match l with [e] => if Nat.eqb eos e then 1 else 0 | _ => 0 end.

Lemma Wb_eos_body (f : nat -> list nat -> S) (s eos : nat) (ys : list nat) :
  Wb f [N s; T eos] ys = bsum (splits ys) (fun p => f s (fst p) * eos_tail eos (snd p)).
Proof.
  cbn [Wb]. apply bsum_ext. intros p _. f_equal.
  unfold eos_tail. destruct (snd p) as [|b [|c l]]; try reflexivity.
  destruct (Nat.eqb eos b); reflexivity.
Qed.

Lemma W_add_eos_new (G : grammar S) (s' s eos : nat) :
  (forall r, In r G -> rhead r <> s') ->
  forall h ys, W (add_eos s' s eos G) (Datatypes.S h) s' ys =
    bsum (splits ys) (fun p => W (add_eos s' s eos G) h s (fst p) * eos_tail eos (snd p)).
Proof.
  intros Hheads h ys. rewrite W_add_eos_unfold, Nat.eqb_refl, Wb_eos_body.
  rewrite (bsum_zero S G).
  - ring.
  - intros r Hr.
    assert (E : Nat.eqb (rhead r) s' = false) by (apply Nat.eqb_neq; apply Hheads; exact Hr).
    rewrite E. reflexivity.
Qed.

(* degenerate case s = s': the new rule s' -> s' eos derives nothing *)
Lemma W_add_eos_self (G : grammar S) (s' eos : nat) :
  (forall r, In r G -> rhead r <> s') ->
  forall h ys, W (add_eos s' s' eos G) h s' ys = 0.
Proof.
  intros Hheads. induction h as [|h IH]; intros ys; [reflexivity|].
  rewrite (W_add_eos_new G s' s' eos Hheads). apply bsum_zero. intros p _.
  rewrite IH. ring.
Qed.

(* ---- B1b ---- *)
Theorem add_eos_W_new : forall (G : grammar S) (s' s eos : nat),
  (forall r, In r G -> rhead r <> s') ->
  (forall r, In r G -> ~ In (N s') (rbody r)) ->
  forall h ys,
    W (add_eos s' s eos G) (Datatypes.S h) s' ys =
    bsum (splits ys) (fun p => W G h s (fst p) *
       (match snd p with [e] => if Nat.eqb eos e then 1 else 0 | _ => 0 end)).
Proof.
  intros G s' s eos Hheads Hbodies h ys.
  rewrite (W_add_eos_new G s' s eos Hheads).
  apply bsum_ext. intros p _. fold (eos_tail eos (snd p)). f_equal.
  destruct (Nat.eq_dec s s') as [E|NE].
  - subst s. rewrite (W_add_eos_self G s' eos Hheads), (W_no_head G s' Hheads). reflexivity.
  - apply add_eos_W_old; assumption.
Qed.

(* only the split (xs, [eos]) survives *)
Lemma eos_split_sum (eos : nat) (f : list nat -> S) (xs : list nat) :
  bsum (splits (xs ++ [eos])) (fun p => f (fst p) * eos_tail eos (snd p)) = f xs.
Proof.
  revert f. induction xs as [|x t IH]; intros f.
  - cbn [app splits map]. rewrite !bsum_cons, bsum_nil. cbn [fst snd eos_tail].
    rewrite Nat.eqb_refl. ring.
  - cbn [app splits]. rewrite bsum_cons, bsum_map. cbn [fst snd].
    rewrite (IH (fun l => f (x :: l))).
    assert (E : eos_tail eos (x :: t ++ [eos]) = 0).
    { unfold eos_tail. destruct t; reflexivity. }
    rewrite E. ring.
Qed.

(* ---- B1 ---- *)
Theorem add_eos_W : forall (G : grammar S) (s' s eos : nat) (h : nat) (xs : list nat),
  (forall r, In r G -> rhead r <> s') ->
  (forall r, In r G -> ~ In (N s') (rbody r)) ->
  W (add_eos s' s eos G) (Datatypes.S h) s' (xs ++ [eos]) = W G h s xs.
Proof.
  intros G s' s eos h xs Hheads Hbodies.
  rewrite (add_eos_W_new G s' s eos Hheads Hbodies).
  exact (eos_split_sum eos (W G h s) xs).
Qed.

End EosB.

Print Assumptions add_eos_W_old.
Print Assumptions add_eos_W_new.
Print Assumptions add_eos_W.

(* ====================================================================== *)
(* PART C: chain rule                                                     *)
(* ====================================================================== *)
Section ChainC.
Variable F : FR.
Add Field NPFieldC : (fth F).

Lemma bsum_fdiv_c {A} (l : list A) (f : A -> F) (c : F) :
  c <> 0 -> bsum l (fun a => fdiv F (f a) c) = fdiv F (bsum l f) c.
Proof.
  intros Hc. induction l as [|a t IH].
  - rewrite !bsum_nil. field. exact Hc.
  - rewrite !bsum_cons, IH. field. exact Hc.
Qed.

(* ---- C1 ---- *)
Theorem p_next_sums_to_one : forall (V : list nat) (eos : nat) (nw : list nat -> nat -> F) (ctx : list nat),
  zsum V eos nw ctx <> 0 -> bsum (V ++ [eos]) (p_next V eos nw ctx) = 1.
Proof.
  intros V eos nw ctx Hz.
  transitivity (bsum (V ++ [eos]) (fun t => fdiv F (nw ctx t) (zsum V eos nw ctx))).
  - apply bsum_ext. intros t _. reflexivity.
  - rewrite (bsum_fdiv_c (V ++ [eos]) (nw ctx) (zsum V eos nw ctx) Hz).
    fold (zsum V eos nw ctx). field. exact Hz.
Qed.

Lemma zsum_prefix (V : list nat) (eos : nat) (nw : list nat -> nat -> F) (pw cw : list nat -> F) :
  (forall ctx t, In t V -> nw ctx t = pw (ctx ++ [t])) ->
  (forall ctx, nw ctx eos = cw ctx) ->
  (forall ctx, pw ctx = cw ctx + bsum V (fun t => pw (ctx ++ [t]))) ->
  forall ctx, zsum V eos nw ctx = pw ctx.
Proof.
  intros Hnw Heos Hpw ctx. unfold zsum.
  rewrite bsum_app, bsum_cons, bsum_nil, Heos, (Hpw ctx).
  rewrite (bsum_ext F V (nw ctx) (fun t => pw (ctx ++ [t]))).
  - ring.
  - intros t Ht. apply Hnw. exact Ht.
Qed.

(* ---- C2 ---- *)
Theorem chain_rule : forall (V : list nat) (eos : nat) (nw : list nat -> nat -> F) (pw cw : list nat -> F),
  (forall ctx t, In t V -> nw ctx t = pw (ctx ++ [t])) ->
  (forall ctx, nw ctx eos = cw ctx) ->
  (forall ctx, pw ctx = cw ctx + bsum V (fun t => pw (ctx ++ [t]))) ->
  ~ In eos V ->
  forall xs ctx, (forall x, In x xs -> In x V) ->
    (forall k, k <= length xs -> pw (ctx ++ firstn k xs) <> 0) ->
    chain V eos nw ctx xs = fdiv F (cw (ctx ++ xs)) (pw ctx).
Proof.
  intros V eos nw pw cw Hnw Heos Hpw Hnotin.
  pose proof (zsum_prefix V eos nw pw cw Hnw Heos Hpw) as Hz.
  induction xs as [|x t IH]; intros ctx HV Hne.
  - cbn [chain]. unfold p_next. rewrite Hz, Heos, app_nil_r. reflexivity.
  - cbn [chain]. unfold p_next. rewrite Hz.
    assert (H0 : pw ctx <> 0).
    { specialize (Hne O (Nat.le_0_l _)). cbn [firstn] in Hne. rewrite app_nil_r in Hne. exact Hne. }
    assert (H1 : pw (ctx ++ [x]) <> 0).
    { assert (Hle : 1 <= length (x :: t)) by (cbn [length]; lia).
      specialize (Hne 1%nat Hle). cbn [firstn] in Hne. exact Hne. }
    rewrite (Hnw ctx x) by (apply HV; left; reflexivity).
    rewrite (IH (ctx ++ [x])).
    + rewrite <- app_assoc. cbn [app]. field. split; assumption.
    + intros y Hy. apply HV. right; exact Hy.
    + intros k Hk. rewrite <- app_assoc. cbn [app].
      assert (Hle : Datatypes.S k <= length (x :: t)) by (cbn [length]; lia).
      specialize (Hne (Datatypes.S k) Hle). cbn [firstn] in Hne. exact Hne.
Qed.

(* ---- C3 ---- *)
Theorem chain_zero_context : forall (V : list nat) (eos : nat) (nw : list nat -> nat -> F) (ctx : list nat) (t : nat),
  zsum V eos nw ctx = 0 -> (forall u, In u (V ++ [eos]) -> nw ctx u = 0) ->
  p_next V eos nw ctx t = fdiv F (nw ctx t) 0.
Proof.
  intros V eos nw ctx t Hz _. unfold p_next. rewrite Hz. reflexivity.
Qed.

End ChainC.

Print Assumptions p_next_sums_to_one.
Print Assumptions chain_rule.
Print Assumptions chain_zero_context.
