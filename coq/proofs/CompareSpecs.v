(* Specifications of the two comparison functions the correspondence run evaluates on rule lists (C07) and on state
   sets (C13): what "the comparison returned true" means. *)
From Coq Require Import List Arith Bool.
From GV.lib Require Import Semiring BigSum.
From GV.model Require Import Cfg Wfsa TrimW TrimSearch TopDown.
From GV.proofs Require Import CfgTrees AgendaProofs.
Import ListNotations.

Lemma list_eqb_spec_gen {A} (eqb : A -> A -> bool) :
  (forall a b, eqb a b = true <-> a = b) -> forall l1 l2, list_eqb eqb l1 l2 = true <-> l1 = l2.
Proof.
  intros H l1. induction l1 as [|x l1 IH]; intros [|y l2]; cbn [list_eqb]; split; intros E; try reflexivity; try discriminate.
  - apply andb_true_iff in E. destruct E as [E1 E2]. apply H in E1. apply IH in E2. subst. reflexivity.
  - injection E as E1 E2. apply andb_true_iff. split; [apply H; exact E1|apply IH; exact E2].
Qed.


(* rule lists with the same heads and bodies, in the same order *)
Theorem shape_eqb_spec : forall (S : SR) (G1 G2 : grammar S),
  shape_eqb G1 G2 = true <-> map (fun r => (rhead r, rbody r)) G1 = map (fun r => (rhead r, rbody r)) G2.
Proof.
  intros S G1. unfold shape_eqb. induction G1 as [|r1 G1 IH]; intros [|r2 G2]; cbn [list_eqb map]; split; intros E; try reflexivity; try discriminate.
  - apply andb_true_iff in E. destruct E as [E1 E2]. apply andb_true_iff in E1. destruct E1 as [Eh Eb].
    apply Nat.eqb_eq in Eh. apply (list_eqb_spec_gen sym_eqb sym_eqb_eq) in Eb. apply IH in E2. rewrite Eh, Eb, E2. reflexivity.
  - injection E as Eh Eb E2. apply andb_true_iff. split.
    + apply andb_true_iff. split; [apply Nat.eqb_eq; exact Eh|apply (list_eqb_spec_gen sym_eqb sym_eqb_eq); exact Eb].
    + apply IH. exact E2.
Qed.

(* two lists of states denote the same set *)
Theorem same_states_spec : forall (a b : list nat), same_states a b = true <-> (forall x, In x a <-> In x b).
Proof.
  intros a b. unfold same_states. rewrite andb_true_iff, !forallb_forall. unfold inb. split.
  - intros [H1 H2] x. split; intros Hx.
    + specialize (H1 x Hx). apply existsb_exists in H1. destruct H1 as [y [Hy E]]. apply Nat.eqb_eq in E. subst y. exact Hy.
    + specialize (H2 x Hx). apply existsb_exists in H2. destruct H2 as [y [Hy E]]. apply Nat.eqb_eq in E. subst y. exact Hy.
  - intros H. split; intros x Hx; apply existsb_exists; exists x; (split; [apply H; exact Hx|apply Nat.eqb_refl]).
Qed.

Print Assumptions shape_eqb_spec.
Print Assumptions same_states_spec.
