(* The semi-naive invariant of the agenda loop (model/Agenda2.v), instantiated with the
   regenerated [agenda_sel] / [agenda_new]:
     - it holds initially (ainv_init),
     - it is preserved by popping any pending update (ainv_step),
     - hence it holds in every reachable state (ainv_reachable),
     - and when nothing is pending the chart solves the grammar equations (agenda_fixpoint). *)
From Coq Require Import List Arith Bool Lia.
From GV.lib Require Import Semiring BigSum.
From GV.model Require Import Cfg Agenda Agenda2.
From GV.gen Require Import Gen_Exprs.
From GV.proofs Require Import AgendaProofs.
Import ListNotations.
Local Open Scope sr_scope.

Lemma sym_eqb_sym (a b : sym) : sym_eqb a b = sym_eqb b a.
Proof. destruct a as [a|a], b as [b|b]; simpl; try reflexivity; apply Nat.eqb_sym. Qed.

Section Agenda2Proofs.
Variable S : SR.
Add Ring SRing : (sth S).

(* ---------- generic facts ---------- *)

Lemma pend_app (ch1 ch2 : pending S) (x : sym) : pend (ch1 ++ ch2) x = pend ch1 x + pend ch2 x.
Proof. unfold pend. apply bsum_app. Qed.

Lemma sprod_const_zero (body : list sym) : body <> [] -> sprod (map (fun _ : sym => (0 : S)) body) = 0.
Proof. destruct body as [|y t]; intros H; [congruence|]. simpl. ring. Qed.

Lemma term_delta (terminals : list nat) (a : nat) : NoDup terminals ->
  bsum terminals (fun b => if Nat.eqb a b then (1 : S) else 0) = if existsb (Nat.eqb a) terminals then 1 else 0.
Proof.
  induction 1 as [|b t Hn Hd IH]; simpl; [reflexivity|].
  rewrite bsum_cons, IH. destruct (Nat.eqb a b) eqn:E; simpl; [|ring].
  apply Nat.eqb_eq in E. subst b.
  destruct (existsb (Nat.eqb a) t) eqn:E2; [|ring].
  exfalso. apply Hn. apply existsb_exists in E2. destruct E2 as [y [Hy Ey]].
  apply Nat.eqb_eq in Ey. subst y. assumption.
Qed.

(* ---------- 1. the invariant holds initially ---------- *)

Theorem ainv_init : forall (G : grammar S) (terminals : list nat),
  NoDup terminals -> ainv G terminals (ainit G terminals).
Proof.
  intros G terminals Hnd. unfold ainv, ainit. split.
  - intros a. rewrite pend_app.
    assert (H1 : pend (map (fun b : nat => (T b, (1 : S))) terminals) (T a)
                 = if existsb (Nat.eqb a) terminals then 1 else 0).
    { unfold pend. rewrite bsum_map. simpl. apply term_delta; assumption. }
    assert (H2 : pend (flat_map (fun r : rule S => match rbody r with
                                                  | [] => [(N (rhead r), rw r)]
                                                  | _ :: _ => []
                                                  end) G) (T a) = 0).
    { unfold pend. rewrite bsum_flat_map. apply bsum_zero; intros r _.
      destruct (rbody r) as [|y t].
      - rewrite bsum_cons, bsum_nil. simpl. ring.
      - apply bsum_nil. }
    rewrite H1, H2. ring.
  - intros X. rewrite pend_app.
    assert (H1 : pend (map (fun b : nat => (T b, (1 : S))) terminals) (N X) = 0).
    { unfold pend. rewrite bsum_map. simpl. apply bsum_const_zero. }
    assert (H2 : pend (flat_map (fun r : rule S => match rbody r with
                                                  | [] => [(N (rhead r), rw r)]
                                                  | _ :: _ => []
                                                  end) G) (N X)
                 = rhs_val G (fun _ : sym => (0 : S)) X).
    { unfold pend, rhs_val. rewrite bsum_flat_map. apply bsum_ext; intros r _.
      destruct (rbody r) as [|y t] eqn:Eb.
      - rewrite bsum_cons, bsum_nil. simpl. rewrite (Nat.eqb_sym X (rhead r)).
        destruct (Nat.eqb (rhead r) X); ring.
      - rewrite bsum_nil. rewrite sprod_const_zero by discriminate.
        destruct (Nat.eqb (rhead r) X); ring. }
    rewrite H1, H2. ring.
Qed.

(* ---------- 2. the invariant is preserved by a step ---------- *)

Lemma pend_pushes_N (G : grammar S) (old : sym -> S) (u : sym) (v : S) (X : nat) :
  pend (pushes (agenda_sel S) (agenda_new S) G old u v) (N X)
  = bsum G (fun r => if Nat.eqb (rhead r) X
                     then rw r * bsum (occ u (rbody r))
                                      (fun k => factor (agenda_sel S) old u (agenda_new S (old u) v) v (rbody r) k)
                     else 0).
Proof.
  unfold pend, pushes. rewrite bsum_flat_map. apply bsum_ext; intros r _.
  rewrite bsum_map. simpl. rewrite (Nat.eqb_sym X (rhead r)).
  destruct (Nat.eqb (rhead r) X).
  - apply bsum_mul_l.
  - apply bsum_const_zero.
Qed.

Lemma pend_pushes_T (G : grammar S) (old : sym -> S) (u : sym) (v : S) (a : nat) :
  pend (pushes (agenda_sel S) (agenda_new S) G old u v) (T a) = 0.
Proof.
  unfold pend, pushes. rewrite bsum_flat_map. apply bsum_zero; intros r _.
  rewrite bsum_map. simpl. apply bsum_const_zero.
Qed.

Lemma rhs_val_upd (G : grammar S) (old : sym -> S) (u : sym) (v : S) (X : nat) :
  rhs_val G (upd old u (agenda_new S (old u) v)) X
  = rhs_val G old X + pend (pushes (agenda_sel S) (agenda_new S) G old u v) (N X).
Proof.
  rewrite pend_pushes_N. unfold rhs_val. rewrite <- bsum_add.
  apply bsum_ext; intros r _.
  destruct (Nat.eqb (rhead r) X); [|ring].
  pose proof (seminaive_identity S old u v (rbody r)) as Hs. cbv zeta in Hs.
  rewrite Hs. ring.
Qed.

Theorem ainv_step : forall (G : grammar S) (terminals : list nat) (old : sym -> S) (ch : pending S)
    (u : sym) (v : S) (ch' : pending S),
  ainv G terminals (old, ch) -> pops ch u v ch' ->
  ainv G terminals (astep (agenda_sel S) (agenda_new S) G old u v ch').
Proof.
  intros G terminals old ch u v ch' [HT HN] Hp. unfold astep.
  destruct (seqb (old u) (agenda_new S (old u) v)) eqn:E.
  - (* the update does not change the value: dropped *)
    apply seqb_spec in E. unfold agenda_new in E.
    assert (Hx : forall x, old x + pend ch' x = old x + pend ch x).
    { intros x. rewrite (Hp x). destruct (sym_eqb x u) eqn:Ex.
      - apply sym_eqb_eq in Ex. subst x.
        replace (old u + (v + pend ch' u)) with ((old u + v) + pend ch' u) by ring.
        rewrite <- E. reflexivity.
      - ring. }
    unfold ainv. split.
    + intros a. rewrite Hx. apply HT.
    + intros X. rewrite Hx. apply HN.
  - (* the value changes: old[u] := new and the rule updates are pushed *)
    unfold ainv. split.
    + intros a. rewrite pend_app, pend_pushes_T.
      rewrite <- (HT a). rewrite (Hp (T a)). unfold upd.
      rewrite (sym_eqb_sym (T a) u).
      destruct (sym_eqb u (T a)) eqn:Eu.
      * apply sym_eqb_eq in Eu. subst u. unfold agenda_new. ring.
      * ring.
    + intros X. rewrite pend_app, rhs_val_upd.
      rewrite <- (HN X). rewrite (Hp (N X)). unfold upd.
      rewrite (sym_eqb_sym (N X) u).
      destruct (sym_eqb u (N X)) eqn:Eu.
      * apply sym_eqb_eq in Eu. subst u. unfold agenda_new. ring.
      * ring.
Qed.

(* ---------- 3. the invariant holds in every reachable state ---------- *)

Theorem ainv_reachable : forall G terminals st, NoDup terminals ->
  areach (agenda_sel S) (agenda_new S) G terminals st -> ainv G terminals st.
Proof.
  intros G terminals st Hnd Hr. induction Hr as [|old ch u v ch' Hr IH Hp].
  - apply ainv_init; assumption.
  - eapply ainv_step; eassumption.
Qed.

(* ---------- 4. with nothing pending the chart solves the grammar equations ---------- *)

Theorem agenda_fixpoint : forall G terminals old ch, NoDup terminals ->
  areach (agenda_sel S) (agenda_new S) G terminals (old, ch) -> (forall x, pend ch x = 0) ->
  (forall a, old (T a) = if existsb (Nat.eqb a) terminals then 1 else 0) /\
  (forall X, old (N X) = rhs_val G old X).
Proof.
  intros G terminals old ch Hnd Hr Hz.
  destruct (ainv_reachable G terminals (old, ch) Hnd Hr) as [HT HN]. split.
  - intros a. rewrite <- (HT a). rewrite Hz. ring.
  - intros X. rewrite <- (HN X). rewrite Hz. ring.
Qed.

End Agenda2Proofs.

Print Assumptions ainv_init.
Print Assumptions ainv_step.
Print Assumptions ainv_reachable.
Print Assumptions agenda_fixpoint.
