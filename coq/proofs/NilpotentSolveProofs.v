(* Linear systems over an acyclic weighted graph (nilpotent weight matrix):
   the right system  x = b + A x  and the left system  x = b + x A  have exactly
   one solution on the node set, namely the finite sum over all paths
       x i = sum_{m<n} sum_k (A^m) i k * b k        (right)
       x k = sum_{m<n} sum_i b i * (A^m) i k        (left)
   in every commutative semiring.  Whatever a solver returns, once it is known to
   return a solution, is therefore the path sum (and the least solution).
   No axioms. *)
From Coq Require Import List Arith Bool NArith Lia.
From GV.lib Require Import Semiring BigSum.
From GV.model Require Import Linear.
From GV.proofs Require Import LehmannProof ClosureExtra.
Import ListNotations.
Local Open Scope sr_scope.

Section NilpotentSolve.
Variable S : StarSR.
Add Ring SRingNS : (sth S).

Definition nilp (nodes : list nat) (A : nat -> nat -> S) (n : nat) : Prop :=
  forall i k, In i nodes -> In k nodes -> fpow S nodes A n i k = 0.

Definition ftr (A : nat -> nat -> S) : nat -> nat -> S := fun i k => A k i.

(* ---------- powers: multiplication on the right ---------- *)

Lemma fpow_S (nodes : list nat) (A : nat -> nat -> S) m i k :
  fpow S nodes A (Datatypes.S m) i k = bsum nodes (fun j => A i j * fpow S nodes A m j k).
Proof. reflexivity. Qed.

Lemma fpow_succ_r (nodes : list nat) (A : nat -> nat -> S) : NoDup nodes ->
  forall m i k, In i nodes -> In k nodes ->
  fpow S nodes A (Datatypes.S m) i k = bsum nodes (fun j => fpow S nodes A m i j * A j k).
Proof.
  intros Hnd m. induction m as [|m IH]; intros i k Hi Hk.
  - rewrite fpow_S.
    change (fpow S nodes A O) with (@fid S).
    rewrite (bsum_fid S nodes (fun j => A i j) k Hnd Hk).
    rewrite (bsum_fid_l S nodes (fun j => A j k) i Hnd Hi). reflexivity.
  - rewrite fpow_S.
    rewrite (bsum_ext S nodes _
               (fun l => bsum nodes (fun j => A i l * (fpow S nodes A m l j * A j k)))).
    2:{ intros l Hl. rewrite (IH l k Hl Hk). rewrite bsum_mul_l. reflexivity. }
    rewrite bsum_swap. apply bsum_ext; intros j _.
    rewrite fpow_S. rewrite <- bsum_mul_r. apply bsum_ext; intros l _. ring.
Qed.

Lemma fpow_ftr (nodes : list nat) (A : nat -> nat -> S) : NoDup nodes ->
  forall m i k, In i nodes -> In k nodes ->
  fpow S nodes (ftr A) m i k = fpow S nodes A m k i.
Proof.
  intros Hnd m. induction m as [|m IH]; intros i k Hi Hk.
  - simpl. unfold fid. rewrite Nat.eqb_sym. reflexivity.
  - rewrite fpow_S. rewrite (fpow_succ_r nodes A Hnd m k i Hk Hi).
    apply bsum_ext; intros j Hj. rewrite (IH j k Hj Hk). unfold ftr. ring.
Qed.

(* ---------- the right system  x = b + A x ---------- *)

Section Right.
Variables (nodes : list nat) (A : nat -> nat -> S) (b x : nat -> S).
Hypothesis Hnd : NoDup nodes.
Hypothesis Hx : forall i, In i nodes -> x i = b i + bsum nodes (fun k => A i k * x k).

Lemma right_unroll (m : nat) : forall i, In i nodes ->
  x i = bsum (seq O m) (fun t => bsum nodes (fun k => fpow S nodes A t i k * b k))
        + bsum nodes (fun k => fpow S nodes A m i k * x k).
Proof.
  induction m as [|m IH]; intros i Hi.
  - simpl. rewrite bsum_nil.
    rewrite (bsum_fid_l S nodes x i Hnd Hi). ring.
  - rewrite (IH i Hi) at 1.
    rewrite seq_S, bsum_app, bsum_cons, bsum_nil. simpl (O + m)%nat.
    rewrite (bsum_ext S nodes (fun k => fpow S nodes A m i k * x k)
               (fun k => fpow S nodes A m i k * b k
                         + bsum nodes (fun j => fpow S nodes A m i k * A k j * x j))).
    2:{ intros k Hk. rewrite (Hx k Hk) at 1.
        rewrite (bsum_ext S nodes (fun j => fpow S nodes A m i k * A k j * x j)
                   (fun j => fpow S nodes A m i k * (A k j * x j)))
          by (intros; ring).
        rewrite bsum_mul_l. ring. }
    rewrite bsum_add.
    rewrite (bsum_swap S nodes nodes (fun k j => fpow S nodes A m i k * A k j * x j)).
    rewrite (bsum_ext S nodes
               (fun j => bsum nodes (fun k => fpow S nodes A m i k * A k j * x j))
               (fun j => fpow S nodes A (Datatypes.S m) i j * x j)).
    2:{ intros j Hj. rewrite (fpow_succ_r nodes A Hnd m i j Hi Hj).
        rewrite bsum_mul_r. reflexivity. }
    ring.
Qed.

End Right.

Theorem right_solution_is_path_sum : forall nodes A n b x, NoDup nodes -> nilp nodes A n ->
  (forall i, In i nodes -> x i = b i + bsum nodes (fun k => A i k * x k)) ->
  forall i, In i nodes ->
    x i = bsum (seq 0 n) (fun m => bsum nodes (fun k => fpow S nodes A m i k * b k)).
Proof.
  intros nodes A n b x Hnd Hnil Hx i Hi.
  rewrite (right_unroll nodes A b x Hnd Hx n i Hi).
  rewrite (bsum_zero S nodes (fun k => fpow S nodes A n i k * x k)).
  - ring.
  - intros k Hk. rewrite (Hnil i k Hi Hk). ring.
Qed.

(* ---------- the left system  x = b + x A  (by transposition) ---------- *)

Lemma nilp_ftr nodes A n : NoDup nodes -> nilp nodes A n -> nilp nodes (ftr A) n.
Proof.
  intros Hnd Hnil i k Hi Hk. rewrite (fpow_ftr nodes A Hnd n i k Hi Hk).
  apply Hnil; assumption.
Qed.

Theorem left_solution_is_path_sum : forall nodes A n b x, NoDup nodes -> nilp nodes A n ->
  (forall k, In k nodes -> x k = b k + bsum nodes (fun i => x i * A i k)) ->
  forall k, In k nodes ->
    x k = bsum (seq 0 n) (fun m => bsum nodes (fun i => b i * fpow S nodes A m i k)).
Proof.
  intros nodes A n b x Hnd Hnil Hx k Hk.
  rewrite (right_solution_is_path_sum nodes (ftr A) n b x Hnd (nilp_ftr nodes A n Hnd Hnil)).
  - apply bsum_ext; intros m _. apply bsum_ext; intros i Hi.
    rewrite (fpow_ftr nodes A Hnd m k i Hk Hi). ring.
  - intros i Hi. rewrite (Hx i Hi) at 1. f_equal.
    apply bsum_ext; intros j _. unfold ftr. ring.
  - exact Hk.
Qed.

(* ---------- uniqueness ---------- *)

Corollary right_solution_unique : forall nodes A n b x x', NoDup nodes -> nilp nodes A n ->
  (forall i, In i nodes -> x i = b i + bsum nodes (fun k => A i k * x k)) ->
  (forall i, In i nodes -> x' i = b i + bsum nodes (fun k => A i k * x' k)) ->
  forall i, In i nodes -> x i = x' i.
Proof.
  intros nodes A n b x x' Hnd Hnil Hx Hx' i Hi.
  rewrite (right_solution_is_path_sum nodes A n b x Hnd Hnil Hx i Hi).
  rewrite (right_solution_is_path_sum nodes A n b x' Hnd Hnil Hx' i Hi).
  reflexivity.
Qed.

Corollary left_solution_unique : forall nodes A n b x x', NoDup nodes -> nilp nodes A n ->
  (forall k, In k nodes -> x k = b k + bsum nodes (fun i => x i * A i k)) ->
  (forall k, In k nodes -> x' k = b k + bsum nodes (fun i => x' i * A i k)) ->
  forall k, In k nodes -> x k = x' k.
Proof.
  intros nodes A n b x x' Hnd Hnil Hx Hx' k Hk.
  rewrite (left_solution_is_path_sum nodes A n b x Hnd Hnil Hx k Hk).
  rewrite (left_solution_is_path_sum nodes A n b x' Hnd Hnil Hx' k Hk).
  reflexivity.
Qed.

(* ---------- the same, for a weight matrix given as a table ---------- *)

Corollary right_solution_is_path_sum_mat : forall nodes (M : mat S) n b x,
  NoDup nodes -> nilp nodes (mget M) n ->
  (forall i, In i nodes -> x i = b i + bsum nodes (fun k => mget M i k * x k)) ->
  forall i, In i nodes ->
    x i = bsum (seq 0 n) (fun m => bsum nodes (fun k => fpow S nodes (mget M) m i k * b k)).
Proof. intros nodes M. apply right_solution_is_path_sum. Qed.

Corollary left_solution_is_path_sum_mat : forall nodes (M : mat S) n b x,
  NoDup nodes -> nilp nodes (mget M) n ->
  (forall k, In k nodes -> x k = b k + bsum nodes (fun i => x i * mget M i k)) ->
  forall k, In k nodes ->
    x k = bsum (seq 0 n) (fun m => bsum nodes (fun i => b i * fpow S nodes (mget M) m i k)).
Proof. intros nodes M. apply left_solution_is_path_sum. Qed.

End NilpotentSolve.

Print Assumptions right_solution_is_path_sum.
Print Assumptions left_solution_is_path_sum.
Print Assumptions right_solution_unique.
Print Assumptions left_solution_unique.
Print Assumptions right_solution_is_path_sum_mat.
Print Assumptions left_solution_is_path_sum_mat.

(* ---------- a concrete instance over the natural numbers ---------- *)

Section Example.

Definition NStarX : StarSR := TrivStar NSR.

Definition exN : list nat := [0; 1; 2]%nat.
Definition exA (i k : nat) : NStarX :=
  match i, k with
  | 0%nat, 1%nat => 2%N
  | 1%nat, 2%nat => 3%N
  | 0%nat, 2%nat => 4%N
  | _, _ => 0%N
  end.
Definition exb (i : nat) : NStarX := match i with 2%nat => 1%N | _ => 0%N end.
Definition exx (i : nat) : NStarX :=
  match i with 0%nat => 10%N | 1%nat => 3%N | 2%nat => 1%N | _ => 0%N end.

Example ex_nodup : NoDup exN.
Proof.
  unfold exN. repeat constructor; simpl; intuition discriminate.
Qed.

Example ex_right_system : forall i, In i exN ->
  exx i = sadd (exb i) (bsum exN (fun k => smul (exA i k) (exx k))).
Proof.
  intros i Hi. simpl in Hi.
  destruct Hi as [E|[E|[E|[]]]]; subst i; vm_compute; reflexivity.
Qed.

Example ex_nilp : nilp NStarX exN exA 3.
Proof.
  intros i k Hi Hk. simpl in Hi, Hk.
  destruct Hi as [E|[E|[E|[]]]]; subst i;
  destruct Hk as [E|[E|[E|[]]]]; subst k; vm_compute; reflexivity.
Qed.

Example ex_path_sum_value :
  bsum (seq 0 3) (fun m => bsum exN (fun k => smul (fpow NStarX exN exA m 0%nat k) (exb k))) = 10%N.
Proof. vm_compute. reflexivity. Qed.

(* the theorem applied: the solution at node 0 is the path sum, 2*3 + 4 = 10 *)
Example ex_solution_is_path_sum :
  exx 0%nat = bsum (seq 0 3) (fun m => bsum exN (fun k => smul (fpow NStarX exN exA m 0%nat k) (exb k))).
Proof.
  apply (right_solution_is_path_sum NStarX exN exA 3 exb exx ex_nodup ex_nilp ex_right_system).
  simpl; auto.
Qed.

(* A^2 is not zero: the bound 3 is not slack for this graph *)
Example ex_not_nilp2 : fpow NStarX exN exA 2 0%nat 2%nat = 6%N.
Proof. vm_compute. reflexivity. Qed.

End Example.

Print Assumptions ex_solution_is_path_sum.
