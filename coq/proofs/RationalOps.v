(* Rational operations on weighted automata: concatenation, one, zero, lift,
   Kleene plus.  Epsilon-aware fuel-bounded path sums of the constructed machines
   against the declarative sums of the operands.  No axioms. *)
From Coq Require Import List Arith Bool Lia.
From GV.lib Require Import Semiring BigSum.
From GV.model Require Import Cfg Wfsa WfsaEps.
From GV.proofs Require Import WfsaProofs.
Import ListNotations.
Local Open Scope sr_scope.

Section RationalOps.
Variable S : SR.
Add Ring SRing : (sth S).

(* ------------------------------------------------------------------ *)
(* generic helpers                                                      *)

Lemma ro_pwe_S (m : wfsa S) f q xs :
  pwe m (Datatypes.S f) q xs
  = (match xs with [] => wget (wfinal m) q | _ => 0 end) +
    bsum (warcs m) (fun ar =>
      if Nat.eqb (asrc ar) q then
        match albl ar with
        | None => awt ar * pwe m f (adst ar) xs
        | Some a => match xs with
                    | b :: t => if Nat.eqb a b then awt ar * pwe m f (adst ar) t else 0
                    | [] => 0
                    end
        end
      else 0).
Proof. reflexivity. Qed.

Lemma ro_pwe_O (m : wfsa S) q xs :
  pwe m O q xs = (match xs with [] => wget (wfinal m) q | _ => 0 end) + 0.
Proof. reflexivity. Qed.

Lemma ro_asrc (s : nat) l (d : nat) (w : S) : asrc (s, l, d, w) = s. Proof. reflexivity. Qed.
Lemma ro_albl (s : nat) l (d : nat) (w : S) : albl (s, l, d, w) = l. Proof. reflexivity. Qed.
Lemma ro_adst (s : nat) l (d : nat) (w : S) : adst (s, l, d, w) = d. Proof. reflexivity. Qed.
Lemma ro_awt (s : nat) l (d : nat) (w : S) : awt (s, l, d, w) = w. Proof. reflexivity. Qed.

Lemma ro_wget_rename (f : nat -> nat) (Hf : forall p q, f p = f q -> p = q) (v : wvec S) q :
  wget (map (fun e => (f (fst e), snd e)) v) (f q) = wget v q.
Proof.
  unfold wget. rewrite bsum_map. apply bsum_ext; intros e _. cbn [fst snd].
  rewrite (eqb_inj f Hf). reflexivity.
Qed.

Lemma ro_wget_other (f g : nat -> nat) (Hfg : forall p q, Nat.eqb (g q) (f p) = false) (v : wvec S) q :
  wget (map (fun e => (f (fst e), snd e)) v) (g q) = 0.
Proof.
  unfold wget. rewrite bsum_map. apply bsum_zero; intros e _. cbn [fst snd].
  rewrite Hfg. reflexivity.
Qed.

Lemma ro_wget_mul (v : wvec S) q (c : S) :
  bsum v (fun e => if Nat.eqb (fst e) q then snd e * c else 0) = wget v q * c.
Proof.
  unfold wget. rewrite <- bsum_mul_r. apply bsum_ext; intros e _.
  rewrite (Nat.eqb_sym q (fst e)). destruct (Nat.eqb (fst e) q); ring.
Qed.

Lemma ro_splits_length {A} : forall (l : list A) p,
  In p (splits l) -> (length (fst p) + length (snd p))%nat = length l.
Proof.
  induction l as [|x t IH]; intros p Hp; simpl in Hp.
  - destruct Hp as [<-|[]]. reflexivity.
  - destruct Hp as [<-|Hp]; [reflexivity|].
    apply in_map_iff in Hp. destruct Hp as [r [<- Hr]]. cbn [fst snd length].
    rewrite <- (IH r Hr). reflexivity.
Qed.

(* convolution of the path sums of [a] from a state with an arbitrary function
   of the remaining suffix: one step *)
Lemma ro_conv_step (a : wfsa S) (g : list nat -> S) q x t :
  bsum (splits (x :: t)) (fun p => pw a q (fst p) * g (snd p))
  = wget (wfinal a) q * g (x :: t) +
    bsum (warcs a) (fun ar =>
      if Nat.eqb (asrc ar) q && lbl_eqb (albl ar) x
      then awt ar * bsum (splits t) (fun p => pw a (adst ar) (fst p) * g (snd p)) else 0).
Proof.
  cbn [splits]. rewrite bsum_cons, bsum_map. cbn [fst snd]. f_equal.
  transitivity (bsum (splits t) (fun p => bsum (warcs a) (fun ar =>
      if Nat.eqb (asrc ar) q && lbl_eqb (albl ar) x
      then awt ar * (pw a (adst ar) (fst p) * g (snd p)) else 0))).
  - apply bsum_ext; intros p _. cbn [pw]. rewrite <- bsum_mul_r.
    apply bsum_ext; intros ar _.
    destruct (Nat.eqb (asrc ar) q && lbl_eqb (albl ar) x); ring.
  - rewrite bsum_swap. apply bsum_ext; intros ar _.
    destruct (Nat.eqb (asrc ar) q && lbl_eqb (albl ar) x).
    + rewrite bsum_mul_l. reflexivity.
    + apply bsum_zero; reflexivity.
Qed.

Lemma ro_conv_nil (a : wfsa S) (g : list nat -> S) q :
  bsum (splits []) (fun p => pw a q (fst p) * g (snd p)) = wget (wfinal a) q * g [].
Proof. cbn [splits]. rewrite bsum_cons, bsum_nil. cbn [fst snd pw]. ring. Qed.

Lemma ro_conv_init (a : wfsa S) (g : list nat -> S) v :
  bsum (winit a) (fun i => snd i * bsum (splits v) (fun p => pw a (fst i) (fst p) * g (snd p)))
  = bsum (splits v) (fun p => pathsum a (fst p) * g (snd p)).
Proof.
  transitivity (bsum (winit a) (fun i => bsum (splits v) (fun p =>
      snd i * pw a (fst i) (fst p) * g (snd p)))).
  - apply bsum_ext; intros i _. rewrite <- bsum_mul_l. apply bsum_ext; intros p _. ring.
  - rewrite bsum_swap. apply bsum_ext; intros p _. unfold pathsum.
    rewrite <- bsum_mul_r. reflexivity.
Qed.

(* ------------------------------------------------------------------ *)
(* 1. concatenation                                                     *)

Lemma concat_arcs_sum (a b : wfsa S) (F : arc S -> S) :
  bsum (warcs (wconcat a b)) F
  = bsum (warcs a) (fun ar => F (tagL (asrc ar), albl ar, tagL (adst ar), awt ar)) +
    (bsum (warcs b) (fun ar => F (tagR (asrc ar), albl ar, tagR (adst ar), awt ar)) +
     bsum (wfinal a) (fun f => bsum (winit b) (fun i =>
        F (tagL (fst f), None, tagR (fst i), snd f * snd i)))).
Proof.
  unfold wconcat, rename; cbn [warcs winit wfinal].
  rewrite !bsum_app, !bsum_map, bsum_flat_map, bsum_map.
  f_equal. f_equal. apply bsum_ext; intros f _. rewrite !bsum_map. cbn [fst snd]. reflexivity.
Qed.

Lemma concat_final_R (a b : wfsa S) q : wget (wfinal (wconcat a b)) (tagR q) = wget (wfinal b) q.
Proof.
  unfold wconcat, rename; cbn [wfinal]. apply (ro_wget_rename tagR tagR_inj).
Qed.

Lemma concat_final_L (a b : wfsa S) q : wget (wfinal (wconcat a b)) (tagL q) = 0.
Proof.
  unfold wconcat, rename; cbn [wfinal]. apply (ro_wget_other tagR tagL).
  intros p r. apply tagL_tagR.
Qed.

Lemma concat_R (a b : wfsa S) (Hb : forall ar, In ar (warcs b) -> albl ar <> None) (xs : list nat) :
  forall fuel q, length xs <= fuel -> pwe (wconcat a b) fuel (tagR q) xs = pw b q xs.
Proof.
  induction xs as [|x t IH]; intros fuel q Hlen.
  - destruct fuel as [|f].
    + rewrite ro_pwe_O, concat_final_R. cbn [pw]. ring.
    + rewrite ro_pwe_S, concat_final_R, concat_arcs_sum. cbn [pw].
      rewrite (bsum_zero _ (warcs a)), (bsum_zero _ (warcs b)), (bsum_zero _ (wfinal a)); [ring| | |].
      * intros fe _. apply bsum_zero; intros i _. rewrite ro_asrc, tagL_tagR. reflexivity.
      * intros ar Har. rewrite ro_asrc, ro_albl.
        destruct (Nat.eqb (tagR (asrc ar)) (tagR q)); [|reflexivity].
        destruct (albl ar) eqn:E; [reflexivity|]. exfalso; exact (Hb ar Har E).
      * intros ar _. rewrite ro_asrc, tagL_tagR. reflexivity.
  - destruct fuel as [|f]; [cbn [length] in Hlen; lia|].
    cbn [length] in Hlen. assert (Hlen' : length t <= f) by lia.
    rewrite ro_pwe_S, concat_arcs_sum. cbn [pw].
    rewrite (bsum_zero _ (warcs a)), (bsum_zero _ (wfinal a)).
    + match goal with |- 0 + (0 + (?l + 0)) = ?r => transitivity l; [ring|] end.
      apply bsum_ext; intros ar Har. rewrite ro_asrc, ro_albl, !ro_adst, !ro_awt.
      rewrite (eqb_inj tagR tagR_inj).
      destruct (Nat.eqb (asrc ar) q); cbn [andb]; [|reflexivity].
      destruct (albl ar) as [c|] eqn:E; [|exfalso; exact (Hb ar Har E)].
      cbn [lbl_eqb]. rewrite (Nat.eqb_sym x c).
      destruct (Nat.eqb c x); [|reflexivity].
      rewrite (IH f (adst ar) Hlen'). reflexivity.
    + intros fe _. apply bsum_zero; intros i _. rewrite ro_asrc, tagL_tagR. reflexivity.
    + intros ar _. rewrite ro_asrc, tagL_tagR. reflexivity.
Qed.

Lemma concat_step_L (a b : wfsa S)
      (Ha : forall ar, In ar (warcs a) -> albl ar <> None)
      (Hb : forall ar, In ar (warcs b) -> albl ar <> None) f q xs :
  length xs <= f ->
  pwe (wconcat a b) (Datatypes.S f) (tagL q) xs
  = bsum (warcs a) (fun ar =>
      if Nat.eqb (asrc ar) q then
        match xs with
        | y :: t => if lbl_eqb (albl ar) y then awt ar * pwe (wconcat a b) f (tagL (adst ar)) t else 0
        | [] => 0
        end
      else 0) +
    wget (wfinal a) q * pathsum b xs.
Proof.
  intros Hlen. rewrite ro_pwe_S, concat_final_L, concat_arcs_sum.
  rewrite (bsum_zero _ (warcs b)).
  2:{ intros ar _. rewrite ro_asrc, tagR_tagL. reflexivity. }
  match goal with |- ?M + _ = _ => replace M with (0 : S) by (destruct xs; reflexivity) end.
  match goal with |- 0 + (?A + (0 + ?L)) = ?A' + ?L' =>
    assert (HA : A = A'); [|assert (HL : L = L'); [|rewrite HA, HL; ring]] end.
  - apply bsum_ext; intros ar Har.
    rewrite ro_asrc, ro_albl, !ro_adst, !ro_awt, (eqb_inj tagL tagL_inj).
    destruct (Nat.eqb (asrc ar) q); [|reflexivity].
    destruct (albl ar) as [c|] eqn:E; [|exfalso; exact (Ha ar Har E)].
    destruct xs as [|y t]; [reflexivity|]. cbn [lbl_eqb]. rewrite (Nat.eqb_sym y c). reflexivity.
  - transitivity (bsum (wfinal a) (fun fe => if Nat.eqb (fst fe) q then snd fe * pathsum b xs else 0));
      [|apply ro_wget_mul].
    apply bsum_ext; intros fe _.
    transitivity (bsum (winit b) (fun i =>
        if Nat.eqb (fst fe) q then snd fe * (snd i * pw b (fst i) xs) else 0)).
    + apply bsum_ext; intros i _.
      rewrite ro_asrc, ro_albl, ro_awt, ro_adst, (eqb_inj tagL tagL_inj).
      destruct (Nat.eqb (fst fe) q); [|reflexivity].
      rewrite (concat_R a b Hb xs f (fst i) Hlen). ring.
    + destruct (Nat.eqb (fst fe) q).
      * unfold pathsum. rewrite <- bsum_mul_l. reflexivity.
      * apply bsum_zero; reflexivity.
Qed.

Lemma concat_L (a b : wfsa S)
      (Ha : forall ar, In ar (warcs a) -> albl ar <> None)
      (Hb : forall ar, In ar (warcs b) -> albl ar <> None) (xs : list nat) :
  forall fuel q, length xs < fuel ->
  pwe (wconcat a b) fuel (tagL q) xs
  = bsum (splits xs) (fun p => pw a q (fst p) * pathsum b (snd p)).
Proof.
  induction xs as [|x t IH]; intros fuel q Hlen;
    (destruct fuel as [|f]; [cbn [length] in Hlen; lia|]); cbn [length] in Hlen.
  - rewrite (concat_step_L a b Ha Hb) by (cbn [length]; lia). rewrite ro_conv_nil.
    rewrite bsum_zero; [ring|]. intros ar _. destruct (Nat.eqb (asrc ar) q); reflexivity.
  - rewrite (concat_step_L a b Ha Hb) by (cbn [length]; lia). rewrite ro_conv_step.
    match goal with |- ?A + ?B = ?B + ?A' => assert (HA : A = A'); [|rewrite HA; ring] end.
    apply bsum_ext; intros ar _.
    destruct (Nat.eqb (asrc ar) q), (lbl_eqb (albl ar) x); cbn [andb]; try reflexivity.
    rewrite (IH f (adst ar)) by lia. reflexivity.
Qed.

Theorem concat_pathsum : forall (a b : wfsa S) (xs : list nat) (fuel : nat),
  (forall ar, In ar (warcs a) -> albl ar <> None) ->
  (forall ar, In ar (warcs b) -> albl ar <> None) ->
  length xs < fuel ->
  pathsum_e (wconcat a b) fuel xs
  = bsum (splits xs) (fun p => pathsum a (fst p) * pathsum b (snd p)).
Proof.
  intros a b xs fuel Ha Hb Hlen. rewrite <- ro_conv_init.
  unfold pathsum_e. unfold wconcat at 1, rename; cbn [winit]. rewrite bsum_map.
  apply bsum_ext; intros i _. cbn [fst snd].
  rewrite (concat_L a b Ha Hb xs fuel (fst i) Hlen). reflexivity.
Qed.

(* ------------------------------------------------------------------ *)
(* 2. one, zero, lift                                                   *)

Theorem one_pathsum : forall xs fuel, 1 <= fuel ->
  pathsum_e (wone (S:=S)) fuel xs = match xs with [] => 1 | _ => 0 end.
Proof.
  intros xs fuel Hf. destruct fuel as [|f]; [lia|].
  unfold pathsum_e, wone, wlift; cbn [winit]. rewrite bsum_cons, bsum_nil. cbn [fst snd].
  rewrite ro_pwe_S; cbn [wfinal warcs]. rewrite bsum_cons, bsum_nil.
  rewrite ro_asrc, ro_albl, ro_awt, ro_adst. cbn [Nat.eqb].
  unfold wget at 1. rewrite bsum_cons, bsum_nil. cbn [fst snd Nat.eqb].
  destruct f as [|f'].
  - rewrite ro_pwe_O; cbn [wfinal]. unfold wget. rewrite bsum_cons, bsum_nil. cbn [fst snd Nat.eqb].
    destruct xs; ring.
  - rewrite ro_pwe_S; cbn [wfinal warcs]. rewrite bsum_cons, bsum_nil.
    rewrite ro_asrc. cbn [Nat.eqb].
    unfold wget. rewrite bsum_cons, bsum_nil. cbn [fst snd Nat.eqb].
    destruct xs; ring.
Qed.

Theorem zero_weight : forall xs, weight (wzero (S:=S)) xs = 0.
Proof. intros xs. reflexivity. Qed.

Theorem lift_weight : forall (x : nat) (w : S) xs,
  weight (wlift (Some x) w) xs
  = match xs with [y] => if Nat.eqb x y then w else 0 | _ => 0 end.
Proof.
  intros x w xs. rewrite forward_pathsum.
  unfold pathsum, wlift; cbn [winit]. rewrite bsum_cons, bsum_nil. cbn [fst snd].
  destruct xs as [|y t].
  - cbn [pw wfinal]. unfold wget. rewrite bsum_cons, bsum_nil. cbn [fst snd Nat.eqb]. ring.
  - cbn [pw warcs]. rewrite bsum_cons, bsum_nil.
    rewrite ro_asrc, ro_albl, ro_awt, ro_adst. cbn [Nat.eqb andb lbl_eqb].
    rewrite (Nat.eqb_sym y x).
    destruct t as [|z t'].
    + cbn [pw wfinal]. unfold wget. rewrite bsum_cons, bsum_nil. cbn [fst snd Nat.eqb].
      destruct (Nat.eqb x y); ring.
    + cbn [pw warcs]. rewrite bsum_cons, bsum_nil. rewrite ro_asrc. cbn [Nat.eqb andb].
      destruct (Nat.eqb x y); ring.
Qed.

(* ------------------------------------------------------------------ *)
(* 3. Kleene plus                                                       *)

Fixpoint kplus (a : wfsa S) (n : nat) (xs : list nat) : S :=
  pathsum a xs +
  match n with
  | O => 0
  | Datatypes.S n' => bsum (splits xs) (fun p => match fst p, snd p with
                                                | _ :: _, _ :: _ => pathsum a (fst p) * kplus a n' (snd p)
                                                | _, _ => 0 end)
  end.

Lemma kplus_stable (a : wfsa S) : forall n m v,
  length v <= n -> length v <= m -> kplus a n v = kplus a m v.
Proof.
  induction n as [|n IH]; intros m v Hn Hm.
  - destruct v as [|y v]; [|cbn [length] in Hn; lia].
    destruct m as [|m]; cbn [kplus]; [reflexivity|].
    cbn [splits]. rewrite bsum_cons, bsum_nil. cbn [fst snd]. ring.
  - destruct m as [|m].
    + destruct v as [|y v]; [|cbn [length] in Hm; lia].
      cbn [kplus splits]. rewrite bsum_cons, bsum_nil. cbn [fst snd]. ring.
    + cbn [kplus]. f_equal. apply bsum_ext; intros p Hp.
      pose proof (ro_splits_length v p Hp) as Hl.
      destruct (fst p) as [|u1 u] eqn:E1; [reflexivity|].
      destruct (snd p) as [|v1 v'] eqn:E2; [reflexivity|].
      f_equal. cbn [length] in Hl. apply IH; cbn [length]; lia.
Qed.

Definition KP (a : wfsa S) (v : list nat) : S := kplus a (length v) v.
Definition KP' (a : wfsa S) (v : list nat) : S := match v with [] => 0 | _ => KP a v end.
(* value of the plus machine from state q *)
Definition GP (a : wfsa S) (q : nat) (xs : list nat) : S :=
  pw a q xs + bsum (splits xs) (fun p => pw a q (fst p) * KP' a (snd p)).

Lemma KP_unfold (a : wfsa S) v :
  KP a v = pathsum a v +
           bsum (splits v) (fun p => match fst p, snd p with
                                     | _ :: _, _ :: _ => pathsum a (fst p) * KP a (snd p)
                                     | _, _ => 0 end).
Proof.
  destruct v as [|x t].
  - unfold KP. cbn [length kplus splits]. rewrite bsum_cons, bsum_nil. cbn [fst snd]. ring.
  - unfold KP at 1. cbn [length kplus]. f_equal. apply bsum_ext; intros p Hp.
    pose proof (ro_splits_length (x :: t) p Hp) as Hl.
    destruct (fst p) as [|u1 u] eqn:E1; [reflexivity|].
    destruct (snd p) as [|v1 v'] eqn:E2; [reflexivity|].
    f_equal. unfold KP. cbn [length] in Hl. apply kplus_stable; cbn [length]; lia.
Qed.

Lemma plus_arcs_sum (a : wfsa S) (F : arc S -> S) :
  bsum (warcs (wplus a)) F
  = bsum (warcs a) F +
    bsum (wfinal a) (fun f => bsum (winit a) (fun i => F (fst f, None, fst i, snd f * snd i))).
Proof.
  unfold wplus; cbn [warcs]. rewrite bsum_app, bsum_flat_map. f_equal.
  apply bsum_ext; intros f _. rewrite bsum_map. reflexivity.
Qed.

(* one-step unfolding of the plus machine at a state q *)
Lemma plus_step (a : wfsa S) (Ha : forall ar, In ar (warcs a) -> albl ar <> None) f q xs :
  pwe (wplus a) (Datatypes.S f) q xs
  = (match xs with [] => wget (wfinal a) q | _ => 0 end) +
    bsum (warcs a) (fun ar =>
      if Nat.eqb (asrc ar) q then
        match xs with
        | y :: t => if lbl_eqb (albl ar) y then awt ar * pwe (wplus a) f (adst ar) t else 0
        | [] => 0
        end
      else 0) +
    wget (wfinal a) q * pathsum_e (wplus a) f xs.
Proof.
  rewrite ro_pwe_S, plus_arcs_sum. change (wfinal (wplus a)) with (wfinal a).
  match goal with |- ?M + (?A + ?L) = ?M + ?A' + ?L' =>
    assert (HA : A = A'); [|assert (HL : L = L'); [|rewrite HA, HL; ring]] end.
  - apply bsum_ext; intros ar Har.
    destruct (Nat.eqb (asrc ar) q); [|reflexivity].
    destruct (albl ar) as [c|] eqn:E; [|exfalso; exact (Ha ar Har E)].
    destruct xs as [|y t]; [reflexivity|]. cbn [lbl_eqb]. rewrite (Nat.eqb_sym y c). reflexivity.
  - transitivity (bsum (wfinal a) (fun fe =>
        if Nat.eqb (fst fe) q then snd fe * pathsum_e (wplus a) f xs else 0));
      [|apply ro_wget_mul].
    apply bsum_ext; intros fe _.
    transitivity (bsum (winit a) (fun i =>
        if Nat.eqb (fst fe) q then snd fe * (snd i * pwe (wplus a) f (fst i) xs) else 0)).
    + apply bsum_ext; intros i _.
      rewrite ro_asrc, ro_albl, ro_awt, ro_adst.
      destruct (Nat.eqb (fst fe) q); [|reflexivity]. ring.
    + destruct (Nat.eqb (fst fe) q).
      * unfold pathsum_e. change (winit (wplus a)) with (winit a).
        rewrite <- bsum_mul_l. reflexivity.
      * apply bsum_zero; reflexivity.
Qed.

Lemma GP_nil (a : wfsa S) q : GP a q [] = wget (wfinal a) q.
Proof. unfold GP. rewrite ro_conv_nil. cbn [pw KP']. ring. Qed.

Lemma GP_cons (a : wfsa S) q x t :
  GP a q (x :: t)
  = bsum (warcs a) (fun ar =>
      if Nat.eqb (asrc ar) q && lbl_eqb (albl ar) x then awt ar * GP a (adst ar) t else 0) +
    wget (wfinal a) q * KP a (x :: t).
Proof.
  unfold GP at 1. rewrite ro_conv_step. change (KP' a (x :: t)) with (KP a (x :: t)).
  cbn [pw].
  transitivity (bsum (warcs a) (fun ar =>
      (if Nat.eqb (asrc ar) q && lbl_eqb (albl ar) x then awt ar * pw a (adst ar) t else 0) +
      (if Nat.eqb (asrc ar) q && lbl_eqb (albl ar) x
       then awt ar * bsum (splits t) (fun p => pw a (adst ar) (fst p) * KP' a (snd p)) else 0))
    + wget (wfinal a) q * KP a (x :: t)).
  - rewrite bsum_add. ring.
  - f_equal. apply bsum_ext; intros ar _. unfold GP.
    destruct (Nat.eqb (asrc ar) q && lbl_eqb (albl ar) x); ring.
Qed.

Section PlusHyp.
Variable a : wfsa S.
Hypothesis Ha : forall ar, In ar (warcs a) -> albl ar <> None.
Hypothesis Hif : forall i f, In i (winit a) -> In f (wfinal a) -> fst i <> fst f.

Lemma init_not_final i : In i (winit a) -> wget (wfinal a) (fst i) = 0.
Proof.
  intros Hi. unfold wget. apply bsum_zero; intros fe Hfe.
  destruct (Nat.eqb (fst i) (fst fe)) eqn:E; [|reflexivity].
  apply Nat.eqb_eq in E. exfalso; exact (Hif i fe Hi Hfe E).
Qed.

Lemma pathsum_nil_zero : pathsum a [] = 0.
Proof.
  unfold pathsum. apply bsum_zero; intros i Hi. cbn [pw]. rewrite (init_not_final i Hi). ring.
Qed.

Lemma KP_init v : bsum (winit a) (fun i => snd i * GP a (fst i) v) = KP a v.
Proof.
  unfold GP.
  transitivity (bsum (winit a) (fun i => snd i * pw a (fst i) v) +
                bsum (winit a) (fun i => snd i *
                   bsum (splits v) (fun p => pw a (fst i) (fst p) * KP' a (snd p)))).
  - rewrite <- bsum_add. apply bsum_ext; intros i _. ring.
  - rewrite ro_conv_init, KP_unfold.
    change (bsum (winit a) (fun i => snd i * pw a (fst i) v)) with (pathsum a v). f_equal.
    apply bsum_ext; intros p _.
    destruct (fst p) as [|u1 u] eqn:E1.
    + rewrite pathsum_nil_zero. ring.
    + destruct (snd p) as [|v1 v'] eqn:E2; cbn [KP']; [ring|reflexivity].
Qed.

Lemma plus_main : forall xs,
  (forall fuel q, 2 * length xs <= fuel -> pwe (wplus a) fuel q xs = GP a q xs) /\
  (forall fuel i, In i (winit a) -> 2 * length xs <= fuel + 1 ->
                  pwe (wplus a) fuel (fst i) xs = GP a (fst i) xs).
Proof.
  induction xs as [|x t [IH1 IH2]].
  - assert (P2 : forall fuel i, In i (winit a) -> pwe (wplus a) fuel (fst i) [] = GP a (fst i) []).
    { intros fuel i Hi. rewrite GP_nil. destruct fuel as [|f].
      - rewrite ro_pwe_O. change (wfinal (wplus a)) with (wfinal a). ring.
      - rewrite (plus_step a Ha), (init_not_final i Hi).
        rewrite bsum_zero; [ring|]. intros ar _. destruct (Nat.eqb (asrc ar) (fst i)); reflexivity. }
    split; [|intros fuel i Hi _; apply P2, Hi].
    intros fuel q _. rewrite GP_nil. destruct fuel as [|f].
    + rewrite ro_pwe_O. change (wfinal (wplus a)) with (wfinal a). ring.
    + rewrite (plus_step a Ha).
      rewrite (bsum_zero _ (warcs a)).
      2:{ intros ar _. destruct (Nat.eqb (asrc ar) q); reflexivity. }
      assert (H0 : pathsum_e (wplus a) f [] = 0).
      { unfold pathsum_e. change (winit (wplus a)) with (winit a).
        apply bsum_zero; intros i Hi. rewrite (P2 f i Hi), GP_nil, (init_not_final i Hi). ring. }
      rewrite H0. ring.
  - assert (P2 : forall fuel i, In i (winit a) -> 2 * length (x :: t) <= fuel + 1 ->
                   pwe (wplus a) fuel (fst i) (x :: t) = GP a (fst i) (x :: t)).
    { intros fuel i Hi Hlen. cbn [length] in Hlen. destruct fuel as [|f]; [lia|].
      rewrite (plus_step a Ha), GP_cons, (init_not_final i Hi). cbv beta iota.
      match goal with |- 0 + ?A + 0 * _ = ?A' + 0 * _ => assert (HA : A = A'); [|rewrite HA; ring] end.
      apply bsum_ext; intros ar _.
      destruct (Nat.eqb (asrc ar) (fst i)), (lbl_eqb (albl ar) x); cbn [andb]; try reflexivity.
      rewrite (IH1 f (adst ar)) by lia. reflexivity. }
    split; [|exact P2].
    intros fuel q Hlen. cbn [length] in Hlen. destruct fuel as [|f]; [lia|].
    rewrite (plus_step a Ha), GP_cons. cbv beta iota.
    assert (HK : pathsum_e (wplus a) f (x :: t) = KP a (x :: t)).
    { rewrite <- KP_init. unfold pathsum_e. change (winit (wplus a)) with (winit a).
      apply bsum_ext; intros i Hi. rewrite (P2 f i Hi) by (cbn [length]; lia). reflexivity. }
    rewrite HK.
    match goal with |- 0 + ?A + ?L = ?A' + ?L => assert (HA : A = A'); [|rewrite HA; ring] end.
    apply bsum_ext; intros ar _.
    destruct (Nat.eqb (asrc ar) q), (lbl_eqb (albl ar) x); cbn [andb]; try reflexivity.
    rewrite (IH1 f (adst ar)) by lia. reflexivity.
Qed.

End PlusHyp.

Theorem plus_unfold : forall (a : wfsa S) (xs : list nat),
  (forall ar, In ar (warcs a) -> albl ar <> None) ->
  (forall i f, In i (winit a) -> In f (wfinal a) -> fst i <> fst f) ->
  forall fuel, 2 * length xs < fuel ->
  pathsum_e (wplus a) fuel xs = kplus a (length xs) xs.
Proof.
  intros a xs Ha Hif fuel Hlen.
  change (kplus a (length xs) xs) with (KP a xs). rewrite <- (KP_init a Hif).
  unfold pathsum_e. change (winit (wplus a)) with (winit a).
  apply bsum_ext; intros i _.
  rewrite (proj1 (plus_main a Ha Hif xs) fuel (fst i)) by lia. reflexivity.
Qed.

End RationalOps.

Arguments kplus {S} a n xs.

Print Assumptions concat_pathsum.
Print Assumptions one_pathsum.
Print Assumptions zero_weight.
Print Assumptions lift_weight.
Print Assumptions plus_step.
Print Assumptions plus_unfold.
