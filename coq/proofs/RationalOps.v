(* Rational operations on weighted automata: concatenation, one, zero, lift,
   Kleene plus.  Epsilon-aware fuel-bounded path sums of the constructed machines
   against the declarative sums of the operands.  No axioms. *)
From Coq Require Import List Arith Bool Lia.
From GV.lib Require Import Semiring BigSum.
From GV.model Require Import Cfg Wfsa WfsaEps.
From GV.proofs Require Import WfsaProofs.
Import ListNotations.
Local Open Scope sr_scope.

Section RationalOps.
Variable S : SR.
Add Ring SRing : (sth S).

(* ------------------------------------------------------------------ *)
(* generic helpers                                                      *)

Lemma ro_pwe_S (m : wfsa S) f q xs :
  pwe m (Datatypes.S f) q xs
  = (match xs with [] => wget (wfinal m) q | _ => 0 end) +
    bsum (warcs m) (fun ar =>
      if Nat.eqb (asrc ar) q then
        match albl ar with
        | None => awt ar * pwe m f (adst ar) xs
        | Some a => match xs with
                    | b :: t => if Nat.eqb a b then awt ar * pwe m f (adst ar) t else 0
                    | [] => 0
                    end
        end
      else 0).
Proof. reflexivity. Qed.

Lemma ro_pwe_O (m : wfsa S) q xs :
  pwe m O q xs = (match xs with [] => wget (wfinal m) q | _ => 0 end) + 0.
Proof. reflexivity. Qed.

Lemma ro_wget_rename (f : nat -> nat) (Hf : forall p q, f p = f q -> p = q) (v : wvec S) q :
  wget (map (fun e => (f (fst e), snd e)) v) (f q) = wget v q.
Proof.
  unfold wget. rewrite bsum_map. apply bsum_ext; intros e _. cbn [fst snd].
  rewrite (eqb_inj f Hf). reflexivity.
Qed.

Lemma ro_wget_other (f g : nat -> nat) (Hfg : forall p q, Nat.eqb (g q) (f p) = false) (v : wvec S) q :
  wget (map (fun e => (f (fst e), snd e)) v) (g q) = 0.
Proof.
  unfold wget. rewrite bsum_map. apply bsum_zero; intros e _. cbn [fst snd].
  rewrite Hfg. reflexivity.
Qed.

Lemma ro_wget_mul (v : wvec S) q (c : S) :
  bsum v (fun e => if Nat.eqb (fst e) q then snd e * c else 0) = wget v q * c.
Proof.
  unfold wget. rewrite <- bsum_mul_r. apply bsum_ext; intros e _.
  rewrite (Nat.eqb_sym q (fst e)). destruct (Nat.eqb (fst e) q); ring.
Qed.

Lemma ro_splits_length {A} : forall (l : list A) p,
  In p (splits l) -> (length (fst p) + length (snd p))%nat = length l.
Proof.
  induction l as [|x t IH]; intros p Hp; simpl in Hp.
  - destruct Hp as [<-|[]]. reflexivity.
  - destruct Hp as [<-|Hp]; [reflexivity|].
    apply in_map_iff in Hp. destruct Hp as [r [<- Hr]]. cbn [fst snd length].
    rewrite <- (IH r Hr). reflexivity.
Qed.

(* convolution of the path sums of [a] from a state with an arbitrary function
   of the remaining suffix: one step *)
Lemma ro_conv_step (a : wfsa S) (g : list nat -> S) q x t :
  bsum (splits (x :: t)) (fun p => pw a q (fst p) * g (snd p))
  = wget (wfinal a) q * g (x :: t) +
    bsum (warcs a) (fun ar =>
      if Nat.eqb (asrc ar) q && lbl_eqb (albl ar) x
      then awt ar * bsum (splits t) (fun p => pw a (adst ar) (fst p) * g (snd p)) else 0).
Proof.
  cbn [splits]. rewrite bsum_cons, bsum_map. cbn [fst snd]. f_equal.
  transitivity (bsum (splits t) (fun p => bsum (warcs a) (fun ar =>
      if Nat.eqb (asrc ar) q && lbl_eqb (albl ar) x
      then awt ar * (pw a (adst ar) (fst p) * g (snd p)) else 0))).
  - apply bsum_ext; intros p _. cbn [pw]. rewrite <- bsum_mul_r.
    apply bsum_ext; intros ar _.
    destruct (Nat.eqb (asrc ar) q && lbl_eqb (albl ar) x); ring.
  - rewrite bsum_swap. apply bsum_ext; intros ar _.
    destruct (Nat.eqb (asrc ar) q && lbl_eqb (albl ar) x).
    + rewrite bsum_mul_l. reflexivity.
    + apply bsum_zero; reflexivity.
Qed.

Lemma ro_conv_nil (a : wfsa S) (g : list nat -> S) q :
  bsum (splits []) (fun p => pw a q (fst p) * g (snd p)) = wget (wfinal a) q * g [].
Proof. cbn [splits]. rewrite bsum_cons, bsum_nil. cbn [fst snd pw]. ring. Qed.

Lemma ro_conv_init (a : wfsa S) (g : list nat -> S) v :
  bsum (winit a) (fun i => snd i * bsum (splits v) (fun p => pw a (fst i) (fst p) * g (snd p)))
  = bsum (splits v) (fun p => pathsum a (fst p) * g (snd p)).
Proof.
  transitivity (bsum (winit a) (fun i => bsum (splits v) (fun p =>
      snd i * pw a (fst i) (fst p) * g (snd p)))).
  - apply bsum_ext; intros i _. rewrite <- bsum_mul_l. apply bsum_ext; intros p _. ring.
  - rewrite bsum_swap. apply bsum_ext; intros p _. unfold pathsum.
    rewrite <- bsum_mul_r. reflexivity.
Qed.

(* ------------------------------------------------------------------ *)
(* 1. concatenation                                                     *)

Lemma concat_arcs_sum (a b : wfsa S) (F : arc S -> S) :
  bsum (warcs (wconcat a b)) F
  = bsum (warcs a) (fun ar => F (tagL (asrc ar), albl ar, tagL (adst ar), awt ar)) +
    (bsum (warcs b) (fun ar => F (tagR (asrc ar), albl ar, tagR (adst ar), awt ar)) +
     bsum (wfinal a) (fun f => bsum (winit b) (fun i =>
        F (tagL (fst f), None, tagR (fst i), snd f * snd i)))).
Proof.
  unfold wconcat, rename; cbn [warcs winit wfinal].
  rewrite !bsum_app, !bsum_map, bsum_flat_map, bsum_map.
  f_equal. f_equal. apply bsum_ext; intros f _. rewrite !bsum_map. cbn [fst snd]. reflexivity.
Qed.

Lemma concat_final_R (a b : wfsa S) q : wget (wfinal (wconcat a b)) (tagR q) = wget (wfinal b) q.
Proof.
  unfold wconcat, rename; cbn [wfinal]. apply (ro_wget_rename tagR tagR_inj).
Qed.

Lemma concat_final_L (a b : wfsa S) q : wget (wfinal (wconcat a b)) (tagL q) = 0.
Proof.
  unfold wconcat, rename; cbn [wfinal]. apply (ro_wget_other tagR tagL).
  intros p r. apply tagL_tagR.
Qed.

Lemma concat_R (a b : wfsa S) (Hb : forall ar, In ar (warcs b) -> albl ar <> None) (xs : list nat) :
  forall fuel q, length xs <= fuel -> pwe (wconcat a b) fuel (tagR q) xs = pw b q xs.
Proof.
  induction xs as [|x t IH]; intros fuel q Hlen.
  - destruct fuel as [|f].
    + rewrite ro_pwe_O, concat_final_R. cbn [pw]. ring.
    + rewrite ro_pwe_S, concat_final_R, concat_arcs_sum. cbn [pw].
      rewrite (bsum_zero _ (warcs a)), (bsum_zero _ (warcs b)), (bsum_zero _ (wfinal a)); [ring| | |].
      * intros fe _. apply bsum_zero; intros i _. unfold asrc; cbn [fst snd].
        rewrite tagL_tagR. reflexivity.
      * intros ar Har. unfold asrc at 1, albl at 1; cbn [fst snd].
        change (snd (fst (fst ar))) with (albl ar).
        destruct (Nat.eqb (tagR (asrc ar)) (tagR q)); [|reflexivity].
        destruct (albl ar) eqn:E; [reflexivity|]. exfalso; exact (Hb ar Har E).
      * intros ar _. unfold asrc at 1; cbn [fst snd]. rewrite tagL_tagR. reflexivity.
  - destruct fuel as [|f]; [cbn [length] in Hlen; lia|].
    cbn [length] in Hlen. assert (Hlen' : length t <= f) by lia.
    rewrite ro_pwe_S, concat_arcs_sum. cbn [pw].
    rewrite (bsum_zero _ (warcs a)), (bsum_zero _ (wfinal a)).
    + match goal with |- 0 + (0 + (?l + 0)) = ?r => transitivity l; [ring|] end.
      apply bsum_ext; intros ar Har. unfold asrc at 1, albl at 1, adst at 1, awt at 1; cbn [fst snd].
      change (snd (fst (fst ar))) with (albl ar).
      rewrite (eqb_inj tagR tagR_inj).
      destruct (Nat.eqb (asrc ar) q); cbn [andb]; [|reflexivity].
      destruct (albl ar) as [c|] eqn:E; [|exfalso; exact (Hb ar Har E)].
      cbn [lbl_eqb]. rewrite (Nat.eqb_sym x c).
      destruct (Nat.eqb c x); [|reflexivity].
      change (snd (fst ar)) with (adst ar).
      rewrite (IH f (adst ar) Hlen'). reflexivity.
    + intros fe _. apply bsum_zero; intros i _. unfold asrc; cbn [fst snd].
      rewrite tagL_tagR. reflexivity.
    + intros ar _. unfold asrc at 1; cbn [fst snd]. rewrite tagL_tagR. reflexivity.
Qed.

End RationalOps.
