(* WFSA.to_cfg: the height-bounded derivation sums of the converted grammar are the
   fuel-bounded (epsilon-aware) path sums of the automaton.
   Right recursion: trees of height f+1 from nt(q) <-> paths with <= f arcs from q.
   Left recursion: the same with backward path sums (paths from an initial state
   to q), which consume the string from the right. *)
From Coq Require Import List Arith Bool Lia.
From GV.lib Require Import Semiring BigSum.
From GV.model Require Import Cfg Agenda Wfsa WfsaEps.
From GV.gen Require Import Gen_Exprs.
From GV.proofs Require Import CfgTrees.
Import ListNotations.
Local Open Scope sr_scope.

Section ConvertProofs.
Variable S : SR.
Add Ring SRing : (sth S).

(* ---------- Wb on the three body shapes ---------- *)

Definition is_nil (l : list nat) : S := match l with [] => 1 | _ => 0 end.

Lemma Wb_nil (g : nat -> list nat -> S) xs : Wb g [] xs = is_nil xs.
Proof. reflexivity. Qed.

Lemma splits_last (g : list nat -> S) : forall t,
  bsum (splits t) (fun p => g (fst p) * is_nil (snd p)) = g t.
Proof.
  intros t; revert g; induction t as [|x t IH]; intros g.
  - simpl splits. rewrite bsum_cons, bsum_nil. simpl. ring.
  - simpl splits. rewrite bsum_cons, bsum_map. simpl fst; simpl snd.
    rewrite (IH (fun l => g (x :: l))). simpl. ring.
Qed.

Lemma Wb_N (g : nat -> list nat -> S) Y xs : Wb g [N Y] xs = g Y xs.
Proof.
  change (Wb g [N Y] xs) with (bsum (splits xs) (fun p => g Y (fst p) * is_nil (snd p))).
  apply (splits_last (g Y)).
Qed.

Lemma Wb_TN (g : nat -> list nat -> S) a Y xs :
  Wb g [T a; N Y] xs = match xs with b :: t => if Nat.eqb a b then g Y t else 0 | [] => 0 end.
Proof.
  destruct xs as [|b t]; [reflexivity|].
  change (Wb g [T a; N Y] (b :: t)) with (if Nat.eqb a b then Wb g [N Y] t else 0).
  rewrite Wb_N. reflexivity.
Qed.

Lemma W_zero (G : grammar S) X xs : W G O X xs = 0.
Proof. reflexivity. Qed.

Lemma W_succ (G : grammar S) h X xs :
  W G (Datatypes.S h) X xs
  = bsum G (fun r => if Nat.eqb (rhead r) X then rw r * Wb (W G h) (rbody r) xs else 0).
Proof. reflexivity. Qed.

Lemma pwe_unfold (m : wfsa S) fuel q xs :
  pwe m fuel q xs
  = (match xs with [] => wget (wfinal m) q | _ => 0 end) +
    match fuel with
    | O => 0
    | Datatypes.S f =>
        bsum (warcs m) (fun ar =>
          if Nat.eqb (asrc ar) q then
            match albl ar with
            | None => awt ar * pwe m f (adst ar) xs
            | Some a => match xs with
                        | b :: t => if Nat.eqb a b then awt ar * pwe m f (adst ar) t else 0
                        | [] => 0
                        end
            end
          else 0)
    end.
Proof. destruct fuel; reflexivity. Qed.

Lemma eqb_inj (nt : nat -> nat) (Hinj : forall p p', nt p = nt p' -> p = p') p q :
  Nat.eqb (nt p) (nt q) = Nat.eqb p q.
Proof.
  destruct (Nat.eqb_spec p q) as [E|E].
  - subst. apply Nat.eqb_refl.
  - apply Nat.eqb_neq. intros H. apply E, Hinj, H.
Qed.

(* ---------- right recursion ---------- *)

Lemma bsum_to_cfg_right s0 nt (m : wfsa S) (F : rule S -> S) :
  bsum (to_cfg_right s0 nt m) F
  = bsum (winit m) (fun e => F (snd e, s0, [N (nt (fst e))]))
    + (bsum (wfinal m) (fun e => F (snd e, nt (fst e), []))
       + bsum (warcs m) (fun ar => F (match albl ar with
                                      | None => (awt ar, nt (asrc ar), [N (nt (adst ar))])
                                      | Some a => (awt ar, nt (asrc ar), [T a; N (nt (adst ar))])
                                      end))).
Proof. unfold to_cfg_right. rewrite !bsum_app, !bsum_map. reflexivity. Qed.

Lemma final_rules (nt : nat -> nat) (Hinj : forall p p', nt p = nt p' -> p = p')
      (m : wfsa S) (g : nat -> list nat -> S) q xs :
  bsum (wfinal m) (fun e => if Nat.eqb (rhead (snd e, nt (fst e), @nil sym)) (nt q)
                            then rw (snd e, nt (fst e), @nil sym) * Wb g (rbody (snd e, nt (fst e), @nil sym)) xs
                            else 0)
  = match xs with [] => wget (wfinal m) q | _ => 0 end.
Proof.
  cbn [rhead rw rbody fst snd]. destruct xs as [|b t].
  - unfold wget. apply bsum_ext; intros e _. rewrite Wb_nil. simpl is_nil.
    rewrite (eqb_inj nt Hinj). rewrite (Nat.eqb_sym q (fst e)).
    destruct (Nat.eqb (fst e) q); ring.
  - apply bsum_zero; intros e _. rewrite Wb_nil. simpl is_nil.
    destruct (Nat.eqb (nt (fst e)) (nt q)); ring.
Qed.

Theorem to_cfg_right_state : forall (m : wfsa S) (s0 : nat) (nt : nat -> nat) (f : nat) (q : nat) (xs : list nat),
  (forall p p', nt p = nt p' -> p = p') -> (forall p, nt p <> s0) ->
  W (to_cfg_right s0 nt m) (Datatypes.S f) (nt q) xs = pwe m f q xs.
Proof.
  intros m s0 nt f q xs Hinj Hs0. revert q xs.
  induction f as [|f IH]; intros q xs; rewrite W_succ, pwe_unfold, bsum_to_cfg_right;
  match goal with |- ?a + (?b + ?c) = ?p + ?r =>
    assert (Ha : a = 0); [|assert (Hb : b = p); [|assert (Hc : c = r); [|rewrite Ha, Hb, Hc; ring]]] end.
  - apply bsum_zero; intros e _. cbn [rhead rw rbody fst snd].
    destruct (Nat.eqb_spec s0 (nt q)) as [E|E]; [|reflexivity].
    exfalso. apply (Hs0 q). symmetry; exact E.
  - apply (final_rules nt Hinj).
  - apply bsum_zero; intros ar _.
    destruct (albl ar) as [a|]; cbn [rhead rw rbody fst snd];
      destruct (Nat.eqb (nt (asrc ar)) (nt q)); try reflexivity.
    + rewrite Wb_TN. destruct xs as [|b t]; [ring|]. destruct (Nat.eqb a b); rewrite ?W_zero; ring.
    + rewrite Wb_N, W_zero. ring.
  - apply bsum_zero; intros e _. cbn [rhead rw rbody fst snd].
    destruct (Nat.eqb_spec s0 (nt q)) as [E|E]; [|reflexivity].
    exfalso. apply (Hs0 q). symmetry; exact E.
  - apply (final_rules nt Hinj).
  - apply bsum_ext; intros ar _.
    destruct (albl ar) as [a|]; cbn [rhead rw rbody fst snd];
      rewrite (eqb_inj nt Hinj); destruct (Nat.eqb (asrc ar) q); try reflexivity.
    + rewrite Wb_TN. destruct xs as [|b t]; [ring|].
      destruct (Nat.eqb a b); [rewrite IH; reflexivity|ring].
    + rewrite Wb_N, IH. reflexivity.
Qed.

Theorem to_cfg_right_start : forall (m : wfsa S) (s0 : nat) (nt : nat -> nat) (f : nat) (xs : list nat),
  (forall p p', nt p = nt p' -> p = p') -> (forall p, nt p <> s0) ->
  W (to_cfg_right s0 nt m) (Datatypes.S (Datatypes.S f)) s0 xs = pathsum_e m f xs.
Proof.
  intros m s0 nt f xs Hinj Hs0.
  rewrite W_succ, bsum_to_cfg_right. unfold pathsum_e.
  match goal with |- ?a + (?b + ?c) = ?p =>
    assert (Ha : a = p); [|assert (Hb : b = 0); [|assert (Hc : c = 0); [|rewrite Ha, Hb, Hc; ring]]] end.
  - apply bsum_ext; intros e _. cbn [rhead rw rbody fst snd]. rewrite Nat.eqb_refl.
    rewrite Wb_N. rewrite (to_cfg_right_state m s0 nt f (fst e) xs Hinj Hs0). reflexivity.
  - apply bsum_zero; intros e _. cbn [rhead rw rbody fst snd].
    destruct (Nat.eqb_spec (nt (fst e)) s0) as [E|E]; [|reflexivity].
    exfalso. exact (Hs0 _ E).
  - apply bsum_zero; intros ar _. destruct (albl ar) as [a|]; cbn [rhead rw rbody fst snd];
      (destruct (Nat.eqb_spec (nt (asrc ar)) s0) as [E|E]; [|reflexivity]);
      exfalso; exact (Hs0 _ E).
Qed.

(* ---------- left recursion ---------- *)

(* backward path sums: total weight of the paths with at most [fuel] arcs from an
   initial state to q; the argument is the REVERSED string spelled by the path
   (left recursion consumes the string from the right) *)
Fixpoint pwb (m : wfsa S) (fuel : nat) (q : nat) (rxs : list nat) : S :=
  (match rxs with [] => wget (winit m) q | _ => 0 end) +
  match fuel with
  | O => 0
  | Datatypes.S f =>
      bsum (warcs m) (fun ar =>
        if Nat.eqb (adst ar) q then
          match albl ar with
          | None => awt ar * pwb m f (asrc ar) rxs
          | Some a => match rxs with
                      | b :: t => if Nat.eqb a b then awt ar * pwb m f (asrc ar) t else 0
                      | [] => 0
                      end
          end
        else 0)
  end.
Definition pathsum_b (m : wfsa S) (fuel : nat) (xs : list nat) : S :=
  bsum (wfinal m) (fun e => snd e * pwb m fuel (fst e) (rev xs)).

Lemma pwb_unfold (m : wfsa S) fuel q rxs :
  pwb m fuel q rxs
  = (match rxs with [] => wget (winit m) q | _ => 0 end) +
    match fuel with
    | O => 0
    | Datatypes.S f =>
        bsum (warcs m) (fun ar =>
          if Nat.eqb (adst ar) q then
            match albl ar with
            | None => awt ar * pwb m f (asrc ar) rxs
            | Some a => match rxs with
                        | b :: t => if Nat.eqb a b then awt ar * pwb m f (asrc ar) t else 0
                        | [] => 0
                        end
            end
          else 0)
    end.
Proof. destruct fuel; reflexivity. Qed.

(* sanity: pwb is the forward path sum of the reversed automaton *)
Lemma pwb_reverse (m : wfsa S) : forall fuel q rxs, pwb m fuel q rxs = pwe (wreverse m) fuel q rxs.
Proof.
  induction fuel as [|f IH]; intros q rxs; rewrite pwb_unfold, pwe_unfold.
  - reflexivity.
  - change (wfinal (wreverse m)) with (winit m).
    change (warcs (wreverse m)) with (map (fun ar : arc S => (adst ar, albl ar, asrc ar, awt ar)) (warcs m)).
    f_equal. rewrite bsum_map.
    apply bsum_ext; intros ar _.
    change (asrc (adst ar, albl ar, asrc ar, awt ar)) with (adst ar).
    change (albl (adst ar, albl ar, asrc ar, awt ar)) with (albl ar).
    change (adst (adst ar, albl ar, asrc ar, awt ar)) with (asrc ar).
    change (awt (adst ar, albl ar, asrc ar, awt ar)) with (awt ar).
    destruct (Nat.eqb (adst ar) q); [|reflexivity].
    destruct (albl ar) as [a|]; [|rewrite IH; reflexivity].
    destruct rxs as [|b t]; [reflexivity|]. destruct (Nat.eqb a b); [rewrite IH; reflexivity|reflexivity].
Qed.

Definition is_single (a : nat) (l : list nat) : S :=
  match l with [b] => if Nat.eqb a b then 1 else 0 | _ => 0 end.

Lemma Wb_T (g : nat -> list nat -> S) a xs : Wb g [T a] xs = is_single a xs.
Proof. destruct xs as [|b [|c t]]; simpl; try reflexivity; destruct (Nat.eqb a b); reflexivity. Qed.

Lemma Wb_NT_unfold (g : nat -> list nat -> S) Y a xs :
  Wb g [N Y; T a] xs = bsum (splits xs) (fun p => g Y (fst p) * is_single a (snd p)).
Proof.
  change (Wb g [N Y; T a] xs) with (bsum (splits xs) (fun p => g Y (fst p) * Wb g [T a] (snd p))).
  apply bsum_ext; intros p _. rewrite Wb_T. reflexivity.
Qed.

Lemma splits_single_nil (g : list nat -> S) a :
  bsum (splits []) (fun p => g (fst p) * is_single a (snd p)) = 0.
Proof. simpl splits. rewrite bsum_cons, bsum_nil. simpl. ring. Qed.

Lemma splits_single_snoc a b : forall ys (g : list nat -> S),
  bsum (splits (ys ++ [b])) (fun p => g (fst p) * is_single a (snd p))
  = if Nat.eqb a b then g ys else 0.
Proof.
  induction ys as [|x ys IH]; intros g.
  - simpl app. simpl splits. rewrite !bsum_cons, bsum_nil. simpl.
    destruct (Nat.eqb a b); ring.
  - simpl app. simpl splits. rewrite bsum_cons, bsum_map. simpl fst; simpl snd.
    rewrite (IH (fun l => g (x :: l))).
    assert (H0 : is_single a (x :: ys ++ [b]) = 0) by (destruct ys; reflexivity).
    rewrite H0. ring.
Qed.

Lemma Wb_NT (g : nat -> list nat -> S) Y a xs :
  Wb g [N Y; T a] xs
  = match rev xs with b :: t => if Nat.eqb a b then g Y (rev t) else 0 | [] => 0 end.
Proof.
  rewrite Wb_NT_unfold.
  destruct (rev xs) as [|b t] eqn:E.
  - assert (Hx : xs = []) by (rewrite <- (rev_involutive xs), E; reflexivity).
    subst xs. apply splits_single_nil.
  - assert (Hx : xs = rev t ++ [b]) by (rewrite <- (rev_involutive xs), E; reflexivity).
    rewrite Hx. apply (splits_single_snoc a b (rev t) (g Y)).
Qed.

Lemma rev_nil_match {A} (xs : list nat) (x y : A) :
  match rev xs with [] => x | _ => y end = match xs with [] => x | _ => y end.
Proof.
  destruct xs as [|b t]; [reflexivity|]. simpl rev.
  destruct (rev t); reflexivity.
Qed.

Lemma bsum_to_cfg_left s0 nt (m : wfsa S) (F : rule S -> S) :
  bsum (to_cfg_left s0 nt m) F
  = bsum (wfinal m) (fun e => F (snd e, s0, [N (nt (fst e))]))
    + (bsum (winit m) (fun e => F (snd e, nt (fst e), []))
       + bsum (warcs m) (fun ar => F (match albl ar with
                                      | None => (awt ar, nt (adst ar), [N (nt (asrc ar))])
                                      | Some a => (awt ar, nt (adst ar), [N (nt (asrc ar)); T a])
                                      end))).
Proof. unfold to_cfg_left. rewrite !bsum_app, !bsum_map. reflexivity. Qed.

Lemma init_rules (nt : nat -> nat) (Hinj : forall p p', nt p = nt p' -> p = p')
      (m : wfsa S) (g : nat -> list nat -> S) q xs :
  bsum (winit m) (fun e => if Nat.eqb (rhead (snd e, nt (fst e), @nil sym)) (nt q)
                           then rw (snd e, nt (fst e), @nil sym) * Wb g (rbody (snd e, nt (fst e), @nil sym)) xs
                           else 0)
  = match rev xs with [] => wget (winit m) q | _ => 0 end.
Proof.
  rewrite rev_nil_match.
  cbn [rhead rw rbody fst snd]. destruct xs as [|b t].
  - unfold wget. apply bsum_ext; intros e _. rewrite Wb_nil. simpl is_nil.
    rewrite (eqb_inj nt Hinj). rewrite (Nat.eqb_sym q (fst e)).
    destruct (Nat.eqb (fst e) q); ring.
  - apply bsum_zero; intros e _. rewrite Wb_nil. simpl is_nil.
    destruct (Nat.eqb (nt (fst e)) (nt q)); ring.
Qed.

Theorem to_cfg_left_state : forall (m : wfsa S) (s0 : nat) (nt : nat -> nat) (f : nat) (q : nat) (xs : list nat),
  (forall p p', nt p = nt p' -> p = p') -> (forall p, nt p <> s0) ->
  W (to_cfg_left s0 nt m) (Datatypes.S f) (nt q) xs = pwb m f q (rev xs).
Proof.
  intros m s0 nt f q xs Hinj Hs0. revert q xs.
  induction f as [|f IH]; intros q xs; rewrite W_succ, pwb_unfold, bsum_to_cfg_left;
  match goal with |- ?a + (?b + ?c) = ?p + ?r =>
    assert (Ha : a = 0); [|assert (Hb : b = p); [|assert (Hc : c = r); [|rewrite Ha, Hb, Hc; ring]]] end.
  - apply bsum_zero; intros e _. cbn [rhead rw rbody fst snd].
    destruct (Nat.eqb_spec s0 (nt q)) as [E|E]; [|reflexivity].
    exfalso. apply (Hs0 q). symmetry; exact E.
  - apply (init_rules nt Hinj).
  - apply bsum_zero; intros ar _.
    destruct (albl ar) as [a|]; cbn [rhead rw rbody fst snd];
      destruct (Nat.eqb (nt (adst ar)) (nt q)); try reflexivity.
    + rewrite Wb_NT. destruct (rev xs) as [|b t]; [ring|]. destruct (Nat.eqb a b); rewrite ?W_zero; ring.
    + rewrite Wb_N, W_zero. ring.
  - apply bsum_zero; intros e _. cbn [rhead rw rbody fst snd].
    destruct (Nat.eqb_spec s0 (nt q)) as [E|E]; [|reflexivity].
    exfalso. apply (Hs0 q). symmetry; exact E.
  - apply (init_rules nt Hinj).
  - apply bsum_ext; intros ar _.
    destruct (albl ar) as [a|]; cbn [rhead rw rbody fst snd];
      rewrite (eqb_inj nt Hinj); destruct (Nat.eqb (adst ar) q); try reflexivity.
    + rewrite Wb_NT. destruct (rev xs) as [|b t]; [ring|].
      destruct (Nat.eqb a b); [rewrite IH, rev_involutive; reflexivity|ring].
    + rewrite Wb_N, IH. reflexivity.
Qed.

Theorem to_cfg_left_start : forall (m : wfsa S) (s0 : nat) (nt : nat -> nat) (f : nat) (xs : list nat),
  (forall p p', nt p = nt p' -> p = p') -> (forall p, nt p <> s0) ->
  W (to_cfg_left s0 nt m) (Datatypes.S (Datatypes.S f)) s0 xs = pathsum_b m f xs.
Proof.
  intros m s0 nt f xs Hinj Hs0.
  rewrite W_succ, bsum_to_cfg_left. unfold pathsum_b.
  match goal with |- ?a + (?b + ?c) = ?p =>
    assert (Ha : a = p); [|assert (Hb : b = 0); [|assert (Hc : c = 0); [|rewrite Ha, Hb, Hc; ring]]] end.
  - apply bsum_ext; intros e _. cbn [rhead rw rbody fst snd]. rewrite Nat.eqb_refl.
    rewrite Wb_N. rewrite (to_cfg_left_state m s0 nt f (fst e) xs Hinj Hs0). reflexivity.
  - apply bsum_zero; intros e _. cbn [rhead rw rbody fst snd].
    destruct (Nat.eqb_spec (nt (fst e)) s0) as [E|E]; [|reflexivity].
    exfalso. exact (Hs0 _ E).
  - apply bsum_zero; intros ar _. destruct (albl ar) as [a|]; cbn [rhead rw rbody fst snd];
      (destruct (Nat.eqb_spec (nt (adst ar)) s0) as [E|E]; [|reflexivity]);
      exfalso; exact (Hs0 _ E).
Qed.

End ConvertProofs.
Arguments pwb {S} m fuel q rxs. Arguments pathsum_b {S} m fuel xs.

Print Assumptions to_cfg_right_state.
Print Assumptions to_cfg_right_start.
Print Assumptions to_cfg_left_state.
Print Assumptions to_cfg_left_start.
