(* End-to-end reading of the next-token mask of a Boolean grammar language model.  The
   model works on the EOS-wrapped grammar (new start symbol s' with the rule s' -> s eos):
   its strings are exactly the strings of the grammar followed by eos; a token t <> eos is
   offered after the context ctx exactly when ctx . t can be completed to a string of the
   grammar; eos is offered exactly when ctx is itself a string of the grammar.  No axioms. *)
From Coq Require Import List Arith Bool Lia.
From GV.lib Require Import Semiring BigSum.
From GV.model Require Import Cfg Norm Agenda MachSpec Prefix.
From GV.proofs Require Import CfgTrees PrefixTrees NormProofs MaskStringsProofs.
Import ListNotations.

(* ---- list facts --------------------------------------------------------------- *)

Lemma is_prefix_iff : forall p l : list nat,
  is_prefix p l = true <-> exists rest, l = p ++ rest.
Proof.
  induction p as [|a p IH]; intros l.
  - simpl. split; [intros _; exists l; reflexivity|reflexivity].
  - destruct l as [|b l]; simpl.
    + split; [intros H; discriminate H|intros [rest H]; discriminate H].
    + rewrite andb_true_iff, Nat.eqb_eq, IH. split.
      * intros [E [rest H]]. subst b l. exists rest. reflexivity.
      * intros [rest H]. injection H as E1 E2. split; [symmetry; exact E1|exists rest; exact E2].
Qed.

Lemma splits_In_app {A} : forall (l : list A) p, In p (splits l) -> fst p ++ snd p = l.
Proof.
  induction l as [|x t IH]; intros p Hin; simpl in Hin.
  - destruct Hin as [<-|[]]. reflexivity.
  - destruct Hin as [<-|Hin]; [reflexivity|].
    apply in_map_iff in Hin. destruct Hin as [q [<- Hq]]. simpl. f_equal. exact (IH q Hq).
Qed.

(* a prefix ending in t <> e of a string ending in e lies inside the part before e *)
Lemma prefix_snoc_inside : forall (l p rest : list nat) (e t : nat),
  l ++ [e] = (p ++ [t]) ++ rest -> t <> e -> exists rest', l = p ++ t :: rest'.
Proof.
  intros l p rest e t H Hne. destruct rest as [|x rest0] using rev_ind.
  - rewrite app_nil_r in H. apply app_inj_tail in H. destruct H as [_ E].
    exfalso. apply Hne. symmetry. exact E.
  - clear IHrest0. rewrite app_assoc in H. apply app_inj_tail in H. destruct H as [E _].
    exists rest0. rewrite E, <- app_assoc. reflexivity.
Qed.

(* the first eos of xs ++ [eos] is the last symbol when xs has no eos *)
Lemma eos_first : forall (xs ctx rest : list nat) (eos : nat),
  xs ++ [eos] = ctx ++ eos :: rest -> ~ In eos xs -> xs = ctx /\ rest = [].
Proof.
  induction xs as [|x xs IH]; intros ctx rest eos H Hno.
  - destruct ctx as [|c ctx]; simpl in H.
    + injection H as E. split; [reflexivity|symmetry; exact E].
    + injection H as _ E. exfalso. exact (app_cons_not_nil ctx rest eos E).
  - destruct ctx as [|c ctx]; simpl in H.
    + injection H as E _. exfalso. apply Hno. left. exact E.
    + injection H as E1 E2.
      destruct (IH ctx rest eos E2) as [E3 E4].
      * intros Hin. apply Hno. right. exact Hin.
      * subst. split; reflexivity.
Qed.

(* ---- 1. the language of the wrapped grammar ------------------------------------ *)

Theorem eos_language : forall (G : grammar BoolSR) (s' s eos : nat) (ys : list nat),
  (forall r, In r G -> rhead r <> s') ->
  (forall r, In r G -> ~ In (N s') (rbody r)) ->
  (in_language (add_eos s' s eos G) s' ys <->
   exists xs, ys = xs ++ [eos] /\ in_language G s xs).
Proof.
  intros G s' s eos ys Hh Hb. unfold in_language. split.
  - intros [h H]. destruct h as [|h]; [discriminate H|].
    rewrite (add_eos_W_new BoolSR G s' s eos Hh Hb) in H.
    apply bool_bsum_true in H. destruct H as [p [Hin Hp]].
    apply andb_true_iff in Hp. destruct Hp as [Hw He].
    apply splits_In_app in Hin.
    destruct (snd p) as [|e [|c l]]; try discriminate He.
    destruct (Nat.eqb eos e) eqn:E; [|discriminate He].
    apply Nat.eqb_eq in E. subst e.
    exists (fst p). split; [symmetry; exact Hin|exists h; exact Hw].
  - intros [xs [-> [h H]]]. exists (S h).
    rewrite (add_eos_W BoolSR G s' s eos h xs Hh Hb). exact H.
Qed.

(* ---- 2. the mask ---------------------------------------------------------------- *)

(* a token other than eos (no assumption on the strings of G is needed here) *)
Theorem mask_token_gen : forall (G : grammar BoolSR) (s' s eos : nat) (ctx : list nat) (t : nat),
  (forall r, In r G -> rhead r <> s') ->
  (forall r, In r G -> ~ In (N s') (rbody r)) ->
  t <> eos ->
  ((exists h, Wpre (add_eos s' s eos G) h s' (ctx ++ [t]) = true)
   <-> exists rest, in_language G s (ctx ++ t :: rest)).
Proof.
  intros G s' s eos ctx t Hh Hb Hne. rewrite viable_iff_completable. split.
  - intros [ys [Hp Hl]]. apply (eos_language G s' s eos ys Hh Hb) in Hl.
    destruct Hl as [xs [-> Hl]]. apply is_prefix_iff in Hp. destruct Hp as [rest Hp].
    destruct (prefix_snoc_inside xs ctx rest eos t Hp Hne) as [rest' ->].
    exists rest'. exact Hl.
  - intros [rest Hl]. exists ((ctx ++ t :: rest) ++ [eos]). split.
    + apply is_prefix_iff. exists (rest ++ [eos]). rewrite <- !app_assoc. reflexivity.
    + apply (eos_language G s' s eos _ Hh Hb). exists (ctx ++ t :: rest).
      split; [reflexivity|exact Hl].
Qed.

Theorem mask_token : forall (G : grammar BoolSR) (s' s eos : nat) (ctx : list nat) (t : nat),
  (forall r, In r G -> rhead r <> s') ->
  (forall r, In r G -> ~ In (N s') (rbody r)) ->
  t <> eos ->
  (forall xs, in_language G s xs -> ~ In eos xs) ->
  ((exists h, Wpre (add_eos s' s eos G) h s' (ctx ++ [t]) = true)
   <-> exists rest, in_language G s (ctx ++ t :: rest)).
Proof.
  intros G s' s eos ctx t Hh Hb Hne _. exact (mask_token_gen G s' s eos ctx t Hh Hb Hne).
Qed.

Theorem mask_eos : forall (G : grammar BoolSR) (s' s eos : nat) (ctx : list nat),
  (forall r, In r G -> rhead r <> s') ->
  (forall r, In r G -> ~ In (N s') (rbody r)) ->
  (forall xs, in_language G s xs -> ~ In eos xs) ->
  ((exists h, Wpre (add_eos s' s eos G) h s' (ctx ++ [eos]) = true) <-> in_language G s ctx).
Proof.
  intros G s' s eos ctx Hh Hb Hno. rewrite viable_iff_completable. split.
  - intros [ys [Hp Hl]]. apply (eos_language G s' s eos ys Hh Hb) in Hl.
    destruct Hl as [xs [-> Hl]]. apply is_prefix_iff in Hp. destruct Hp as [rest Hp].
    rewrite <- app_assoc in Hp. simpl in Hp.
    destruct (eos_first xs ctx rest eos Hp (Hno xs Hl)) as [<- _]. exact Hl.
  - intros Hl. exists (ctx ++ [eos]). split; [apply is_prefix_refl|].
    apply (eos_language G s' s eos _ Hh Hb). exists ctx. split; [reflexivity|exact Hl].
Qed.

(* ---- the strings of G contain only terminals of G ------------------------------- *)

Lemma Wb_bool_terminals (P : nat -> Prop) (f : nat -> list nat -> BoolSR) :
  (forall Y u, f Y u = true -> forall a, In a u -> P a) ->
  forall body xs, Wb f body xs = true -> forall a, In a xs -> P a \/ In (T a) body.
Proof.
  intros Hf. induction body as [|sy rest IH]; intros xs H a Ha.
  - simpl in H. destruct xs; [destruct Ha|discriminate H].
  - destruct sy as [b|Y].
    + simpl in H. destruct xs as [|c xs]; [discriminate H|].
      destruct (Nat.eqb b c) eqn:E; [|discriminate H]. apply Nat.eqb_eq in E. subst c.
      destruct Ha as [<-|Ha]; [right; left; reflexivity|].
      destruct (IH xs H a Ha) as [HP|Hin]; [left; exact HP|right; right; exact Hin].
    + cbn [Wb] in H. apply bool_bsum_true in H. destruct H as [p [Hin Hp]].
      apply andb_true_iff in Hp. destruct Hp as [H1 H2].
      apply splits_In_app in Hin. rewrite <- Hin in Ha. apply in_app_or in Ha.
      destruct Ha as [Ha|Ha].
      * left. exact (Hf Y (fst p) H1 a Ha).
      * destruct (IH (snd p) H2 a Ha) as [HP|Hi]; [left; exact HP|right; right; exact Hi].
Qed.

Lemma language_terminals : forall (G : grammar BoolSR) (X : nat) (xs : list nat) (a : nat),
  in_language G X xs -> In a xs -> exists r, In r G /\ In (T a) (rbody r).
Proof.
  intros G X xs a [h H]. revert X xs a H.
  induction h as [|h IH]; intros X xs a H Ha; [discriminate H|].
  cbn [W] in H. apply bool_bsum_true in H. destruct H as [r [Hr Hw]].
  destruct (Nat.eqb (rhead r) X); [|discriminate Hw].
  apply andb_true_iff in Hw. destruct Hw as [_ Hw].
  destruct (Wb_bool_terminals (fun a => exists r, In r G /\ In (T a) (rbody r)) (W G h)
              (fun Y u HY b Hb => IH Y u b HY Hb) (rbody r) xs Hw a Ha) as [HP|Hin].
  - exact HP.
  - exists r. split; assumption.
Qed.

(* eos is not a terminal of G: no string of G contains eos *)
Lemma no_eos_in_language : forall (G : grammar BoolSR) (eos : nat),
  (forall r, In r G -> ~ In (T eos) (rbody r)) ->
  forall X xs, in_language G X xs -> ~ In eos xs.
Proof.
  intros G eos Hno X xs Hl Hin.
  destruct (language_terminals G X xs eos Hl Hin) as [r [Hr Hb]]. exact (Hno r Hr Hb).
Qed.

(* the mask of eos from the syntactic hypothesis *)
Corollary mask_eos_syntactic : forall (G : grammar BoolSR) (s' s eos : nat) (ctx : list nat),
  (forall r, In r G -> rhead r <> s') ->
  (forall r, In r G -> ~ In (N s') (rbody r)) ->
  (forall r, In r G -> ~ In (T eos) (rbody r)) ->
  ((exists h, Wpre (add_eos s' s eos G) h s' (ctx ++ [eos]) = true) <-> in_language G s ctx).
Proof.
  intros G s' s eos ctx Hh Hb Hno. apply mask_eos; [exact Hh|exact Hb|].
  intros xs Hl. exact (no_eos_in_language G eos Hno s xs Hl).
Qed.

Print Assumptions eos_language.
Print Assumptions mask_token_gen.
Print Assumptions mask_token.
Print Assumptions mask_eos.
Print Assumptions no_eos_in_language.
Print Assumptions mask_eos_syntactic.

(* ---- a small instance -------------------------------------------------------------- *)
(* X0 -> 1 X1 ; X1 -> 0 ; X1 -> eps, wrapped as X9 -> X0 7 : strings [1;0;7] and [1;7] *)

Definition eos_ex_G : grammar BoolSR :=
  [ (true, 0, [T 1; N 1]); (true, 1, [T 0]); (true, 1, []) ].

Example eos_ex_token : Wpre (add_eos 9 0 7 eos_ex_G) 4 9 [1; 0] = true.
Proof. vm_compute. reflexivity. Qed.

(* eos is offered after the complete string [1] *)
Example eos_ex_eos : Wpre (add_eos 9 0 7 eos_ex_G) 4 9 [1; 7] = true.
Proof. vm_compute. reflexivity. Qed.

(* eos is not offered after the empty context: [] is not a string of the grammar *)
Example eos_ex_no_eos : Wpre (add_eos 9 0 7 eos_ex_G) 4 9 [7] = false.
Proof. vm_compute. reflexivity. Qed.

Lemma eos_ex_heads : forall r, In r eos_ex_G -> rhead r <> 9.
Proof. intros r [<-|[<-|[<-|[]]]]; simpl; discriminate. Qed.

Lemma eos_ex_bodies : forall r, In r eos_ex_G -> ~ In (N 9) (rbody r).
Proof.
  intros r [<-|[<-|[<-|[]]]]; simpl; intros H;
    repeat (destruct H as [H|H]; [discriminate H|]); exact H.
Qed.

Lemma eos_ex_no_eos_terminal : forall r, In r eos_ex_G -> ~ In (T 7) (rbody r).
Proof.
  intros r [<-|[<-|[<-|[]]]]; simpl; intros H;
    repeat (destruct H as [H|H]; [discriminate H|]); exact H.
Qed.

(* the theorems on the instance: [1] . 0 is completable to a string of the grammar, and
   [1] is a complete string *)
Example eos_ex_token_reading : exists rest, in_language eos_ex_G 0 ([1] ++ 0 :: rest).
Proof.
  apply (proj1 (mask_token_gen eos_ex_G 9 0 7 [1] 0 eos_ex_heads eos_ex_bodies
                  (fun E => O_S 6 E))).
  exists 4. vm_compute. reflexivity.
Qed.

Example eos_ex_eos_reading : in_language eos_ex_G 0 [1].
Proof.
  apply (proj1 (mask_eos_syntactic eos_ex_G 9 0 7 [1] eos_ex_heads eos_ex_bodies
                  eos_ex_no_eos_terminal)).
  exists 4. vm_compute. reflexivity.
Qed.

(* and [] is not a complete string, so eos is never offered after the empty context *)
Example eos_ex_no_eos_reading : forall h, Wpre (add_eos 9 0 7 eos_ex_G) h 9 ([] ++ [7]) = false.
Proof.
  intros h. destruct (Wpre (add_eos 9 0 7 eos_ex_G) h 9 ([] ++ [7])) eqn:E; [exfalso|reflexivity].
  assert (Hl : in_language eos_ex_G 0 []).
  { apply (proj1 (mask_eos_syntactic eos_ex_G 9 0 7 [] eos_ex_heads eos_ex_bodies
                    eos_ex_no_eos_terminal)). exists h. exact E. }
  destruct Hl as [h' Hl]. destruct h' as [|h']; [discriminate Hl|]. cbn in Hl. discriminate Hl.
Qed.

Print Assumptions eos_ex_token_reading.
Print Assumptions eos_ex_eos_reading.
Print Assumptions eos_ex_no_eos_reading.
