(* The definitions regenerated from fst.py (FST.T, FST.diag, FST.project; coq/gen/Gen_FstOps.v) coincide with the
   models the theorems of proofs/FstOpsProofs.v are about. *)
From Coq Require Import List Arith Bool.
From GV.lib Require Import Semiring BigSum.
From GV.model Require Import Wfsa Fst.
From GV.gen Require Import Gen_FstOps.
From GV.proofs Require Import FstOpsProofs.
Import ListNotations.

Section GenFstOpsBridge.
Variable S : SR.

Lemma gen_transpose_model (m : fst_t S) : gen_transpose S m = transpose m.
Proof. reflexivity. Qed.

Lemma gen_diag_model (A : wfsa S) : gen_diag S A = diag A.
Proof. reflexivity. Qed.

Lemma gen_project_in_model (m : fst_t S) : gen_project S true m = project_in m.
Proof. reflexivity. Qed.

Lemma gen_project_out_model (m : fst_t S) : gen_project S false m = project_out m.
Proof.
  unfold gen_project, project_out, project_in, transpose. cbn [tinit tfinal tarcs].
  rewrite map_map. f_equal.
Qed.

End GenFstOpsBridge.
Print Assumptions gen_project_out_model.
