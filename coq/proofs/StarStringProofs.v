(* Union for the epsilon-aware path sums, Kleene star, and the automaton of a single
   weighted string (WFSA.from_string).
   - pathsum_e (wunion a b) = pathsum_e a + pathsum_e b, for every fuel;
   - star = one + plus: A*(x) = [x = empty] + A+(x);
   - the machine built from a string xs with weight w gives w to xs and 0 to every
     other string.
   No axioms. *)
From Coq Require Import List Arith Bool Lia NArith.
From GV.lib Require Import Semiring BigSum.
From GV.model Require Import Cfg Wfsa WfsaEps.
From GV.proofs Require Import WfsaProofs RationalOps.
Import ListNotations.
Local Open Scope sr_scope.

Section StarString.
Variable S : SR.
Add Ring SRing : (sth S).

(* ------------------------------------------------------------------ *)
(* A. union, epsilon-aware                                              *)

Lemma ss_wget_app (u v : wvec S) q : wget (u ++ v) q = wget u q + wget v q.
Proof. unfold wget. apply bsum_app. Qed.

Lemma union_final_L (a b : wfsa S) q : wget (wfinal (wunion a b)) (tagL q) = wget (wfinal a) q.
Proof.
  rewrite wunion_final, ss_wget_app. unfold rename; cbn [wfinal].
  rewrite (ro_wget_rename S tagL tagL_inj).
  rewrite (ro_wget_other S tagR tagL); [ring|]. intros p r. apply tagL_tagR.
Qed.

Lemma union_final_R (a b : wfsa S) q : wget (wfinal (wunion a b)) (tagR q) = wget (wfinal b) q.
Proof.
  rewrite wunion_final, ss_wget_app. unfold rename; cbn [wfinal].
  rewrite (ro_wget_rename S tagR tagR_inj).
  rewrite (ro_wget_other S tagL tagR); [ring|]. intros p r. apply tagR_tagL.
Qed.

Lemma pwe_union_L (a b : wfsa S) : forall fuel q xs,
  pwe (wunion a b) fuel (tagL q) xs = pwe a fuel q xs.
Proof.
  induction fuel as [|f IH]; intros q xs.
  - rewrite !ro_pwe_O, union_final_L. reflexivity.
  - rewrite !ro_pwe_S, union_final_L. f_equal.
    rewrite wunion_arcs, bsum_app. unfold rename at 1 2; cbn [warcs]. rewrite !bsum_map.
    rewrite (bsum_zero _ (warcs b)).
    + match goal with |- ?l + 0 = ?r => transitivity l; [ring|] end.
      apply bsum_ext; intros ar _.
      rewrite ro_asrc, ro_albl, !ro_adst, !ro_awt, (eqb_inj tagL tagL_inj).
      destruct (Nat.eqb (asrc ar) q); [|reflexivity].
      destruct (albl ar) as [c|].
      * destruct xs as [|y t]; [reflexivity|]. rewrite IH. reflexivity.
      * rewrite IH. reflexivity.
    + intros ar _. rewrite ro_asrc, tagR_tagL. reflexivity.
Qed.

Lemma pwe_union_R (a b : wfsa S) : forall fuel q xs,
  pwe (wunion a b) fuel (tagR q) xs = pwe b fuel q xs.
Proof.
  induction fuel as [|f IH]; intros q xs.
  - rewrite !ro_pwe_O, union_final_R. reflexivity.
  - rewrite !ro_pwe_S, union_final_R. f_equal.
    rewrite wunion_arcs, bsum_app. unfold rename at 1 2; cbn [warcs]. rewrite !bsum_map.
    rewrite (bsum_zero _ (warcs a)).
    + match goal with |- 0 + ?l = ?r => transitivity l; [ring|] end.
      apply bsum_ext; intros ar _.
      rewrite ro_asrc, ro_albl, !ro_adst, !ro_awt, (eqb_inj tagR tagR_inj).
      destruct (Nat.eqb (asrc ar) q); [|reflexivity].
      destruct (albl ar) as [c|].
      * destruct xs as [|y t]; [reflexivity|]. rewrite IH. reflexivity.
      * rewrite IH. reflexivity.
    + intros ar _. rewrite ro_asrc, tagL_tagR. reflexivity.
Qed.

Theorem union_pathsum_e : forall (a b : wfsa S) fuel xs,
  pathsum_e (wunion a b) fuel xs = pathsum_e a fuel xs + pathsum_e b fuel xs.
Proof.
  intros a b fuel xs. unfold pathsum_e. rewrite wunion_init, bsum_app.
  unfold rename at 1 2; cbn [winit]. rewrite !bsum_map. f_equal.
  - apply bsum_ext; intros e _. cbn [fst snd]. rewrite pwe_union_L. reflexivity.
  - apply bsum_ext; intros e _. cbn [fst snd]. rewrite pwe_union_R. reflexivity.
Qed.

(* ------------------------------------------------------------------ *)
(* B. Kleene star                                                       *)

Theorem star_unfold : forall (a : wfsa S) (xs : list nat),
  (forall ar, In ar (warcs a) -> albl ar <> None) ->
  (forall i f, In i (winit a) -> In f (wfinal a) -> fst i <> fst f) ->
  forall fuel, 2 * length xs < fuel ->
  pathsum_e (wstar a) fuel xs = (match xs with [] => 1 | _ => 0 end) + kplus a (length xs) xs.
Proof.
  intros a xs Ha Hif fuel Hlen. unfold wstar.
  rewrite union_pathsum_e, (one_pathsum S xs fuel) by lia.
  rewrite (plus_unfold S a xs Ha Hif fuel Hlen). reflexivity.
Qed.

(* ------------------------------------------------------------------ *)
(* C. the automaton of one weighted string                              *)

Definition from_string (xs : list nat) (w : S) : wfsa S :=
  mkW [(O, 1)] [(length xs, w)]
      (map (fun ix => (fst ix, Some (snd ix), Datatypes.S (fst ix), 1)) (combine (seq 0 (length xs)) xs)).

(* a sum over the indexed letters that selects one index *)
Lemma ss_bsum_combine_seq (F : nat * nat -> S) : forall (l : list nat) o k,
  bsum (combine (seq o (length l)) l) (fun ix => if Nat.eqb (fst ix) (o + k) then F ix else 0)
  = match nth_error l k with Some x => F ((o + k)%nat, x) | None => 0 end.
Proof.
  induction l as [|x t IH]; intros o k.
  - cbn [length seq combine]. rewrite bsum_nil. destruct k; reflexivity.
  - cbn [length seq combine]. rewrite bsum_cons. cbn [fst].
    destruct k as [|k'].
    + rewrite Nat.add_0_r, Nat.eqb_refl. cbn [nth_error].
      rewrite bsum_zero; [ring|].
      intros [i y] Hin. cbn [fst]. apply in_combine_l in Hin. apply in_seq in Hin.
      destruct (Nat.eqb i o) eqn:E; [|reflexivity]. apply Nat.eqb_eq in E. lia.
    + cbn [nth_error]. replace (o + Datatypes.S k')%nat with (Datatypes.S o + k')%nat by lia.
      rewrite IH.
      assert (E : Nat.eqb o (Datatypes.S o + k') = false) by (apply Nat.eqb_neq; lia).
      rewrite E. ring.
Qed.

Lemma ss_skipn_nth_error {A} : forall (l : list A) k,
  skipn k l = match nth_error l k with Some x => x :: skipn (Datatypes.S k) l | None => [] end.
Proof.
  induction l as [|x t IH]; intros k.
  - destruct k; reflexivity.
  - destruct k as [|k']; [reflexivity|]. cbn [skipn nth_error]. rewrite IH.
    destruct (nth_error t k'); reflexivity.
Qed.

Lemma ss_nth_error_lt {A} (l : list A) k x : nth_error l k = Some x -> k < length l.
Proof. intros H. apply nth_error_Some. rewrite H. discriminate. Qed.

(* from state k the machine accepts exactly the suffix of xs starting at k *)
Lemma from_string_pw (xs : list nat) (w : S) : forall ys k, k <= length xs ->
  pw (from_string xs w) k ys = if list_eqb Nat.eqb ys (skipn k xs) then w else 0.
Proof.
  induction ys as [|y t IH]; intros k Hk.
  - cbn [pw]. unfold from_string; cbn [wfinal]. unfold wget.
    rewrite bsum_cons, bsum_nil. cbn [fst snd].
    rewrite ss_skipn_nth_error.
    destruct (nth_error xs k) as [x|] eqn:E.
    + apply ss_nth_error_lt in E. cbn [list_eqb].
      assert (E' : Nat.eqb k (length xs) = false) by (apply Nat.eqb_neq; lia).
      rewrite E'. ring.
    + apply nth_error_None in E. cbn [list_eqb].
      assert (E' : Nat.eqb k (length xs) = true) by (apply Nat.eqb_eq; lia).
      rewrite E'. ring.
  - cbn [pw]. unfold from_string at 1; cbn [warcs]. rewrite bsum_map.
    transitivity (bsum (combine (seq 0 (length xs)) xs) (fun ix =>
        if Nat.eqb (fst ix) (0 + k)
        then (if Nat.eqb y (snd ix) then pw (from_string xs w) (Datatypes.S (fst ix)) t else 0)
        else 0)).
    + apply bsum_ext; intros ix _.
      rewrite ro_asrc, ro_albl, ro_adst, ro_awt. cbn [lbl_eqb plus].
      destruct (Nat.eqb (fst ix) k); cbn [andb]; [|reflexivity].
      destruct (Nat.eqb y (snd ix)); ring.
    + rewrite (ss_bsum_combine_seq
                 (fun ix => if Nat.eqb y (snd ix) then pw (from_string xs w) (Datatypes.S (fst ix)) t else 0)).
      rewrite (ss_skipn_nth_error xs k).
      destruct (nth_error xs k) as [x|] eqn:E; [|reflexivity].
      apply ss_nth_error_lt in E. cbn [fst snd plus list_eqb].
      destruct (Nat.eqb y x); cbn [andb]; [|reflexivity].
      apply IH. lia.
Qed.

Theorem from_string_weight : forall (xs : list nat) (w : S) (ys : list nat),
  pathsum (from_string xs w) ys = if list_eqb Nat.eqb ys xs then w else 0.
Proof.
  intros xs w ys. unfold pathsum. unfold from_string at 1; cbn [winit].
  rewrite bsum_cons, bsum_nil. cbn [fst snd].
  rewrite (from_string_pw xs w ys 0) by lia. cbn [skipn]. ring.
Qed.

Theorem from_string_weight_call : forall xs w ys,
  weight (from_string xs w) ys = if list_eqb Nat.eqb ys xs then w else 0.
Proof. intros xs w ys. rewrite forward_pathsum. apply from_string_weight. Qed.

End StarString.

Arguments from_string {S} xs w.

Print Assumptions union_pathsum_e.
Print Assumptions star_unfold.
Print Assumptions from_string_weight.
Print Assumptions from_string_weight_call.

(* non-vacuity over the natural-number semiring *)
Local Close Scope sr_scope.
Definition ex_acc : wfsa NSR := @mkW NSR [(0, 1%N)] [(1, 1%N)] [(0, Some 7, 1, 2%N)].

Example StarString_nonvacuous :
  pathsum (@from_string NSR [3; 4] 5%N) [3; 4] = 5%N /\
  pathsum (@from_string NSR [3; 4] 5%N) [3] = 0%N /\
  pathsum_e (wstar ex_acc) 9 [7; 7] = 4%N /\
  pathsum_e (wstar ex_acc) 9 [] = 1%N.
Proof. vm_compute. repeat split; reflexivity. Qed.
Print Assumptions StarString_nonvacuous.
