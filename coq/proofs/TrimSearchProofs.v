(* WFSA.trim with its two graph searches (model/TrimSearch.v):
   1. [accessible_spec], [coaccessible_spec]   the computed sets are exactly the states reachable from an
      initial state / reaching a final state along arcs of the machine;
   2. [accessible_closed], [not_coaccessible_dead]   they satisfy the hypotheses of the parametric trim
      theorems of TrimWProofs.v;
   3. [trim_model_weight]   hence the modelled trim preserves the weight of every string, unconditionally;
   4. [trim_model_states_useful]   every kept state is accessible and co-accessible. *)
From Coq Require Import List Arith NArith Bool Lia.
From GV.lib Require Import Semiring BigSum.
From GV.model Require Import Wfsa TrimW TrimSearch.
From GV.proofs Require Import WfsaProofs TrimWProofs.
Import ListNotations.
Local Open Scope sr_scope.

(* ---------- membership test, add_if_new ---------- *)

Lemma inb_spec (x : nat) (l : list nat) : inb x l = true <-> In x l.
Proof.
  unfold inb. rewrite existsb_exists. split.
  - intros [y [Hy E]]. apply Nat.eqb_eq in E. subst; assumption.
  - intros H. exists x. split; [assumption|apply Nat.eqb_refl].
Qed.

Lemma inb_false (x : nat) (l : list nat) : inb x l = false <-> ~ In x l.
Proof.
  rewrite <- inb_spec. destruct (inb x l); split; intros H; try congruence.
  all: try (exfalso; apply H; reflexivity).
Qed.

Lemma inb_filter (f : nat -> bool) (A : list nat) (q : nat) : inb q (filter f A) = inb q A && f q.
Proof.
  induction A as [|a t IH]; [reflexivity|].
  simpl filter. destruct (f a) eqn:Fa.
  - change (inb q (a :: filter f t)) with (Nat.eqb q a || inb q (filter f t)).
    change (inb q (a :: t)) with (Nat.eqb q a || inb q t).
    rewrite IH. destruct (Nat.eqb q a) eqn:E.
    + apply Nat.eqb_eq in E. subst a. rewrite Fa. reflexivity.
    + reflexivity.
  - change (inb q (a :: t)) with (Nat.eqb q a || inb q t).
    rewrite IH. destruct (Nat.eqb q a) eqn:E.
    + apply Nat.eqb_eq in E. subst a. rewrite Fa. simpl. rewrite andb_false_r. reflexivity.
    + reflexivity.
Qed.

Lemma filter_filter' {A} (p q : A -> bool) (l : list A) :
  filter p (filter q l) = filter (fun x => q x && p x) l.
Proof.
  induction l as [|a t IH]; [reflexivity|]. simpl.
  destruct (q a); simpl; [destruct (p a); rewrite IH; reflexivity|exact IH].
Qed.

Lemma ain_length (R : list nat) (x : nat) : length R <= length (add_if_new R x).
Proof. unfold add_if_new. destruct (inb x R); simpl; lia. Qed.

Lemma ain_same (R : list nat) (x : nat) : length (add_if_new R x) = length R -> add_if_new R x = R /\ In x R.
Proof.
  unfold add_if_new. destruct (inb x R) eqn:E; simpl; intros H.
  - split; [reflexivity|apply inb_spec; assumption].
  - lia.
Qed.

Lemma ain_NoDup (R : list nat) (x : nat) : NoDup R -> NoDup (add_if_new R x).
Proof.
  intros H. unfold add_if_new. destruct (inb x R) eqn:E; [assumption|].
  constructor; [apply inb_false; assumption|assumption].
Qed.

Lemma ain_incl (R : list nat) (x : nat) : incl R (add_if_new R x).
Proof. unfold add_if_new. destruct (inb x R); [apply incl_refl|apply incl_tl, incl_refl]. Qed.

Lemma ain_In (R : list nat) (x : nat) : In x (add_if_new R x).
Proof. unfold add_if_new. destruct (inb x R) eqn:E; [apply inb_spec; assumption|left; reflexivity]. Qed.

Lemma ain_elems (R : list nat) (x y : nat) : In y (add_if_new R x) -> In y R \/ y = x.
Proof.
  unfold add_if_new. destruct (inb x R); intros H; [left; assumption|].
  destruct H as [H|H]; [right; symmetry; assumption|left; assumption].
Qed.

(* the de-duplicated initial states *)
Lemma afold_NoDup (xs : list nat) : forall R, NoDup R -> NoDup (fold_left add_if_new xs R).
Proof. induction xs as [|x t IH]; intros R H; simpl; [assumption|]. apply IH, ain_NoDup, H. Qed.

Lemma afold_incl (xs : list nat) : forall R, incl R (fold_left add_if_new xs R).
Proof.
  induction xs as [|x t IH]; intros R; simpl; [apply incl_refl|].
  eapply incl_tran; [apply ain_incl|apply IH].
Qed.

Lemma afold_all (xs : list nat) : forall R x, In x xs -> In x (fold_left add_if_new xs R).
Proof.
  induction xs as [|x0 t IH]; intros R x Hx; [destruct Hx|]. simpl.
  destruct Hx as [Hx|Hx].
  - subst x0. apply (afold_incl t). apply ain_In.
  - apply IH; assumption.
Qed.

Lemma afold_elems (xs : list nat) : forall R y, In y (fold_left add_if_new xs R) -> In y R \/ In y xs.
Proof.
  induction xs as [|x t IH]; intros R y H; simpl in H; [left; assumption|].
  destruct (IH _ _ H) as [H1|H1].
  - destruct (ain_elems _ _ _ H1) as [H2|H2]; [left; assumption|right; left; symmetry; assumption].
  - right; right; assumption.
Qed.

Section TrimSearchProofs.
Variable S : SR.
Add Ring SRing : (sth S).

(* ---------- paths ---------- *)

Inductive path_to (m : wfsa S) : nat -> nat -> Prop :=   (* q reaches q' along arcs of m *)
| pt_refl : forall q, path_to m q q
| pt_step : forall q ar q', In ar (warcs m) -> asrc ar = q -> path_to m (adst ar) q' -> path_to m q q'.

Lemma path_to_snoc (m : wfsa S) a b : path_to m a b ->
  forall ar, In ar (warcs m) -> asrc ar = b -> path_to m a (adst ar).
Proof.
  induction 1 as [q|q ar0 q' Har0 Hs0 _ IH]; intros ar Har Hs.
  - apply (pt_step m q ar (adst ar) Har Hs). apply pt_refl.
  - apply (pt_step m q ar0 (adst ar) Har0 Hs0). apply IH; assumption.
Qed.

(* paths of a machine whose arcs are all reversed arcs of another *)
Lemma path_to_flip (m1 m2 : wfsa S) :
  (forall ar, In ar (warcs m1) -> exists ar', In ar' (warcs m2) /\ asrc ar' = adst ar /\ adst ar' = asrc ar) ->
  forall a b, path_to m1 a b -> path_to m2 b a.
Proof.
  intros Hf a b. induction 1 as [q|q ar q' Har Hs _ IH].
  - apply pt_refl.
  - destruct (Hf ar Har) as [ar' [Har' [Es Ed]]].
    rewrite <- Hs, <- Ed. rewrite <- Es in IH. apply (path_to_snoc m2 q' (asrc ar') IH ar' Har' eq_refl).
Qed.

Lemma path_to_reverse (m : wfsa S) a b : path_to (wreverse m) a b <-> path_to m b a.
Proof.
  split; apply path_to_flip.
  - intros ar Har. simpl in Har. apply in_map_iff in Har. destruct Har as [ar0 [E Har0]].
    exists ar0. split; [assumption|]. subst ar. split; reflexivity.
  - intros ar Har. exists (adst ar, albl ar, asrc ar, awt ar). split; [|split; reflexivity].
    simpl. apply in_map_iff. exists ar. split; [reflexivity|assumption].
Qed.

(* paths of a sub-machine are paths of the machine *)
Lemma path_to_wtrim (K : list nat) (m : wfsa S) a b : path_to (wtrim K m) a b -> path_to m a b.
Proof.
  induction 1 as [q|q ar q' Har Hs _ IH].
  - apply pt_refl.
  - rewrite warcs_wtrim in Har. apply filter_In in Har. destruct Har as [Har _].
    apply (pt_step m q ar q' Har Hs IH).
Qed.

(* ---------- one step of the search ---------- *)

Definition aclosed (m : wfsa S) (R : list nat) : Prop :=
  forall ar, In ar (warcs m) -> In (asrc ar) R -> In (adst ar) R.

Lemma astep_length (R : list nat) (ar : arc S) : length R <= length (acc_step R ar).
Proof. unfold acc_step. destruct (inb (asrc ar) R); [apply ain_length|lia]. Qed.

Lemma astep_same (R : list nat) (ar : arc S) :
  length (acc_step R ar) = length R -> acc_step R ar = R /\ (In (asrc ar) R -> In (adst ar) R).
Proof.
  unfold acc_step. destruct (inb (asrc ar) R) eqn:Es.
  - intros H. destruct (ain_same _ _ H) as [E1 E2]. split; [exact E1|]. intros _. exact E2.
  - intros _. split; [reflexivity|]. intros H. apply inb_spec in H. congruence.
Qed.

Lemma astep_NoDup (R : list nat) (ar : arc S) : NoDup R -> NoDup (acc_step R ar).
Proof. intros H. unfold acc_step. destruct (inb (asrc ar) R); [apply ain_NoDup, H|assumption]. Qed.

Lemma astep_incl (R : list nat) (ar : arc S) : incl R (acc_step R ar).
Proof. unfold acc_step. destruct (inb (asrc ar) R); [apply ain_incl|apply incl_refl]. Qed.

Lemma astep_elems (R : list nat) (ar : arc S) y :
  In y (acc_step R ar) -> In y R \/ (In (asrc ar) R /\ y = adst ar).
Proof.
  unfold acc_step. destruct (inb (asrc ar) R) eqn:Es; [|intros H; left; exact H].
  intros H. destruct (ain_elems _ _ _ H) as [H1|H1]; [left; assumption|].
  right. split; [apply inb_spec; assumption|assumption].
Qed.

(* ---------- a pass / the iteration ---------- *)

Lemma afold_inv (P : list nat -> Prop) (m : wfsa S) :
  (forall R ar, In ar (warcs m) -> P R -> P (acc_step R ar)) ->
  forall l, incl l (warcs m) -> forall R, P R -> P (fold_left acc_step l R).
Proof.
  intros Hstep l. induction l as [|r t IH]; intros Hl R HR; simpl; [assumption|].
  apply IH.
  - intros x Hx. apply Hl. right; assumption.
  - apply Hstep; [apply Hl; left; reflexivity|assumption].
Qed.

Lemma acc_pass_inv (P : list nat -> Prop) (m : wfsa S) :
  (forall R ar, In ar (warcs m) -> P R -> P (acc_step R ar)) -> forall R, P R -> P (acc_pass m R).
Proof. intros Hstep R HR. unfold acc_pass. apply (afold_inv P m Hstep (warcs m) (incl_refl _) R HR). Qed.

Lemma acc_iter_inv (P : list nat -> Prop) (m : wfsa S) :
  (forall R ar, In ar (warcs m) -> P R -> P (acc_step R ar)) -> forall fuel R, P R -> P (acc_iter m fuel R).
Proof.
  intros Hstep fuel. induction fuel as [|f IH]; intros R HR; simpl; [assumption|].
  apply IH. apply acc_pass_inv; assumption.
Qed.

Lemma sfold_length (l : list (arc S)) : forall R, length R <= length (fold_left acc_step l R).
Proof.
  induction l as [|r t IH]; intros R; simpl; [lia|].
  specialize (IH (acc_step R r)). pose proof (astep_length R r). lia.
Qed.

Lemma acc_pass_length (m : wfsa S) R : length R <= length (acc_pass m R).
Proof. unfold acc_pass. apply sfold_length. Qed.

(* a pass that adds nothing: R is closed w.r.t. the arcs scanned *)
Lemma sfold_same_length (l : list (arc S)) : forall R,
  length (fold_left acc_step l R) = length R ->
  forall ar, In ar l -> In (asrc ar) R -> In (adst ar) R.
Proof.
  induction l as [|r0 t IH]; intros R Hlen ar Har; [destruct Har|].
  simpl in Hlen.
  pose proof (astep_length R r0) as H1.
  pose proof (sfold_length t (acc_step R r0)) as H2.
  assert (Hs : length (acc_step R r0) = length R) by lia.
  destruct (astep_same R r0 Hs) as [Heq Hcl].
  rewrite Heq in Hlen.
  destruct Har as [Har|Har].
  - subst r0. exact Hcl.
  - apply (IH R Hlen ar Har).
Qed.

Lemma acc_pass_same_length_closed (m : wfsa S) R : length (acc_pass m R) = length R -> aclosed m R.
Proof. intros H ar Har. unfold acc_pass in H. apply (sfold_same_length (warcs m) R H ar Har). Qed.

Lemma astep_closed_id (m : wfsa S) R ar : aclosed m R -> In ar (warcs m) -> acc_step R ar = R.
Proof.
  intros Hcl Har. unfold acc_step. destruct (inb (asrc ar) R) eqn:Es; [|reflexivity].
  apply inb_spec in Es. pose proof (Hcl ar Har Es) as Hd. apply inb_spec in Hd.
  unfold add_if_new. rewrite Hd. reflexivity.
Qed.

Lemma acc_pass_closed_id (m : wfsa S) R : aclosed m R -> acc_pass m R = R.
Proof.
  intros Hcl. unfold acc_pass.
  assert (H : forall l, incl l (warcs m) -> fold_left acc_step l R = R).
  { induction l as [|r t IH]; intros Hl; simpl; [reflexivity|].
    rewrite (astep_closed_id m R r Hcl) by (apply Hl; left; reflexivity).
    apply IH. intros x Hx; apply Hl; right; assumption. }
  apply H, incl_refl.
Qed.

Lemma acc_iter_closed_id (m : wfsa S) fuel R : aclosed m R -> acc_iter m fuel R = R.
Proof.
  intros Hcl. induction fuel as [|f IH]; simpl; [reflexivity|].
  rewrite acc_pass_closed_id by assumption. exact IH.
Qed.

Lemma acc_pass_NoDup (m : wfsa S) R : NoDup R -> NoDup (acc_pass m R).
Proof. apply (acc_pass_inv (@NoDup nat) m). intros; apply astep_NoDup; assumption. Qed.

(* the set stays inside any list B holding all arc targets *)
Lemma acc_pass_bound (m : wfsa S) (B : list nat) R :
  (forall ar, In ar (warcs m) -> In (adst ar) B) -> incl R B -> incl (acc_pass m R) B.
Proof.
  intros HB. apply (acc_pass_inv (fun R => incl R B) m).
  intros R0 ar Har HR y Hy. destruct (astep_elems R0 ar y Hy) as [H1|[_ H1]]; [apply HR; assumption|].
  subst y. apply HB; assumption.
Qed.

(* pigeonhole: the set is duplicate-free and stays inside B, so with enough fuel a pass is stationary *)
Lemma acc_iter_closed (m : wfsa S) (B : list nat) :
  (forall ar, In ar (warcs m) -> In (adst ar) B) ->
  forall fuel R, NoDup R -> incl R B -> length B < fuel + length R -> aclosed m (acc_iter m fuel R).
Proof.
  intros HB. induction fuel as [|f IH]; intros R Hnd Hincl Hlen.
  - exfalso. pose proof (NoDup_incl_length Hnd Hincl). simpl in Hlen. lia.
  - simpl. destruct (Nat.eq_dec (length (acc_pass m R)) (length R)) as [E|E].
    + pose proof (acc_pass_same_length_closed m R E) as Hcl.
      rewrite acc_pass_closed_id by assumption.
      rewrite acc_iter_closed_id by assumption. assumption.
    + apply IH.
      * apply acc_pass_NoDup; assumption.
      * apply acc_pass_bound; assumption.
      * pose proof (acc_pass_length m R). lia.
Qed.

(* ---------- the accessible set ---------- *)

Definition init0 (m : wfsa S) : list nat := fold_left add_if_new (map fst (winit m)) [].

Lemma accessible_aclosed (m : wfsa S) : aclosed m (accessible m).
Proof.
  unfold accessible. fold (init0 m).
  apply (acc_iter_closed m (init0 m ++ map adst (warcs m))).
  - intros ar Har. apply in_or_app. right. apply in_map; assumption.
  - apply afold_NoDup. constructor.
  - apply incl_appl, incl_refl.
  - rewrite app_length, map_length. simpl. lia.
Qed.

Lemma accessible_init (m : wfsa S) e : In e (winit m) -> In (fst e) (accessible m).
Proof.
  intros He. unfold accessible.
  apply (acc_iter_inv (fun R => In (fst e) R) m).
  - intros R ar _ HR. apply (astep_incl R ar). assumption.
  - apply afold_all. apply in_map; assumption.
Qed.

Theorem accessible_closed : forall (m : wfsa S),
  closed_succ S m (accessible m) /\ (forall e, In e (winit m) -> inb (fst e) (accessible m) = true).
Proof.
  intros m. split.
  - intros ar Har Hs. apply inb_spec. apply inb_spec in Hs. apply (accessible_aclosed m ar Har Hs).
  - intros e He. apply inb_spec. apply accessible_init; assumption.
Qed.

Theorem accessible_spec : forall (m : wfsa S) (q : nat),
  In q (accessible m) <-> exists e, In e (winit m) /\ path_to m (fst e) q.
Proof.
  intros m q. split.
  - revert q. unfold accessible.
    apply (acc_iter_inv (fun R => forall q, In q R -> exists e, In e (winit m) /\ path_to m (fst e) q) m).
    + intros R ar Har HR q Hq.
      destruct (astep_elems R ar q Hq) as [H1|[Hs Hd]]; [apply HR; assumption|].
      destruct (HR _ Hs) as [e [He Hp]]. exists e. split; [assumption|].
      subst q. apply (path_to_snoc m (fst e) (asrc ar) Hp ar Har eq_refl).
    + intros q Hq. destruct (afold_elems _ _ _ Hq) as [[]|H1].
      apply in_map_iff in H1. destruct H1 as [e [E He]]. exists e. split; [assumption|].
      rewrite E. apply pt_refl.
  - intros [e [He Hp]]. pose proof (accessible_init m e He) as H0.
    induction Hp as [q|q ar q' Har Hs _ IH]; [assumption|].
    apply IH. apply (accessible_aclosed m ar Har). rewrite Hs. assumption.
Qed.

Theorem coaccessible_spec : forall (m : wfsa S) (q : nat),
  In q (coaccessible m) <-> exists e, In e (wfinal m) /\ path_to m q (fst e).
Proof.
  intros m q. unfold coaccessible. rewrite accessible_spec. simpl winit.
  split; intros [e [He Hp]]; exists e; (split; [assumption|]); apply path_to_reverse; assumption.
Qed.

(* ---------- a state with no path to a final entry is dead ---------- *)

Lemma no_path_dead : forall (m : wfsa S) (q : nat),
  (forall e, In e (wfinal m) -> ~ path_to m q (fst e)) -> dead S m q.
Proof.
  intros m q Hq xs. revert q Hq. induction xs as [|a xs IH]; intros q Hq.
  - rewrite pw_nil. unfold wget. apply bsum_zero. intros e He.
    destruct (Nat.eqb q (fst e)) eqn:E; [|reflexivity].
    apply Nat.eqb_eq in E. exfalso. apply (Hq e He). rewrite <- E. apply pt_refl.
  - rewrite pw_cons. apply bsum_zero. intros ar Har.
    destruct (Nat.eqb (asrc ar) q) eqn:E; [|reflexivity].
    apply Nat.eqb_eq in E. cbn [andb].
    rewrite (IH (adst ar)).
    + destruct (lbl_eqb (albl ar) a); ring.
    + intros e He Hp. apply (Hq e He). apply (pt_step m q ar (fst e) Har E Hp).
Qed.

Theorem not_coaccessible_dead : forall (m : wfsa S) (q : nat),
  inb q (coaccessible m) = false -> dead S m q.
Proof.
  intros m q Hq. apply no_path_dead. intros e He Hp.
  apply inb_false in Hq. apply Hq. apply coaccessible_spec. exists e. split; assumption.
Qed.

(* the same in a sub-machine: its paths and final entries are those of the machine *)
Lemma not_coaccessible_dead_wtrim (K : list nat) (m : wfsa S) (q : nat) :
  inb q (coaccessible m) = false -> dead S (wtrim K m) q.
Proof.
  intros Hq. apply no_path_dead. intros e He Hp.
  rewrite wfinal_wtrim in He. apply filter_In in He. destruct He as [He _].
  apply inb_false in Hq. apply Hq. apply coaccessible_spec. exists e.
  split; [assumption|]. apply (path_to_wtrim K m q (fst e) Hp).
Qed.

(* ---------- trimming to an intersection is trimming twice ---------- *)

Lemma wtrim_filter (A C : list nat) (m : wfsa S) :
  wtrim (filter (fun q => inb q C) A) m = wtrim C (wtrim A m).
Proof.
  unfold wtrim. cbn [winit wfinal warcs]. f_equal.
  - rewrite filter_filter'. apply filter_ext. intros e. apply (inb_filter (fun q => inb q C)).
  - rewrite filter_filter'. apply filter_ext. intros e. apply (inb_filter (fun q => inb q C)).
  - rewrite filter_filter'. apply filter_ext. intros ar.
    rewrite !(inb_filter (fun q => inb q C)).
    destruct (inb (asrc ar) A), (inb (adst ar) A), (inb (asrc ar) C), (inb (adst ar) C); reflexivity.
Qed.

Theorem trim_model_weight : forall (m : wfsa S) (xs : list nat), weight (trim_model m) xs = weight m xs.
Proof.
  intros m xs. unfold trim_model, active. rewrite wtrim_filter.
  destruct (accessible_closed m) as [Hc Hi].
  apply (trim_both_weight S m (accessible m) (coaccessible m) Hc Hi).
  intros q Hq. apply not_coaccessible_dead_wtrim; assumption.
Qed.

Theorem trim_model_states_useful : forall (m : wfsa S) (q : nat), In q (active m) ->
  (exists e, In e (winit m) /\ path_to m (fst e) q) /\ (exists e, In e (wfinal m) /\ path_to m q (fst e)).
Proof.
  intros m q Hq. unfold active in Hq. apply filter_In in Hq. destruct Hq as [Ha Hc].
  split; [apply accessible_spec; assumption|]. apply coaccessible_spec. apply inb_spec; assumption.
Qed.

End TrimSearchProofs.
Arguments path_to {S} m _ _. Arguments aclosed {S} m R.

Print Assumptions accessible_spec.
Print Assumptions coaccessible_spec.
Print Assumptions accessible_closed.
Print Assumptions not_coaccessible_dead.
Print Assumptions trim_model_weight.
Print Assumptions trim_model_states_useful.

(* ---------- non-vacuity ---------- *)
(* init 0, final 2;  0 -5-> 1 (2), 1 -6-> 2 (3), 1 -7-> 3 (1) [3 is a dead end], 4 -5-> 2 (1) [4 is unreachable] *)
Definition ts_ex : wfsa NSR :=
  @mkW NSR [(O, 1%N)] [(2%nat, 1%N)]
      [ (O, Some 5%nat, 1%nat, 2%N); (1%nat, Some 6%nat, 2%nat, 3%N);
        (1%nat, Some 7%nat, 3%nat, 1%N); (4%nat, Some 5%nat, 2%nat, 1%N) ].

Example ts_ex_accessible : accessible ts_ex = [3%nat; 2%nat; 1%nat; O].
Proof. vm_compute. reflexivity. Qed.
Example ts_ex_coaccessible : coaccessible ts_ex = [O; 4%nat; 1%nat; 2%nat].
Proof. vm_compute. reflexivity. Qed.
Example ts_ex_active : active ts_ex = [2%nat; 1%nat; O].
Proof. vm_compute. reflexivity. Qed.
Example ts_ex_weight : weight (trim_model ts_ex) [5%nat; 6%nat] = 6%N /\ weight ts_ex [5%nat; 6%nat] = 6%N.
Proof. vm_compute. split; reflexivity. Qed.
Example ts_ex_arcs : length (warcs (trim_model ts_ex)) = 2%nat.
Proof. vm_compute. reflexivity. Qed.

Print Assumptions ts_ex_accessible.
Print Assumptions ts_ex_active.
Print Assumptions ts_ex_weight.
Print Assumptions ts_ex_arcs.
