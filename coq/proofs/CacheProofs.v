(* Memoised incremental parsing (model/Cache.v): every answer in every history of
   queries and cache clears equals the answer of a fresh object to that query alone. *)
From Coq Require Import List Arith Bool Lia.
From GV.model Require Import Cache.
Import ListNotations.

Section CacheProofs.
Variable col : Type.
Variable init : col.
Variable next : list col -> nat -> col.
Variable out : Type.
Variable answer : list col -> list nat -> out.

Lemma lookup_cons (k : list nat) (c : list col) (m : cache col) (r : list nat) :
  lookup ((k, c) :: m) r = if list_eq_dec Nat.eq_dec k r then Some c else lookup m r.
Proof. reflexivity. Qed.

Lemma cache_ok_nil : cache_ok init next (@nil (list nat * list col)).
Proof. intros r c H. simpl in H. discriminate H. Qed.

Lemma cache_ok_cons (k : list nat) (m : cache col) :
  cache_ok init next m -> cache_ok init next ((k, cols_r init next k) :: m).
Proof.
  intros Hok r c H. rewrite lookup_cons in H.
  destruct (list_eq_dec Nat.eq_dec k r) as [E|E].
  - inversion H; subst; reflexivity.
  - apply Hok; exact H.
Qed.

Lemma get_chart_nil (m : cache col) :
  get_chart init next m [] =
  match lookup m [] with Some c => (c, m) | None => ([init], ([], [init]) :: m) end.
Proof. destruct m; reflexivity. Qed.

Lemma get_chart_cons (m : cache col) (a : nat) (r' : list nat) :
  get_chart init next m (a :: r') =
  match lookup m (a :: r') with
  | Some c => (c, m)
  | None => let (c, m') := get_chart init next m r' in
            let c' := c ++ [next c a] in (c', (a :: r', c') :: m')
  end.
Proof. reflexivity. Qed.

Lemma get_chart_spec : forall (m : cache col) (r : list nat), cache_ok init next m ->
  fst (get_chart init next m r) = cols_r init next r /\
  cache_ok init next (snd (get_chart init next m r)).
Proof.
  intros m r; revert m. induction r as [|a r' IH]; intros m Hok.
  - rewrite get_chart_nil. destruct (lookup m []) as [c|] eqn:E; simpl.
    + split; [exact (Hok _ _ E)|exact Hok].
    + split; [reflexivity|]. apply (cache_ok_cons [] m Hok).
  - rewrite get_chart_cons. destruct (lookup m (a :: r')) as [c|] eqn:E.
    + simpl. split; [exact (Hok _ _ E)|exact Hok].
    + destruct (IH m Hok) as [H1 H2].
      destruct (get_chart init next m r') as [c m'] eqn:G. simpl in H1, H2. subst c.
      simpl. split; [reflexivity|].
      apply (cache_ok_cons (a :: r') m' H2).
Qed.

Theorem step_history_independent : forall m o, cache_ok init next m ->
  snd (step init next answer m o) = fresh_answer init next answer o /\
  cache_ok init next (fst (step init next answer m o)).
Proof.
  intros m o Hok. destruct o as [r|]; simpl.
  - destruct (get_chart_spec m r Hok) as [H1 H2].
    destruct (get_chart init next m r) as [c m'] eqn:G. simpl in *. subst c.
    split; [reflexivity|exact H2].
  - split; [reflexivity|apply cache_ok_nil].
Qed.

Theorem run_history_independent : forall (ops : list op) (m : cache col), cache_ok init next m ->
  snd (run init next answer m ops) = map (fresh_answer init next answer) ops /\
  cache_ok init next (fst (run init next answer m ops)).
Proof.
  induction ops as [|o t IH]; intros m Hok.
  - simpl. split; [reflexivity|exact Hok].
  - simpl. destruct (step_history_independent m o Hok) as [H1 H2].
    destruct (step init next answer m o) as [m' a] eqn:St. simpl in H1, H2.
    destruct (IH m' H2) as [H3 H4].
    destruct (run init next answer m' t) as [m'' l] eqn:Rn. simpl in *.
    split; [rewrite H1, H3; reflexivity|exact H4].
Qed.

Corollary run_from_empty : forall ops,
  snd (run init next answer [] ops) = map (fresh_answer init next answer) ops.
Proof. intros ops. apply (run_history_independent ops [] cache_ok_nil). Qed.

Theorem run_split : forall ops1 ops2 m,
  snd (run init next answer m (ops1 ++ ops2)) =
  snd (run init next answer m ops1) ++
  snd (run init next answer (fst (run init next answer m ops1)) ops2).
Proof.
  induction ops1 as [|o t IH]; intros ops2 m.
  - reflexivity.
  - simpl. destruct (step init next answer m o) as [m' a] eqn:St.
    specialize (IH ops2 m').
    destruct (run init next answer m' (t ++ ops2)) as [m2 l2] eqn:R2.
    destruct (run init next answer m' t) as [m1 l1] eqn:R1.
    simpl in *. rewrite IH. reflexivity.
Qed.

End CacheProofs.

Print Assumptions get_chart_spec.
Print Assumptions step_history_independent.
Print Assumptions run_history_independent.
Print Assumptions run_from_empty.
Print Assumptions run_split.
