(* Liveness recomputed relative to the character set: in the automaton built from
   [with_live charset D] every arc leads to a state with a positive fan-out, hence to a state
   whose outgoing + final mass is one (no dead ends). *)
From Coq Require Import List Arith Bool ZArith QArith Qcanon Lia.
From GV.lib Require Import Semiring BigSum.
From GV.model Require Import Regex RegexLive.
From GV.proofs Require Import RegexProofs.
Import ListNotations.

(* ---------- membership ---------- *)

Lemma memn_true_In : forall x l, memn x l = true -> In x l.
Proof.
  intros x l H. unfold memn in H. apply existsb_exists in H.
  destruct H as [y [Hy Heq]]. apply Nat.eqb_eq in Heq. subst y. exact Hy.
Qed.

Lemma In_memn_true : forall x l, In x l -> memn x l = true.
Proof.
  intros x l H. unfold memn. apply existsb_exists.
  exists x. split; [exact H|apply Nat.eqb_refl].
Qed.

(* ---------- monotonicity ---------- *)

Lemma moves_into_mono : forall charset D L L' outs,
  incl L L' -> moves_into charset D L outs = true -> moves_into charset D L' outs = true.
Proof.
  intros charset D L L' outs Hincl H. unfold moves_into in *.
  apply existsb_exists in H. destruct H as [cj [Hcj Hb]].
  apply andb_true_iff in Hb. destruct Hb as [Hm Hs].
  apply existsb_exists. exists cj. split; [exact Hcj|].
  apply andb_true_iff. split; [|exact Hs].
  apply In_memn_true. apply Hincl. apply memn_true_In. exact Hm.
Qed.

Lemma live_step_incl : forall charset D L, incl L (live_step charset D L).
Proof. intros charset D L x Hx. unfold live_step. apply in_or_app. left. exact Hx. Qed.

Lemma live_iter_mono : forall charset D fuel L x, In x L -> In x (live_iter charset D fuel L).
Proof.
  intros charset D fuel. induction fuel as [|f IH]; intros L x Hx.
  - exact Hx.
  - cbn [live_iter]. apply IH. apply live_step_incl. exact Hx.
Qed.

(* ---------- every live state is justified ---------- *)

Definition justified (charset : list nat) (D : dfa) (L : list nat) : Prop :=
  forall i, In i L ->
    In i (d_finals D) \/ exists outs, In (i, outs) (d_map D) /\ moves_into charset D L outs = true.

Lemma justified_step : forall charset D L,
  justified charset D L -> justified charset D (live_step charset D L).
Proof.
  intros charset D L HJ i Hi.
  pose proof (live_step_incl charset D L) as Hincl.
  unfold live_step in Hi. apply in_app_or in Hi. destruct Hi as [Hi|Hi].
  - destruct (HJ i Hi) as [Hf|[outs [He Hm]]]; [left; exact Hf|].
    right. exists outs. split; [exact He|].
    apply (moves_into_mono charset D L _ outs Hincl Hm).
  - apply in_flat_map in Hi. destruct Hi as [[i' outs] [He Hin]].
    cbn [fst snd] in Hin.
    destruct (negb (memn i' L) && moves_into charset D L outs) eqn:Eb; [|destruct Hin].
    destruct Hin as [Heq|[]]. subst i'.
    apply andb_true_iff in Eb. destruct Eb as [_ Hm].
    right. exists outs. split; [exact He|].
    apply (moves_into_mono charset D L _ outs Hincl Hm).
Qed.

Lemma justified_iter : forall charset D fuel L,
  justified charset D L -> justified charset D (live_iter charset D fuel L).
Proof.
  intros charset D fuel. induction fuel as [|f IH]; intros L HJ.
  - exact HJ.
  - cbn [live_iter]. apply IH. apply justified_step. exact HJ.
Qed.

Lemma live_of_justified : forall charset D i, In i (live_of charset D) ->
  In i (d_finals D) \/ exists outs, In (i, outs) (d_map D) /\ moves_into charset D (live_of charset D) outs = true.
Proof.
  intros charset D. unfold live_of.
  apply (justified_iter charset D (S (length (d_map D))) (d_finals D)).
  intros i Hi. left. exact Hi.
Qed.

(* ---------- a move into the live set is a move of [with_live] ---------- *)

Lemma moves_into_moves : forall charset D outs,
  moves_into charset D (live_of charset D) outs = true ->
  exists x j, In (x, j) (moves charset (with_live charset D) outs).
Proof.
  intros charset D outs H. unfold moves_into in H.
  apply existsb_exists in H. destruct H as [[c j] [Hcj Hb]].
  cbn [fst snd] in Hb.
  apply andb_true_iff in Hb. destruct Hb as [Hm Hs].
  unfold single_char_class in Hs. apply existsb_exists in Hs.
  destruct Hs as [s [Hs Hshape]].
  destruct s as [|x [|z s']]; try discriminate Hshape.
  exists x, j. unfold moves. apply in_flat_map. exists (c, j). split; [exact Hcj|].
  cbn [fst snd].
  change (d_live (with_live charset D)) with (live_of charset D). rewrite Hm.
  apply in_flat_map. exists [x]. split.
  - change (expand charset (with_live charset D) c) with (expand charset D c). exact Hs.
  - left. reflexivity.
Qed.

(* ---------- targets of arcs have a positive fan-out ---------- *)

Theorem with_live_targets_positive : forall charset D i x j w outs_j,
  In (i, x, j, w) (re_arcs charset (with_live charset D)) -> In (j, outs_j) (d_map D) ->
  (forall e1 e2, In e1 (d_map D) -> In e2 (d_map D) -> fst e1 = fst e2 -> e1 = e2) ->
  fanout charset (with_live charset D) j outs_j <> O.
Proof.
  intros charset D i x j w outs_j Harc Hej Huniq.
  apply regex_arcs_single_char in Harc.
  destruct Harc as [outs_i [_ [Hmv _]]].
  apply regex_moves_live in Hmv. destruct Hmv as [Hlive _].
  change (d_live (with_live charset D)) with (live_of charset D) in Hlive.
  apply memn_true_In in Hlive.
  unfold fanout.
  change (d_finals (with_live charset D)) with (d_finals D).
  destruct (live_of_justified charset D j Hlive) as [Hf|[outs' [He' Hm]]].
  - rewrite (In_memn_true _ _ Hf). lia.
  - assert (Heq : (j, outs') = (j, outs_j)) by (apply Huniq; [exact He'|exact Hej|reflexivity]).
    injection Heq as Heq. subst outs'.
    destruct (moves_into_moves charset D outs_j Hm) as [x' [j' Hin]].
    destruct (moves charset (with_live charset D) outs_j) as [|m ms]; [destruct Hin|].
    cbn [length]. lia.
Qed.

Corollary with_live_targets_normalised : forall charset D i x j w outs_j,
  In (i, x, j, w) (re_arcs charset (with_live charset D)) -> In (j, outs_j) (d_map D) ->
  (forall e1 e2, In e1 (d_map D) -> In e2 (d_map D) -> fst e1 = fst e2 -> e1 = e2) ->
  re_mass charset (with_live charset D) (j, outs_j) = 1%Qc.
Proof.
  intros charset D i x j w outs_j Harc Hej Huniq.
  apply regex_locally_normalised. cbn [fst snd].
  exact (with_live_targets_positive charset D i x j w outs_j Harc Hej Huniq).
Qed.

Print Assumptions live_iter_mono.
Print Assumptions live_of_justified.
Print Assumptions with_live_targets_positive.
Print Assumptions with_live_targets_normalised.
