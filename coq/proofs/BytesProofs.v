(* WFSA.to_bytes: the byte automaton gives every byte string the total weight of the
   symbol strings whose encoding it is.  No axioms. *)
From Coq Require Import List Arith Bool Lia.
From GV.lib Require Import Semiring BigSum.
From GV.model Require Import Wfsa Bytes.
From GV.proofs Require Import WfsaProofs.
Import ListNotations.
Local Open Scope sr_scope.

Section BytesProofs.
Variable S : SR.
Add Ring SRing : (sth S).
Variable enc : nat -> list nat.
Variable fresh : nat -> nat -> nat.

(* ------------------------------------------------------------------ *)
(* generic helpers                                                      *)

Lemma match_nonnil {A B} (l : list A) (X Y : B) :
  l <> [] -> match l with [] => Y | _ :: _ => X end = X.
Proof. destruct l; [congruence|reflexivity]. Qed.

Lemma skipn_cons_S (l : list nat) : forall n x t,
  skipn n l = x :: t -> skipn (Datatypes.S n) l = t.
Proof.
  induction l as [|y l IH]; intros n x t H.
  - destruct n; discriminate.
  - destruct n as [|n].
    + cbn [skipn] in *. injection H as _ H. destruct l; exact H.
    + cbn [skipn] in H. change (skipn (Datatypes.S (Datatypes.S n)) (y :: l)) with (skipn (Datatypes.S n) l).
      apply (IH n x t H).
Qed.

Lemma strip_length (c : list nat) : forall bs r,
  strip c bs = Some r -> length bs = (length c + length r)%nat.
Proof.
  induction c as [|a c IH]; intros bs r H.
  - cbn [strip] in H. injection H as H; subst; reflexivity.
  - destruct bs as [|b t]; cbn [strip] in H; [discriminate|].
    destruct (Nat.eqb a b); [|discriminate].
    cbn [length]. rewrite (IH t r H). reflexivity.
Qed.

Lemma bsum_combine_snd {A} (l : list A) : forall s (f : A -> S),
  bsum (combine (seq s (length l)) l) (fun ka => f (snd ka)) = bsum l f.
Proof.
  induction l as [|x l IH]; intros s f; cbn [length seq combine]; [reflexivity|].
  rewrite !bsum_cons, IH. reflexivity.
Qed.

Lemma bsum_combine_delta {A} (l : list A) : forall s k x (H : nat * A -> S),
  In (k, x) (combine (seq s (length l)) l) ->
  bsum (combine (seq s (length l)) l) (fun ka => if Nat.eqb (fst ka) k then H ka else 0) = H (k, x).
Proof.
  induction l as [|y l IH]; intros s k x H Hin; cbn [length seq combine] in *; [contradiction|].
  rewrite bsum_cons. cbn [fst]. destruct Hin as [Heq | Hin].
  - injection Heq as Hs Hy. subst s y. rewrite Nat.eqb_refl.
    rewrite bsum_zero; [ring|]. intros [k' z] Hin'. cbn [fst].
    apply in_combine_l in Hin'. apply in_seq in Hin'.
    assert (E : Nat.eqb k' k = false) by (apply Nat.eqb_neq; lia).
    rewrite E. reflexivity.
  - pose proof (in_combine_l _ _ _ _ Hin) as Hk. apply in_seq in Hk.
    assert (E : Nat.eqb s k = false) by (apply Nat.eqb_neq; lia).
    rewrite E. rewrite (IH _ k x H Hin). ring.
Qed.

(* ------------------------------------------------------------------ *)
(* one reading step out of state s on byte b, continuing with G        *)

Definition stepF (s b : nat) (G : nat -> S) (x : arc S) : S :=
  if Nat.eqb (asrc x) s && lbl_eqb (albl x) b then awt x * G (adst x) else 0.

Lemma stepF_off s b G x : asrc x <> s -> stepF s b G x = 0.
Proof.
  intros H. unfold stepF. assert (E : Nat.eqb (asrc x) s = false) by (apply Nat.eqb_neq; exact H).
  rewrite E. reflexivity.
Qed.

Lemma chain_one k i p c0 q (w : S) : chain fresh k i p [c0] q w = [(p, Some c0, q, w)].
Proof. reflexivity. Qed.
Lemma chain_cons2 k i p c0 c1 rest q (w : S) :
  chain fresh k i p (c0 :: c1 :: rest) q w
  = (p, Some c0, fresh k i, 1) :: chain fresh k (Datatypes.S i) (fresh k i) (c1 :: rest) q w.
Proof. reflexivity. Qed.

Section Inj.
Hypothesis fresh_inj : forall k i k' i', fresh k i = fresh k' i' -> k = k' /\ i = i'.

Section Chain.
Variables (k q : nat) (w : S) (b : nat) (G : nat -> S).

(* value of the first arc of a chain reading code word c (next fresh index i) *)
Definition hv (c : list nat) (i : nat) : S :=
  match c with
  | [] => 0
  | r :: rest => if Nat.eqb r b then match rest with [] => w * G q | _ :: _ => G (fresh k i) end else 0
  end.

Lemma chain_off s : forall c i p,
  p <> s -> (forall j, i <= j -> fresh k j <> s) ->
  bsum (chain fresh k i p c q w) (stepF s b G) = 0.
Proof.
  induction c as [|c0 c IH]; intros i p Hp Hf; [reflexivity|].
  destruct c as [|c1 rest].
  - rewrite chain_one, bsum_cons, bsum_nil. rewrite stepF_off by exact Hp. ring.
  - rewrite chain_cons2, bsum_cons. rewrite stepF_off by exact Hp.
    rewrite IH; [ring| |].
    + apply Hf. lia.
    + intros j Hj. apply Hf. lia.
Qed.

Lemma chain_head : forall c i p,
  (forall j, i <= j -> fresh k j <> p) ->
  bsum (chain fresh k i p c q w) (stepF p b G) = hv c i.
Proof.
  intros c i p Hf. destruct c as [|c0 c]; [reflexivity|].
  destruct c as [|c1 rest].
  - rewrite chain_one, bsum_cons, bsum_nil. unfold stepF, hv, asrc, albl, adst, awt. cbn [fst snd lbl_eqb].
    rewrite Nat.eqb_refl. cbn [andb]. rewrite (Nat.eqb_sym b c0). destruct (Nat.eqb c0 b); ring.
  - rewrite chain_cons2, bsum_cons. rewrite chain_off.
    + unfold stepF, hv, asrc, albl, adst, awt. cbn [fst snd lbl_eqb].
      rewrite Nat.eqb_refl. cbn [andb]. rewrite (Nat.eqb_sym b c0). destruct (Nat.eqb c0 b); ring.
    + apply Hf. lia.
    + intros j Hj. apply Hf. lia.
Qed.

Lemma chain_inner : forall c i p j,
  i <= j -> p <> fresh k j ->
  bsum (chain fresh k i p c q w) (stepF (fresh k j) b G)
  = hv (skipn (Datatypes.S (j - i)) c) (Datatypes.S j).
Proof.
  induction c as [|c0 c IH]; intros i p j Hij Hp; [reflexivity|].
  destruct c as [|c1 rest].
  - rewrite chain_one, bsum_cons, bsum_nil. rewrite stepF_off by exact Hp.
    cbn [skipn]. rewrite skipn_nil. cbn [hv]. ring.
  - rewrite chain_cons2, bsum_cons. rewrite stepF_off by exact Hp.
    change (skipn (Datatypes.S (j - i)) (c0 :: c1 :: rest)) with (skipn (j - i) (c1 :: rest)).
    destruct (Nat.eq_dec i j) as [E | E].
    + subst j. rewrite Nat.sub_diag. cbn [skipn].
      rewrite chain_head; [ring|].
      intros j Hj Heq. apply fresh_inj in Heq. lia.
    + rewrite IH.
      * replace (j - i)%nat with (Datatypes.S (j - Datatypes.S i)) by lia. ring.
      * lia.
      * intros Heq. apply fresh_inj in Heq. lia.
Qed.

End Chain.

(* ------------------------------------------------------------------ *)
(* the byte machine                                                     *)

Section Machine.
Variable m : wfsa S.
Variable V : list nat.
Hypothesis V_nodup : NoDup V.
Hypothesis lbl_in_V : forall ar, In ar (warcs m) -> exists a, albl ar = Some a /\ In a V.
Hypothesis enc_nonempty : forall a, In a V -> enc a <> [].
Hypothesis fresh_new : forall k i q, fresh k i = q ->
  ~ (In q (map fst (winit m)) \/ In q (map fst (wfinal m)) \/
     exists ar, In ar (warcs m) /\ (asrc ar = q \/ adst ar = q)).

Let B : wfsa S := to_bytes enc fresh m.
Let IA : list (nat * arc S) := combine (seq O (length (warcs m))) (warcs m).

Definition orig (q : nat) : Prop := forall k i, fresh k i <> q.

Lemma orig_init e : In e (winit m) -> orig (fst e).
Proof.
  intros He k i Hf. apply (fresh_new k i (fst e) Hf). left. apply in_map, He.
Qed.
Lemma orig_src ar : In ar (warcs m) -> orig (asrc ar).
Proof.
  intros Har k i Hf. apply (fresh_new k i (asrc ar) Hf). right; right.
  exists ar. split; [exact Har|left; reflexivity].
Qed.
Lemma orig_dst ar : In ar (warcs m) -> orig (adst ar).
Proof.
  intros Har k i Hf. apply (fresh_new k i (adst ar) Hf). right; right.
  exists ar. split; [exact Har|right; reflexivity].
Qed.
Lemma fresh_not_final k i : wget (wfinal m) (fresh k i) = 0.
Proof.
  unfold wget. apply bsum_zero. intros e He.
  destruct (Nat.eqb (fresh k i) (fst e)) eqn:E; [|reflexivity].
  apply Nat.eqb_eq in E. exfalso. apply (fresh_new k i (fst e) E).
  right; left. apply in_map, He.
Qed.

Lemma warcs_B : warcs B = flat_map (fun ka => expand_arc enc fresh (fst ka) (snd ka)) IA.
Proof. reflexivity. Qed.

Lemma IA_in k ar : In (k, ar) IA -> In ar (warcs m).
Proof. intros H. apply in_combine_r in H. exact H. Qed.

Lemma pw_B_cons s b bs' :
  pw B s (b :: bs')
  = bsum IA (fun ka => bsum (expand_arc enc fresh (fst ka) (snd ka)) (stepF s b (fun q => pw B q bs'))).
Proof.
  change (pw B s (b :: bs')) with (bsum (warcs B) (stepF s b (fun q => pw B q bs'))).
  rewrite warcs_B, bsum_flat_map. reflexivity.
Qed.

Lemma expand_lbl k (ar : arc S) a : albl ar = Some a ->
  expand_arc enc fresh k ar = chain fresh k O (asrc ar) (enc a) (adst ar) (awt ar).
Proof. intros H. unfold expand_arc. rewrite H. reflexivity. Qed.

(* (1b) at a chain state: the rest of the code word must follow *)
Lemma pw_B_chain k ar a :
  In (k, ar) IA -> albl ar = Some a ->
  forall rem j bs, rem <> [] -> skipn (Datatypes.S j) (enc a) = rem ->
  pw B (fresh k j) bs
  = match strip rem bs with Some bs' => awt ar * pw B (adst ar) bs' | None => 0 end.
Proof.
  intros Hin Ha. induction rem as [|r rest IH]; intros j bs Hne Hsk; [congruence|].
  destruct bs as [|b bs'].
  - cbn [pw strip]. change (wfinal B) with (wfinal m). apply fresh_not_final.
  - rewrite pw_B_cons.
    transitivity (bsum IA (fun ka => if Nat.eqb (fst ka) k
        then bsum (expand_arc enc fresh (fst ka) (snd ka)) (stepF (fresh k j) b (fun q => pw B q bs'))
        else 0)).
    + apply bsum_ext. intros [k' ar'] Hin'. cbn [fst snd].
      destruct (Nat.eqb k' k) eqn:E; [reflexivity|]. apply Nat.eqb_neq in E.
      pose proof (IA_in _ _ Hin') as Har'.
      destruct (lbl_in_V ar' Har') as [a' [Ha' _]].
      rewrite (expand_lbl k' ar' a' Ha'). apply chain_off.
      * intros Heq. exact (orig_src ar' Har' k j (eq_sym Heq)).
      * intros j' _ Heq. apply fresh_inj in Heq. destruct Heq as [Hk _]. exact (E Hk).
    + unfold IA. rewrite (bsum_combine_delta (warcs m) O k ar _ Hin). cbn [fst snd].
      rewrite (expand_lbl k ar a Ha). rewrite chain_inner.
      * rewrite Nat.sub_0_r, Hsk. unfold hv. cbn [strip].
        destruct (Nat.eqb r b); [|reflexivity].
        destruct rest as [|r2 rest'].
        -- reflexivity.
        -- apply IH; [discriminate|]. apply (skipn_cons_S _ _ _ _ Hsk).
      * lia.
      * intros Heq. exact (orig_src ar (IA_in _ _ Hin) k j (eq_sym Heq)).
Qed.

(* (1a) at an original state *)
Lemma pw_B_orig q b bs' : orig q ->
  pw B q (b :: bs')
  = bsum (warcs m) (fun ar =>
      if Nat.eqb (asrc ar) q then
        match albl ar with
        | Some a => match strip (enc a) (b :: bs') with
                    | Some r => awt ar * pw B (adst ar) r
                    | None => 0
                    end
        | None => 0
        end
      else 0).
Proof.
  intros Hq. rewrite pw_B_cons.
  rewrite <- (bsum_combine_snd (warcs m) O). fold IA.
  apply bsum_ext. intros [k ar] Hin. cbn [fst snd].
  pose proof (IA_in _ _ Hin) as Har.
  destruct (lbl_in_V ar Har) as [a [Ha HaV]].
  pose proof (enc_nonempty a HaV) as Hne.
  rewrite (expand_lbl k ar a Ha). rewrite Ha.
  destruct (Nat.eqb (asrc ar) q) eqn:E.
  - apply Nat.eqb_eq in E. subst q. rewrite chain_head.
    + destruct (enc a) as [|c0 rest] eqn:Ec; [congruence|].
      unfold hv. cbn [strip]. destruct (Nat.eqb c0 b); [|reflexivity].
      destruct rest as [|c1 rest']; [reflexivity|].
      apply (pw_B_chain k ar a Hin Ha (c1 :: rest') O bs'); [discriminate|].
      rewrite Ec. reflexivity.
    + intros j _. apply Hq.
  - apply Nat.eqb_neq in E. apply chain_off; [exact E|]. intros j _. apply Hq.
Qed.

Lemma decodings_cons f b bs' :
  decodings enc V (Datatypes.S f) (b :: bs')
  = flat_map (fun a => match enc a with
                       | [] => []
                       | _ :: _ => match strip (enc a) (b :: bs') with
                                   | Some rest => map (cons a) (decodings enc V f rest)
                                   | None => []
                                   end
                       end) V.
Proof.
  cbn [decodings]. apply flat_map_ext. intros a. destruct (enc a); reflexivity.
Qed.

(* (2) original states: strong induction on the length of the byte string *)
Lemma pw_decode : forall n bs, length bs <= n -> forall fuel q, orig q -> length bs <= fuel ->
  pw B q bs = bsum (decodings enc V fuel bs) (fun xs => pw m q xs).
Proof.
  assert (Hbase : forall fuel q, pw B q [] = bsum (decodings enc V fuel []) (fun xs => pw m q xs)).
  { intros fuel q. destruct fuel; cbn [decodings]; rewrite bsum_cons, bsum_nil; cbn [pw];
      change (wfinal B) with (wfinal m); ring. }
  induction n as [|n IHn]; intros bs Hn fuel q Hq Hf.
  - destruct bs; [apply Hbase|cbn [length] in Hn; lia].
  - destruct bs as [|b bs']; [apply Hbase|].
    destruct fuel as [|f]; [cbn [length] in Hf; lia|].
    rewrite (pw_B_orig q b bs' Hq), decodings_cons.
    remember (b :: bs') as bs eqn:Hbs.
    assert (Hlen : length bs = Datatypes.S (length bs')) by (subst bs; reflexivity).
    clear Hbs. rewrite bsum_flat_map.
    transitivity (bsum (warcs m) (fun ar => bsum V (fun a =>
        if lbl_eqb (albl ar) a then
          (if Nat.eqb (asrc ar) q then
             match strip (enc a) bs with
             | Some r => awt ar * pw B (adst ar) r
             | None => 0
             end
           else 0)
        else 0))).
    + apply bsum_ext. intros ar Har.
      destruct (lbl_in_V ar Har) as [a0 [Ha0 Ha0V]]. rewrite Ha0. cbn [lbl_eqb].
      rewrite (bsum_delta S Nat.eqb Nat.eqb_eq V a0
                 (fun a => if Nat.eqb (asrc ar) q then
                             match strip (enc a) bs with
                             | Some r => awt ar * pw B (adst ar) r
                             | None => 0
                             end
                           else 0) V_nodup).
      assert (Hex : existsb (fun a => Nat.eqb a a0) V = true).
      { apply existsb_exists. exists a0. split; [exact Ha0V|apply Nat.eqb_refl]. }
      rewrite Hex. reflexivity.
    + rewrite bsum_swap. apply bsum_ext. intros a HaV.
      pose proof (enc_nonempty a HaV) as Hne.
      rewrite (match_nonnil (enc a) _ _ Hne).
      destruct (strip (enc a) bs) as [rest|] eqn:Es.
      * rewrite bsum_map.
        change (bsum (decodings enc V f rest) (fun xs => pw m q (a :: xs)))
          with (bsum (decodings enc V f rest) (fun xs => bsum (warcs m) (fun ar =>
                  if Nat.eqb (asrc ar) q && lbl_eqb (albl ar) a then awt ar * pw m (adst ar) xs else 0))).
        rewrite bsum_swap. apply bsum_ext. intros ar Har.
        pose proof (strip_length _ _ _ Es) as Hsl.
        assert (Hc : 1 <= length (enc a)) by (destruct (enc a); [congruence|cbn [length]; lia]).
        destruct (lbl_eqb (albl ar) a), (Nat.eqb (asrc ar) q); cbn [andb];
          try (symmetry; apply bsum_zero; reflexivity).
        rewrite bsum_mul_l. f_equal.
        apply IHn; [lia|apply orig_dst; exact Har|lia].
      * rewrite bsum_nil. apply bsum_zero. intros ar _.
        destruct (lbl_eqb (albl ar) a), (Nat.eqb (asrc ar) q); reflexivity.
Qed.

(* (3) sum over the initial states *)
Lemma to_bytes_pathsum_sec bs fuel : length bs <= fuel ->
  pathsum B bs = bsum (decodings enc V fuel bs) (fun xs => pathsum m xs).
Proof.
  intros Hf. unfold pathsum. change (winit B) with (winit m).
  rewrite bsum_swap. apply bsum_ext. intros e He.
  rewrite (pw_decode (length bs) bs (le_n _) fuel (fst e) (orig_init e He) Hf).
  rewrite bsum_mul_l. reflexivity.
Qed.

End Machine.
End Inj.

Theorem to_bytes_pathsum : forall (m : wfsa S) (V : list nat) (bs : list nat) (fuel : nat),
  NoDup V ->
  (forall ar, In ar (warcs m) -> exists a, albl ar = Some a /\ In a V) ->
  (forall a, In a V -> enc a <> []) ->
  (forall k i k' i', fresh k i = fresh k' i' -> k = k' /\ i = i') ->
  (forall k i q, fresh k i = q ->
     ~ (In q (map fst (winit m)) \/ In q (map fst (wfinal m)) \/
        exists ar, In ar (warcs m) /\ (asrc ar = q \/ adst ar = q))) ->
  length bs <= fuel ->
  pathsum (to_bytes enc fresh m) bs = bsum (decodings enc V fuel bs) (fun xs => pathsum m xs).
Proof.
  intros m V bs fuel HV Hl He Hi Hn Hf.
  apply to_bytes_pathsum_sec; assumption.
Qed.

End BytesProofs.

Print Assumptions to_bytes_pathsum.
