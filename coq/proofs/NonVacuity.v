(* Non-vacuity: for every property theorem of props/C01.v ... props/C20.v that has hypotheses and no
   accompanying Example in its own file, a concrete instance over a concrete semiring that satisfies
   ALL the hypotheses simultaneously; where cheap, the theorem is applied to the instance and the
   instantiated conclusion is stated (and often evaluated).  No axioms. *)
From Coq Require Import List Arith Bool NArith ZArith QArith Qcanon Lia Permutation Relations.
From GV.lib Require Import Semiring BigSum.
From GV.model Require Import Cfg Agenda MachSpec Fst Prefix Norm Deriv Transform Transform2.
From GV.proofs Require UnfoldProofs CkyProofs FoldProofs.
Import ListNotations.
Local Open Scope nat_scope.

(* ------------------------------------------------------------------------------------------------
   Helpers.
   (1) A stratified grammar (every body nonterminal has a strictly smaller rank than the head; ranks
       given by a list, rank of X = nth X ranks 0) has a solution of its equation system: W at any
       height above the largest rank.  The check is a boolean, so it is discharged by computation.
   ------------------------------------------------------------------------------------------------ *)
Section Strat.
Variable S : SR.
Definition rkl (ranks : list nat) (X : nat) : nat := nth X ranks 0.
Definition stratb (ranks : list nat) (G : grammar S) : bool :=
  forallb (fun r => forallb (fun y => match y with N Y => Nat.ltb (rkl ranks Y) (rkl ranks (rhead r)) | T _ => true end)
                            (rbody r)) G.

Lemma rkl_bound ranks X : rkl ranks X <= list_max ranks.
Proof.
  unfold rkl. assert (H : Forall (fun k => k <= list_max ranks) ranks) by (apply list_max_le; lia).
  destruct (nth_in_or_default X ranks 0) as [Hin|E]; [|rewrite E; lia].
  rewrite Forall_forall in H. apply H; exact Hin.
Qed.

Lemma strat_step ranks (G : grammar S) : stratb ranks G = true ->
  forall h X xs, rkl ranks X < h -> W G (Datatypes.S h) X xs = W G h X xs.
Proof.
  intros Hs. unfold stratb in Hs. rewrite forallb_forall in Hs.
  induction h as [|h IH]; intros X xs HX; [lia|].
  rewrite (CkyProofs.W_S S G (Datatypes.S h)), (CkyProofs.W_S S G h).
  apply bsum_ext. intros r Hr. destruct (Nat.eqb_spec (rhead r) X) as [E|E]; [|reflexivity].
  f_equal. apply CkyProofs.Wb_ext_in. intros Y ys HY. apply IH.
  specialize (Hs r Hr). rewrite forallb_forall in Hs. specialize (Hs (N Y) HY). cbn in Hs.
  apply Nat.ltb_lt in Hs. subst X. lia.
Qed.

Lemma strat_solves ranks (G : grammar S) : stratb ranks G = true ->
  FoldProofs.solves S G (W G (Datatypes.S (list_max ranks))).
Proof.
  intros Hs X xs. rewrite <- UnfoldProofs.W_succ_gstep. symmetry. apply (strat_step ranks); [exact Hs|].
  pose proof (rkl_bound ranks X). lia.
Qed.
End Strat.

(* equality of concrete rationals (robust against differing canonicity proofs) *)
Ltac qc := apply Qc_is_canon; vm_compute; reflexivity.
Ltac vr := first [qc | vm_compute; reflexivity].
(* membership hypotheses over explicit lists *)
Ltac notin := cbn; let HH := fresh "HH" in intros HH;
  repeat (destruct HH as [HH|HH]; [try discriminate HH; try (inversion HH; lia)|]); try exact HH; try lia.
Ltac inl := repeat match goal with
  | H : In _ (_ :: _) |- _ => destruct H as [H|H]
  | H : In _ [] |- _ => destruct H
  | H : _ \/ _ |- _ => destruct H as [H|H]
  | H : False |- _ => destruct H
  | H : ?a = ?b |- _ => is_var b; subst b
  | H : ?a = ?b |- _ => is_var a; subst a
  | H : @eq sym _ _ |- _ => first [discriminate H | inversion H; subst; clear H]
  | H : In _ _ |- _ => progress cbn in H
  end.

(* a running example: S -> A b | b ; A -> a | eps   (a = 0, b = 1; nonterminals S = 0, A = 1) over Qc *)
Definition Gq : grammar QcSR :=
  [ (mkq 1 2, 0, [N 1; T 1]); (mkq 1 3, 0, [T 1]); (mkq 1 5, 1, [T 0]); (mkq 1 7, 1, []) ].
Definition fq : nat -> list nat -> QcSR := W Gq 3.
Lemma fq_solves : FoldProofs.solves QcSR Gq fq.
Proof. exact (strat_solves QcSR [2; 1] Gq eq_refl). Qed.

(* the same shape over the Booleans, with a nullable and a useless symbol *)
Definition Gb : grammar BoolSR :=
  [ (true, 0, [N 1; T 1]); (true, 0, []); (true, 1, [T 0]); (true, 1, [N 1; N 1]); (true, 2, [N 2]) ].

(* ================================================================================================
   C01
   ================================================================================================ *)
From GV.gen Require Import Gen_Machines.
From GV.props Require C01.

Example C01_prefix_transducer_nonvacuous :
  NoDup [0; 1; 2] /\ (forall a, In a [2; 0; 1] -> In a [0; 1; 2]) /\ length [2; 0; 1] <= 3 /\
  trel (prefix_transducer (S:=NSR) [0; 1; 2]) 3 [2; 0; 1] [2; 0] = 1%N.
Proof.
  assert (H1 : NoDup [0; 1; 2]) by (repeat constructor; cbn; intuition lia).
  assert (H2 : forall a, In a [2; 0; 1] -> In a [0; 1; 2]) by (cbn; intuition).
  assert (H3 : length [2; 0; 1] <= 3) by (cbn; lia).
  split; [exact H1|split; [exact H2|split; [exact H3|]]].
  rewrite (C01.C01_prefix_transducer NSR [0; 1; 2] [2; 0; 1] [2; 0] 3 H1 H2 H3). reflexivity.
Qed.

Example C01_executable_mask_nonvacuous :
  prefix_lang Gb 10 0 [0; 0] = Some true /\ prefix_lang Gb 10 0 [1] = Some false /\
  (exists H, forall h, H <= h -> Wpre Gb h 0 [0; 0] = true) /\
  (exists H, forall h, H <= h -> Wpre Gb h 0 [1] = false).
Proof.
  assert (E1 : prefix_lang Gb 10 0 [0; 0] = Some true) by (vr).
  assert (E2 : prefix_lang Gb 10 0 [1] = Some false) by (vr).
  split; [exact E1|split; [exact E2|split]].
  - exact (C01.C01_executable_mask Gb 10 0 [0; 0] true E1).
  - exact (C01.C01_executable_mask Gb 10 0 [1] false E2).
Qed.

Example C01_eos_iff_complete_nonvacuous :
  (forall r, In r Gb -> rhead r <> 9) /\ (forall r, In r Gb -> ~ In (N 9) (rbody r)) /\
  (forall h xs, W (add_eos 9 0 7 Gb) (Datatypes.S h) 9 (xs ++ [7]) = W Gb h 0 xs) /\
  W (add_eos 9 0 7 Gb) 4 9 ([0; 0; 1] ++ [7]) = true.
Proof.
  assert (H1 : forall r, In r Gb -> rhead r <> 9) by (intros r H; unfold Gb in H; inl; cbn; lia).
  assert (H2 : forall r, In r Gb -> ~ In (N 9) (rbody r))
    by (intros r H; unfold Gb in H; inl; cbn; intuition discriminate).
  split; [exact H1|split; [exact H2|split]].
  - intros h xs. exact (C01.C01_eos_iff_complete Gb 9 0 7 h xs H1 H2).
  - vr.
Qed.

(* ================================================================================================
   C02 (the theorems without an example in props/C02.v)
   ================================================================================================ *)
From GV.props Require C02.

Example C02_executable_model_is_reference_nonvacuous :
  lang Gq 10 0 [0; 1] = Some (mkq 1 10 : QcSR) /\ stable QcSR Gq 0 [0; 1] (mkq 1 10) /\
  (1 <= 2 -> 2 <= length [0; 1] -> cget (citer Gq [0; 1] 3 []) (0, 1, 2) = W Gq 3 0 (sub [0; 1] 1 2)).
Proof.
  assert (E : lang Gq 10 0 [0; 1] = Some (mkq 1 10 : QcSR)) by (vr).
  split; [exact E|split].
  - exact (proj2 (C02.C02_executable_model_is_reference QcSR Gq [0; 1]) 10 0 _ E).
  - intros H1 H2. exact (proj1 (C02.C02_executable_model_is_reference QcSR Gq [0; 1]) 3 0 1 2 H1 H2).
Qed.

Example C02_perm_rename_invariant_nonvacuous :
  let G' := [ (mkq 1 3 : QcSR, 0, [T 1]); (mkq 1 2, 0, [N 1; T 1]); (mkq 1 5, 1, [T 0]); (mkq 1 7, 1, []) ] in
  let f := fun x => x + 5 in
  Permutation Gq G' /\ (forall p q, f p = f q -> p = q) /\
  (forall h X xs, W Gq h X xs = W G' h X xs /\ W (rename_g f Gq) h (f X) xs = W Gq h X xs) /\
  W (rename_g f Gq) 3 5 [0; 1] = mkq 1 10.
Proof.
  intros G' f.
  assert (HP : Permutation Gq G') by apply perm_swap.
  assert (Hf : forall p q, f p = f q -> p = q) by (unfold f; intros; lia).
  split; [exact HP|split; [exact Hf|split]].
  - intros h X xs. exact (C02.C02_perm_rename_invariant QcSR Gq G' f h X xs HP Hf).
  - vr.
Qed.

(* ================================================================================================
   C03 (derivative theorems)
   ================================================================================================ *)
From GV.props Require C03.

Example C03_executable_prefix_model_nonvacuous :
  prefix_lang Gq 10 0 [0] = Some (mkq 1 10 : QcSR) /\
  (exists H, forall h, H <= h -> Wpre Gq h 0 [0] = mkq 1 10) /\
  (1 <= length [0; 1] ->
   pget (snd (fst (piter Gq [0; 1] 3 ([], [], [])))) (0, 1) = Wpre Gq 3 0 (sub [0; 1] 1 (length [0; 1]))).
Proof.
  assert (E : prefix_lang Gq 10 0 [0] = Some (mkq 1 10 : QcSR))
    by (vm_compute; f_equal; apply Qc_is_canon; reflexivity).
  split; [exact E|split].
  - exact (proj2 (C03.C03_executable_prefix_model QcSR Gq [0]) 10 0 _ E).
  - intros H. exact (proj1 (C03.C03_executable_prefix_model QcSR Gq [0; 1]) 3 0 1 H).
Qed.

Definition sl1 (X : nat) : nat := 3 * X + 10.
Definition sl2 (X : nat) : nat := 3 * X + 11.
Lemma Gq_fresh1 : (forall r X, In r Gq -> rhead r <> sl1 X) /\ (forall r X, In r Gq -> ~ In (N (sl1 X)) (rbody r)).
Proof. split; intros r X H; unfold Gq, sl1 in *; inl; notin. Qed.
Lemma Gq_fresh2 : (forall r X, In r Gq -> rhead r <> sl2 X) /\ (forall r X, In r Gq -> ~ In (N (sl2 X)) (rbody r)).
Proof. split; intros r X H; unfold Gq, sl2 in *; inl; notin. Qed.

(* derivative w.r.t. b = 1 of S -> A b | b, A -> a | eps: A is nullable, so the rule S -> A b contributes
   both S/b -> A/b b and (with the null weight 1/7 of A) S/b -> eps *)
Example C03_derivative_nonvacuous :
  let U := fun X => fq X [] in
  (forall X Y, sl1 X = sl1 Y -> X = Y) /\
  (forall r X, In r Gq -> rhead r <> sl1 X) /\ (forall r X, In r Gq -> ~ In (N (sl1 X)) (rbody r)) /\
  FoldProofs.solves QcSR Gq fq /\ (forall X, U X = fq X []) /\ U 1 = mkq 1 7 /\
  FoldProofs.solves QcSR (derivative U sl1 1 Gq) (deriv_val sl1 1 Gq fq) /\
  (forall s xs, deriv_val sl1 1 Gq fq (sl1 s) xs = fq s (1 :: xs)) /\
  deriv_val sl1 1 Gq fq (sl1 0) [] = mkq 17 42 /\ length (derivative U sl1 1 Gq) = 7.
Proof.
  intros U.
  assert (Hinj : forall X Y, sl1 X = sl1 Y -> X = Y) by (unfold sl1; intros; lia).
  destruct Gq_fresh1 as [Hh Hb].
  assert (HU : forall X, U X = fq X []) by reflexivity.
  destruct (C03.C03_derivative QcSR sl1 1 Gq fq U Hinj Hh Hb fq_solves HU) as [D1 D2].
  repeat (split; [assumption || exact fq_solves || (vr)|]).
  vr.
Qed.

Example C03_derivative_twice_nonvacuous :
  let U := fun X => fq X [] in
  let U2 := fun X => deriv_val sl1 0 Gq fq X [] in
  (forall X Y, sl1 X = sl1 Y -> X = Y) /\ (forall X Y, sl2 X = sl2 Y -> X = Y) /\
  (forall r X, In r Gq -> rhead r <> sl1 X) /\ (forall r X, In r Gq -> ~ In (N (sl1 X)) (rbody r)) /\
  (forall r X, In r Gq -> rhead r <> sl2 X) /\ (forall r X, In r Gq -> ~ In (N (sl2 X)) (rbody r)) /\
  (forall X Y, sl2 X <> sl1 Y) /\
  FoldProofs.solves QcSR Gq fq /\ (forall X, U X = fq X []) /\ (forall X, U2 X = deriv_val sl1 0 Gq fq X []) /\
  let D := derivative U sl1 0 Gq in
  let f2 := deriv_val sl2 1 D (deriv_val sl1 0 Gq fq) in
  FoldProofs.solves QcSR (derivative U2 sl2 1 D) f2 /\ (forall s xs, f2 (sl2 (sl1 s)) xs = fq s (0 :: 1 :: xs)) /\
  f2 (sl2 (sl1 0)) [] = mkq 1 10.
Proof.
  intros U U2.
  assert (Hinj : forall X Y, sl1 X = sl1 Y -> X = Y) by (unfold sl1; intros; lia).
  assert (Hinj2 : forall X Y, sl2 X = sl2 Y -> X = Y) by (unfold sl2; intros; lia).
  assert (Hd : forall X Y, sl2 X <> sl1 Y) by (unfold sl1, sl2; intros; lia).
  destruct Gq_fresh1 as [Hh Hb]. destruct Gq_fresh2 as [Hh2 Hb2].
  assert (HU : forall X, U X = fq X []) by reflexivity.
  assert (HU2 : forall X, U2 X = deriv_val sl1 0 Gq fq X []) by reflexivity.
  pose proof (C03.C03_derivative_twice QcSR sl1 sl2 0 1 Gq fq U U2 Hinj Hinj2 Hh Hb Hh2 Hb2 Hd fq_solves HU HU2) as [D1 D2].
  repeat (split; [assumption || exact fq_solves|]).
  vr.
Qed.

(* ================================================================================================
   C04
   ================================================================================================ *)
From GV.props Require C04.

(* the language model over V = [0], eos = 1 that gives 0^n the weight (1/2)^(n+1):
   prefix weight pw(0^n) = (1/2)^n, complete-string weight cw(0^n) = (1/2)^(n+1) *)
Definition half : Qc := mkq 1 2.
Fixpoint hp (n : nat) : Qc := match n with O => 1%Qc | Datatypes.S n' => (half * hp n')%Qc end.
Definition pw4 (ctx : list nat) : QcFR := hp (length ctx).
Definition cw4 (ctx : list nat) : QcFR := hp (Datatypes.S (length ctx)).
Definition nw4 (ctx : list nat) (t : nat) : QcFR := if Nat.eqb t 1 then cw4 ctx else pw4 (ctx ++ [t]).
Lemma half_half : (half + half = 1)%Qc. Proof. qc. Qed.

Example C04_sums_to_one_nonvacuous :
  zsum [0] 1 nw4 [0; 0] <> s0 /\ bsum ([0] ++ [1]) (p_next [0] 1 nw4 [0; 0]) = s1 /\
  p_next [0] 1 nw4 [0; 0] 0 = mkq 1 2.
Proof.
  assert (H : zsum [0] 1 nw4 [0; 0] <> s0) by (vm_compute; discriminate).
  split; [exact H|split; [exact (C04.C04_sums_to_one QcFR [0] 1 nw4 [0; 0] H)|vr]].
Qed.

Example C04_chain_rule_nonvacuous :
  (forall ctx t, In t [0] -> nw4 ctx t = pw4 (ctx ++ [t])) /\
  (forall ctx, nw4 ctx 1 = cw4 ctx) /\
  (forall ctx, pw4 ctx = sadd (cw4 ctx) (bsum [0] (fun t => pw4 (ctx ++ [t])))) /\
  ~ In 1 [0] /\
  (forall x, In x [0; 0] -> In x [0]) /\
  (forall k, k <= length [0; 0] -> pw4 ([] ++ firstn k [0; 0]) <> s0) /\
  chain [0] 1 nw4 [] [0; 0] = fdiv QcFR (cw4 ([] ++ [0; 0])) (pw4 []) /\
  chain [0] 1 nw4 [] [0; 0] = mkq 1 8.
Proof.
  assert (H1 : forall ctx t, In t [0] -> nw4 ctx t = pw4 (ctx ++ [t])) by (intros ctx t H; inl; reflexivity).
  assert (H2 : forall ctx, nw4 ctx 1 = cw4 ctx) by reflexivity.
  assert (H3 : forall ctx, pw4 ctx = sadd (cw4 ctx) (bsum [0] (fun t => pw4 (ctx ++ [t])))).
  { intros ctx. unfold pw4, cw4.
    change (hp (length ctx) = (half * hp (length ctx) + (hp (length (ctx ++ [0%nat])) + Q2Qc 0))%Qc).
    rewrite app_length. cbn [length]. rewrite Nat.add_1_r. cbn [hp]. generalize (hp (length ctx)); intros q.
    transitivity ((half + half) * q)%Qc; [rewrite half_half; ring|ring]. }
  assert (H4 : ~ In 1 [0]) by (cbn; intuition lia).
  assert (H5 : forall x, In x [0; 0] -> In x [0]) by (cbn; intuition).
  assert (H6 : forall k, k <= length [0; 0] -> pw4 ([] ++ firstn k [0; 0]) <> s0).
  { intros k Hk. cbn in Hk. destruct k as [|[|[|k]]]; [vm_compute; discriminate ..|lia]. }
  repeat (split; [assumption|]). split; [|vr].
  exact (C04.C04_chain_rule QcFR [0] 1 nw4 pw4 cw4 H1 H2 H3 H4 [0; 0] [] H5 H6).
Qed.

(* ================================================================================================
   C06
   ================================================================================================ *)
From GV.gen Require Import Gen_Cfg.
From GV.proofs Require UnfoldTreeProofs SepTermProofs BinTreeProofs NullUnaryProofs.
From GV.props Require C06.

Ltac twf_tac := repeat first
  [ apply twf_leaf | apply fwf_nil | apply fwf_cons
  | match goal with |- twf ?S ?G _ (Node ?i ?r ?k) => apply (twf_node S G i r k); [reflexivity|] end ].

Example C06_rename_preserves_nonvacuous :
  let f := fun x => 2 * x + 5 in
  (forall p q, f p = f q -> p = q) /\ (forall h X xs, W (rename_g f Gq) h (f X) xs = W Gq h X xs) /\
  W (rename_g f Gq) 3 5 [0; 1] = mkq 1 10.
Proof.
  intros f. assert (Hf : forall p q, f p = f q -> p = q) by (unfold f; intros; lia).
  split; [exact Hf|split; [|vr]]. intros h X xs. exact (C06.C06_rename_preserves QcSR Gq f h X xs Hf).
Qed.

(* a right-recursive grammar whose start symbol occurs on a right-hand side *)
Definition Gr : grammar NSR := [ (2%N, 0, [T 0; N 0]); (3%N, 0, [T 1]) ].
Example C06_separate_start_preserves_nonvacuous :
  (forall r, In r Gr -> rhead r <> 9) /\ (forall r, In r Gr -> ~ In (N 9) (rbody r)) /\ 9 <> 0 /\
  on_rhs 0 Gr = true /\
  (forall h xs, W (snd (separate_start 9 0 Gr)) (Datatypes.S h) (fst (separate_start 9 0 Gr)) xs
     = if on_rhs 0 Gr then W Gr h 0 xs else W Gr (Datatypes.S h) 0 xs) /\
  W (snd (separate_start 9 0 Gr)) 4 (fst (separate_start 9 0 Gr)) [0; 0; 1] = 12%N.
Proof.
  assert (H1 : forall r, In r Gr -> rhead r <> 9) by (intros r H; unfold Gr in H; inl; cbn; lia).
  assert (H2 : forall r, In r Gr -> ~ In (N 9) (rbody r)) by (intros r H; unfold Gr in H; inl; notin).
  assert (H3 : 9 <> 0) by lia.
  split; [exact H1|split; [exact H2|split; [exact H3|split; [reflexivity|split; [|vr]]]]].
  intros h xs. exact (C06.C06_separate_start_preserves NSR Gr 9 0 h xs H1 H2 H3).
Qed.

(* unfolding the occurrence of A (position 0) in rule 0 (S -> A b) of Gq *)
Definition r0q : rule QcSR := (mkq 1 2, 0, [N 1; T 1]).
Lemma unfold_hyps : nth_error Gq 0 = Some r0q /\ nth_error (rbody r0q) 0 = Some (N 1).
Proof. split; reflexivity. Qed.

Example C06_unfold_one_step_nonvacuous :
  nth_error Gq 0 = Some r0q /\ nth_error (rbody r0q) 0 = Some (N 1) /\
  (forall f X xs, UnfoldProofs.gstep QcSR (gen_unfold QcSR 0 0 Gq) f X xs
     = sadd (bsum (UnfoldProofs.kept QcSR 0 Gq) (UnfoldProofs.term QcSR f X xs))
            (if Nat.eqb (rhead r0q) X then smul (rw r0q) (UnfoldProofs.Wb_at QcSR f (UnfoldProofs.gstep QcSR Gq f) 0 (rbody r0q) xs) else s0)) /\
  length (gen_unfold QcSR 0 0 Gq) = 5 /\
  UnfoldProofs.gstep QcSR (gen_unfold QcSR 0 0 Gq) fq 0 [0; 1] = mkq 1 10.
Proof.
  destruct unfold_hyps as [H1 H2]. split; [exact H1|split; [exact H2|split; [|split; [reflexivity|vr]]]].
  intros f X xs. exact (C06.C06_unfold_one_step QcSR Gq 0 0 r0q 1 f X xs H1 H2).
Qed.

Example C06_unfold_preserves_solutions_nonvacuous :
  (forall X xs, fq X xs = UnfoldProofs.gstep QcSR Gq fq X xs) /\
  (forall X xs, UnfoldProofs.gstep QcSR (gen_unfold QcSR 0 0 Gq) fq X xs = fq X xs) /\
  fq 0 [0; 1] = mkq 1 10 /\ fq 0 [1] = mkq 17 42.
Proof.
  split; [exact fq_solves|split; [|split; vr]].
  exact (C06.C06_unfold_preserves_solutions QcSR Gq 0 0 fq fq_solves).
Qed.

(* the derivation tree of "a b" in Gq: S -> A b, A -> a *)
Definition tq : tree QcSR :=
  Node 0 r0q (Fcons (Node 2 ((mkq 1 5, 1, [T 0]) : rule QcSR) (Fcons (Leaf 0) Fnil)) (Fcons (Leaf 1) Fnil)).
Lemma tq_wf : twf QcSR Gq (N 0) tq.
Proof. unfold tq, r0q. twf_tac. Qed.

Example C06_unfold_trees_nonvacuous :
  let G' := gen_unfold QcSR 0 0 Gq in
  let phi := UnfoldTreeProofs.phi QcSR Gq 0 0 r0q 1 in
  let psi := UnfoldTreeProofs.psi QcSR Gq 0 0 r0q 1 in
  nth_error Gq 0 = Some r0q /\ nth_error (rbody r0q) 0 = Some (N 1) /\
  twf QcSR Gq (N 0) tq /\ tyield tq = [0; 1] /\ tweight tq = mkq 1 10 /\
  (twf QcSR G' (N 0) (phi tq) /\ tyield (phi tq) = tyield tq /\ tweight (phi tq) = tweight tq /\
   theight (phi tq) <= theight tq /\ psi (phi tq) = tq) /\
  (twf QcSR Gq (N 0) (psi (phi tq)) /\ tyield (psi (phi tq)) = tyield (phi tq) /\ tweight (psi (phi tq)) = tweight (phi tq) /\
   theight (psi (phi tq)) <= 2 * theight (phi tq) /\ phi (psi (phi tq)) = phi tq) /\
  theight (phi tq) = 1.
Proof.
  intros G' phi psi. destruct unfold_hyps as [H1 H2].
  destruct (C06.C06_unfold_trees QcSR Gq 0 0 r0q 1 H1 H2) as [A B].
  pose proof (A 0 tq tq_wf) as A1. pose proof (B 0 _ (proj1 A1)) as B1.
  split; [exact H1|split; [exact H2|split; [exact tq_wf|split; [reflexivity|split; [vr|split; [exact A1|split; [exact B1|]]]]]]].
  vm_compute. reflexivity.
Qed.

Example C06_unfold_sums_nonvacuous :
  nth_error Gq 0 = Some r0q /\ nth_error (rbody r0q) 0 = Some (N 1) /\
  (forall h X xs,
   W Gq h X xs = bsum (filter (yields xs) (map (UnfoldTreeProofs.phi QcSR Gq 0 0 r0q 1) (trees Gq h X))) tweight /\
   W (gen_unfold QcSR 0 0 Gq) h X xs
     = bsum (filter (yields xs) (map (UnfoldTreeProofs.psi QcSR Gq 0 0 r0q 1) (trees (gen_unfold QcSR 0 0 Gq) h X))) tweight) /\
  length (trees Gq 3 0) = 3 /\ length (trees (gen_unfold QcSR 0 0 Gq) 3 0) = 3.
Proof.
  destruct unfold_hyps as [H1 H2]. split; [exact H1|split; [exact H2|split; [|split; vm_compute; reflexivity]]].
  intros h X xs. destruct (C06.C06_unfold_sums QcSR Gq 0 0 r0q 1 H1 H2 h X xs) as [[_ [_ A]] [_ [_ B]]].
  split; [exact A|exact B].
Qed.

Definition pt6 (a : nat) : nat := a + 20.
Example C06_separate_terminals_trees_nonvacuous :
  let G' := separate_terminals pt6 Gq in
  let phi := SepTermProofs.phi QcSR pt6 Gq in
  let psi := SepTermProofs.psi QcSR Gq in
  (forall a b, pt6 a = pt6 b -> a = b) /\
  (forall a r, In r Gq -> rhead r <> pt6 a /\ ~ In (N (pt6 a)) (rbody r)) /\
  twf QcSR Gq (N 0) tq /\
  (twf QcSR G' (N 0) (phi tq) /\ tyield (phi tq) = tyield tq /\ tweight (phi tq) = tweight tq /\
   theight (phi tq) <= Datatypes.S (theight tq) /\ psi (phi tq) = tq) /\
  (forall a, 0 <> pt6 a) /\
  (twf QcSR Gq (N 0) (psi (phi tq)) /\ tyield (psi (phi tq)) = tyield (phi tq) /\ tweight (psi (phi tq)) = tweight (phi tq) /\
   theight (psi (phi tq)) <= theight (phi tq) /\ phi (psi (phi tq)) = phi tq) /\
  theight (phi tq) = 2 /\ length G' = 5.
Proof.
  intros G' phi psi.
  assert (Hi : forall a b, pt6 a = pt6 b -> a = b) by (unfold pt6; intros; lia).
  assert (Hf : forall a r, In r Gq -> rhead r <> pt6 a /\ ~ In (N (pt6 a)) (rbody r))
    by (intros a r H; unfold Gq, pt6 in *; inl; (split; [cbn; lia|notin])).
  assert (H0 : forall a, 0 <> pt6 a) by (unfold pt6; intros; lia).
  destruct (C06.C06_separate_terminals_trees QcSR pt6 Gq Hi Hf) as [A B].
  pose proof (A 0 tq tq_wf) as A1. pose proof (B 0 _ H0 (proj1 A1)) as B1.
  split; [exact Hi|split; [exact Hf|split; [exact tq_wf|split; [exact A1|split; [exact H0|split; [exact B1|]]]]]].
  split; vm_compute; reflexivity.
Qed.

(* a grammar with a long body: S -> A b A a (1/2), A -> a (1/5) | eps (1/7) *)
Definition G3 : grammar QcSR :=
  [ (mkq 1 2, 0, [N 1; T 1; N 1; T 0]); (mkq 1 5, 1, [T 0]); (mkq 1 7, 1, []) ].
Definition f3 : nat -> list nat -> QcSR := W G3 3.
Lemma f3_solves : FoldProofs.solves QcSR G3 f3.
Proof. exact (strat_solves QcSR [2; 1] G3 eq_refl). Qed.
Definition t3 : tree QcSR :=
  Node 0 ((mkq 1 2, 0, [N 1; T 1; N 1; T 0]) : rule QcSR)
    (Fcons (Node 1 ((mkq 1 5, 1, [T 0]) : rule QcSR) (Fcons (Leaf 0) Fnil))
    (Fcons (Leaf 1) (Fcons (Node 2 ((mkq 1 7, 1, []) : rule QcSR) Fnil) (Fcons (Leaf 0) Fnil)))).
Lemma t3_wf : twf QcSR G3 (N 0) t3.
Proof. unfold t3. twf_tac. Qed.
Lemma G3_below : (forall r, In r G3 -> rhead r < 5) /\ (forall r Y, In r G3 -> In (N Y) (rbody r) -> Y < 5).
Proof.
  split; [intros r H; unfold G3 in H; inl; cbn; lia|].
  intros r Y H HY; unfold G3 in H; inl; try (cbn in HY); inl; lia.
Qed.

Example C06_binarize_trees_nonvacuous :
  let G' := binarize 5 G3 in
  let phi := BinTreeProofs.phi QcSR 5 G3 in
  let psi := BinTreeProofs.psi QcSR 5 G3 in
  (forall r, In r G3 -> rhead r < 5) /\ (forall r Y, In r G3 -> In (N Y) (rbody r) -> Y < 5) /\
  twf QcSR G3 (N 0) t3 /\ tyield t3 = [0; 1; 0] /\ tweight t3 = mkq 1 70 /\
  (twf QcSR G' (N 0) (phi t3) /\ tyield (phi t3) = tyield t3 /\ tweight (phi t3) = tweight t3 /\
   theight (phi t3) <= BinTreeProofs.hb QcSR G3 (theight t3) /\ psi (phi t3) = t3) /\
  (twf QcSR G3 (N 0) (psi (phi t3)) /\ tyield (psi (phi t3)) = tyield (phi t3) /\ tweight (psi (phi t3)) = tweight (phi t3) /\
   theight (psi (phi t3)) <= theight (phi t3) /\ phi (psi (phi t3)) = phi t3) /\
  length G' = 5 /\ theight (phi t3) = 4.
Proof.
  intros G' phi psi. destruct G3_below as [Hh Hb].
  destruct (C06.C06_binarize_trees QcSR 5 G3 Hh Hb) as [A B].
  pose proof (A 0 t3 t3_wf) as A1. assert (H0 : 0 < 5) by lia. pose proof (B 0 _ H0 (proj1 A1)) as B1.
  split; [exact Hh|split; [exact Hb|split; [exact t3_wf|split; [reflexivity|split; [vr|split; [exact A1|split; [exact B1|]]]]]]].
  split; vm_compute; reflexivity.
Qed.

Example C06_binarize_solutions_nonvacuous :
  (forall r, In r G3 -> rhead r < 5) /\ (forall r Y, In r G3 -> In (N Y) (rbody r) -> Y < 5) /\
  FoldProofs.solves QcSR G3 f3 /\
  FoldProofs.solves QcSR (binarize 5 G3) (FoldProofs.binarize_ext QcSR 5 G3 f3) /\
  (forall Z xs, Z < 5 -> FoldProofs.binarize_ext QcSR 5 G3 f3 Z xs = f3 Z xs) /\
  (forall Z xs, Z < 5 -> FoldProofs.binarize_ext QcSR 5 G3 f3 Z xs
                         = UnfoldProofs.gstep QcSR G3 (FoldProofs.binarize_ext QcSR 5 G3 f3) Z xs) /\
  f3 0 [0; 1; 0] = mkq 1 70.
Proof.
  destruct G3_below as [Hh Hb]. destruct (C06.C06_binarize_solutions QcSR 5 G3 Hh Hb) as [A B].
  destruct (A f3 f3_solves) as [A1 A2].
  split; [exact Hh|split; [exact Hb|split; [exact f3_solves|split; [exact A1|split; [exact A2|split; [|vr]]]]]].
  exact (B _ A1).
Qed.

Example C06_separate_terminals_solutions_nonvacuous :
  (forall p q, pt6 p = pt6 q -> p = q) /\
  (forall r a, In r Gq -> In a (terminals_of Gq) -> rhead r <> pt6 a) /\
  (forall r a, In r Gq -> In a (terminals_of Gq) -> ~ In (N (pt6 a)) (rbody r)) /\
  terminals_of Gq = [1] /\
  FoldProofs.solves QcSR Gq fq /\
  FoldProofs.solves QcSR (separate_terminals pt6 Gq) (FoldProofs.sep_ext QcSR pt6 Gq fq) /\
  (forall Z ys, (forall a, In a (terminals_of Gq) -> Z <> pt6 a) -> FoldProofs.sep_ext QcSR pt6 Gq fq Z ys = fq Z ys) /\
  (forall Z xs, (forall a, In a (terminals_of Gq) -> Z <> pt6 a) ->
     FoldProofs.sep_ext QcSR pt6 Gq fq Z xs = UnfoldProofs.gstep QcSR Gq (FoldProofs.sep_ext QcSR pt6 Gq fq) Z xs).
Proof.
  assert (Hi : forall a b, pt6 a = pt6 b -> a = b) by (unfold pt6; intros; lia).
  assert (H1 : forall r a, In r Gq -> In a (terminals_of Gq) -> rhead r <> pt6 a)
    by (intros r a H _; unfold Gq, pt6 in *; inl; cbn; lia).
  assert (H2 : forall r a, In r Gq -> In a (terminals_of Gq) -> ~ In (N (pt6 a)) (rbody r))
    by (intros r a H _; unfold Gq, pt6 in *; inl; notin).
  destruct (C06.C06_separate_terminals_solutions QcSR pt6 Gq Hi H1 H2) as [A B].
  destruct (A fq fq_solves) as [A1 A2].
  split; [exact Hi|split; [exact H1|split; [exact H2|split; [reflexivity|split; [exact fq_solves|split; [exact A1|split; [exact A2|]]]]]]].
  exact (B _ A1).
Qed.

Definition nn6 (X : nat) : nat := X + 30.
Example C06_nullaryremove_solutions_nonvacuous :
  let nullw := fun X => fq X [] in
  (forall p q, nn6 p = nn6 q -> p = q) /\ (forall X, 0 <> nn6 X) /\
  (forall r X, In r Gq -> rhead r <> nn6 X) /\ (forall r X, In r Gq -> ~ In (N (nn6 X)) (rbody r)) /\
  (forall r, In r Gq -> ~ In (N 0) (rbody r)) /\
  FoldProofs.solves QcSR Gq fq /\ (forall X, fq X [] = nullw X) /\ nullw 1 = mkq 1 7 /\
  FoldProofs.solves QcSR (push_null_weights nullw nn6 0 Gq) (NullUnaryProofs.pn_ext QcSR nullw nn6 0 Gq fq) /\
  (forall xs, NullUnaryProofs.pn_ext QcSR nullw nn6 0 Gq fq 0 xs = fq 0 xs) /\
  NullUnaryProofs.pn_ext QcSR nullw nn6 0 Gq fq (nn6 1) [0] = fq 1 [0] /\
  NullUnaryProofs.pn_ext QcSR nullw nn6 0 Gq fq (nn6 1) [] = s0 /\
  push_null_weights nullw nn6 0 Gq
    = [ (mkq 1 2, 0, [N (nn6 1); T 1]); (mkq 1 14, 0, [T 1]); (mkq 1 3, 0, [T 1]); (mkq 1 5, nn6 1, [T 0]) ].
Proof.
  intros nullw.
  assert (Hi : forall p q, nn6 p = nn6 q -> p = q) by (unfold nn6; intros; lia).
  assert (Hs : forall X, 0 <> nn6 X) by (unfold nn6; intros; lia).
  assert (H1 : forall r X, In r Gq -> rhead r <> nn6 X) by (intros r X H; unfold Gq, nn6 in *; inl; cbn; lia).
  assert (H2 : forall r X, In r Gq -> ~ In (N (nn6 X)) (rbody r)) by (intros r X H; unfold Gq, nn6 in *; inl; notin).
  assert (H3 : forall r, In r Gq -> ~ In (N 0) (rbody r)) by (intros r H; unfold Gq in *; inl; notin).
  assert (H4 : forall X, fq X [] = nullw X) by reflexivity.
  destruct (C06.C06_nullaryremove_solutions QcSR nullw nn6 0 Gq fq Hi Hs H1 H2 H3 fq_solves H4) as [A [B [C _]]].
  assert (Hn : nullw 1 <> s0) by (vm_compute; discriminate).
  assert (H10 : 1 <> 0) by lia.
  split; [exact Hi|split; [exact Hs|split; [exact H1|split; [exact H2|split; [exact H3|split; [exact fq_solves|split; [exact H4|]]]]]]].
  split; [vr|split; [exact A|split; [exact B|split; [exact (C 1 [0] Hn H10)|split; [exact (C 1 [] Hn H10)|]]]]].
  vm_compute. reflexivity.
Qed.

(* a grammar with a unary cycle S -> S (1/2) and a unary chain S -> A (1/4); closure table K = (I - U)^-1 *)
Definition Gu : grammar QcSR :=
  [ (mkq 1 2, 0, [N 0]); (mkq 1 4, 0, [N 1]); (mkq 1 3, 1, [T 0]); (mkq 1 5, 0, [T 1]) ].
Definition Ku (Y X : nat) : QcSR :=
  match Y, X with 0, 0 => mkq 2 1 | 0, 1 => mkq 1 2 | 1, 1 => mkq 1 1 | _, _ => mkq 0 1 end.
Example C06_unaryremove_solutions_nonvacuous :
  NoDup [0; 1] /\ (forall r, In r Gu -> In (rhead r) [0; 1]) /\
  (forall r Z, In r Gu -> rbody r = [N Z] -> In Z [0; 1]) /\
  (forall Y X, In Y [0; 1] -> In X [0; 1] ->
     Ku Y X = sadd (if Nat.eqb Y X then s1 else s0) (bsum [0; 1] (fun Z => smul (NullUnaryProofs.Umat QcSR Gu Y Z) (Ku Z X)))) /\
  (forall f', FoldProofs.solves QcSR (unaryremove Ku [0; 1] Gu) f' -> FoldProofs.solves QcSR Gu f') /\
  unaryremove Ku [0; 1] Gu = [ (mkq 1 6, 0, [T 0]); (mkq 1 3, 1, [T 0]); (mkq 2 5, 0, [T 1]) ].
Proof.
  assert (Hn : NoDup [0; 1]) by (repeat constructor; cbn; intuition lia).
  assert (H1 : forall r, In r Gu -> In (rhead r) [0; 1]) by (intros r H; unfold Gu in H; inl; cbn; intuition).
  assert (H2 : forall r Z, In r Gu -> rbody r = [N Z] -> In Z [0; 1])
    by (intros r Z H E; unfold Gu in H; inl; cbn in E; inversion E; cbn; intuition).
  assert (H3 : forall Y X, In Y [0; 1] -> In X [0; 1] ->
     Ku Y X = sadd (if Nat.eqb Y X then s1 else s0) (bsum [0; 1] (fun Z => smul (NullUnaryProofs.Umat QcSR Gu Y Z) (Ku Z X))))
    by (intros Y X HY HX; inl; vr).
  split; [exact Hn|split; [exact H1|split; [exact H2|split; [exact H3|split; [|vr]]]]].
  exact (proj1 (C06.C06_unaryremove_solutions QcSR Gu [0; 1] Ku Hn H1 H2 H3)).
Qed.

(* ================================================================================================
   C05 (history independence from a non-empty consistent cache)
   ================================================================================================ *)
From GV.model Require Import Cache.
From GV.props Require C05.

Example C05_history_independent_nonvacuous :
  let next := fun (c : list nat) a => length c + a in
  let answer := fun (c : list nat) (r : list nat) => (length c, r) in
  let m := fst (run 0 next answer [] [Query [1; 0]; Query [2]]) in
  cache_ok 0 next m /\ length m = 4 /\
  snd (run 0 next answer m [Query [3; 1; 0]; Clear; Query [2]])
    = map (fresh_answer 0 next answer) [Query [3; 1; 0]; Clear; Query [2]].
Proof.
  intros next answer m.
  assert (H0 : cache_ok 0 next (@nil (list nat * list nat))) by (intros r c H; discriminate H).
  assert (Hm : cache_ok 0 next m) by exact (proj2 (C05.C05_history_independent nat 0 next _ answer [Query [1; 0]; Query [2]] [] H0)).
  split; [exact Hm|split; [reflexivity|]].
  exact (proj1 (C05.C05_history_independent nat 0 next _ answer _ m Hm)).
Qed.

(* ================================================================================================
   C07 (the theorems without an example in props/C07.v)
   ================================================================================================ *)
From GV.model Require Import Cky Useful.
From GV.proofs Require TrimProofs.
From GV.props Require C07.

(* S -> a S b | A ; A -> a | eps : start on a right-hand side, a nullable symbol, a unary rule, a long body *)
Definition G7 : grammar QcSR :=
  [ (mkq 1 2, 0, [T 0; N 0; T 1]); (mkq 1 3, 0, [N 1]); (mkq 1 5, 1, [T 0]); (mkq 1 7, 1, []) ].
Definition nn7 (X : nat) : nat := 2 * X + 31.
Definition nullw7 (X : nat) : QcSR := match X with 0 => mkq 1 21 | 1 => mkq 1 7 | 60 => mkq 1 21 | _ => mkq 0 1 end.
(* closure of the unary graph of the null-free grammar: 60 -> 31 (1), 31 -> 33 (1/3), 50 -> 20 (1/21) *)
Definition K7 (Y X : nat) : QcSR :=
  if Nat.eqb Y X then mkq 1 1 else
  match Y, X with 60, 31 => mkq 1 1 | 31, 33 => mkq 1 3 | 60, 33 => mkq 1 3 | 50, 20 => mkq 1 21 | _, _ => mkq 0 1 end.

Example C07_cnf_pipeline_nonvacuous :
  let G1 := separate_terminals pt6 G7 in
  let G2 := binarize 50 G1 in
  let s2 := fst (separate_start 60 0 G2) in
  let G3 := snd (separate_start 60 0 G2) in
  let G4 := push_null_weights nullw7 nn7 s2 G3 in
  let nts := nodup Nat.eq_dec (map rhead G4) in
  let G5 := unaryremove K7 nts G4 in
  (forall r, In r G2 -> ~ In (N 60) (rbody r)) /\ 60 <> 0 /\
  (forall x, nn7 x <> s2) /\ (forall Y, Y <> s2 -> K7 Y s2 = s0) /\
  (forall r, In r G5 -> exists G4', (forall r', In r' G4' -> In r' G4) /\ In r (unaryremove K7 nts G4')) /\
  in_cnf s2 G5 = true /\ s2 = 60 /\ length G4 = 9 /\ length G5 = 10.
Proof.
  intros G1 G2 s2 G3 G4 nts G5.
  assert (H1 : forall r, In r G2 -> ~ In (N 60) (rbody r)).
  { apply (proj1 (proj1 (proj2 (proj2 (proj2 (proj2 (C07.C07_checkers_sound_complete QcSR 60 G2))))))). vm_compute; reflexivity. }
  assert (H2 : 60 <> 0) by lia.
  assert (E : s2 = 60) by (vm_compute; reflexivity).
  assert (H3 : forall x, nn7 x <> s2) by (rewrite E; unfold nn7; intros; lia).
  assert (H4 : forall Y, Y <> s2 -> K7 Y s2 = s0).
  { rewrite E. intros Y HY. unfold K7. destruct (Nat.eqb_spec Y 60) as [E'|_]; [contradiction|].
    do 61 (destruct Y as [|Y]; [vr|]). vr. }
  assert (H5 : forall r, In r G5 -> exists G4', (forall r', In r' G4' -> In r' G4) /\ In r (unaryremove K7 nts G4'))
    by (intros r Hr; exists G4; split; [intros r' H; exact H|exact Hr]).
  split; [exact H1|split; [exact H2|split; [exact H3|split; [exact H4|split; [exact H5|split]]]]].
  - exact (C07.C07_cnf_pipeline QcSR G7 pt6 50 60 0 nullw7 nn7 K7 nts G5 H1 H2 H3 H4 H5).
  - split; [exact E|split; vm_compute; reflexivity].
Qed.

(* The hypotheses of C07_useful_empty_language force G = [] (that is the theorem's conclusion), so the only
   instances are the empty grammar: structurally degenerate. *)
Example C07_useful_empty_language_nonvacuous : (* degenerate instance *)
  all_useful 0 (@nil (rule BoolSR)) = true /\ ~ TrimProofs.productive (@nil (rule BoolSR)) 0.
Proof. split; [reflexivity|]. intros H. inversion H as [r Hr Hb Hh]. destruct Hr. Qed.

Example C07_transform_shapes_nonvacuous :
  (forall r, In r Gr -> ~ In (N 9) (rbody r)) /\ 9 <> 0 /\
  start_not_on_rhs (fst (separate_start 9 0 Gr)) (snd (separate_start 9 0 Gr)) = true /\
  fst (separate_start 9 0 Gr) = 9.
Proof.
  assert (H2 : forall r, In r Gr -> ~ In (N 9) (rbody r)) by (intros r H; unfold Gr in H; inl; notin).
  assert (H3 : 9 <> 0) by lia.
  split; [exact H2|split; [exact H3|split; [|reflexivity]]].
  exact (proj2 (proj2 (proj2 (proj2 (C07.C07_transform_shapes NSR Gr)))) 9 0 H2 H3).
Qed.

(* ================================================================================================
   C08
   ================================================================================================ *)
From GV.model Require Import Agenda2 Expect.
From GV.gen Require Import Gen_Exprs.
From GV.proofs Require ExpectProofs.
From GV.props Require C08.

(* S -> A a (2), A -> eps (3) over N; terminals [0].  Three pops: (T 0, 1), (N 1, 3), (N 0, 6). *)
Definition Ga : grammar NSR := [ (2%N, 0, [N 1; T 0]); (3%N, 1, []) ].
Definition st0 : astate NSR := ainit Ga [0].
Definition st1 : astate NSR := astep (agenda_sel NSR) (agenda_new NSR) Ga (fst st0) (T 0) 1%N [(N 1, 3%N)].
Definition st2 : astate NSR := astep (agenda_sel NSR) (agenda_new NSR) Ga (fst st1) (N 1) 3%N [].
Definition st3 : astate NSR := astep (agenda_sel NSR) (agenda_new NSR) Ga (fst st2) (N 0) 6%N [].
Ltac pops_tac := let x := fresh "x" in intros x; destruct x as [[|[|?]]|[|[|?]]]; vm_compute; reflexivity.
Lemma reach1 : areach (agenda_sel NSR) (agenda_new NSR) Ga [0] st1.
Proof. apply (areach_step NSR _ _ Ga [0] (fst st0) (snd st0)); [exact (areach_init NSR _ _ Ga [0])|pops_tac]. Qed.
Lemma reach2 : areach (agenda_sel NSR) (agenda_new NSR) Ga [0] st2.
Proof. apply (areach_step NSR _ _ Ga [0] (fst st1) (snd st1)); [exact reach1|pops_tac]. Qed.
Lemma reach3 : areach (agenda_sel NSR) (agenda_new NSR) Ga [0] st3.
Proof. apply (areach_step NSR _ _ Ga [0] (fst st2) (snd st2)); [exact reach2|pops_tac]. Qed.

Example C08_agenda_invariant_nonvacuous :
  NoDup [0] /\ areach (agenda_sel NSR) (agenda_new NSR) Ga [0] st2 /\ snd st2 = [(N 0, 6%N)] /\ ainv Ga [0] st2.
Proof.
  assert (Hn : NoDup [0]) by (repeat constructor; cbn; intuition).
  split; [exact Hn|split; [exact reach2|split; [reflexivity|]]].
  exact (C08.C08_agenda_invariant NSR Ga [0] st2 Hn reach2).
Qed.

Example C08_agenda_fixpoint_nonvacuous :
  NoDup [0] /\ areach (agenda_sel NSR) (agenda_new NSR) Ga [0] (fst st3, snd st3) /\ (forall x, pend (snd st3) x = s0) /\
  (forall X, fst st3 (N X) = rhs_val Ga (fst st3) X) /\ fst st3 (N 0) = 6%N /\ fst st3 (N 1) = 3%N /\ fst st3 (T 0) = 1%N.
Proof.
  assert (Hn : NoDup [0]) by (repeat constructor; cbn; intuition).
  assert (Hr : areach (agenda_sel NSR) (agenda_new NSR) Ga [0] (fst st3, snd st3)) by exact reach3.
  assert (Hp : forall x, pend (snd st3) x = s0) by (intros x; reflexivity).
  split; [exact Hn|split; [exact Hr|split; [exact Hp|split; [|repeat split; reflexivity]]]].
  exact (proj2 (C08.C08_agenda_fixpoint NSR Ga [0] (fst st3) (snd st3) Hn Hr Hp)).
Qed.

Example C08_expectation_tree_nonvacuous :
  twf QcSR Gq (N 0) tq /\
  tweight (ExpectProofs.tlift QcSR tq) = (tweight tq, smul (tweight tq) (nat_s (length (tyield tq)))) /\
  tweight tq = mkq 1 10 /\ smul (tweight tq) (nat_s (length (tyield tq))) = (mkq 1 5 : QcSR).
Proof.
  split; [exact tq_wf|split; [exact (C08.C08_expectation_tree QcSR Gq tq 0 tq_wf)|split; vr]].
Qed.

(* ================================================================================================
   C09 / C10
   ================================================================================================ *)
From GV.proofs Require ProductProofs.
From GV.proofs Require Import FilterMachine.
From GV.props Require C09 C10.

Lemma filter_hyps : NoDup [0; 1] /\ In 0 [0; 1] /\ 7 <> 8 /\ ~ In 7 [0; 1] /\ ~ In 8 [0; 1].
Proof. repeat split; try (repeat constructor; cbn; intuition lia); cbn; intuition lia. Qed.

Example C09_prefix_transducer_nonvacuous :
  NoDup [0; 1] /\ (forall a, In a [1; 1; 0] -> In a [0; 1]) /\ length [1; 1; 0] <= 4 /\
  trel (prefix_transducer (S:=BoolSR) [0; 1]) 4 [1; 1; 0] [1; 0] = false.
Proof.
  destruct filter_hyps as [H1 _].
  assert (H2 : forall a, In a [1; 1; 0] -> In a [0; 1]) by (cbn; intuition).
  assert (H3 : length [1; 1; 0] <= 4) by (cbn; lia).
  split; [exact H1|split; [exact H2|split; [exact H3|]]].
  rewrite (C09.C09_prefix_transducer BoolSR [0; 1] [1; 1; 0] [1; 0] 4 H1 H2 H3). reflexivity.
Qed.

Example C10_filter_unique_nonvacuous :
  NoDup [0; 1] /\ In 0 [0; 1] /\ 7 <> 8 /\ ~ In 7 [0; 1] /\ ~ In 8 [0; 1] /\ 2 + 1 < 9 /\
  left_moves [MB; MD] = 2 /\ right_moves [MB; MD] = 1 /\ [MB; MD] <> canonical 2 1 /\
  trel (@epsilon_filter NSR 7 8 [0; 1]) 9 (enc_in 7 8 (canonical 2 1) ++ [0]) (enc_out 7 8 (canonical 2 1) ++ [0]) = s1 /\
  trel (@epsilon_filter NSR 7 8 [0; 1]) 9 (enc_in 7 8 [MB; MD] ++ [0]) (enc_out 7 8 [MB; MD] ++ [0]) = s0.
Proof.
  destruct filter_hyps as [H1 [H2 [H3 [H4 H5]]]]. assert (H6 : 2 + 1 < 9) by lia.
  destruct (C10.C10_filter_unique NSR 7 8 [0; 1] 0 2 1 9 H1 H2 H3 H4 H5 H6) as [A B].
  assert (Hc : [MB; MD] <> canonical 2 1) by (vm_compute; discriminate).
  repeat (split; [assumption || reflexivity|]). exact (B [MB; MD] eq_refl eq_refl Hc).
Qed.

Example C10_filter_block_weight_nonvacuous :
  NoDup [0; 1] /\ In 0 [0; 1] /\ 7 <> 8 /\ ~ In 7 [0; 1] /\ ~ In 8 [0; 1] /\ length [MD; MB; MA] < 9 /\
  trel (@epsilon_filter NSR 7 8 [0; 1]) 9 (enc_in 7 8 [MD; MB; MA] ++ [0]) (enc_out 7 8 [MD; MB; MA] ++ [0])
    = (if list_eqb_move [MD; MB; MA] (canonical (left_moves [MD; MB; MA]) (right_moves [MD; MB; MA])) then s1 else s0) /\
  list_eqb_move [MD; MB; MA] (canonical (left_moves [MD; MB; MA]) (right_moves [MD; MB; MA])) = false.
Proof.
  destruct filter_hyps as [H1 [H2 [H3 [H4 H5]]]]. assert (H6 : length [MD; MB; MA] < 9) by (cbn; lia).
  repeat (split; [assumption|]). split; [|reflexivity].
  exact (C10.C10_filter_block_weight NSR 7 8 [0; 1] 0 [MD; MB; MA] 9 H1 H2 H3 H4 H5 H6).
Qed.

Example C10_filter_real_symbol_nonvacuous :
  NoDup [0; 1] /\ In 0 [0; 1] /\ 7 <> 8 /\ ~ In 7 [0; 1] /\ ~ In 8 [0; 1] /\ 1 <= 3 /\ 2 <= 2 /\
  trelf (@epsilon_filter NSR 7 8 [0; 1]) 3 2 [0] [0] = s1.
Proof.
  destruct filter_hyps as [H1 [H2 [H3 [H4 H5]]]]. assert (H6 : 1 <= 3) by lia. assert (H7 : 2 <= 2) by lia.
  repeat (split; [assumption|]).
  exact (C10.C10_filter_real_symbol NSR 7 8 [0; 1] 0 2 3 H1 H2 H3 H4 H5 H6 H7).
Qed.

(* first machine: reads 0 and writes 1 0^k (an input-epsilon loop); second: reads 1 0^k, writes 5 *)
Definition ta : fst_t NSR := @mkT NSR [(0, 1%N)] [(1, 1%N)] [(0, Some 0, Some 1, 1, 2%N); (1, None, Some 0, 1, 3%N)].
Definition tb : fst_t NSR := @mkT NSR [(0, 1%N)] [(0, 1%N); (1, 2%N)] [(0, Some 1, Some 5, 1, 5%N); (1, Some 0, None, 1, 7%N)].
Example C10_product_is_relational_composition_nonvacuous :
  NoDup [0; 1] /\
  (forall ar, In ar (tarcs ta) -> exists y, tout ar = Some y /\ In y [0; 1]) /\
  (forall ar, In ar (tarcs tb) -> exists y, tin ar = Some y) /\
  (forall q, (In q (map fst (tinit tb)) \/ In q (map fst (tfinal tb)) \/
              (exists ar, In ar (tarcs tb) /\ (tsrc ar = q \/ tdst ar = q))) -> q < 2) /\
  trel (compose_nf 2 ta tb) 3 [0] [5]
    = bsum (ProductProofs.words_le [0; 1] 3) (fun ys => smul (trel ta 3 [0] ys) (trel tb 3 ys [5])) /\
  trel (compose_nf 2 ta tb) 3 [0] [5] = 9260%N.
Proof.
  destruct filter_hyps as [H1 _].
  assert (H2 : forall ar, In ar (tarcs ta) -> exists y, tout ar = Some y /\ In y [0; 1])
    by (intros ar H; cbn in H; inl; eexists; (split; [reflexivity|cbn; intuition])).
  assert (H3 : forall ar, In ar (tarcs tb) -> exists y, tin ar = Some y)
    by (intros ar H; cbn in H; inl; eexists; reflexivity).
  assert (H4 : forall q, (In q (map fst (tinit tb)) \/ In q (map fst (tfinal tb)) \/
              (exists ar, In ar (tarcs tb) /\ (tsrc ar = q \/ tdst ar = q))) -> q < 2).
  { intros q [H|[H|[ar [H E]]]]; cbn in H; inl; cbn in *; inl; lia. }
  split; [exact H1|split; [exact H2|split; [exact H3|split; [exact H4|split; [|reflexivity]]]]].
  exact (C10.C10_product_is_relational_composition NSR 2 [0; 1] ta tb 3 [0] [5] H1 H2 H3 H4).
Qed.

(* ================================================================================================
   C11
   ================================================================================================ *)
From GV.model Require Import Linear Wfsa WfsaEps EpsSpec.
From GV.proofs Require LehmannProof ClosureExtra.
From GV.props Require C11.

Ltac neq_tac := repeat match goal with
  | |- _ /\ _ => split
  | |- True => exact I
  | |- _ -> False => let E := fresh "E" in intro E; discriminate E
  | |- _ <> _ => let E := fresh "E" in intro E; discriminate E
  end.

(* an automaton with two epsilon arcs (0 -> 1 and 2 -> 3), epsilon-acyclic, with a cycle 2 -eps-> 3 -b-> 2 *)
Definition me : wfsa QcStar := @mkW QcStar [(0, mkq 1 1)] [(2, mkq 1 2)]
  [(0, None, 1, mkq 1 3); (1, Some 0, 2, mkq 1 5); (0, Some 0, 2, mkq 1 7); (2, None, 3, mkq 1 2); (3, Some 1, 2, mkq 1 3)].
Example C11_call_is_path_sum_nonvacuous :
  LehmannProof.defined QcStar (states_of me) (eps_mat me) /\
  (forall i k, In i (states_of me) -> In k (states_of me) -> ClosureExtra.fpow QcStar (states_of me) (epsf me) 2 i k = s0) /\
  (length [0; 1] + 1) * 2 + length [0; 1] <= 8 /\
  call me [0; 1] = pathsum_e me 8 [0; 1] /\ call me [0; 1] = mkq 11 630.
Proof.
  assert (H1 : LehmannProof.defined QcStar (states_of me) (eps_mat me)) by (vm_compute; neq_tac).
  assert (H2 : forall i k, In i (states_of me) -> In k (states_of me) -> ClosureExtra.fpow QcStar (states_of me) (epsf me) 2 i k = s0)
    by (intros i k Hi Hk; vm_compute in Hi, Hk; inl; vr).
  assert (H3 : (length [0; 1] + 1) * 2 + length [0; 1] <= 8) by (cbn; lia).
  split; [exact H1|split; [exact H2|split; [exact H3|split; [|vr]]]].
  exact (C11.C11_call_is_path_sum QcStar me 2 [0; 1] 8 H1 H2 H3).
Qed.

(* a cyclic graph: 0 -> 0 (1/2), 0 -> 1 (1/3), 1 -> 0 (1/5) *)
Definition Ac : mat QcStar := [ (0, 0, mkq 1 2); (0, 1, mkq 1 3); (1, 0, mkq 1 5) ].
Lemma Ac_hyps : NoDup [0; 1] /\ LehmannProof.defined QcStar [0; 1] Ac.
Proof. split; [exact (proj1 filter_hyps)|vm_compute; neq_tac]. Qed.
Example C11_closure_fixpoint_nonvacuous :
  NoDup [0; 1] /\ LehmannProof.defined QcStar [0; 1] Ac /\ In 0 [0; 1] /\ In 1 [0; 1] /\
  mget (lehmann [0; 1] Ac) 0 1
    = sadd (fid 0 1) (bsum [0; 1] (fun j => smul (mget Ac 0 j) (mget (lehmann [0; 1] Ac) j 1))) /\
  mget (lehmann [0; 1] Ac) 0 1 = mkq 10 13.
Proof.
  destruct Ac_hyps as [H1 H2]. assert (Hi : In 0 [0; 1]) by (cbn; intuition). assert (Hk : In 1 [0; 1]) by (cbn; intuition).
  repeat (split; [assumption|]). split; [|vr].
  exact (proj1 (C11.C11_closure_fixpoint QcStar [0; 1] Ac H1 H2 0 1 Hi Hk)).
Qed.

(* ================================================================================================
   C12
   ================================================================================================ *)
From GV.proofs Require RationalOps.
From GV.props Require C12.

Definition ma : wfsa QcSR := @mkW QcSR [(0, mkq 1 1)] [(1, mkq 1 2)] [(0, Some 0, 1, mkq 1 3); (1, Some 1, 1, mkq 1 4)].
Definition mb : wfsa QcSR := @mkW QcSR [(0, mkq 1 2)] [(1, mkq 1 1)] [(0, Some 1, 1, mkq 1 5); (0, Some 0, 0, mkq 1 2)].
Lemma ma_eps_free : forall ar, In ar (warcs ma) -> albl ar <> None.
Proof. intros ar H; cbn in H; inl; cbn; discriminate. Qed.
Lemma mb_eps_free : forall ar, In ar (warcs mb) -> albl ar <> None.
Proof. intros ar H; cbn in H; inl; cbn; discriminate. Qed.

Example C12_rename_injective_nonvacuous :
  let f := fun q => 3 * q + 2 in
  (forall p q, f p = f q -> p = q) /\ (forall xs, weight (rename f ma) xs = weight ma xs) /\
  weight (rename f ma) [0; 1] = mkq 1 24.
Proof.
  intros f. assert (Hf : forall p q, f p = f q -> p = q) by (unfold f; intros; lia).
  split; [exact Hf|split; [|vr]]. intros xs. exact (C12.C12_rename_injective QcSR f ma xs Hf).
Qed.

Example C12_concat_nonvacuous :
  (forall ar, In ar (warcs ma) -> albl ar <> None) /\ (forall ar, In ar (warcs mb) -> albl ar <> None) /\
  length [0; 1; 1] < 4 /\
  pathsum_e (wconcat ma mb) 4 [0; 1; 1] = bsum (splits [0; 1; 1]) (fun p => smul (pathsum ma (fst p)) (pathsum mb (snd p))) /\
  pathsum_e (wconcat ma mb) 4 [0; 1; 1] = mkq 1 240.
Proof.
  assert (H3 : length [0; 1; 1] < 4) by (cbn; lia).
  split; [exact ma_eps_free|split; [exact mb_eps_free|split; [exact H3|split; [|vr]]]].
  exact (C12.C12_concat QcSR ma mb [0; 1; 1] 4 ma_eps_free mb_eps_free H3).
Qed.

Example C12_plus_nonvacuous :
  (forall ar, In ar (warcs ma) -> albl ar <> None) /\
  (forall i f, In i (winit ma) -> In f (wfinal ma) -> fst i <> fst f) /\
  2 * length [0; 1; 0] < 7 /\
  pathsum_e (wplus ma) 7 [0; 1; 0] = RationalOps.kplus ma (length [0; 1; 0]) [0; 1; 0] /\
  pathsum_e (wplus ma) 7 [0; 1; 0] = mkq 1 144.
Proof.
  assert (H2 : forall i f, In i (winit ma) -> In f (wfinal ma) -> fst i <> fst f)
    by (intros i f Hi Hf; cbn in Hi, Hf; inl; cbn; lia).
  assert (H3 : 2 * length [0; 1; 0] < 7) by (cbn; lia).
  split; [exact ma_eps_free|split; [exact H2|split; [exact H3|split; [|vr]]]].
  exact (C12.C12_plus QcSR ma [0; 1; 0] ma_eps_free H2 7 H3).
Qed.

Example C12_one_zero_lift_nonvacuous :
  1 <= 2 /\ pathsum_e (@wone QcSR) 2 [] = s1 /\ pathsum_e (@wone QcSR) 2 [0] = s0.
Proof.
  assert (H : 1 <= 2) by lia.
  split; [exact H|split; exact (proj1 (C12.C12_one_zero_lift QcSR) _ 2 H)].
Qed.

(* ================================================================================================
   C13
   ================================================================================================ *)
From GV.model Require Import Det TrimW.
From GV.proofs Require TrimWProofs.
From GV.props Require C13.

(* state 2 is a dead end (backward weight zero), state 3 is not accessible *)
Definition m13 : wfsa QcFR := @mkW QcFR [(0, mkq 1 1)] [(1, mkq 1 2)]
  [(0, Some 0, 1, mkq 1 3); (1, Some 1, 1, mkq 1 4); (0, Some 1, 2, mkq 1 5); (3, Some 0, 1, mkq 1 7)].
Definition V13 (q : nat) : QcFR := match q with 0 => mkq 2 9 | 1 => mkq 2 3 | 3 => mkq 2 21 | _ => mkq 0 1 end.
Lemma V13_backward : backward_eq V13 m13.
Proof. intros i. destruct i as [|[|[|[|i]]]]; vr. Qed.
Lemma m13_dead q : V13 q = s0 -> forall xs, pw m13 q xs = s0.
Proof.
  destruct q as [|[|[|[|q]]]]; intros H xs;
    try (exfalso; vm_compute in H; discriminate H); destruct xs; vr.
Qed.

Example C13_push_stochastic_nonvacuous :
  backward_eq V13 m13 /\ V13 0 <> s0 /\ out_mass (push_with V13 m13) 0 = s1 /\
  V13 2 = s0 /\ out_mass (push_with V13 m13) 2 = s0.
Proof.
  assert (H : V13 0 <> s0) by (vm_compute; neq_tac).
  split; [exact V13_backward|split; [exact H|split; [|split; vr]]].
  exact (C13.C13_push_stochastic QcFR V13 m13 0 V13_backward H).
Qed.

Example C13_push_language_nonvacuous :
  backward_eq V13 m13 /\ (forall q, V13 q = s0 -> forall xs, pw m13 q xs = s0) /\
  (forall xs, weight (push_with V13 m13) xs = weight m13 xs) /\ weight m13 [0; 1; 1] = mkq 1 96.
Proof.
  split; [exact V13_backward|split; [exact m13_dead|split; [|vr]]].
  exact (C13.C13_push_language QcFR V13 m13 V13_backward m13_dead).
Qed.

(* a non-deterministic automaton: two arcs labelled 0 leave state 0 *)
Definition md : wfsa QcFR := @mkW QcFR [(0, mkq 1 1)] [(1, mkq 1 2); (2, mkq 1 3)]
  [(0, Some 0, 1, mkq 1 3); (0, Some 0, 2, mkq 1 5); (1, Some 1, 1, mkq 1 4); (2, Some 1, 1, mkq 1 2)].
Example C13_determinize_invariant_nonvacuous :
  det_defined md (winit md) [0; 1] /\ det_value md [0; 1] = weight md [0; 1] /\ weight md [0; 1] = mkq 11 120.
Proof.
  assert (H : det_defined md (winit md) [0; 1]) by (vm_compute; neq_tac).
  split; [exact H|split; [exact (proj2 (C13.C13_determinize_invariant QcFR md [0; 1] H))|vr]].
Qed.

Example C13_trim_accessible_nonvacuous :
  TrimWProofs.closed_succ QcFR m13 [0; 1; 2] /\ (forall e, In e (winit m13) -> inb (fst e) [0; 1; 2] = true) /\
  (forall xs, weight (wtrim [0; 1; 2] m13) xs = weight m13 xs) /\ length (warcs (wtrim [0; 1; 2] m13)) = 3.
Proof.
  assert (H1 : TrimWProofs.closed_succ QcFR m13 [0; 1; 2]) by (intros ar H; cbn in H; inl; intros _; reflexivity).
  assert (H2 : forall e, In e (winit m13) -> inb (fst e) [0; 1; 2] = true) by (intros e H; cbn in H; inl; reflexivity).
  split; [exact H1|split; [exact H2|split; [|vr]]].
  exact (C13.C13_trim_accessible QcFR m13 [0; 1; 2] H1 H2).
Qed.

Example C13_trim_dead_nonvacuous :
  (forall q, inb q [0; 1; 3] = false -> TrimWProofs.dead QcFR m13 q) /\
  (forall xs, weight (wtrim [0; 1; 3] m13) xs = weight m13 xs) /\ length (warcs (wtrim [0; 1; 3] m13)) = 3.
Proof.
  assert (H1 : forall q, inb q [0; 1; 3] = false -> TrimWProofs.dead QcFR m13 q).
  { intros q H. destruct q as [|[|[|[|q]]]]; try discriminate H; intros xs; destruct xs; vr. }
  split; [exact H1|split; [|vr]]. exact (C13.C13_trim_dead QcFR m13 [0; 1; 3] H1).
Qed.

Example C13_trim_language_nonvacuous :
  TrimWProofs.closed_succ QcFR m13 [0; 1; 2] /\ (forall e, In e (winit m13) -> inb (fst e) [0; 1; 2] = true) /\
  (forall q, inb q [0; 1] = false -> TrimWProofs.dead QcFR (wtrim [0; 1; 2] m13) q) /\
  (forall xs, weight (wtrim [0; 1] (wtrim [0; 1; 2] m13)) xs = weight m13 xs) /\
  length (warcs (wtrim [0; 1] (wtrim [0; 1; 2] m13))) = 2.
Proof.
  assert (H1 : TrimWProofs.closed_succ QcFR m13 [0; 1; 2]) by (intros ar H; cbn in H; inl; intros _; reflexivity).
  assert (H2 : forall e, In e (winit m13) -> inb (fst e) [0; 1; 2] = true) by (intros e H; cbn in H; inl; reflexivity).
  assert (H3 : forall q, inb q [0; 1] = false -> TrimWProofs.dead QcFR (wtrim [0; 1; 2] m13) q).
  { intros q H. destruct q as [|[|[|q]]]; try discriminate H; intros xs; destruct xs; vr. }
  split; [exact H1|split; [exact H2|split; [exact H3|split; [|vr]]]].
  exact (C13.C13_trim_language QcFR m13 [0; 1; 2] [0; 1] H1 H2 H3).
Qed.

(* ================================================================================================
   C14
   ================================================================================================ *)
From GV.model Require Tzeng.
From GV.props Require C14.

(* difference automaton of A (one state, loop 1/2 on symbol 0) and B (one state, loop 1/3): not equivalent *)
Definition M14 (a i j : nat) : QcFR :=
  match a, i, j with 0, 0, 0 => mkq 1 2 | 0, 1, 1 => mkq 1 3 | _, _, _ => mkq 0 1 end.
Definition d14 (i : nat) : QcFR := match i with 0 => mkq 1 1 | _ => mkq (-1) 1 end.
Definition eta14 (i : nat) : QcFR := mkq 1 1.
(* A (one state, loop 1/2) against B (two states, each started with 1/2, loops 1/2): equivalent *)
Definition M14e (a i j : nat) : QcFR := if Nat.eqb a 0 && Nat.eqb i j then mkq 1 2 else mkq 0 1.
Definition d14e (i : nat) : QcFR := match i with 0 => mkq 1 1 | _ => mkq (-1) 2 end.

Example C14_counterexample_sound_nonvacuous :
  exists w v, Tzeng.counterexample [0; 1] M14 d14 eta14 [0; 1] 5 = Some (Some (w, v)) /\ w = [0] /\
    v = Tzeng.dot [0; 1] d14 (Tzeng.act [0; 1] M14 w eta14) /\ v <> s0 /\ (forall a, In a w -> In a [0; 1]) /\
    v = mkq 1 6.
Proof.
  destruct (Tzeng.counterexample [0; 1] M14 d14 eta14 [0; 1] 5) as [[[w v]|]|] eqn:E;
    [|vm_compute in E; discriminate E ..].
  exists w, v. destruct (C14.C14_counterexample_sound QcFR [0; 1] M14 d14 eta14 [0; 1] 5 w v E) as [A [B C]].
  assert (Hw : w = [0]) by (vm_compute in E; congruence).
  split; [reflexivity|split; [exact Hw|split; [exact A|split; [exact B|split; [exact C|]]]]].
  rewrite A, Hw. vr.
Qed.

Example C14_none_means_equivalent_nonvacuous :
  Tzeng.counterexample [0; 1; 2] M14e d14e eta14 [0] 5 = Some None /\
  (forall w, (forall a, In a w -> In a [0]) -> Tzeng.dot [0; 1; 2] d14e (Tzeng.act [0; 1; 2] M14e w eta14) = s0) /\
  Tzeng.dot [0; 1; 2] (fun i => if Nat.eqb i 0 then d14e i else s0) (Tzeng.act [0; 1; 2] M14e [0; 0] eta14) = mkq 1 4.
Proof.
  assert (E : Tzeng.counterexample [0; 1; 2] M14e d14e eta14 [0] 5 = Some None) by (vm_compute; reflexivity).
  split; [exact E|split; [|vr]].
  exact (C14.C14_none_means_equivalent QcFR [0; 1; 2] M14e d14e eta14 [0] 5 E).
Qed.

Example C14_rational_instance_nonvacuous :
  (exists w v, Tzeng.counterexample (F:=QcFR) [0; 1] M14 d14 eta14 [0; 1] 5 = Some (Some (w, v)) /\
     v = Tzeng.dot (F:=QcFR) [0; 1] d14 (Tzeng.act (F:=QcFR) [0; 1] M14 w eta14) /\ v <> 0%Qc) /\
  Tzeng.counterexample (F:=QcFR) [0; 1; 2] M14e d14e eta14 [0] 5 = Some None /\
  (forall w, (forall a, In a w -> In a [0]) ->
     Tzeng.dot (F:=QcFR) [0; 1; 2] d14e (Tzeng.act (F:=QcFR) [0; 1; 2] M14e w eta14) = 0%Qc).
Proof.
  split.
  - destruct (Tzeng.counterexample (F:=QcFR) [0; 1] M14 d14 eta14 [0; 1] 5) as [[[w v]|]|] eqn:E;
      [|vm_compute in E; discriminate E ..].
    exists w, v. split; [reflexivity|]. exact (proj1 (C14.C14_rational_instance [0; 1] M14 d14 eta14 [0; 1] 5) w v E).
  - assert (E : Tzeng.counterexample (F:=QcFR) [0; 1; 2] M14e d14e eta14 [0] 5 = Some None) by (vm_compute; reflexivity).
    split; [exact E|]. exact (proj2 (C14.C14_rational_instance [0; 1; 2] M14e d14e eta14 [0] 5) E).
Qed.

(* ================================================================================================
   C15
   ================================================================================================ *)
From GV.model Require Import Blocks.
From GV.proofs Require BlockSolver.
From GV.props Require C15.

Example C15_lehmann_fixpoint_nonvacuous :
  NoDup [0; 1] /\ LehmannProof.defined QcStar [0; 1] Ac /\ In 1 [0; 1] /\ In 0 [0; 1] /\
  mget (lehmann [0; 1] Ac) 1 0
    = sadd (fid 1 0) (bsum [0; 1] (fun j => smul (mget (lehmann [0; 1] Ac) 1 j) (mget Ac j 0))) /\
  mget (lehmann [0; 1] Ac) 0 0 = mkq 30 13.
Proof.
  destruct Ac_hyps as [H1 H2]. assert (Hi : In 1 [0; 1]) by (cbn; intuition). assert (Hk : In 0 [0; 1]) by (cbn; intuition).
  repeat (split; [assumption|]). split; [|vr].
  exact (proj2 (C15.C15_lehmann_fixpoint QcStar [0; 1] Ac H1 H2 1 0 Hi Hk)).
Qed.

(* the |N| = 1 shortcut: a single node with a self loop of weight 1/2 *)
Example C15_closure_fixpoint_nonvacuous :
  let A1 : mat QcStar := [ (4, 4, mkq 1 2) ] in
  NoDup [4] /\ (match [4] with [i] => sdef QcStar (mget A1 i i) | _ => LehmannProof.defined QcStar [4] A1 end) /\ In 4 [4] /\
  mget (closure [4] A1) 4 4 = sadd (fid 4 4) (bsum [4] (fun j => smul (mget A1 4 j) (mget (closure [4] A1) j 4))) /\
  mget (closure [4] A1) 4 4 = mkq 2 1.
Proof.
  intros A1. assert (H1 : NoDup [4]) by (repeat constructor; cbn; intuition).
  assert (H2 : match [4] with [i] => sdef QcStar (mget A1 i i) | _ => LehmannProof.defined QcStar [4] A1 end)
    by (vm_compute; neq_tac).
  assert (H3 : In 4 [4]) by (cbn; intuition).
  split; [exact H1|split; [exact H2|split; [exact H3|split; [|vr]]]].
  exact (C15.C15_closure_fixpoint QcStar [4] A1 H1 H2 4 4 H3 H3).
Qed.

(* an acyclic graph: 0 -> 1 (1/2), 1 -> 2 (1/3), 0 -> 2 (1/5): A^3 = 0 *)
Definition Aa : mat QcStar := [ (0, 1, mkq 1 2); (1, 2, mkq 1 3); (0, 2, mkq 1 5) ].
Lemma nodup3 : NoDup [0; 1; 2].
Proof. repeat constructor; cbn; intuition lia. Qed.
Example C15_acyclic_is_power_sum_nonvacuous :
  NoDup [0; 1; 2] /\ LehmannProof.defined QcStar [0; 1; 2] Aa /\
  (forall i k, In i [0; 1; 2] -> In k [0; 1; 2] -> ClosureExtra.fpow QcStar [0; 1; 2] (mget Aa) 3 i k = s0) /\
  In 0 [0; 1; 2] /\ In 2 [0; 1; 2] /\
  mget (lehmann [0; 1; 2] Aa) 0 2 = bsum (seq 0 3) (fun m => ClosureExtra.fpow QcStar [0; 1; 2] (mget Aa) m 0 2) /\
  mget (lehmann [0; 1; 2] Aa) 0 2 = mkq 11 30.
Proof.
  assert (H2 : LehmannProof.defined QcStar [0; 1; 2] Aa) by (vm_compute; neq_tac).
  assert (H3 : forall i k, In i [0; 1; 2] -> In k [0; 1; 2] -> ClosureExtra.fpow QcStar [0; 1; 2] (mget Aa) 3 i k = s0)
    by (intros i k Hi Hk; inl; vr).
  assert (Hi : In 0 [0; 1; 2]) by (cbn; intuition). assert (Hk : In 2 [0; 1; 2]) by (cbn; intuition).
  split; [exact nodup3|split; [exact H2|split; [exact H3|split; [exact Hi|split; [exact Hk|split; [|vr]]]]]].
  exact (C15.C15_acyclic_is_power_sum QcStar [0; 1; 2] Aa 3 nodup3 H2 H3 0 2 Hi Hk).
Qed.

Definition Abool : mat BoolStar := [ (0, 1, true); (1, 2, true); (2, 1, true) ].
Example C15_bool_reachability_nonvacuous :
  NoDup [0; 1; 2] /\ In 0 [0; 1; 2] /\ In 2 [0; 1; 2] /\
  mget (lehmann [0; 1; 2] Abool) 0 2 = true /\ ClosureExtra.reachN [0; 1; 2] Abool 0 2 /\
  mget (lehmann [0; 1; 2] Abool) 2 0 = false /\ ~ ClosureExtra.reachN [0; 1; 2] Abool 2 0.
Proof.
  assert (Hi : In 0 [0; 1; 2]) by (cbn; intuition). assert (Hk : In 2 [0; 1; 2]) by (cbn; intuition).
  pose proof (C15.C15_bool_reachability [0; 1; 2] Abool 0 2 nodup3 Hi Hk) as A.
  pose proof (C15.C15_bool_reachability [0; 1; 2] Abool 2 0 nodup3 Hk Hi) as B.
  split; [exact nodup3|split; [exact Hi|split; [exact Hk|split; [reflexivity|split; [apply A; reflexivity|split; [reflexivity|]]]]]].
  intros R. apply B in R. vm_compute in R. discriminate R.
Qed.

(* two strongly connected components {0, 1} (a cycle) and {2} (a self loop), edges going forward *)
Definition Ab : mat QcStar := [ (0, 1, mkq 1 2); (1, 0, mkq 1 3); (1, 2, mkq 1 5); (2, 2, mkq 1 7) ].
Definition bb : vec QcStar := [ (0, mkq 1 1) ].
Lemma Ab_outside : forall i k, ~ In i [0; 1; 2] \/ ~ In k [0; 1; 2] -> mget Ab i k = s0.
Proof.
  intros i k H. destruct i as [|[|[|i]]]; destruct k as [|[|[|k]]]; try (vm_compute; reflexivity);
    exfalso; destruct H as [H|H]; apply H; cbn; intuition lia.
Qed.
Example C15_block_solvers_nonvacuous :
  let blocks := [[0; 1]; [2]] in
  NoDup [0; 1; 2] /\ is_partition [0; 1; 2] blocks = true /\ forward_edges [0; 1; 2] blocks Ab = true /\
  (forall i k, ~ In i [0; 1; 2] \/ ~ In k [0; 1; 2] -> mget Ab i k = s0) /\
  (forall blk, In blk blocks -> forall i k, In i blk -> In k blk ->
      mget (block_closure blk Ab) i k = sadd (fid i k) (bsum blk (fun j => smul (mget (block_closure blk Ab) i j) (mget Ab j k)))) /\
  (forall blk, In blk blocks -> forall i k, In i blk -> In k blk ->
      mget (block_closure blk Ab) i k = sadd (fid i k) (bsum blk (fun j => smul (mget Ab i j) (mget (block_closure blk Ab) j k)))) /\
  (forall k, In k [0; 1; 2] ->
     vget (solve_left [0; 1; 2] blocks Ab bb) k
       = sadd (vget bb k) (bsum [0; 1; 2] (fun i => smul (vget (solve_left [0; 1; 2] blocks Ab bb) i) (mget Ab i k)))) /\
  (forall k, In k [0; 1; 2] ->
     vget (solve_right [0; 1; 2] blocks Ab bb) k
       = sadd (vget bb k) (bsum [0; 1; 2] (fun i => smul (mget Ab k i) (vget (solve_right [0; 1; 2] blocks Ab bb) i)))) /\
  vget (solve_left [0; 1; 2] blocks Ab bb) 2 = mkq 7 50.
Proof.
  intros blocks.
  assert (H2 : is_partition [0; 1; 2] blocks = true) by reflexivity.
  assert (H3 : forward_edges [0; 1; 2] blocks Ab = true) by (vm_compute; reflexivity).
  assert (HL : forall blk, In blk blocks -> forall i k, In i blk -> In k blk ->
      mget (block_closure blk Ab) i k = sadd (fid i k) (bsum blk (fun j => smul (mget (block_closure blk Ab) i j) (mget Ab j k))))
    by (intros blk Hb i k Hi Hk; unfold blocks in Hb; inl; vr).
  assert (HR : forall blk, In blk blocks -> forall i k, In i blk -> In k blk ->
      mget (block_closure blk Ab) i k = sadd (fid i k) (bsum blk (fun j => smul (mget Ab i j) (mget (block_closure blk Ab) j k))))
    by (intros blk Hb i k Hi Hk; unfold blocks in Hb; inl; vr).
  destruct (C15.C15_block_solvers QcStar [0; 1; 2] blocks Ab bb nodup3 H2 H3 Ab_outside) as [A B].
  split; [exact nodup3|split; [exact H2|split; [exact H3|split; [exact Ab_outside|split; [exact HL|split; [exact HR|]]]]]].
  split; [exact (A HL)|split; [exact (B HR)|vr]].
Qed.

Example C15_scc_checker_sound_nonvacuous :
  let bs := [[0; 1]; [2]] in
  NoDup [0; 1; 2] /\ scc_check [0; 1; 2] bs Ab = true /\ scc_check [0; 1; 2] [[0]; [1]; [2]] Ab = false /\
  NoDup (concat bs) /\ (forall b i k, In b bs -> In i b -> In k b -> ClosureExtra.reachN b (adj_bool b Ab) i k).
Proof.
  intros bs. assert (H : scc_check [0; 1; 2] bs Ab = true) by (vm_compute; reflexivity).
  destruct (C15.C15_scc_checker_sound QcStar [0; 1; 2] bs Ab nodup3 H) as [_ [A [_ B]]].
  split; [exact nodup3|split; [exact H|split; [vm_compute; reflexivity|split; [exact A|exact B]]]].
Qed.

(* ================================================================================================
   C17
   ================================================================================================ *)
From GV.model Require Import Bytes.
From GV.proofs Require ConvertProofs.
From GV.props Require C17.

Definition nt17 (p : nat) : nat := p + 1.
Lemma nt17_ok : (forall p p', nt17 p = nt17 p' -> p = p') /\ (forall p, nt17 p <> 0).
Proof. unfold nt17; split; intros; lia. Qed.
(* [me] (C11) seen over the plain semiring: epsilon arcs, a cycle, fuel-bounded path sums *)
Definition me' : wfsa QcSR := me.

Example C17_to_cfg_right_nonvacuous :
  (forall p p', nt17 p = nt17 p' -> p = p') /\ (forall p, nt17 p <> 0) /\
  (forall f xs q, W (to_cfg_right 0 nt17 me') (Datatypes.S f) (nt17 q) xs = pwe me' f q xs) /\
  (forall f xs, W (to_cfg_right 0 nt17 me') (Datatypes.S (Datatypes.S f)) 0 xs = pathsum_e me' f xs) /\
  W (to_cfg_right 0 nt17 me') 10 0 [0; 1] = mkq 11 630 /\ length (to_cfg_right 0 nt17 me') = 7.
Proof.
  destruct nt17_ok as [H1 H2].
  split; [exact H1|split; [exact H2|split; [|split; [|split; [vr|reflexivity]]]]].
  - intros f xs q. exact (proj1 (C17.C17_to_cfg_right QcSR me' 0 nt17 f xs H1 H2) q).
  - intros f xs. exact (proj2 (C17.C17_to_cfg_right QcSR me' 0 nt17 f xs H1 H2)).
Qed.

Example C17_to_cfg_left_nonvacuous :
  (forall p p', nt17 p = nt17 p' -> p = p') /\ (forall p, nt17 p <> 0) /\
  (forall f xs q, W (to_cfg_left 0 nt17 me') (Datatypes.S f) (nt17 q) xs = ConvertProofs.pwb me' f q (rev xs)) /\
  (forall f xs, W (to_cfg_left 0 nt17 me') (Datatypes.S (Datatypes.S f)) 0 xs = ConvertProofs.pathsum_b me' f xs) /\
  W (to_cfg_left 0 nt17 me') 10 0 [0; 1] = mkq 11 630.
Proof.
  destruct nt17_ok as [H1 H2].
  split; [exact H1|split; [exact H2|split; [|split; [|vr]]]].
  - intros f xs q. exact (proj1 (C17.C17_to_cfg_left QcSR me' 0 nt17 f xs H1 H2) q).
  - intros f xs. exact (proj1 (proj2 (C17.C17_to_cfg_left QcSR me' 0 nt17 f xs H1 H2))).
Qed.

(* symbol 0 is encoded by two bytes, symbol 1 by one byte; chain states are named by an injective pairing >= 100 *)
Definition enc17 (a : nat) : list nat := match a with 0 => [200; 129] | _ => [65] end.
Definition fresh17 (k i : nat) : nat := (k + i) * (k + i) + k + 100.
Lemma fresh17_inj : forall k i k' i', fresh17 k i = fresh17 k' i' -> k = k' /\ i = i'.
Proof.
  unfold fresh17. intros k i k' i' H.
  assert (E : k + i = k' + i').
  { destruct (lt_eq_lt_dec (k + i) (k' + i')) as [[L|E]|L]; [exfalso|exact E|exfalso].
    - assert ((k + i + 1) * (k + i + 1) <= (k' + i') * (k' + i')) by (apply Nat.mul_le_mono; lia). nia.
    - assert ((k' + i' + 1) * (k' + i' + 1) <= (k + i) * (k + i)) by (apply Nat.mul_le_mono; lia). nia. }
  rewrite E in H. lia.
Qed.
Example C17_to_bytes_nonvacuous :
  NoDup [0; 1] /\
  (forall ar, In ar (warcs ma) -> exists a, albl ar = Some a /\ In a [0; 1]) /\
  (forall a, In a [0; 1] -> enc17 a <> []) /\
  (forall k i k' i', fresh17 k i = fresh17 k' i' -> k = k' /\ i = i') /\
  (forall k i q, fresh17 k i = q -> ~ (In q (map fst (winit ma)) \/ In q (map fst (wfinal ma)) \/
                                      exists ar, In ar (warcs ma) /\ (asrc ar = q \/ adst ar = q))) /\
  length [200; 129; 65] <= 3 /\
  pathsum (to_bytes enc17 fresh17 ma) [200; 129; 65] = bsum (decodings enc17 [0; 1] 3 [200; 129; 65]) (fun xs => pathsum ma xs) /\
  pathsum (to_bytes enc17 fresh17 ma) [200; 129; 65] = mkq 1 24 /\ pathsum (to_bytes enc17 fresh17 ma) [200; 65] = s0.
Proof.
  destruct filter_hyps as [H1 _].
  assert (H2 : forall ar, In ar (warcs ma) -> exists a, albl ar = Some a /\ In a [0; 1])
    by (intros ar H; cbn in H; inl; eexists; (split; [reflexivity|cbn; intuition])).
  assert (H3 : forall a, In a [0; 1] -> enc17 a <> []) by (intros a H; inl; cbn; discriminate).
  assert (H5 : forall k i q, fresh17 k i = q -> ~ (In q (map fst (winit ma)) \/ In q (map fst (wfinal ma)) \/
                                      exists ar, In ar (warcs ma) /\ (asrc ar = q \/ adst ar = q))).
  { intros k i q E [H|[H|[ar [H E2]]]]; unfold fresh17 in E; cbn in H; inl; cbn in *; inl; lia. }
  assert (H6 : length [200; 129; 65] <= 3) by (cbn; lia).
  split; [exact H1|split; [exact H2|split; [exact H3|split; [exact fresh17_inj|split; [exact H5|split; [exact H6|split; [|split; vr]]]]]]].
  exact (C17.C17_to_bytes QcSR enc17 fresh17 ma [0; 1] [200; 129; 65] 3 H1 H2 H3 fresh17_inj H5 H6).
Qed.

(* ================================================================================================
   C18
   ================================================================================================ *)
From GV.model Require Import Regex RegexLive.
From GV.props Require C18.

(* the DFA of  (b|c)* a [^a]*  over {a, b, c} = {97, 98, 99}: class 0 = {a}, class 1 = anything else;
   state 2 is a sink that is not live *)
Definition cs18 : list nat := [97; 98; 99].
Definition D18 : dfa :=
  mkD 0 [1] [0; 1]
      [ (0, [(0, 1); (1, 0)]); (1, [(1, 1); (0, 2)]); (2, [(0, 2); (1, 2)]) ]
      [ (0, Explicit [[97]]); (1, AnythingElse) ] [[97]].

Example C18_locally_normalised_nonvacuous :
  fanout cs18 D18 0 [(0, 1); (1, 0)] <> O /\ fanout cs18 D18 0 [(0, 1); (1, 0)] = 3 /\
  re_mass cs18 D18 (0, [(0, 1); (1, 0)]) = 1%Qc.
Proof.
  assert (H : fanout cs18 D18 (fst (0, [(0, 1); (1, 0)])) (snd (0, [(0, 1); (1, 0)])) <> O) by (vm_compute; discriminate).
  split; [exact H|split; [reflexivity|]]. exact (C18.C18_locally_normalised cs18 D18 (0, [(0, 1); (1, 0)]) H).
Qed.

Lemma arc18 : In (0, 98, 0, invK 3) (re_arcs cs18 D18).
Proof. vm_compute. right; left; reflexivity. Qed.
Example C18_arcs_are_dfa_moves_nonvacuous :
  In (0, 98, 0, invK 3) (re_arcs cs18 D18) /\ length (re_arcs cs18 D18) = 5 /\
  exists outs, In (0, outs) (d_map D18) /\ In (98, 0) (moves cs18 D18 outs) /\ invK 3 = invK (fanout cs18 D18 0 outs) /\
               fanout cs18 D18 0 outs <> O /\ memn 0 (d_live D18) = true /\
               exists c, In (c, 0) outs /\ In [98] (expand cs18 D18 c).
Proof.
  split; [exact arc18|split; [reflexivity|]]. exact (C18.C18_arcs_are_dfa_moves cs18 D18 0 98 0 (invK 3) arc18).
Qed.

Example C18_weights_positive_nonvacuous : 3 <> O /\ (0 < invK 3)%Qc /\ invK 3 = mkq 1 3.
Proof. assert (H : 3 <> O) by lia. split; [exact H|split; [exact (C18.C18_weights_positive 3 H)|vr]]. Qed.

Lemma arc18' : In (0, 97, 1, invK 3) (re_arcs cs18 (with_live cs18 D18)).
Proof. vm_compute. left; reflexivity. Qed.
Example C18_no_dead_ends_nonvacuous :
  In (0, 97, 1, invK 3) (re_arcs cs18 (with_live cs18 D18)) /\ In (1, [(1, 1); (0, 2)]) (d_map D18) /\
  (forall e1 e2, In e1 (d_map D18) -> In e2 (d_map D18) -> fst e1 = fst e2 -> e1 = e2) /\
  live_of cs18 D18 = [1; 0] /\
  fanout cs18 (with_live cs18 D18) 1 [(1, 1); (0, 2)] <> O /\
  re_mass cs18 (with_live cs18 D18) (1, [(1, 1); (0, 2)]) = 1%Qc.
Proof.
  assert (H2 : In (1, [(1, 1); (0, 2)]) (d_map D18)) by (cbn; intuition).
  assert (H3 : forall e1 e2, In e1 (d_map D18) -> In e2 (d_map D18) -> fst e1 = fst e2 -> e1 = e2)
    by (intros e1 e2 A B E; cbn in A, B; inl; cbn in E; first [reflexivity|discriminate E]).
  split; [exact arc18'|split; [exact H2|split; [exact H3|split; [reflexivity|]]]].
  exact (C18.C18_no_dead_ends cs18 D18 0 97 1 (invK 3) [(1, 1); (0, 2)] arc18' H2 H3).
Qed.

(* ================================================================================================
   C19
   ================================================================================================ *)
From GV.proofs Require SubstProofs.
From GV.props Require C19.

Definition Gq2 : grammar QcSR := [ (mkq 1 2, 5, [N 6; T 0]); (mkq 1 3, 6, [T 1]); (mkq 1 4, 6, [N 6; N 6]) ].
Example C19_union_keeps_components_nonvacuous :
  (forall r, In r Gq2 -> forall X, (exists r1, In r1 Gq /\ (rhead r1 = X \/ In (N X) (rbody r1))) -> rhead r <> X) /\
  (forall r, In r Gq -> forall X, (exists r2, In r2 Gq2 /\ (rhead r2 = X \/ In (N X) (rbody r2))) -> rhead r <> X) /\
  (exists r1, In r1 Gq /\ (rhead r1 = 0 \/ In (N 0) (rbody r1))) /\
  (exists r2, In r2 Gq2 /\ (rhead r2 = 5 \/ In (N 5) (rbody r2))) /\
  (forall h xs, W (Gq ++ Gq2) h 0 xs = W Gq h 0 xs) /\ (forall h xs, W (Gq ++ Gq2) h 5 xs = W Gq2 h 5 xs) /\
  W (Gq ++ Gq2) 4 5 [1; 1; 0] = mkq 1 72.
Proof.
  assert (H1 : forall r, In r Gq2 -> forall X, (exists r1, In r1 Gq /\ (rhead r1 = X \/ In (N X) (rbody r1))) -> rhead r <> X)
    by (intros r Hr X [r1 [H1 HX]]; unfold Gq, Gq2 in *; inl; try (cbn in HX); inl; cbn; lia).
  assert (H2 : forall r, In r Gq -> forall X, (exists r2, In r2 Gq2 /\ (rhead r2 = X \/ In (N X) (rbody r2))) -> rhead r <> X)
    by (intros r Hr X [r1 [H2 HX]]; unfold Gq, Gq2 in *; inl; try (cbn in HX); inl; cbn; lia).
  assert (E1 : exists r1, In r1 Gq /\ (rhead r1 = 0 \/ In (N 0) (rbody r1)))
    by (eexists; split; [left; reflexivity|left; reflexivity]).
  assert (E2 : exists r2, In r2 Gq2 /\ (rhead r2 = 5 \/ In (N 5) (rbody r2)))
    by (eexists; split; [left; reflexivity|left; reflexivity]).
  destruct (C19.C19_union_keeps_components QcSR Gq Gq2) as [A B].
  split; [exact H1|split; [exact H2|split; [exact E1|split; [exact E2|split; [|split; [|vr]]]]]].
  - intros h xs. exact (A H1 h 0 xs E1).
  - intros h xs. exact (B H2 h 5 xs E2).
Qed.

Example C19_terminal_grammar_nonvacuous :
  (forall p p', nt17 p = nt17 p' -> p = p') /\ (forall p, nt17 p <> 0) /\
  (forall f xs, W (to_cfg_right 0 nt17 me') (Datatypes.S (Datatypes.S f)) 0 xs = pathsum_e me' f xs) /\
  pathsum_e me' 8 [0; 1] = mkq 11 630.
Proof.
  destruct nt17_ok as [H1 H2]. split; [exact H1|split; [exact H2|split; [|vr]]].
  intros f xs. exact (C19.C19_terminal_grammar QcSR me' 0 nt17 f xs H1 H2).
Qed.

(* token-level grammar over the tokens 0, 1:  S -> tok0 A ;  A -> tok1 | eps.
   components: tok0 matches "7 8"; tok1 matches "9" or "9 9" (start symbols 10 and 11) *)
Definition Gtop : grammar QcSR := [ (mkq 1 2, 0, [T 0; N 1]); (mkq 1 3, 1, [T 1]); (mkq 1 5, 1, []) ].
Definition Gcomp : grammar QcSR :=
  [ (mkq 1 7, 10, [T 7; T 8]); (mkq 1 2, 11, [T 9]); (mkq 1 4, 11, [T 9; N 12]); (mkq 1 1, 12, [T 9]) ].
Definition st19 (t : nat) : nat := t + 10.
Definition ftop : nat -> list nat -> QcSR := W Gtop 3.
Definition gcomp : nat -> list nat -> QcSR := W Gcomp 3.
Lemma ftop_solves : FoldProofs.solves QcSR Gtop ftop.
Proof. exact (strat_solves QcSR [2; 1] Gtop eq_refl). Qed.
Lemma gcomp_solves : FoldProofs.solves QcSR Gcomp gcomp.
Proof. exact (strat_solves QcSR [0; 0; 0; 0; 0; 0; 0; 0; 0; 0; 1; 2; 1] Gcomp eq_refl). Qed.

Example C19_substitution_semantics_nonvacuous :
  NoDup [0; 1] /\
  (forall r rc, In r Gtop -> In rc Gcomp -> rhead rc <> rhead r) /\
  (forall r rc Y, In r Gtop -> In (N Y) (rbody r) -> In rc Gcomp -> rhead rc <> Y) /\
  (forall r t, In r Gtop -> In t [0; 1] -> rhead r <> st19 t) /\
  (forall r t, In r Gtop -> In (T t) (rbody r) -> In t [0; 1]) /\
  (forall r rc Y, In r Gtop -> In rc Gcomp -> In (N Y) (rbody rc) -> rhead r <> Y) /\
  FoldProofs.solves QcSR Gcomp gcomp /\ FoldProofs.solves QcSR Gtop ftop /\
  (forall t, In t [0; 1] -> gcomp (st19 t) [] = s0) /\
  FoldProofs.solves QcSR (SubstProofs.assembled QcSR Gtop Gcomp st19) (SubstProofs.Fsub QcSR Gcomp st19 [0; 1] gcomp ftop) /\
  SubstProofs.Fsub QcSR Gcomp st19 [0; 1] gcomp ftop 0 [7; 8; 9; 9]
    = bsum (ProductProofs.words_le [0; 1] (length [7; 8; 9; 9]))
           (fun tau => smul (ftop 0 tau) (SubstProofs.seg QcSR (SubstProofs.Ltok QcSR st19 gcomp) tau [7; 8; 9; 9])) /\
  SubstProofs.Fsub QcSR Gcomp st19 [0; 1] gcomp ftop 0 [7; 8; 9; 9] = mkq 1 168.
Proof.
  destruct filter_hyps as [H0 _].
  assert (H1 : forall r rc, In r Gtop -> In rc Gcomp -> rhead rc <> rhead r)
    by (intros r rc A B; unfold Gtop, Gcomp in *; inl; cbn; lia).
  assert (H2 : forall r rc Y, In r Gtop -> In (N Y) (rbody r) -> In rc Gcomp -> rhead rc <> Y)
    by (intros r rc Y A HY B; unfold Gtop, Gcomp in *; inl; try (cbn in HY); inl; cbn; lia).
  assert (H3 : forall r t, In r Gtop -> In t [0; 1] -> rhead r <> st19 t)
    by (intros r t A B; unfold Gtop, st19 in *; inl; cbn; lia).
  assert (H4 : forall r t, In r Gtop -> In (T t) (rbody r) -> In t [0; 1])
    by (intros r t A HY; unfold Gtop in *; inl; try (cbn in HY); inl; cbn; intuition).
  assert (H5 : forall r rc Y, In r Gtop -> In rc Gcomp -> In (N Y) (rbody rc) -> rhead r <> Y)
    by (intros r rc Y A B HY; unfold Gtop, Gcomp in *; inl; try (cbn in HY); inl; cbn; lia).
  assert (H6 : forall t, In t [0; 1] -> gcomp (st19 t) [] = s0) by (intros t H; inl; vr).
  destruct (C19.C19_substitution_semantics QcSR Gtop Gcomp st19 [0; 1] gcomp ftop H0 H1 H2 H3 H4 H5 gcomp_solves ftop_solves H6) as [A B].
  split; [exact H0|split; [exact H1|split; [exact H2|split; [exact H3|split; [exact H4|split; [exact H5|]]]]]].
  split; [exact gcomp_solves|split; [exact ftop_solves|split; [exact H6|split; [exact A|split; [|vr]]]]].
  apply B. eexists; split; [left; reflexivity|reflexivity].
Qed.

(* ================================================================================================
   C20
   ================================================================================================ *)
From GV.proofs Require NormProofs.
From GV.props Require C20.

(* a recursive grammar: S -> a S A (1/2) | b (1/3) ; A -> a (1/5) | eps (1/7).
   Total weights: Z[A] = 12/35, Z[S] = (1/3) / (1 - 6/35) = 35/87. *)
Definition G20 : grammar QcFR :=
  [ (mkq 1 2, 0, [T 0; N 0; N 1]); (mkq 1 3, 0, [T 1]); (mkq 1 5, 1, [T 0]); (mkq 1 7, 1, []) ].
Definition Z20 (s : sym) : QcFR :=
  match s with T _ => mkq 1 1 | N 0 => mkq 35 87 | N 1 => mkq 12 35 | N _ => mkq 0 1 end.
Lemma Z20_solves : solves Z20 G20.
Proof. split; [intros a; reflexivity|intros X; destruct X as [|[|X]]; vr]. Qed.

Example C20_heads_sum_to_one_nonvacuous :
  solves Z20 G20 /\ Z20 (N 0) <> s0 /\ head_mass (lnorm (norm_factor QcFR) Z20 G20) 0 = s1 /\
  map (fun r : rule QcFR => this (rw r)) (lnorm (norm_factor QcFR) Z20 G20) = [(6 # 35)%Q; (29 # 35)%Q; (7 # 12)%Q; (5 # 12)%Q].
Proof.
  assert (H : Z20 (N 0) <> s0) by (vm_compute; neq_tac).
  split; [exact Z20_solves|split; [exact H|split; [exact (C20.C20_heads_sum_to_one QcFR Z20 G20 0 Z20_solves H)|]]].
  vm_compute; reflexivity.
Qed.

(* the derivation tree of "a b a": S -> a S A, S -> b, A -> a *)
Definition t20 : tree QcFR :=
  Node 0 ((mkq 1 2, 0, [T 0; N 0; N 1]) : rule QcFR)
    (Fcons (Leaf 0) (Fcons (Node 1 ((mkq 1 3, 0, [T 1]) : rule QcFR) (Fcons (Leaf 1) Fnil))
    (Fcons (Node 2 ((mkq 1 5, 1, [T 0]) : rule QcFR) (Fcons (Leaf 0) Fnil)) Fnil))).
Lemma t20_wf : twf QcFR G20 (N 0) t20.
Proof. unfold t20. twf_tac. Qed.
Example C20_tree_proportional_nonvacuous :
  (forall a, Z20 (T a) = s1) /\ twf QcFR G20 (N 0) t20 /\
  (forall X, NormProofs.occurs_nt QcFR X t20 -> Z20 (N X) <> s0) /\
  smul (tweight (NormProofs.tmap QcFR Z20 t20)) (Z20 (N 0)) = tweight t20 /\
  tweight t20 = mkq 1 30 /\ tweight (NormProofs.tmap QcFR Z20 t20) = mkq 29 350 /\
  (let r : rule QcFR := (mkq 1 2, 0, [T 0; N 0; N 1]) in
   In r G20 /\ Z20 (N (rhead r)) <> s0 /\
   In (norm_factor QcFR (rw r) (prodZ Z20 (rbody r)) (Z20 (N (rhead r))), rhead r, rbody r) (lnorm (norm_factor QcFR) Z20 G20)).
Proof.
  assert (H1 : forall a, Z20 (T a) = s1) by (intros a; reflexivity).
  assert (H2 : forall X, NormProofs.occurs_nt QcFR X t20 -> Z20 (N X) <> s0)
    by (intros X H; cbn in H; inl; vm_compute; neq_tac).
  split; [exact H1|split; [exact t20_wf|split; [exact H2|split; [|split; [vr|split; [vr|]]]]]].
  - exact (proj1 (C20.C20_tree_proportional QcFR Z20 G20 H1) t20 (N 0) t20_wf H2).
  - intros r. assert (Hr : In r G20) by (left; reflexivity). assert (Hz : Z20 (N (rhead r)) <> s0) by (vm_compute; neq_tac).
    split; [exact Hr|split; [exact Hz|]]. exact (proj1 (proj2 (C20.C20_tree_proportional QcFR Z20 G20 H1)) r Hr Hz).
Qed.

(* add_EOS on the cyclic Boolean grammar Gb and on the weighted right-recursive grammar Gr *)
Example C20_add_eos_nonvacuous :
  (forall r, In r Gr -> rhead r <> 9) /\ (forall r, In r Gr -> ~ In (N 9) (rbody r)) /\
  (forall h xs, W (add_eos 9 0 7 Gr) (Datatypes.S h) 9 (xs ++ [7]) = W Gr h 0 xs) /\
  W (add_eos 9 0 7 Gr) 4 9 ([0; 0; 1] ++ [7]) = 12%N.
Proof.
  assert (H1 : forall r, In r Gr -> rhead r <> 9) by (intros r H; unfold Gr in H; inl; cbn; lia).
  assert (H2 : forall r, In r Gr -> ~ In (N 9) (rbody r)) by (intros r H; unfold Gr in H; inl; notin).
  split; [exact H1|split; [exact H2|split; [|vr]]].
  intros h xs. exact (C20.C20_add_eos NSR Gr 9 0 7 h xs H1 H2).
Qed.

Example C20_add_eos_shape_nonvacuous :
  (forall r, In r Gr -> rhead r <> 9) /\ (forall r, In r Gr -> ~ In (N 9) (rbody r)) /\
  (forall h ys, W (add_eos 9 0 7 Gr) (Datatypes.S h) 9 ys
     = bsum (splits ys) (fun p => smul (W Gr h 0 (fst p)) (match snd p with [e] => if Nat.eqb 7 e then s1 else s0 | _ => s0 end))) /\
  W (add_eos 9 0 7 Gr) 4 9 [0; 1; 7; 7] = 0%N /\ W (add_eos 9 0 7 Gr) 4 9 [0; 1] = 0%N.
Proof.
  assert (H1 : forall r, In r Gr -> rhead r <> 9) by (intros r H; unfold Gr in H; inl; cbn; lia).
  assert (H2 : forall r, In r Gr -> ~ In (N 9) (rbody r)) by (intros r H; unfold Gr in H; inl; notin).
  split; [exact H1|split; [exact H2|split; [|split; vr]]].
  intros h ys. exact (C20.C20_add_eos_shape NSR Gr 9 0 7 h ys H1 H2).
Qed.

(* ================================================================================================
   Assumptions: every example (and helper) is closed under the global context
   ================================================================================================ *)
Print Assumptions rkl_bound.
Print Assumptions strat_step.
Print Assumptions strat_solves.
Print Assumptions fq_solves.
Print Assumptions C01_prefix_transducer_nonvacuous.
Print Assumptions C01_executable_mask_nonvacuous.
Print Assumptions C01_eos_iff_complete_nonvacuous.
Print Assumptions C02_executable_model_is_reference_nonvacuous.
Print Assumptions C02_perm_rename_invariant_nonvacuous.
Print Assumptions C03_executable_prefix_model_nonvacuous.
Print Assumptions Gq_fresh1.
Print Assumptions Gq_fresh2.
Print Assumptions C03_derivative_nonvacuous.
Print Assumptions C03_derivative_twice_nonvacuous.
Print Assumptions half_half.
Print Assumptions C04_sums_to_one_nonvacuous.
Print Assumptions C04_chain_rule_nonvacuous.
Print Assumptions C06_rename_preserves_nonvacuous.
Print Assumptions C06_separate_start_preserves_nonvacuous.
Print Assumptions unfold_hyps.
Print Assumptions C06_unfold_one_step_nonvacuous.
Print Assumptions C06_unfold_preserves_solutions_nonvacuous.
Print Assumptions tq_wf.
Print Assumptions C06_unfold_trees_nonvacuous.
Print Assumptions C06_unfold_sums_nonvacuous.
Print Assumptions C06_separate_terminals_trees_nonvacuous.
Print Assumptions f3_solves.
Print Assumptions t3_wf.
Print Assumptions G3_below.
Print Assumptions C06_binarize_trees_nonvacuous.
Print Assumptions C06_binarize_solutions_nonvacuous.
Print Assumptions C06_separate_terminals_solutions_nonvacuous.
Print Assumptions C06_nullaryremove_solutions_nonvacuous.
Print Assumptions C06_unaryremove_solutions_nonvacuous.
Print Assumptions C05_history_independent_nonvacuous.
Print Assumptions C07_cnf_pipeline_nonvacuous.
Print Assumptions C07_useful_empty_language_nonvacuous.
Print Assumptions C07_transform_shapes_nonvacuous.
Print Assumptions reach1.
Print Assumptions reach2.
Print Assumptions reach3.
Print Assumptions C08_agenda_invariant_nonvacuous.
Print Assumptions C08_agenda_fixpoint_nonvacuous.
Print Assumptions C08_expectation_tree_nonvacuous.
Print Assumptions filter_hyps.
Print Assumptions C09_prefix_transducer_nonvacuous.
Print Assumptions C10_filter_unique_nonvacuous.
Print Assumptions C10_filter_block_weight_nonvacuous.
Print Assumptions C10_filter_real_symbol_nonvacuous.
Print Assumptions C10_product_is_relational_composition_nonvacuous.
Print Assumptions C11_call_is_path_sum_nonvacuous.
Print Assumptions Ac_hyps.
Print Assumptions C11_closure_fixpoint_nonvacuous.
Print Assumptions ma_eps_free.
Print Assumptions mb_eps_free.
Print Assumptions C12_rename_injective_nonvacuous.
Print Assumptions C12_concat_nonvacuous.
Print Assumptions C12_plus_nonvacuous.
Print Assumptions C12_one_zero_lift_nonvacuous.
Print Assumptions V13_backward.
Print Assumptions m13_dead.
Print Assumptions C13_push_stochastic_nonvacuous.
Print Assumptions C13_push_language_nonvacuous.
Print Assumptions C13_determinize_invariant_nonvacuous.
Print Assumptions C13_trim_accessible_nonvacuous.
Print Assumptions C13_trim_dead_nonvacuous.
Print Assumptions C13_trim_language_nonvacuous.
Print Assumptions C14_counterexample_sound_nonvacuous.
Print Assumptions C14_none_means_equivalent_nonvacuous.
Print Assumptions C14_rational_instance_nonvacuous.
Print Assumptions C15_lehmann_fixpoint_nonvacuous.
Print Assumptions C15_closure_fixpoint_nonvacuous.
Print Assumptions nodup3.
Print Assumptions C15_acyclic_is_power_sum_nonvacuous.
Print Assumptions C15_bool_reachability_nonvacuous.
Print Assumptions Ab_outside.
Print Assumptions C15_block_solvers_nonvacuous.
Print Assumptions C15_scc_checker_sound_nonvacuous.
Print Assumptions nt17_ok.
Print Assumptions C17_to_cfg_right_nonvacuous.
Print Assumptions C17_to_cfg_left_nonvacuous.
Print Assumptions fresh17_inj.
Print Assumptions C17_to_bytes_nonvacuous.
Print Assumptions C18_locally_normalised_nonvacuous.
Print Assumptions arc18.
Print Assumptions C18_arcs_are_dfa_moves_nonvacuous.
Print Assumptions C18_weights_positive_nonvacuous.
Print Assumptions arc18'.
Print Assumptions C18_no_dead_ends_nonvacuous.
Print Assumptions C19_union_keeps_components_nonvacuous.
Print Assumptions C19_terminal_grammar_nonvacuous.
Print Assumptions ftop_solves.
Print Assumptions gcomp_solves.
Print Assumptions C19_substitution_semantics_nonvacuous.
Print Assumptions Z20_solves.
Print Assumptions C20_heads_sum_to_one_nonvacuous.
Print Assumptions t20_wf.
Print Assumptions C20_tree_proportional_nonvacuous.
Print Assumptions C20_add_eos_nonvacuous.
Print Assumptions C20_add_eos_shape_nonvacuous.
