(* WFSA.to_cfg as regenerated from wfsa/base.py (gen/Gen_ToCfg.v) is the model of model/WfsaEps.v. *)
From Coq Require Import List Arith Bool.
From GV.lib Require Import Semiring BigSum.
From GV.model Require Import Cfg Wfsa WfsaEps.
From GV.gen Require Import Gen_ToCfg.
Import ListNotations.

Theorem gen_to_cfg_right_model : forall (S : SR) (s0 : nat) (nt : nat -> nat) (m : wfsa S),
  gen_to_cfg_right S s0 nt m = to_cfg_right s0 nt m.
Proof. reflexivity. Qed.

Theorem gen_to_cfg_left_model : forall (S : SR) (s0 : nat) (nt : nat -> nat) (m : wfsa S),
  gen_to_cfg_left S s0 nt m = to_cfg_left s0 nt m.
Proof. reflexivity. Qed.

Print Assumptions gen_to_cfg_right_model.
Print Assumptions gen_to_cfg_left_model.
