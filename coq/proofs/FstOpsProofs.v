(* Hand-written models of FST.T (transpose, model/Fst.v), FST.diag and FST.project
   (genlm/grammar/fst.py): each is a single loop copying the arcs with the labels
   swapped / duplicated / projected, and copying initial and final weights.
   - transposing swaps the two tapes of the relation;
   - the diagonal of an epsilon-free acceptor relates xs to xs with the acceptor's
     weight and nothing else;
   - projecting on the input tape sums the relation over all outputs. *)
From Coq Require Import List Arith Bool Lia NArith.
From GV.lib Require Import Semiring BigSum.
From GV.model Require Import Cfg Wfsa Fst.
From GV.proofs Require Import ProductProofs.
Import ListNotations.
Local Open Scope sr_scope.

Section FstOps.
Variable S : SR.
Add Ring SRing : (sth S).

Definition diag (A : wfsa S) : fst_t S :=
  mkT (winit A) (wfinal A) (map (fun a => (asrc a, albl a, albl a, adst a, awt a)) (warcs A)).
Definition project_in (m : fst_t S) : wfsa S :=
  mkW (tinit m) (tfinal m) (map (fun a => (tsrc a, tin a, tdst a, twt a)) (tarcs m)).
Definition project_out (m : fst_t S) : wfsa S := project_in (transpose m).

(* ---------- transpose ---------- *)

Lemma trelf_transpose (m : fst_t S) : forall fuel q xs ys,
  trelf (transpose m) fuel q xs ys = trelf m fuel q ys xs.
Proof.
  induction fuel as [|f IH]; intros q xs ys.
  - rewrite !trelf_O. destruct xs; destruct ys; reflexivity.
  - rewrite !trelf_S. f_equal.
    + destruct xs; destruct ys; reflexivity.
    + change (tarcs (transpose m))
        with (map (fun a : tarc S => (tsrc a, tout a, tin a, tdst a, twt a)) (tarcs m)).
      rewrite bsum_map. apply bsum_ext; intros a _.
      rewrite arcterm_mk. unfold arcterm.
      destruct (Nat.eqb (tsrc a) q); [|reflexivity].
      destruct (eat (tout a) xs) as [xs'|]; destruct (eat (tin a) ys) as [ys'|]; try reflexivity.
      rewrite IH. reflexivity.
Qed.

Theorem trel_transpose : forall (m : fst_t S) fuel xs ys,
  trel (transpose m) fuel xs ys = trel m fuel ys xs.
Proof.
  intros m fuel xs ys. unfold trel.
  change (tinit (transpose m)) with (tinit m).
  apply bsum_ext; intros e _. rewrite trelf_transpose. reflexivity.
Qed.

Theorem transpose_involutive : forall (m : fst_t S), transpose (transpose m) = m.
Proof.
  intros [i f arcs]. unfold transpose. cbn [tinit tfinal tarcs]. f_equal.
  rewrite map_map. rewrite <- (map_id arcs) at 2. apply map_ext.
  intros [[[[s a] b] d] w]. reflexivity.
Qed.

(* ---------- diag ---------- *)

Lemma tarcs_diag (A : wfsa S) :
  tarcs (diag A) = map (fun a : arc S => (asrc a, albl a, albl a, adst a, awt a)) (warcs A).
Proof. reflexivity. Qed.

Lemma diag_state (A : wfsa S) : eps_free A ->
  forall xs fuel q ys, length xs <= fuel ->
  trelf (diag A) fuel q xs ys = if list_eqb Nat.eqb xs ys then pw A q xs else 0.
Proof.
  intros HA. induction xs as [|a xs' IH]; intros fuel q ys Hlen.
  - assert (HF : (match @nil nat, ys with [], [] => fget (tfinal (diag A)) q | _, _ => 0 end)
                 = if list_eqb Nat.eqb [] ys then pw A q [] else 0).
    { destruct ys; reflexivity. }
    destruct fuel as [|f].
    + rewrite trelf_O, HF. ring.
    + rewrite trelf_S, HF, bsum_zero; [ring|].
      rewrite tarcs_diag. intros ar Har. apply in_map_iff in Har. destruct Har as [x [<- Hx]].
      specialize (HA x Hx). destruct (albl x) as [c|] eqn:E; [|congruence].
      apply (arcterm_in_nil S (diag A) f q c ys). reflexivity.
  - destruct fuel as [|f]; [simpl in Hlen; lia|].
    assert (Hf : length xs' <= f) by (simpl in Hlen; lia).
    rewrite trelf_S_cons_l, tarcs_diag, bsum_map.
    destruct ys as [|b ys'].
    + cbn [list_eqb]. apply bsum_zero; intros x Hx.
      specialize (HA x Hx). destruct (albl x) as [c|] eqn:E; [|congruence].
      rewrite arcterm_mk, eat_some_nil.
      destruct (Nat.eqb (asrc x) q); [|reflexivity].
      destruct (eat (Some c) (a :: xs')); reflexivity.
    + cbn [list_eqb].
      transitivity (bsum (warcs A) (fun ar =>
        if Nat.eqb a b && list_eqb Nat.eqb xs' ys' then
          (if Nat.eqb (asrc ar) q && lbl_eqb (albl ar) a then awt ar * pw A (adst ar) xs' else 0)
        else 0)).
      * apply bsum_ext; intros x Hx.
        specialize (HA x Hx). destruct (albl x) as [c|] eqn:E; [|congruence].
        rewrite arcterm_mk, !eat_some_cons. unfold lbl_eqb.
        destruct (Nat.eqb_spec c a) as [Ea|Ea].
        -- subst c. rewrite Nat.eqb_refl, andb_true_r.
           destruct (Nat.eqb_spec a b) as [Eb|Eb].
           ++ rewrite andb_true_l. destruct (Nat.eqb (asrc x) q).
              ** rewrite IH by assumption. destruct (list_eqb Nat.eqb xs' ys'); ring.
              ** destruct (list_eqb Nat.eqb xs' ys'); reflexivity.
           ++ rewrite andb_false_l. destruct (Nat.eqb (asrc x) q); reflexivity.
        -- destruct (Nat.eqb_spec a c) as [Ec|Ec]; [exfalso; apply Ea; congruence|].
           rewrite andb_false_r.
           destruct (Nat.eqb (asrc x) q); destruct (Nat.eqb a b && list_eqb Nat.eqb xs' ys'); reflexivity.
      * destruct (Nat.eqb a b && list_eqb Nat.eqb xs' ys').
        -- reflexivity.
        -- apply bsum_const_zero.
Qed.

Theorem diag_relation : forall (A : wfsa S), eps_free A ->
  forall fuel xs ys, length xs <= fuel ->
  trel (diag A) fuel xs ys = if list_eqb Nat.eqb xs ys then pathsum A xs else 0.
Proof.
  intros A HA fuel xs ys Hlen. unfold trel, pathsum.
  change (tinit (diag A)) with (winit A).
  destruct (list_eqb Nat.eqb xs ys) eqn:E.
  - apply bsum_ext; intros e _. rewrite (diag_state A HA) by assumption. rewrite E. reflexivity.
  - apply bsum_zero; intros e _. rewrite (diag_state A HA) by assumption. rewrite E. ring.
Qed.

(* ---------- projection ---------- *)

Lemma words_eq_length (V : list nat) : forall n w, In w (words_eq V n) -> length w = n.
Proof.
  induction n as [|n IH]; intros w Hw.
  - destruct Hw as [<-|[]]. reflexivity.
  - cbn [words_eq] in Hw. apply in_flat_map in Hw. destruct Hw as [c [_ Hw]].
    apply in_map_iff in Hw. destruct Hw as [u [<- Hu]]. simpl. rewrite (IH u Hu). reflexivity.
Qed.

Lemma eat_length (l : option nat) (ys zs : list nat) :
  eat l ys = Some zs -> length ys <= Datatypes.S (length zs).
Proof.
  destruct l as [c|]; simpl.
  - destruct ys as [|d t]; [discriminate|]. destruct (Nat.eqb c d); [|discriminate].
    intros H; injection H as <-. simpl. lia.
  - intros H; injection H as <-. lia.
Qed.

Section Project.
Variables (V : list nat) (m : fst_t S).
Hypothesis HV : NoDup V.
Hypothesis Hin : forall ar, In ar (tarcs m) -> exists x, tin ar = Some x.
Hypothesis Hout : forall ar y, In ar (tarcs m) -> tout ar = Some y -> In y V.

(* every arc reads one symbol and writes at most one: no output longer than the input *)
Lemma trelf_zero_long : forall f q xs ys, length xs < length ys -> trelf m f q xs ys = 0.
Proof.
  induction f as [|f IH]; intros q xs ys Hlen.
  - rewrite trelf_O. destruct xs; destruct ys; simpl in Hlen; try lia; cbv beta iota; ring.
  - rewrite trelf_S, bsum_zero.
    + destruct xs; destruct ys; simpl in Hlen; try lia; cbv beta iota; ring.
    + intros ar Har. destruct (Hin ar Har) as [c Hc].
      destruct xs as [|d xs'].
      * eapply arcterm_in_nil; eassumption.
      * destruct (Nat.eq_dec c d) as [->|Hne].
        -- rewrite (arcterm_in_eq S m f q d xs' ys ar Hc).
           destruct (Nat.eqb (tsrc ar) q); [|reflexivity].
           destruct (eat (tout ar) ys) as [zs|] eqn:Ee; [|reflexivity].
           apply eat_length in Ee. rewrite IH; [ring|]. simpl in Hlen. lia.
        -- eapply arcterm_in_ne; eassumption.
Qed.

Lemma bsum_words_le_long (n : nat) (g : list nat -> S) :
  (forall w, n < length w -> g w = 0) ->
  bsum (words_le V (Datatypes.S n)) g = bsum (words_le V n) g.
Proof.
  intros Hg.
  change (words_le V (Datatypes.S n)) with (words_le V n ++ words_eq V (Datatypes.S n)).
  rewrite bsum_app, (bsum_zero S (words_eq V (Datatypes.S n))); [ring|].
  intros w Hw. apply Hg. rewrite (words_eq_length V _ w Hw). lia.
Qed.

Lemma project_arc (n : nat) (q a : nat) (xs' : list nat) (ar : tarc S) :
  length xs' = n -> In ar (tarcs m) ->
  bsum (words_le V (Datatypes.S n)) (fun ys => arcterm S m n q (a :: xs') ys ar) =
  if Nat.eqb (tsrc ar) q && lbl_eqb (tin ar) a
  then twt ar * bsum (words_le V n) (fun ys => trelf m n (tdst ar) xs' ys) else 0.
Proof.
  intros Hn Har. destruct (Hin ar Har) as [c Hc]. rewrite Hc. unfold lbl_eqb.
  destruct (Nat.eqb_spec a c) as [Ea|Ea].
  - subst c. rewrite andb_true_r.
    rewrite (bsum_ext S _ _ (fun ys =>
       if Nat.eqb (tsrc ar) q then
         match eat (tout ar) ys with Some zs' => twt ar * trelf m n (tdst ar) xs' zs' | None => 0 end
       else 0)) by (intros ys _; apply arcterm_in_eq; assumption).
    destruct (Nat.eqb (tsrc ar) q); [|apply bsum_const_zero].
    destruct (tout ar) as [y|] eqn:Ey.
    + assert (Hy : In y V) by (eapply Hout; eassumption).
      rewrite bsum_words_le_S. cbv beta. rewrite eat_some_nil.
      rewrite (bsum_single S V y _ HV Hy).
      * rewrite <- bsum_mul_l.
        rewrite (bsum_ext S (words_le V n) _ (fun w => twt ar * trelf m n (tdst ar) xs' w)).
        -- ring.
        -- intros w _. rewrite eat_some_cons, Nat.eqb_refl. reflexivity.
      * intros c Hne. apply bsum_zero; intros w _. rewrite eat_some_cons.
        destruct (Nat.eqb_spec y c) as [E|E]; [exfalso; apply Hne; congruence|reflexivity].
    + rewrite bsum_words_le_long.
      * cbn [eat]. apply bsum_mul_l.
      * intros w Hw. cbn [eat]. rewrite trelf_zero_long by lia. ring.
  - rewrite andb_false_r. apply bsum_zero; intros ys _.
    apply (arcterm_in_ne S m n q c a xs' ys ar Hc). congruence.
Qed.

Lemma project_state : forall xs q,
  pw (project_in m) q xs = bsum (words_le V (length xs)) (fun ys => trelf m (length xs) q xs ys).
Proof.
  induction xs as [|a xs' IH]; intros q.
  - cbn [length]. change (words_le V O) with [@nil nat]. rewrite bsum_cons, bsum_nil, trelf_O.
    cbn [pw]. change (wfinal (project_in m)) with (tfinal m). unfold wget, fget. ring.
  - cbn [length pw].
    change (warcs (project_in m)) with (map (fun a : tarc S => (tsrc a, tin a, tdst a, twt a)) (tarcs m)).
    rewrite bsum_map.
    rewrite (bsum_ext S (words_le V (Datatypes.S (length xs'))) _
               (fun ys => bsum (tarcs m) (fun ar => arcterm S m (length xs') q (a :: xs') ys ar)))
      by (intros ys _; apply trelf_S_cons_l).
    rewrite (bsum_swap S (words_le V (Datatypes.S (length xs'))) (tarcs m)
               (fun ys ar => arcterm S m (length xs') q (a :: xs') ys ar)).
    apply bsum_ext; intros ar Har.
    rewrite (project_arc (length xs') q a xs' ar eq_refl Har).
    change (asrc (tsrc ar, tin ar, tdst ar, twt ar)) with (tsrc ar).
    change (albl (tsrc ar, tin ar, tdst ar, twt ar)) with (tin ar).
    change (adst (tsrc ar, tin ar, tdst ar, twt ar)) with (tdst ar).
    change (awt (tsrc ar, tin ar, tdst ar, twt ar)) with (twt ar).
    rewrite IH. reflexivity.
Qed.

End Project.

Theorem project_in_pathsum : forall (V : list nat) (m : fst_t S),
  NoDup V ->
  (forall ar, In ar (tarcs m) -> exists x, tin ar = Some x) ->
  (forall ar y, In ar (tarcs m) -> tout ar = Some y -> In y V) ->
  forall xs, pathsum (project_in m) xs =
             bsum (words_le V (length xs)) (fun ys => trel m (length xs) xs ys).
Proof.
  intros V m HV Hin Hout xs. unfold pathsum, trel.
  change (winit (project_in m)) with (tinit m).
  rewrite (bsum_swap S (words_le V (length xs)) (tinit m)
             (fun ys e => snd e * trelf m (length xs) (fst e) xs ys)).
  apply bsum_ext; intros e _.
  rewrite (project_state V m HV Hin Hout). rewrite bsum_mul_l. reflexivity.
Qed.

Corollary project_out_pathsum : forall (V : list nat) (m : fst_t S),
  NoDup V ->
  (forall ar, In ar (tarcs m) -> exists y, tout ar = Some y) ->
  (forall ar x, In ar (tarcs m) -> tin ar = Some x -> In x V) ->
  forall ys, pathsum (project_out m) ys =
             bsum (words_le V (length ys)) (fun xs => trel m (length ys) xs ys).
Proof.
  intros V m HV Hout Hin ys. unfold project_out.
  rewrite (project_in_pathsum V (transpose m) HV).
  - apply bsum_ext; intros xs _. apply trel_transpose.
  - intros ar Har. change (tarcs (transpose m))
      with (map (fun a : tarc S => (tsrc a, tout a, tin a, tdst a, twt a)) (tarcs m)) in Har.
    apply in_map_iff in Har. destruct Har as [a [<- Ha]]. exact (Hout a Ha).
  - intros ar x Har. change (tarcs (transpose m))
      with (map (fun a : tarc S => (tsrc a, tout a, tin a, tdst a, twt a)) (tarcs m)) in Har.
    apply in_map_iff in Har. destruct Har as [a [<- Ha]]. exact (Hin a x Ha).
Qed.

End FstOps.

Arguments diag {S} A.
Arguments project_in {S} m.
Arguments project_out {S} m.

Print Assumptions trel_transpose.
Print Assumptions transpose_involutive.
Print Assumptions diag_relation.
Print Assumptions project_in_pathsum.
Print Assumptions project_out_pathsum.

(* non-vacuity over the natural-number semiring *)
Local Close Scope sr_scope.
Definition ex_m : fst_t NSR :=
  @mkT NSR [(0, 1%N)] [(2, 1%N)] [(0, Some 0, Some 2, 1, 2%N); (1, Some 1, None, 2, 3%N)].
Definition ex_A : wfsa NSR := @mkW NSR [(0, 1%N)] [(0, 1%N)] [(0, Some 0, 0, 2%N)].

Definition ex_A' : fst_t NSR := diag ex_A.

Example FstOps_nonvacuous :
  trel ex_m 3 [0; 1] [2] = 6%N /\
  trel (transpose ex_m) 3 [2] [0; 1] = 6%N /\
  trel (transpose ex_m) 3 [0; 1] [2] = 0%N /\
  trel (diag ex_A) 3 [0; 0] [0; 0] = 4%N /\
  trel (diag ex_A) 3 [0; 0] [0] = 0%N /\
  pathsum (project_in ex_m) [0; 1] = 6%N /\
  pathsum (project_out ex_A') [0; 0] = 4%N.
Proof. vm_compute. repeat split; reflexivity. Qed.
Print Assumptions FstOps_nonvacuous.
