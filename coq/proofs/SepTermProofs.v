(* separate_terminals (model/Transform2.v) preserves the weighted language, in the
   strongest form available over an arbitrary commutative semiring: there is a
   weight- and yield-preserving one-to-one correspondence [phi]/[psi] between the
   derivation trees of G and those of G' := separate_terminals pt G, for every
   nonterminal that is not a preterminal name.  No axioms. *)
From Coq Require Import List Arith Bool Lia.
From GV.lib Require Import Semiring BigSum.
From GV.model Require Import Cfg Transform2.
From GV.proofs Require Import CfgTrees.
Import ListNotations.
Local Open Scope sr_scope.

(* ---------- generic list lemmas ---------- *)

(* position of the first occurrence of a in l (length l when absent) *)
Fixpoint pos (a : nat) (l : list nat) : nat :=
  match l with
  | [] => O
  | b :: t => if Nat.eqb a b then O else Datatypes.S (pos a t)
  end.

Lemma pos_nth : forall l a, In a l -> nth_error l (pos a l) = Some a.
Proof.
  induction l as [|b t IH]; intros a Hin; [destruct Hin|].
  simpl. destruct (Nat.eqb a b) eqn:E.
  - apply Nat.eqb_eq in E. subst b. reflexivity.
  - destruct Hin as [Hin|Hin].
    + subst b. rewrite Nat.eqb_refl in E. discriminate.
    + simpl. apply IH. exact Hin.
Qed.

Lemma pos_lt : forall l a, In a l -> pos a l < length l.
Proof.
  intros l a Hin. apply nth_error_Some. rewrite (pos_nth l a Hin). discriminate.
Qed.

Lemma nth_pos : forall l k a, NoDup l -> nth_error l k = Some a -> pos a l = k.
Proof.
  induction l as [|b t IH]; intros k a Hnd Hk.
  - destruct k; discriminate.
  - inversion Hnd as [|b' t' Hnotin Hnd']; subst b' t'.
    destruct k as [|k]; simpl in Hk.
    + injection Hk as Hk. subst b. simpl. rewrite Nat.eqb_refl. reflexivity.
    + simpl. destruct (Nat.eqb a b) eqn:E.
      * apply Nat.eqb_eq in E. subst b. exfalso. apply Hnotin.
        apply (nth_error_In t k Hk).
      * f_equal. apply IH; assumption.
Qed.

Lemma nth_error_nth_eq {A} : forall (l : list A) k x d, nth_error l k = Some x -> nth k l d = x.
Proof.
  induction l as [|y t IH]; intros k x d Hk; destruct k as [|k]; simpl in *; try discriminate.
  - injection Hk as Hk. exact Hk.
  - apply IH. exact Hk.
Qed.

Section SepTerm.
Variable S : SR.
Add Ring SRingSep : (sth S).
Variable pt : nat -> nat.
Variable G : grammar S.

Hypothesis Hinj : forall a b, pt a = pt b -> a = b.
Hypothesis Hfresh : forall a r, In r G -> rhead r <> pt a /\ ~ In (N (pt a)) (rbody r).

Definition TL : list nat := terminals_of G.
Definition K : nat := length TL.
Definition G' : grammar S := separate_terminals pt G.

(* ---------- the image of a rule ---------- *)

Definition is_unit (b : list sym) : bool := match b with [T _] => true | _ => false end.

Definition sep_rule (r : rule S) : rule S :=
  match rbody r with
  | [T _] => r
  | b => (rw r, rhead r, map (sep_sym pt) b)
  end.

Definition pre_rule (a : nat) : rule S := (1, pt a, [T a]).

Lemma G'_eq : G' = map pre_rule TL ++ map sep_rule G.
Proof. reflexivity. Qed.

Lemma is_unit_true b : is_unit b = true -> exists a, b = [T a].
Proof.
  destruct b as [|[a|x] [|s t]]; simpl; intros H; try discriminate. exists a. reflexivity.
Qed.

Lemma sep_rule_unit (r : rule S) : is_unit (rbody r) = true -> sep_rule r = r.
Proof.
  intros H. apply is_unit_true in H. destruct H as [a Ha].
  unfold sep_rule. rewrite Ha. reflexivity.
Qed.

Lemma sep_rule_nonunit (r : rule S) :
  is_unit (rbody r) = false -> sep_rule r = (rw r, rhead r, map (sep_sym pt) (rbody r)).
Proof.
  unfold sep_rule. destruct (rbody r) as [|[a|x] [|s t]]; simpl; intros H;
    try discriminate; reflexivity.
Qed.

Lemma sep_rule_head (r : rule S) : rhead (sep_rule r) = rhead r.
Proof.
  destruct (is_unit (rbody r)) eqn:E.
  - rewrite sep_rule_unit by exact E. reflexivity.
  - rewrite sep_rule_nonunit by exact E. reflexivity.
Qed.

Lemma sep_rule_rw (r : rule S) : rw (sep_rule r) = rw r.
Proof.
  destruct (is_unit (rbody r)) eqn:E.
  - rewrite sep_rule_unit by exact E. reflexivity.
  - rewrite sep_rule_nonunit by exact E. reflexivity.
Qed.

Lemma sep_rule_body_nonunit (r : rule S) :
  is_unit (rbody r) = false -> rbody (sep_rule r) = map (sep_sym pt) (rbody r).
Proof. intros H. rewrite sep_rule_nonunit by exact H. reflexivity. Qed.

Lemma TL_NoDup : NoDup TL.
Proof. unfold TL, terminals_of. apply NoDup_nodup. Qed.

Lemma TL_in (r : rule S) a :
  In r G -> is_unit (rbody r) = false -> In (T a) (rbody r) -> In a TL.
Proof.
  intros Hr Hu Ha. unfold TL, terminals_of. apply nodup_In. apply in_flat_map.
  exists r. split; [exact Hr|].
  assert (Hgoal : In a (flat_map (fun y => match y with T a => [a] | N _ => [] end) (rbody r))).
  { apply in_flat_map. exists (T a). split; [exact Ha|left; reflexivity]. }
  destruct (rbody r) as [|[b|x] [|s t]]; simpl in Hu; try discriminate; exact Hgoal.
Qed.

Lemma K_len : length (map pre_rule TL) = K.
Proof. apply map_length. Qed.

Lemma nth_G'_pre k a : nth_error TL k = Some a -> nth_error G' k = Some (pre_rule a).
Proof.
  intros Hk. rewrite G'_eq. rewrite nth_error_app1.
  - rewrite nth_error_map, Hk. reflexivity.
  - rewrite K_len. unfold K. apply nth_error_Some. rewrite Hk. discriminate.
Qed.

Lemma nth_G'_sep i r : nth_error G i = Some r -> nth_error G' (K + i) = Some (sep_rule r).
Proof.
  intros Hi. rewrite G'_eq. rewrite nth_error_app2 by (rewrite K_len; lia).
  rewrite K_len. replace (K + i - K)%nat with i by lia.
  rewrite nth_error_map, Hi. reflexivity.
Qed.

Lemma nth_G'_cases i r' :
  nth_error G' i = Some r' ->
  (i < K /\ exists a, nth_error TL i = Some a /\ r' = pre_rule a) \/
  (K <= i /\ exists r, nth_error G (i - K) = Some r /\ r' = sep_rule r).
Proof.
  intros Hi. rewrite G'_eq in Hi. destruct (Nat.lt_ge_cases i K) as [Hlt|Hge].
  - left. split; [exact Hlt|]. rewrite nth_error_app1 in Hi by (rewrite K_len; exact Hlt).
    rewrite nth_error_map in Hi. destruct (nth_error TL i) as [a|] eqn:E; [|discriminate].
    exists a. split; [reflexivity|]. simpl in Hi. injection Hi as Hi. symmetry; exact Hi.
  - right. split; [exact Hge|]. rewrite nth_error_app2 in Hi by (rewrite K_len; exact Hge).
    rewrite K_len in Hi. rewrite nth_error_map in Hi.
    destruct (nth_error G (i - K)) as [r|] eqn:E; [|discriminate].
    exists r. split; [reflexivity|]. simpl in Hi. injection Hi as Hi. symmetry; exact Hi.
Qed.

(* ---------- the two tree maps ---------- *)

Definition wrap (a : nat) : tree S := Node (pos a TL) (pre_rule a) (Fcons (Leaf a) Fnil).

Fixpoint phi (t : tree S) : tree S :=
  match t with
  | Leaf a => Leaf a
  | Node i r kids =>
      Node (K + i) (sep_rule r) (if is_unit (rbody r) then kids else phis kids)
  end
with phis (f : forest S) : forest S :=
  match f with
  | Fnil => Fnil
  | Fcons t f' => Fcons (match t with Leaf a => wrap a | Node _ _ _ => phi t end) (phis f')
  end.

(* phi on a child of a non-unit body *)
Definition phic (t : tree S) : tree S :=
  match t with Leaf a => wrap a | Node _ _ _ => phi t end.

Lemma phis_cons t f : phis (Fcons t f) = Fcons (phic t) (phis f).
Proof. reflexivity. Qed.

Fixpoint psi (t : tree S) : tree S :=
  match t with
  | Leaf a => Leaf a
  | Node i r' kids =>
      if Nat.ltb i K then Leaf (nth i TL O)
      else Node (i - K) (nth (i - K) G r') (psis kids)
  end
with psis (f : forest S) : forest S :=
  match f with
  | Fnil => Fnil
  | Fcons t f' => Fcons (psi t) (psis f')
  end.

(* ---------- unfolding lemmas ---------- *)

Lemma tweight_node i (r : rule S) k : tweight (Node i r k) = rw r * fweight k.
Proof. reflexivity. Qed.
Lemma fweight_cons (t : tree S) f : fweight (Fcons t f) = tweight t * fweight f.
Proof. reflexivity. Qed.
Lemma tyield_node i (r : rule S) k : tyield (Node i r k) = fyield k.
Proof. reflexivity. Qed.
Lemma fyield_cons (t : tree S) f : fyield (Fcons t f) = tyield t ++ fyield f.
Proof. reflexivity. Qed.
Lemma psis_cons t f : psis (Fcons t f) = Fcons (psi t) (psis f).
Proof. reflexivity. Qed.

(* ---------- inversion helpers ---------- *)

Lemma fwf_unit_inv (G0 : grammar S) a f : fwf S G0 [T a] f -> f = Fcons (Leaf a) Fnil.
Proof.
  intros H. inversion H as [|s body t f' Ht Hf]; subst.
  inversion Ht; subst. inversion Hf; subst. reflexivity.
Qed.

Lemma fwf_unit_intro (G0 : grammar S) a : fwf S G0 [T a] (Fcons (Leaf a) Fnil).
Proof. constructor; [constructor|constructor]. Qed.

Lemma twf_N_node (G0 : grammar S) X t : twf S G0 (N X) t -> exists i r k, t = Node i r k.
Proof. intros H. inversion H; subst. eexists; eexists; eexists; reflexivity. Qed.

(* ---------- facts about the wrapped leaf ---------- *)

Lemma wrap_wf a : In a TL -> twf S G' (N (pt a)) (wrap a).
Proof.
  intros Hin. unfold wrap.
  change (N (pt a)) with (N (rhead (pre_rule a))).
  constructor.
  - apply nth_G'_pre. apply pos_nth. exact Hin.
  - apply fwf_unit_intro.
Qed.

Lemma wrap_yield a : tyield (wrap a) = [a].
Proof. reflexivity. Qed.

Lemma wrap_weight a : tweight (wrap a) = 1.
Proof. unfold wrap, pre_rule. cbn. unfold rw. cbn. ring. Qed.

Lemma wrap_height a : theight (wrap a) = 1%nat.
Proof. reflexivity. Qed.

Lemma psi_wrap a : In a TL -> psi (wrap a) = Leaf a.
Proof.
  intros Hin. unfold wrap. cbn [psi].
  assert (Hlt : pos a TL < K) by (apply pos_lt; exact Hin).
  apply Nat.ltb_lt in Hlt. rewrite Hlt.
  f_equal. apply nth_error_nth_eq. apply pos_nth. exact Hin.
Qed.

(* ---------- G to G' ---------- *)

Definition Pphi (s : sym) (t : tree S) : Prop :=
  match s with
  | T a => t = Leaf a
  | N X => twf S G' (N X) (phi t) /\ tyield (phi t) = tyield t /\ tweight (phi t) = tweight t /\
           (theight t <= theight (phi t) /\ theight (phi t) <= Datatypes.S (theight t)) /\
           psi (phi t) = t
  end.

Definition Qphi (body : list sym) (f : forest S) : Prop :=
  (forall a, In (T a) body -> In a TL) ->
  fwf S G' (map (sep_sym pt) body) (phis f) /\ fyield (phis f) = fyield f /\
  fweight (phis f) = fweight f /\
  (fheight f <= fheight (phis f) /\ fheight (phis f) <= Datatypes.S (fheight f)) /\
  psis (phis f) = f.

Lemma phi_mut :
  (forall s t, twf S G s t -> Pphi s t) /\ (forall body f, fwf S G body f -> Qphi body f).
Proof.
  apply twf_fwf_ind.
  - (* leaf *) intros a. reflexivity.
  - (* node *)
    intros i r kids Hn Hk IHk. unfold Pphi.
    assert (HrG : In r G) by (apply (nth_error_In G i Hn)).
    assert (Hpsi_idx : forall k', psi (Node (K + i) (sep_rule r) k') = Node i r (psis k')).
    { intros k'. cbn [psi].
      assert (Hnlt : Nat.ltb (K + i) K = false) by (apply Nat.ltb_ge; lia).
      rewrite Hnlt. replace (K + i - K)%nat with i by lia.
      rewrite (nth_error_nth_eq G i r (sep_rule r) Hn). reflexivity. }
    destruct (is_unit (rbody r)) eqn:Eu.
    + (* body = [T a]: the rule and the children are unchanged *)
      destruct (is_unit_true _ Eu) as [a Ea].
      assert (Ek : kids = Fcons (Leaf a) Fnil).
      { apply (fwf_unit_inv G). rewrite <- Ea. exact Hk. }
      cbn [phi]. rewrite Eu.
      split; [|split; [|split; [|split]]].
      * rewrite <- (sep_rule_head r). constructor.
        -- apply nth_G'_sep. exact Hn.
        -- rewrite (sep_rule_unit r Eu), Ea, Ek. apply fwf_unit_intro.
      * reflexivity.
      * rewrite !tweight_node, sep_rule_rw. reflexivity.
      * rewrite !theight_node; lia.
      * rewrite Hpsi_idx. rewrite Ek. reflexivity.
    + (* general body *)
      assert (HTL : forall a, In (T a) (rbody r) -> In a TL).
      { intros a Ha. apply (TL_in r a HrG Eu Ha). }
      destruct (IHk HTL) as [Hw [Hy [Hwt [[Hh1 Hh2] Hps]]]].
      cbn [phi]. rewrite Eu.
      split; [|split; [|split; [|split]]].
      * rewrite <- (sep_rule_head r). constructor.
        -- apply nth_G'_sep. exact Hn.
        -- rewrite (sep_rule_body_nonunit r Eu). exact Hw.
      * rewrite !tyield_node. exact Hy.
      * rewrite !tweight_node, sep_rule_rw, Hwt. reflexivity.
      * rewrite !theight_node; lia.
      * rewrite Hpsi_idx, Hps. reflexivity.
  - (* nil *)
    intros _. cbn. repeat split; try constructor; lia.
  - (* cons *)
    intros s body t f Ht IHt Hf IHf HTL. unfold Qphi in IHf.
    assert (HTL' : forall a, In (T a) body -> In a TL).
    { intros a Ha. apply HTL. right. exact Ha. }
    destruct (IHf HTL') as [Hw [Hy [Hwt [[Hh1 Hh2] Hps]]]].
    rewrite phis_cons. destruct s as [a|X]; unfold Pphi in IHt.
    + subst t. assert (Ha : In a TL) by (apply HTL; left; reflexivity).
      cbn [phic map sep_sym].
      split; [|split; [|split; [|split]]].
      * constructor; [apply wrap_wf; exact Ha|exact Hw].
      * rewrite !fyield_cons, wrap_yield, Hy. reflexivity.
      * rewrite !fweight_cons, wrap_weight, Hwt. reflexivity.
      * rewrite !fheight_cons, wrap_height, theight_leaf; lia.
      * rewrite psis_cons, (psi_wrap a Ha), Hps. reflexivity.
    + destruct IHt as [Htw [Hty [Htwt [[Hth1 Hth2] Htps]]]].
      destruct (twf_N_node G X t Ht) as [i [r [k Et]]].
      assert (Ec : phic t = phi t) by (rewrite Et; reflexivity).
      rewrite Ec. cbn [map sep_sym].
      split; [|split; [|split; [|split]]].
      * constructor; [exact Htw|exact Hw].
      * rewrite !fyield_cons, Hty, Hy. reflexivity.
      * rewrite !fweight_cons, Htwt, Hwt. reflexivity.
      * rewrite !fheight_cons; lia.
      * rewrite psis_cons, Htps, Hps. reflexivity.
Qed.

(* ---------- G' to G ---------- *)

(* s' is the symbol of G' that stands for the symbol s of G *)
Definition R (s s' : sym) : Prop := s' = s \/ exists a, s = T a /\ s' = N (pt a).
Definition nopt (s : sym) : Prop := forall a, s <> N (pt a).

Lemma R_refl_body (b : list sym) : Forall2 R b b.
Proof. induction b as [|s b IH]; constructor; [left; reflexivity|exact IH]. Qed.

Lemma R_sep_body (b : list sym) : Forall2 R b (map (sep_sym pt) b).
Proof.
  induction b as [|s b IH]; simpl; constructor; [|exact IH].
  destruct s as [a|x]; simpl; [right; exists a; split; reflexivity|left; reflexivity].
Qed.

Lemma R_rule_body (r : rule S) : Forall2 R (rbody r) (rbody (sep_rule r)).
Proof.
  destruct (is_unit (rbody r)) eqn:Eu.
  - rewrite (sep_rule_unit r Eu). apply R_refl_body.
  - rewrite (sep_rule_body_nonunit r Eu). apply R_sep_body.
Qed.

Lemma nopt_body (r : rule S) : In r G -> Forall nopt (rbody r).
Proof.
  intros Hr. apply Forall_forall. intros s Hs a E. subst s.
  destruct (Hfresh a r Hr) as [_ Hn]. exact (Hn Hs).
Qed.

Definition Ppsi (s' : sym) (t' : tree S) : Prop :=
  forall s, R s s' -> nopt s ->
    twf S G s (psi t') /\ tyield (psi t') = tyield t' /\ tweight (psi t') = tweight t' /\
    theight (psi t') <= theight t' /\
    (s' = s -> phi (psi t') = t') /\ (s' <> s -> phic (psi t') = t').

Definition Qpsi (body' : list sym) (f' : forest S) : Prop :=
  forall body, Forall2 R body body' -> Forall nopt body ->
    fwf S G body (psis f') /\ fyield (psis f') = fyield f' /\ fweight (psis f') = fweight f' /\
    fheight (psis f') <= fheight f' /\
    (body' = map (sep_sym pt) body -> phis (psis f') = f').

Lemma psi_mut :
  (forall s' t', twf S G' s' t' -> Ppsi s' t') /\ (forall body' f', fwf S G' body' f' -> Qpsi body' f').
Proof.
  apply twf_fwf_ind.
  - (* leaf *)
    intros a s HR Hno.
    assert (Es : s = T a).
    { destruct HR as [E|[b [_ E]]]; [symmetry; exact E|discriminate]. }
    subst s. cbn [psi].
    split; [constructor|]. split; [reflexivity|]. split; [reflexivity|].
    split; [lia|]. split; [reflexivity|]. intros Hne. exfalso. apply Hne. reflexivity.
  - (* node *)
    intros i r' kids Hn Hk IHk s HR Hno.
    destruct (nth_G'_cases i r' Hn) as [[Hlt [a [Ha Er]]]|[Hge [r [Hr Er]]]].
    + (* a preterminal rule: collapse *)
      subst r'. change (rhead (pre_rule a)) with (pt a) in HR.
      assert (Es : s = T a).
      { destruct HR as [E|[b [Eb E]]].
        - exfalso. apply (Hno a). symmetry; exact E.
        - injection E as E. apply Hinj in E. subst b. exact Eb. }
      subst s.
      assert (Ek : kids = Fcons (Leaf a) Fnil).
      { apply (fwf_unit_inv G'). exact Hk. }
      subst kids.
      assert (Eps : psi (Node i (pre_rule a) (Fcons (Leaf a) Fnil)) = Leaf a).
      { cbn [psi]. apply Nat.ltb_lt in Hlt. rewrite Hlt. f_equal.
        apply nth_error_nth_eq. exact Ha. }
      rewrite Eps.
      split; [constructor|]. split; [reflexivity|].
      split; [symmetry; apply (wrap_weight a)|].
      split; [rewrite theight_leaf; lia|].
      split; [intros E; discriminate|].
      intros _. cbn [phic]. unfold wrap. rewrite (nth_pos TL i a TL_NoDup Ha). reflexivity.
    + (* the image of a rule of G *)
      subst r'. rewrite sep_rule_head in HR.
      assert (HrG : In r G) by (apply (nth_error_In G (i - K) Hr)).
      assert (Es : s = N (rhead r)).
      { destruct HR as [E|[b [_ E]]]; [symmetry; exact E|].
        exfalso. injection E as E. destruct (Hfresh b r HrG) as [Hh _]. exact (Hh E). }
      subst s.
      assert (Eps : psi (Node i (sep_rule r) kids) = Node (i - K) r (psis kids)).
      { cbn [psi]. assert (Hnlt : Nat.ltb i K = false) by (apply Nat.ltb_ge; exact Hge).
        rewrite Hnlt. rewrite (nth_error_nth_eq G (i - K) r (sep_rule r) Hr). reflexivity. }
      rewrite Eps.
      destruct (IHk (rbody r) (R_rule_body r) (nopt_body r HrG)) as [Hw [Hy [Hwt [Hh Hph]]]].
      split; [constructor; assumption|].
      split; [rewrite !tyield_node; exact Hy|].
      split; [rewrite !tweight_node, sep_rule_rw, Hwt; reflexivity|].
      split; [rewrite !theight_node; lia|].
      split; [|intros Hne; exfalso; apply Hne; rewrite sep_rule_head; reflexivity].
      intros _. cbn [phi]. replace (K + (i - K))%nat with i by lia. f_equal.
      destruct (is_unit (rbody r)) eqn:Eu.
      * destruct (is_unit_true _ Eu) as [a Ea].
        assert (Ek : kids = Fcons (Leaf a) Fnil).
        { apply (fwf_unit_inv G'). rewrite <- Ea. rewrite (sep_rule_unit r Eu) in Hk. exact Hk. }
        rewrite Ek. reflexivity.
      * apply Hph. apply sep_rule_body_nonunit. exact Eu.
  - (* nil *)
    intros body HF _. inversion HF; subst.
    split; [constructor|]. split; [reflexivity|]. split; [reflexivity|].
    split; [cbn; lia|]. intros _. reflexivity.
  - (* cons *)
    intros s' body' t' f' Ht' IHt' Hf' IHf' body HF Hno.
    inversion HF as [|s s0 b b0 HRs HFb]; subst.
    inversion Hno as [|s1 b1 Hns Hnb]; subst.
    destruct (IHt' s HRs Hns) as [Htw [Hty [Htwt [Hth [Hp1 Hp2]]]]].
    destruct (IHf' b HFb Hnb) as [Hw [Hy [Hwt [Hh Hph]]]].
    rewrite psis_cons.
    split; [constructor; assumption|].
    split; [rewrite !fyield_cons, Hty, Hy; reflexivity|].
    split; [rewrite !fweight_cons, Htwt, Hwt; reflexivity|].
    split; [rewrite !fheight_cons; lia|].
    intros E. simpl in E. injection E as Es Eb.
    rewrite phis_cons. rewrite (Hph Eb). f_equal.
    destruct s as [a|x]; simpl in Es.
    + apply Hp2. rewrite Es. discriminate.
    + destruct (twf_N_node G x (psi t') Htw) as [i [r [k Et]]].
      rewrite Et. cbn [phic]. rewrite <- Et. apply Hp1. exact Es.
Qed.

(* ================= main theorems ================= *)

(* (1)-(4), (6): from G to G' *)
Theorem phi_wf X t : twf S G (N X) t -> twf S G' (N X) (phi t).
Proof. intros H. exact (proj1 (proj1 phi_mut (N X) t H)). Qed.

Theorem phi_yield X t : twf S G (N X) t -> tyield (phi t) = tyield t.
Proof. intros H. exact (proj1 (proj2 (proj1 phi_mut (N X) t H))). Qed.

Theorem phi_weight X t : twf S G (N X) t -> tweight (phi t) = tweight t.
Proof. intros H. exact (proj1 (proj2 (proj2 (proj1 phi_mut (N X) t H)))). Qed.

Theorem phi_height X t :
  twf S G (N X) t -> theight t <= theight (phi t) /\ theight (phi t) <= Datatypes.S (theight t).
Proof. intros H. exact (proj1 (proj2 (proj2 (proj2 (proj1 phi_mut (N X) t H))))). Qed.

Theorem psi_phi X t : twf S G (N X) t -> psi (phi t) = t.
Proof. intros H. exact (proj2 (proj2 (proj2 (proj2 (proj1 phi_mut (N X) t H))))). Qed.

(* the forest versions, for the children of a rule whose body is not a single terminal *)
Theorem phis_facts body f :
  fwf S G body f -> (forall a, In (T a) body -> In a TL) ->
  fwf S G' (map (sep_sym pt) body) (phis f) /\ fyield (phis f) = fyield f /\
  fweight (phis f) = fweight f /\
  (fheight f <= fheight (phis f) /\ fheight (phis f) <= Datatypes.S (fheight f)) /\
  psis (phis f) = f.
Proof. intros H. exact (proj2 phi_mut body f H). Qed.

(* (5), (7): from G' to G *)
Lemma psi_all X t' :
  (forall a, X <> pt a) -> twf S G' (N X) t' ->
  twf S G (N X) (psi t') /\ tyield (psi t') = tyield t' /\ tweight (psi t') = tweight t' /\
  theight (psi t') <= theight t' /\ phi (psi t') = t'.
Proof.
  intros HX H.
  assert (HR : R (N X) (N X)) by (left; reflexivity).
  assert (Hno : nopt (N X)).
  { intros a E. injection E as E. exact (HX a E). }
  destruct (proj1 psi_mut (N X) t' H (N X) HR Hno) as [H1 [H2 [H3 [H4 [H5 _]]]]].
  repeat split; try assumption. apply H5. reflexivity.
Qed.

Theorem psi_wf X t' : (forall a, X <> pt a) -> twf S G' (N X) t' -> twf S G (N X) (psi t').
Proof. intros HX H. exact (proj1 (psi_all X t' HX H)). Qed.

Theorem psi_yield X t' : (forall a, X <> pt a) -> twf S G' (N X) t' -> tyield (psi t') = tyield t'.
Proof. intros HX H. exact (proj1 (proj2 (psi_all X t' HX H))). Qed.

Theorem psi_weight X t' : (forall a, X <> pt a) -> twf S G' (N X) t' -> tweight (psi t') = tweight t'.
Proof. intros HX H. exact (proj1 (proj2 (proj2 (psi_all X t' HX H)))). Qed.

Theorem psi_height X t' : (forall a, X <> pt a) -> twf S G' (N X) t' -> theight (psi t') <= theight t'.
Proof. intros HX H. exact (proj1 (proj2 (proj2 (proj2 (psi_all X t' HX H))))). Qed.

Theorem phi_psi X t' : (forall a, X <> pt a) -> twf S G' (N X) t' -> phi (psi t') = t'.
Proof. intros HX H. exact (proj2 (proj2 (proj2 (proj2 (psi_all X t' HX H))))). Qed.

(* the derivation trees of a preterminal: exactly the wrapped leaf *)
Theorem pre_tree_shape a t' :
  twf S G' (N (pt a)) t' -> In a TL /\ t' = wrap a /\ psi t' = Leaf a.
Proof.
  intros H.
  assert (HR : R (T a) (N (pt a))) by (right; exists a; split; reflexivity).
  assert (Hno : nopt (T a)) by (intros b E; discriminate).
  destruct (proj1 psi_mut (N (pt a)) t' H (T a) HR Hno) as [H1 [_ [_ [_ [_ H6]]]]].
  assert (Ep : psi t' = Leaf a) by (inversion H1; reflexivity).
  assert (Et : t' = wrap a).
  { rewrite <- H6 by discriminate. rewrite Ep. reflexivity. }
  split; [|split; [exact Et|exact Ep]].
  subst t'. unfold wrap in H. inversion H as [|i r kids Hn Hk Eh]; subst.
  destruct (nth_G'_cases _ _ Hn) as [[_ [b [Hb Er]]]|[_ [r [Hr Er]]]].
  - unfold pre_rule in Er. injection Er as Er _. apply Hinj in Er. subst b.
    apply (nth_error_In TL _ Hb).
  - exfalso. assert (HrG : In r G) by (apply (nth_error_In G _ Hr)).
    destruct (Hfresh a r HrG) as [Hh _]. apply Hh.
    rewrite <- (sep_rule_head r), <- Er. reflexivity.
Qed.

(* (8) injectivity and the enumerations *)
Theorem phi_inj X Y t1 t2 :
  twf S G (N X) t1 -> twf S G (N Y) t2 -> phi t1 = phi t2 -> t1 = t2.
Proof.
  intros H1 H2 E. rewrite <- (psi_phi X t1 H1), <- (psi_phi Y t2 H2), E. reflexivity.
Qed.

Theorem psi_inj X Y t1 t2 :
  (forall a, X <> pt a) -> (forall a, Y <> pt a) ->
  twf S G' (N X) t1 -> twf S G' (N Y) t2 -> psi t1 = psi t2 -> t1 = t2.
Proof.
  intros HX HY H1 H2 E. rewrite <- (phi_psi X t1 HX H1), <- (phi_psi Y t2 HY H2), E. reflexivity.
Qed.

Theorem trees_phi h X t : In t (trees G h X) -> In (phi t) (trees G' (Datatypes.S h) X).
Proof.
  intros Hin. destruct (trees_sound S G h X t Hin) as [Hw Hh].
  apply trees_complete; [apply phi_wf; exact Hw|].
  destruct (phi_height X t Hw) as [_ H2]. lia.
Qed.

Theorem trees_psi h X t' :
  (forall a, X <> pt a) -> In t' (trees G' h X) -> In (psi t') (trees G h X).
Proof.
  intros HX Hin. destruct (trees_sound S G' h X t' Hin) as [Hw Hh].
  apply trees_complete; [apply psi_wf; assumption|].
  pose proof (psi_height X t' HX Hw) as H2. lia.
Qed.

(* every tree of G' is the image of a tree of G of no greater height, and vice versa *)
Theorem trees_phi_onto h X t' :
  (forall a, X <> pt a) -> In t' (trees G' h X) -> exists t, In t (trees G h X) /\ phi t = t'.
Proof.
  intros HX Hin. exists (psi t'). split; [apply trees_psi; assumption|].
  destruct (trees_sound S G' h X t' Hin) as [Hw _]. apply (phi_psi X t' HX Hw).
Qed.

Theorem trees_psi_onto h X t :
  In t (trees G h X) -> exists t', In t' (trees G' (Datatypes.S h) X) /\ psi t' = t.
Proof.
  intros Hin. exists (phi t). split; [apply trees_phi; exact Hin|].
  destruct (trees_sound S G h X t Hin) as [Hw _]. apply (psi_phi X t Hw).
Qed.

Lemma NoDup_map_inj_in {A B} (f : A -> B) (l : list A) :
  (forall a b, In a l -> In b l -> f a = f b -> a = b) -> NoDup l -> NoDup (map f l).
Proof.
  intros Hi H; induction H as [|a l Hn Hd IH]; simpl; constructor.
  - intros Hin. apply in_map_iff in Hin. destruct Hin as [b [Hb Hin]].
    assert (E : b = a).
    { apply Hi; [right; exact Hin|left; reflexivity|exact Hb]. }
    subst b. exact (Hn Hin).
  - apply IH. intros x y Hx Hy. apply Hi; right; assumption.
Qed.

(* the weighted form: the sum W G h X xs is a sum over a duplicate-free sub-list of the
   trees of G' of height <= h+1, with the same weights and yields *)
Theorem W_sub_sum h X xs :
  NoDup (map phi (trees G h X)) /\
  incl (map phi (trees G h X)) (trees G' (Datatypes.S h) X) /\
  W G h X xs = bsum (filter (yields xs) (map phi (trees G h X))) tweight.
Proof.
  split; [|split].
  - apply NoDup_map_inj_in; [|apply trees_NoDup].
    intros t1 t2 H1 H2. apply (phi_inj X X).
    + exact (proj1 (trees_sound S G h X t1 H1)).
    + exact (proj1 (trees_sound S G h X t2 H2)).
  - intros t' Hin. apply in_map_iff in Hin. destruct Hin as [t [Et Hin]]. subst t'.
    apply trees_phi. exact Hin.
  - rewrite W_trees. rewrite !bsum_filter, bsum_map. apply bsum_ext. intros t Hin.
    destruct (trees_sound S G h X t Hin) as [Hw _].
    unfold yields. rewrite (phi_yield X t Hw), (phi_weight X t Hw). reflexivity.
Qed.

Theorem W'_sub_sum h X xs :
  (forall a, X <> pt a) ->
  NoDup (map psi (trees G' h X)) /\
  incl (map psi (trees G' h X)) (trees G h X) /\
  W G' h X xs = bsum (filter (yields xs) (map psi (trees G' h X))) tweight.
Proof.
  intros HX. split; [|split].
  - apply NoDup_map_inj_in; [|apply trees_NoDup].
    intros t1 t2 H1 H2. apply (psi_inj X X t1 t2 HX HX).
    + exact (proj1 (trees_sound S G' h X t1 H1)).
    + exact (proj1 (trees_sound S G' h X t2 H2)).
  - intros t Hin. apply in_map_iff in Hin. destruct Hin as [t' [Et Hin]]. subst t.
    apply trees_psi; assumption.
  - rewrite W_trees. rewrite !bsum_filter, bsum_map. apply bsum_ext. intros t' Hin.
    destruct (trees_sound S G' h X t' Hin) as [Hw _].
    unfold yields. rewrite (psi_yield X t' HX Hw), (psi_weight X t' HX Hw). reflexivity.
Qed.

End SepTerm.

Print Assumptions phi_wf.
Print Assumptions phi_yield.
Print Assumptions phi_weight.
Print Assumptions phi_height.
Print Assumptions psi_phi.
Print Assumptions phis_facts.
Print Assumptions psi_wf.
Print Assumptions psi_yield.
Print Assumptions psi_weight.
Print Assumptions psi_height.
Print Assumptions phi_psi.
Print Assumptions pre_tree_shape.
Print Assumptions phi_inj.
Print Assumptions psi_inj.
Print Assumptions trees_phi.
Print Assumptions trees_psi.
Print Assumptions trees_phi_onto.
Print Assumptions trees_psi_onto.
Print Assumptions W_sub_sum.
Print Assumptions W'_sub_sum.
