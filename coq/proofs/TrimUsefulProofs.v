(* The modelled CFG.trim (model/TopDown.v) returns a trimmed grammar in the sense of the checker all_useful
   (model/Useful.v), where usefulness is measured IN THE RESULT:
   1. [trim_model_all_useful]  every head and every body nonterminal of trim_model s G is productive in
      trim_model s G and reachable from s in trim_model s G;
   2. [all_useful_trim_fixed]  a grammar that passes all_useful is left unchanged by trim_model;
   3. [trim_model_idempotent]  hence trimming twice is trimming once (equality of rule lists). *)
From Coq Require Import List Arith ZArith Bool Lia.
From GV.lib Require Import Semiring BigSum.
From GV.model Require Import Cfg Transform Useful.
From GV.model Require TopDown.
From GV.gen Require Import Gen_Cfg.
From GV.proofs Require Import TrimProofs TopDownTrimProofs UsefulProofs.
From GV.proofs Require ReachProofs.
Import ListNotations.

Lemma filter_all_true {A} (f : A -> bool) (l : list A) : (forall x, In x l -> f x = true) -> filter f l = l.
Proof.
  induction l as [|a t IH]; intros H; simpl; [reflexivity|].
  rewrite (H a (or_introl eq_refl)). f_equal. apply IH. intros x Hx. apply H. right; exact Hx.
Qed.

Section TrimUsefulProofs.
Variable S : SR.

(* the rules of the modelled trim: those of G whose head and body nonterminals were all reached *)
Lemma trim_model_rules (s : nat) (G : grammar S) (r : rule S) :
  In r (TopDown.trim_model s G) <->
  In r G /\ In (rhead r) (TopDown.reachable G s) /\ (forall x, In (N x) (rbody r) -> In x (TopDown.reachable G s)).
Proof.
  unfold TopDown.trim_model. rewrite topdown_trim_rules. cbn [TopDown.keep_nts].
  rewrite mem_spec, forallb_forall. split; intros [H1 [H2 H3]]; (split; [exact H1|split; [exact H2|]]).
  - intros x Hx. apply mem_spec. exact (H3 (N x) Hx).
  - intros [a|x] Hx; simpl; [reflexivity|]. apply mem_spec. apply H3; exact Hx.
Qed.

(* ---------- A. reached nonterminals are productive in the result ---------- *)

Lemma trim_model_productive (s : nat) (G : grammar S) (X : nat) :
  productive G X -> In X (TopDown.reachable G s) -> productive (TopDown.trim_model s G) X.
Proof.
  induction 1 as [r Hr Hb IH]. intros HR.
  assert (Hgen : forallb (gen_sym (generating G)) (rbody r) = true).
  { apply gen_sym_all. intros y Hy. apply generating_complete. apply Hb; exact Hy. }
  pose proof (ReachProofs.reachable_closed S G s r Hr HR Hgen) as Hall.
  apply (prod_rule (TopDown.trim_model s G) r).
  - apply trim_model_rules. split; [exact Hr|split; [exact HR|exact Hall]].
  - intros y Hy. apply IH; [exact Hy|apply Hall; exact Hy].
Qed.

Lemma reached_productive (s : nat) (G : grammar S) (X : nat) :
  In X (TopDown.reachable G s) -> productive (TopDown.trim_model s G) X.
Proof.
  intros HX. apply trim_model_productive; [|exact HX].
  apply generating_sound. apply (ReachProofs.reachable_generating S G s X HX).
Qed.

(* ---------- B. reached nonterminals are reachable in the result ---------- *)

Lemma reached_nonempty_start (s : nat) (G : grammar S) (X : nat) :
  In X (TopDown.reachable G s) -> In s (generating G).
Proof.
  intros HX. destruct (existsb (Nat.eqb s) (generating G)) eqn:Es; [apply mem_spec; exact Es|].
  apply mem_false in Es. rewrite (ReachProofs.reachable_dead_start S G s Es) in HX. destruct HX.
Qed.

Lemma reach_rel_trim (s : nat) (G : grammar S) (X : nat) :
  In s (generating G) -> ReachProofs.reach_rel G s X -> reach S (TopDown.trim_model s G) s X.
Proof.
  intros Hs H. induction H as [|r Y Hr Hrr IH Hb HY]; [apply reach_start|].
  pose proof (ReachProofs.reachable_complete S G s (rhead r) Hs Hrr) as Hh.
  pose proof (ReachProofs.reachable_closed S G s r Hr Hh Hb) as Hall.
  apply (reach_rule S (TopDown.trim_model s G) s r Y); [|exact IH|exact HY].
  apply trim_model_rules. split; [exact Hr|split; [exact Hh|exact Hall]].
Qed.

Lemma reached_reach (s : nat) (G : grammar S) (X : nat) :
  In X (TopDown.reachable G s) -> reach S (TopDown.trim_model s G) s X.
Proof.
  intros HX. apply reach_rel_trim; [exact (reached_nonempty_start s G X HX)|].
  apply ReachProofs.reachable_sound; exact HX.
Qed.

(* ---------- 1. the result of the modelled trim is trimmed ---------- *)

Theorem trim_model_all_useful_S : forall (s : nat) (G : grammar S),
  all_useful s (TopDown.trim_model s G) = true.
Proof.
  intros s G. apply all_useful_spec. intros r Hr.
  apply trim_model_rules in Hr. destruct Hr as [_ [Hh Hb]].
  split.
  - split; [apply reached_productive; exact Hh|apply reached_reach; exact Hh].
  - intros x Hx. split; [apply reached_productive|apply reached_reach]; apply Hb; exact Hx.
Qed.

(* ---------- 2. a trimmed grammar is a fixed point ---------- *)

(* a non-empty trimmed grammar has a productive start symbol (the argument of C07_useful_empty_language) *)
Lemma all_useful_start_productive (s : nat) (G : grammar S) (r : rule S) :
  all_useful s G = true -> In r G -> productive G s.
Proof.
  intros Hu Hr. pose proof (proj1 (all_useful_spec S s G) Hu) as H.
  assert (Hx : forall X, reach S G s X -> X = s \/ productive G s).
  { intros X HX. induction HX as [|r0 y Hin Hre IH Hy].
    - left; reflexivity.
    - right. destruct IH as [E|P]; [|exact P]. rewrite <- E. exact (proj1 (proj1 (H r0 Hin))). }
  destruct (H r Hr) as [[Hp Hre] _].
  destruct (Hx _ Hre) as [E|P]; [rewrite <- E; exact Hp|exact P].
Qed.

(* in a trimmed grammar every body is generating, so plain reachability is reach_rel *)
Lemma all_useful_reach_rel (s : nat) (G : grammar S) (X : nat) :
  all_useful s G = true -> reach S G s X -> ReachProofs.reach_rel G s X.
Proof.
  intros Hu HX. pose proof (proj1 (all_useful_spec S s G) Hu) as H.
  induction HX as [|r y Hr _ IH Hy]; [apply ReachProofs.rr_start|].
  apply (ReachProofs.rr_step S G s r y Hr IH); [|exact Hy].
  apply gen_sym_all. intros x Hx. apply generating_complete. exact (proj1 (proj2 (H r Hr) x Hx)).
Qed.

Theorem all_useful_trim_fixed_S : forall (s : nat) (G : grammar S),
  all_useful s G = true -> TopDown.trim_model s G = G.
Proof.
  intros s G Hu. unfold TopDown.trim_model. rewrite topdown_trim_is_filter.
  apply filter_all_true. intros r Hr.
  pose proof (proj1 (all_useful_spec S s G) Hu r Hr) as [[_ Hh] Hb].
  assert (Hs : In s (generating G)).
  { apply generating_complete. exact (all_useful_start_productive s G r Hu Hr). }
  assert (Hin : forall X, reach S G s X -> In X (TopDown.reachable G s)).
  { intros X HX. apply (ReachProofs.reachable_complete S G s X Hs).
    apply all_useful_reach_rel; assumption. }
  apply andb_true_iff. split.
  - cbn [TopDown.keep_nts]. apply mem_spec. apply Hin; exact Hh.
  - apply forallb_forall. intros [a|x] Hx; simpl; [reflexivity|].
    apply mem_spec. apply Hin. exact (proj2 (Hb x Hx)).
Qed.

End TrimUsefulProofs.

(* the modelled trim() returns a grammar all of whose symbols are useful IN THE RESULT: every head and every body
   nonterminal is productive in the trimmed grammar and reachable from the start symbol in the trimmed grammar *)
Theorem trim_model_all_useful : forall (S : SR) (s : nat) (G : grammar S),
  all_useful s (TopDown.trim_model s G) = true.
Proof. exact trim_model_all_useful_S. Qed.

(* a grammar that is already trimmed is returned unchanged (same rules, same order, same weights) *)
Theorem all_useful_trim_fixed : forall (S : SR) (s : nat) (G : grammar S),
  all_useful s G = true -> TopDown.trim_model s G = G.
Proof. exact all_useful_trim_fixed_S. Qed.

(* and trimming is idempotent on rule lists *)
Theorem trim_model_idempotent : forall (S : SR) (s : nat) (G : grammar S),
  TopDown.trim_model s (TopDown.trim_model s G) = TopDown.trim_model s G.
Proof. intros S s G. apply all_useful_trim_fixed. apply trim_model_all_useful. Qed.

Print Assumptions trim_model_all_useful.
Print Assumptions all_useful_trim_fixed.
Print Assumptions trim_model_idempotent.

(* ---------- non-vacuity: the grammar of TopDownTrimProofs.v ---------- *)
(* start 0;  0 -> a | 1 b | 3;  1 -> a;  2 -> b [unreachable];  3 -> 3 [non-generating]:
   the input is not trimmed, the output is, and trimming the output again changes nothing *)
Example trim_useful_ex :
  all_useful 0 (TopDown.trim_model 0 td_ex_G) = true /\
  all_useful 0 td_ex_G = false /\
  TopDown.trim_model 0 td_ex_G <> td_ex_G /\
  TopDown.trim_model 0 (TopDown.trim_model 0 td_ex_G) = TopDown.trim_model 0 td_ex_G.
Proof.
  split; [vm_compute; reflexivity|]. split; [vm_compute; reflexivity|]. split.
  - intros E. apply (f_equal (@length _)) in E. vm_compute in E. discriminate E.
  - vm_compute. reflexivity.
Qed.
Print Assumptions trim_useful_ex.
