(* Top-down trimming (the second half of CFG.trim, i.e. CFG._trim with a set of symbols to keep):
   restricting a grammar to a set [keep] of symbols that is closed under the rules that can
   contribute changes the derivation sum of no kept nonterminal.
   1. [topdown_trim_W]          W (gen_trim keep G) h X xs = W G h X xs for kept X;
   2. [topdown_trim_dead_start] nothing kept: empty grammar, and the start symbol has weight zero;
   3. [topdown_trim_rules]      the rules that survive. *)
From Coq Require Import List Arith ZArith Bool Lia.
From GV.lib Require Import Semiring BigSum.
From GV.model Require Import Cfg Transform.
From GV.gen Require Import Gen_Cfg.
From GV.proofs Require Import TrimProofs.
Import ListNotations.
Local Open Scope sr_scope.

Section TopDownTrimProofs.
Variable S : SR.
Add Ring SRing : (sth S).

(* a rule is a nested pair: rebuilding it from its projections gives it back *)
Lemma rule_eta (r : rule S) : (rw r, rhead r, rbody r) = r.
Proof. destruct r as [[w x] b]. reflexivity. Qed.

Definition td_kept (keep : sym -> bool) (r : rule S) : bool :=
  keep (N (rhead r)) && forallb keep (rbody r).

(* the generated trim is a filter *)
Lemma gen_trim_filter (keep : sym -> bool) (G : grammar S) :
  gen_trim S keep G = filter (td_kept keep) G.
Proof.
  unfold gen_trim. induction G as [|r t IH]; [reflexivity|].
  cbn [flat_map filter]. rewrite IH. unfold td_kept.
  destruct (keep (N (rhead r)) && forallb keep (rbody r)); [rewrite rule_eta|]; reflexivity.
Qed.

Lemma W_succ (G : grammar S) h X xs :
  W G (Datatypes.S h) X xs
  = bsum G (fun r => if Nat.eqb (rhead r) X then rw r * Wb (W G h) (rbody r) xs else 0).
Proof. reflexivity. Qed.

(* Wb only looks at the nonterminals that occur in the body *)
Lemma Wb_ext_in (f g : nat -> list nat -> S) :
  forall body, (forall Y, In (N Y) body -> forall ys, f Y ys = g Y ys) ->
  forall xs, Wb f body xs = Wb g body xs.
Proof.
  intros body. induction body as [|s rest IH]; intros H xs; [reflexivity|].
  assert (Hrest : forall Y, In (N Y) rest -> forall ys, f Y ys = g Y ys).
  { intros Y HY. apply H. right; assumption. }
  destruct s as [a|Y]; simpl.
  - destruct xs as [|b xs']; [reflexivity|]. destruct (Nat.eqb a b); [apply IH; assumption|reflexivity].
  - apply bsum_ext. intros p _. rewrite (H Y (or_introl eq_refl)), (IH Hrest). reflexivity.
Qed.

(* keep is closed under the rules that can contribute: a kept head's rule either has all of its
   body kept, or mentions a non-generating nonterminal (and so has weight zero on every string) *)
Definition td_closed (G : grammar S) (keep : sym -> bool) : Prop :=
  forall r, In r G -> keep (N (rhead r)) = true ->
    forallb keep (rbody r) = true \/ exists Y, In (N Y) (rbody r) /\ ~ In Y (generating G).

Theorem topdown_trim_W : forall (G : grammar S) (keep : sym -> bool), td_closed G keep ->
  forall h X xs, keep (N X) = true -> W (gen_trim S keep G) h X xs = W G h X xs.
Proof.
  intros G keep Hcl h. rewrite gen_trim_filter.
  induction h as [|h' IH]; intros X xs HX; [reflexivity|].
  rewrite !W_succ. rewrite bsum_filter.
  apply bsum_ext. intros r Hr.
  destruct (Nat.eqb (rhead r) X) eqn:E.
  2:{ destruct (td_kept keep r); reflexivity. }
  apply Nat.eqb_eq in E.
  assert (Hh : keep (N (rhead r)) = true) by (rewrite E; assumption).
  unfold td_kept. rewrite Hh. cbn [andb].
  destruct (forallb keep (rbody r)) eqn:Eb.
  - f_equal. apply Wb_ext_in. intros Y HY ys. apply IH.
    rewrite forallb_forall in Eb. apply Eb; assumption.
  - destruct (Hcl r Hr Hh) as [Hall|[Y [HY Hng]]]; [congruence|].
    rewrite (Wb_zero S (W G h') Y (fun ys => nongenerating_W_zero S G Y Hng h' ys) (rbody r) HY xs).
    ring.
Qed.

(* nothing kept: the trimmed grammar is empty, as the code returns when the start symbol is
   non-generating *)
Theorem topdown_trim_dead_start : forall (G : grammar S) (s : nat), ~ In s (generating G) ->
  gen_trim S (fun _ => false) G = [] /\ forall h xs, W G h s xs = 0.
Proof.
  intros G s Hs. split.
  - clear Hs. unfold gen_trim. induction G as [|r t IH]; [reflexivity|]. cbn [flat_map]. rewrite IH. reflexivity.
  - intros h xs. apply nongenerating_W_zero; assumption.
Qed.

(* the rules that survive: exactly those with kept head and kept body (in the original order) *)
Theorem topdown_trim_rules : forall (G : grammar S) keep r, In r (gen_trim S keep G) <->
  In r G /\ keep (N (rhead r)) = true /\ forallb keep (rbody r) = true.
Proof.
  intros G keep r. rewrite gen_trim_filter, filter_In. unfold td_kept. rewrite andb_true_iff.
  reflexivity.
Qed.

(* order and multiplicity are kept too: the trim is the filter of the rule list *)
Theorem topdown_trim_is_filter : forall (G : grammar S) keep,
  gen_trim S keep G = filter (fun r => keep (N (rhead r)) && forallb keep (rbody r)) G.
Proof. intros G keep. apply gen_trim_filter. Qed.

End TopDownTrimProofs.
Arguments td_closed {S} G keep. Arguments td_kept {S} keep r.

Print Assumptions topdown_trim_W.
Print Assumptions topdown_trim_dead_start.
Print Assumptions topdown_trim_rules.
Print Assumptions topdown_trim_is_filter.

(* ---------- non-vacuity: a concrete grammar over the rationals ---------- *)
(* start 0;  0 -> a (1/2) | 1 b (1/3) | 3 (1/2);  1 -> a (1/5);  2 -> b (1/7) [unreachable];
   3 -> 3 (1/2) [non-generating].  keep = reachable from 0 and generating = {0, 1, a, b}. *)
Definition td_ex_G : grammar QcSR :=
  [ ((mkq 1%Z 2%positive : QcSR), O, [T O]);
    (mkq 1%Z 3%positive, O, [N 1%nat; T 1%nat]);
    (mkq 1%Z 5%positive, 1%nat, [T O]);
    (mkq 1%Z 7%positive, 2%nat, [T 1%nat]);
    (mkq 1%Z 2%positive, O, [N 3%nat]);
    (mkq 1%Z 2%positive, 3%nat, [N 3%nat]) ].

Definition td_ex_keep (s : sym) : bool := existsb (sym_eqb s) [N O; N 1%nat; T O; T 1%nat].

Example td_ex_closed : td_closed td_ex_G td_ex_keep.
Proof.
  intros r Hr Hk. unfold td_ex_G in Hr. simpl in Hr.
  assert (H3 : ~ In 3%nat (generating td_ex_G)).
  { vm_compute. intros H. repeat (destruct H as [H|H]; [discriminate H|]). exact H. }
  destruct Hr as [<-|[<-|[<-|[<-|[<-|[<-|[]]]]]]].
  - left; reflexivity.
  - left; reflexivity.
  - left; reflexivity.
  - discriminate Hk.
  - right. exists 3%nat. split; [left; reflexivity|exact H3].
  - discriminate Hk.
Qed.

(* the trimmed grammar: the unreachable rule and the two rules mentioning 3 are gone *)
Example td_ex_trimmed :
  gen_trim QcSR td_ex_keep td_ex_G =
  [ ((mkq 1%Z 2%positive : QcSR), O, [T O]);
    (mkq 1%Z 3%positive, O, [N 1%nat; T 1%nat]);
    (mkq 1%Z 5%positive, 1%nat, [T O]) ].
Proof. vm_compute. reflexivity. Qed.

(* the instance of the theorem *)
Example td_ex_instance : forall h xs,
  W (gen_trim QcSR td_ex_keep td_ex_G) h O xs = W td_ex_G h O xs.
Proof. intros h xs. apply topdown_trim_W; [exact td_ex_closed|reflexivity]. Qed.

(* and the common value is not zero: a b has weight 1/3 * 1/5 = 1/15, a has weight 1/2 *)
Example td_ex_value :
  W (gen_trim QcSR td_ex_keep td_ex_G) 3 O [O; 1%nat] = mkq 1%Z 15%positive /\
  W td_ex_G 3 O [O; 1%nat] = mkq 1%Z 15%positive /\
  W td_ex_G 3 O [O] = mkq 1%Z 2%positive.
Proof. vm_compute. repeat split; reflexivity. Qed.

Print Assumptions td_ex_closed.
Print Assumptions td_ex_trimmed.
Print Assumptions td_ex_instance.
Print Assumptions td_ex_value.
