(* CFG.unfold(i, k) (gen_unfold, regenerated from cfg.py) preserves the solutions of the
   grammar's equation system: every f with f = gstep G f also satisfies f = gstep (unfold G) f.
   The main lemma is the unconditional one-step identity unfold_one_step.
   Self-contained: only the library, the model and the generated definitions are required. *)
From Coq Require Import List Arith Bool Lia.
From GV.lib Require Import Semiring BigSum.
From GV.model Require Import Cfg.
From GV.gen Require Import Gen_Cfg.
Import ListNotations.
Local Open Scope sr_scope.

Section UnfoldProofs.
Variable S : SR.
Add Ring UnfoldRing : (sth S).

(* ====================================================================== *)
(* the one-step operator                                                  *)
(* ====================================================================== *)

Definition gstep (G : grammar S) (f : nat -> list nat -> S) (X : nat) (xs : list nat) : S :=
  bsum G (fun r => if Nat.eqb (rhead r) X then rw r * Wb f (rbody r) xs else 0).

Definition term (f : nat -> list nat -> S) (X : nat) (xs : list nat) (r : rule S) : S :=
  if Nat.eqb (rhead r) X then rw r * Wb f (rbody r) xs else 0.

Lemma gstep_term (G : grammar S) f X xs : gstep G f X xs = bsum G (term f X xs).
Proof. reflexivity. Qed.

Lemma term_mk f X xs (w : S) (h : nat) (b : list sym) :
  term f X xs (w, h, b) = if Nat.eqb h X then w * Wb f b xs else 0.
Proof. reflexivity. Qed.

Lemma W_succ_gstep (G : grammar S) h : forall X xs, W G (Datatypes.S h) X xs = gstep G (W G h) X xs.
Proof. intros X xs. reflexivity. Qed.

(* ====================================================================== *)
(* splits: associativity                                                  *)
(* ====================================================================== *)

Lemma splits_assoc {A} (xs : list A) : forall (F : list A -> list A -> list A -> S),
  bsum (splits xs) (fun p => bsum (splits (snd p)) (fun q => F (fst p) (fst q) (snd q)))
  = bsum (splits xs) (fun p => bsum (splits (fst p)) (fun q => F (fst q) (snd q) (snd p))).
Proof.
  induction xs as [|x t IH]; intros F.
  - cbn [splits]. rewrite !bsum_cons, !bsum_nil. cbn [fst snd splits].
    rewrite !bsum_cons, !bsum_nil. cbn [fst snd]. reflexivity.
  - cbn [splits]. rewrite !bsum_cons, !bsum_map. cbn [fst snd].
    rewrite (IH (fun a b c => F (x :: a) b c)).
    rewrite (bsum_ext S (splits t)
               (fun a => bsum (splits (x :: fst a)) (fun q => F (fst q) (snd q) (snd a)))
               (fun a => F [] (x :: fst a) (snd a)
                         + bsum (splits (fst a)) (fun q => F (x :: fst q) (snd q) (snd a)))).
    2:{ intros p _. cbn [splits]. rewrite bsum_cons, bsum_map. reflexivity. }
    rewrite bsum_add. cbn [splits]. rewrite !bsum_cons, !bsum_nil, bsum_map. cbn [fst snd]. ring.
Qed.

(* ====================================================================== *)
(* a body followed by a continuation                                      *)
(* ====================================================================== *)

Definition Wbc (f : nat -> list nat -> S) (body : list sym) (c : list nat -> S) (xs : list nat) : S :=
  bsum (splits xs) (fun p => Wb f body (fst p) * c (snd p)).

Lemma Wbc_ext f body (c c' : list nat -> S) xs :
  (forall v, c v = c' v) -> Wbc f body c xs = Wbc f body c' xs.
Proof. intros Hc. unfold Wbc. apply bsum_ext; intros p _. rewrite Hc. reflexivity. Qed.

Lemma Wbc_nil f (c : list nat -> S) xs : Wbc f [] c xs = c xs.
Proof.
  unfold Wbc. destruct xs as [|x t].
  - cbn [splits]. rewrite bsum_cons, bsum_nil. cbn [fst snd Wb]. ring.
  - cbn [splits]. rewrite bsum_cons, bsum_map. cbn [fst snd Wb].
    rewrite bsum_zero; [ring|]. intros p _. ring.
Qed.

Lemma Wbc_T f a rest (c : list nat -> S) xs :
  Wbc f (T a :: rest) c xs
  = match xs with
    | b :: xs' => if Nat.eqb a b then Wbc f rest c xs' else 0
    | [] => 0
    end.
Proof.
  unfold Wbc. destruct xs as [|b xs'].
  - cbn [splits]. rewrite bsum_cons, bsum_nil. cbn [fst snd Wb]. ring.
  - cbn [splits]. rewrite bsum_cons, bsum_map. cbn [fst snd Wb].
    destruct (Nat.eqb a b).
    + ring.
    + rewrite bsum_zero; [ring|]. intros p _. ring.
Qed.

Lemma Wbc_N f Y rest (c : list nat -> S) xs :
  Wbc f (N Y :: rest) c xs = bsum (splits xs) (fun p => f Y (fst p) * Wbc f rest c (snd p)).
Proof.
  unfold Wbc. cbn [Wb].
  transitivity (bsum (splits xs) (fun p => bsum (splits (fst p))
                  (fun q => (fun a b d => f Y a * (Wb f rest b * c d)) (fst q) (snd q) (snd p)))).
  - apply bsum_ext; intros p _. rewrite <- bsum_mul_r.
    apply bsum_ext; intros q _. ring.
  - rewrite <- (splits_assoc xs (fun a b d => f Y a * (Wb f rest b * c d))).
    apply bsum_ext; intros p _. cbv beta. rewrite bsum_mul_l. reflexivity.
Qed.

Lemma Wb_app_c f b1 b2 : forall xs, Wb f (b1 ++ b2) xs = Wbc f b1 (Wb f b2) xs.
Proof.
  induction b1 as [|[a|Y] rest IH]; intros xs.
  - rewrite Wbc_nil. reflexivity.
  - rewrite Wbc_T. cbn [app Wb]. destruct xs as [|b xs']; [reflexivity|].
    destruct (Nat.eqb a b); [apply IH|reflexivity].
  - rewrite Wbc_N. cbn [app Wb]. apply bsum_ext; intros p _. rewrite IH. reflexivity.
Qed.

(* (1) *)
Lemma Wb_app : forall (f : nat -> list nat -> S) (b1 b2 : list sym) (xs : list nat),
  Wb f (b1 ++ b2) xs = bsum (splits xs) (fun p => Wb f b1 (fst p) * Wb f b2 (snd p)).
Proof. intros f b1 b2 xs. apply Wb_app_c. Qed.

(* ====================================================================== *)
(* Wb with a different valuation g for the symbol at position k           *)
(* ====================================================================== *)

Fixpoint Wb_at (f g : nat -> list nat -> S) (k : nat) (body : list sym) (xs : list nat) {struct body} : S :=
  match body with
  | [] => Wb f [] xs
  | T a :: rest =>
      match k with
      | O => Wb f (T a :: rest) xs
      | Datatypes.S k' =>
          match xs with
          | b :: xs' => if Nat.eqb a b then Wb_at f g k' rest xs' else 0
          | [] => 0
          end
      end
  | N Y :: rest =>
      match k with
      | O => bsum (splits xs) (fun p => g Y (fst p) * Wb f rest (snd p))
      | Datatypes.S k' => bsum (splits xs) (fun p => f Y (fst p) * Wb_at f g k' rest (snd p))
      end
  end.

(* with g = f this is Wb *)
Lemma Wb_at_same f : forall k body xs, Wb_at f f k body xs = Wb f body xs.
Proof.
  intros k body; revert k. induction body as [|[a|Y] rest IH]; intros k xs.
  - reflexivity.
  - destruct k as [|k']; [reflexivity|]. cbn [Wb_at Wb].
    destruct xs as [|b xs']; [reflexivity|]. destruct (Nat.eqb a b); [apply IH|reflexivity].
  - destruct k as [|k']; [reflexivity|]. cbn [Wb_at Wb].
    apply bsum_ext; intros p _. rewrite IH. reflexivity.
Qed.

(* prefix * g at the hole * suffix *)
Definition nest (u g w : list nat -> S) (xs : list nat) : S :=
  bsum (splits xs) (fun p => u (fst p) * bsum (splits (snd p)) (fun q => g (fst q) * w (snd q))).

Lemma Wb_at_app f g Y b2 : forall b1 xs,
  Wb_at f g (length b1) (b1 ++ N Y :: b2) xs = nest (Wb f b1) (g Y) (Wb f b2) xs.
Proof.
  intros b1 xs.
  change (nest (Wb f b1) (g Y) (Wb f b2) xs)
    with (Wbc f b1 (fun v => bsum (splits v) (fun q => g Y (fst q) * Wb f b2 (snd q))) xs).
  revert xs. induction b1 as [|[a|Z] rest IH]; intros xs.
  - rewrite Wbc_nil. reflexivity.
  - rewrite Wbc_T. cbn [length app Wb_at]. destruct xs as [|b xs']; [reflexivity|].
    destruct (Nat.eqb a b); [apply IH|reflexivity].
  - rewrite Wbc_N. cbn [length app Wb_at]. apply bsum_ext; intros p _. rewrite IH. reflexivity.
Qed.

Lemma nth_error_split_eq {A} : forall (l : list A) k x,
  nth_error l k = Some x ->
  l = firstn k l ++ x :: skipn (Datatypes.S k) l /\ length (firstn k l) = k.
Proof.
  induction l as [|y t IH]; intros k x Hk.
  - destruct k; discriminate Hk.
  - destruct k as [|k'].
    + cbn in Hk. injection Hk as ->. split; reflexivity.
    + cbn [nth_error] in Hk. destruct (IH k' x Hk) as [E L].
      cbn [firstn skipn app length]. split; [f_equal; exact E|f_equal; exact L].
Qed.

Lemma Wb_at_split f g k body Y xs :
  nth_error body k = Some (N Y) ->
  Wb_at f g k body xs = nest (Wb f (firstn k body)) (g Y) (Wb f (skipn (Datatypes.S k) body)) xs.
Proof.
  intros Hk. destruct (nth_error_split_eq body k (N Y) Hk) as [E L].
  remember (firstn k body) as pre eqn:Epre.
  remember (skipn (Datatypes.S k) body) as post eqn:Epost.
  clear Epre Epost Hk. subst body k. apply Wb_at_app.
Qed.

Lemma Wb_split_nest f k body Y xs :
  nth_error body k = Some (N Y) ->
  Wb f body xs = nest (Wb f (firstn k body)) (f Y) (Wb f (skipn (Datatypes.S k) body)) xs.
Proof. intros Hk. rewrite <- (Wb_at_same f k body xs). apply Wb_at_split. exact Hk. Qed.

(* nest is linear in the middle argument *)
Lemma nest_ext (u g g' w : list nat -> S) xs :
  (forall v, g v = g' v) -> nest u g w xs = nest u g' w xs.
Proof.
  intros Hg. unfold nest. apply bsum_ext; intros p _. f_equal.
  apply bsum_ext; intros q _. rewrite Hg. reflexivity.
Qed.

Lemma nest_bsum {A} (l : list A) (F : A -> list nat -> S) (u w : list nat -> S) xs :
  nest u (fun v => bsum l (fun a => F a v)) w xs = bsum l (fun a => nest u (F a) w xs).
Proof.
  unfold nest. symmetry.
  etransitivity; [apply bsum_swap|].
  apply bsum_ext; intros p _. rewrite bsum_mul_l. f_equal.
  etransitivity; [apply bsum_swap|].
  apply bsum_ext; intros q _. rewrite bsum_mul_r. reflexivity.
Qed.

Lemma nest_scale (c : S) (u g w : list nat -> S) xs :
  nest u (fun v => c * g v) w xs = c * nest u g w xs.
Proof.
  unfold nest. rewrite <- bsum_mul_l. apply bsum_ext; intros p _.
  transitivity (u (fst p) * (c * bsum (splits (snd p)) (fun q => g (fst q) * w (snd q)))); [|ring].
  f_equal. rewrite <- bsum_mul_l. apply bsum_ext; intros q _. ring.
Qed.

Lemma nest_zero (u w : list nat -> S) xs : nest u (fun _ => 0) w xs = 0.
Proof.
  unfold nest. apply bsum_zero; intros p _.
  rewrite bsum_zero; [ring|]. intros q _. ring.
Qed.

Lemma Wb_app3 f b1 b2 b3 xs :
  Wb f (b1 ++ b2 ++ b3) xs = nest (Wb f b1) (Wb f b2) (Wb f b3) xs.
Proof.
  rewrite Wb_app_c. unfold nest, Wbc. apply bsum_ext; intros p _. f_equal. apply Wb_app.
Qed.

(* ====================================================================== *)
(* all the rules but number i                                             *)
(* ====================================================================== *)

Definition kept_from (o i : nat) (G : grammar S) : grammar S :=
  flat_map (fun jr : nat * rule S => if negb (Nat.eqb (fst jr) i) then [snd jr] else [])
           (combine (seq o (length G)) G).

Definition kept (i : nat) (G : grammar S) : grammar S := kept_from 0 i G.

Lemma kept_from_cons o i r (G : grammar S) :
  kept_from o i (r :: G) = (if negb (Nat.eqb o i) then [r] else []) ++ kept_from (Datatypes.S o) i G.
Proof. reflexivity. Qed.

Lemma kept_from_below : forall (G : grammar S) o i, i < o -> kept_from o i G = G.
Proof.
  induction G as [|r G IH]; intros o i Hlt; [reflexivity|].
  rewrite kept_from_cons. rewrite IH by lia.
  replace (Nat.eqb o i) with false by (symmetry; apply Nat.eqb_neq; lia). reflexivity.
Qed.

(* (b): the sum over G is the i-th term plus the sum over the kept rules *)
Lemma bsum_kept_from (t : rule S -> S) : forall (G : grammar S) o i s,
  nth_error G i = Some s -> bsum G t = t s + bsum (kept_from o (o + i) G) t.
Proof.
  induction G as [|r G IH]; intros o i s Hs.
  - destruct i; discriminate Hs.
  - rewrite kept_from_cons. destruct i as [|i'].
    + cbn in Hs. injection Hs as ->.
      rewrite Nat.add_0_r, Nat.eqb_refl. cbn [negb app].
      rewrite kept_from_below by lia. apply bsum_cons.
    + cbn [nth_error] in Hs.
      replace (Nat.eqb o (o + Datatypes.S i')) with false by (symmetry; apply Nat.eqb_neq; lia).
      cbn [negb app]. rewrite !bsum_cons.
      replace (o + Datatypes.S i')%nat with (Datatypes.S o + i')%nat by lia.
      rewrite (IH (Datatypes.S o) i' s Hs). ring.
Qed.

Lemma bsum_kept (t : rule S -> S) (G : grammar S) i s :
  nth_error G i = Some s -> bsum G t = t s + bsum (kept i G) t.
Proof. intros Hs. apply (bsum_kept_from t G 0 i s Hs). Qed.

Lemma kept_gen i (G : grammar S) :
  flat_map (fun jr : nat * rule S => let r := snd jr in
              if negb (Nat.eqb (fst jr) i) then [(rw r, rhead r, rbody r)] else [])
           (combine (seq 0 (length G)) G)
  = kept i G.
Proof.
  unfold kept, kept_from. apply flat_map_ext. intros [j [[w h] b]]. reflexivity.
Qed.

(* ====================================================================== *)
(* (c): the sum over the expansions                                       *)
(* ====================================================================== *)

Lemma expansions_sum (G : grammar S) (s : rule S) k Y f X xs :
  nth_error (rbody s) k = Some (N Y) ->
  bsum (map (fun r => (rw s * rw r, rhead s,
                       firstn k (rbody s) ++ rbody r ++ skipn (Datatypes.S k) (rbody s)))
            (filter (fun r0 => Nat.eqb (rhead r0) Y) G))
       (term f X xs)
  = if Nat.eqb (rhead s) X then rw s * Wb_at f (gstep G f) k (rbody s) xs else 0.
Proof.
  intros Hk. rewrite bsum_map, bsum_filter.
  set (pre := firstn k (rbody s)). set (post := skipn (Datatypes.S k) (rbody s)).
  transitivity (bsum G (fun r => if Nat.eqb (rhead r) Y
                                 then (if Nat.eqb (rhead s) X
                                       then (rw s * rw r) * Wb f (pre ++ rbody r ++ post) xs else 0)
                                 else 0)).
  { apply bsum_ext; intros r _. rewrite term_mk. reflexivity. }
  destruct (Nat.eqb (rhead s) X).
  - rewrite (Wb_at_split f (gstep G f) k (rbody s) Y xs Hk). fold pre post.
    unfold gstep. rewrite nest_bsum, <- bsum_mul_l.
    apply bsum_ext; intros r _. destruct (Nat.eqb (rhead r) Y).
    + rewrite nest_scale, Wb_app3. ring.
    + rewrite nest_zero. ring.
  - apply bsum_zero; intros r _. destruct (Nat.eqb (rhead r) Y); reflexivity.
Qed.

(* ====================================================================== *)
(* (3) the one-step identity, without any fixpoint assumption             *)
(* ====================================================================== *)

Theorem unfold_one_step :
  forall (G : grammar S) (i k : nat) (s : rule S) (Y : nat)
         (f : nat -> list nat -> S) (X : nat) (xs : list nat),
    nth_error G i = Some s -> nth_error (rbody s) k = Some (N Y) ->
    gstep (gen_unfold S i k G) f X xs
    = bsum (kept i G) (term f X xs)
      + (if Nat.eqb (rhead s) X then rw s * Wb_at f (gstep G f) k (rbody s) xs else 0).
Proof.
  intros G i k s Y f X xs Hs Hk.
  unfold gen_unfold. rewrite Hs, Hk, kept_gen.
  rewrite gstep_term, bsum_app. f_equal.
  apply expansions_sum. exact Hk.
Qed.

(* outside the main case unfold does nothing *)
Lemma gen_unfold_noop (G : grammar S) i k :
  (nth_error G i = None \/
   exists s, nth_error G i = Some s /\ forall Y, nth_error (rbody s) k <> Some (N Y)) ->
  gen_unfold S i k G = G.
Proof.
  intros [Hn|[s [Hs Hk]]]; unfold gen_unfold.
  - rewrite Hn. reflexivity.
  - rewrite Hs. destruct (nth_error (rbody s) k) as [[a|Y]|] eqn:E; try reflexivity.
    exfalso. apply (Hk Y). reflexivity.
Qed.

(* ====================================================================== *)
(* (2) solutions are preserved                                            *)
(* ====================================================================== *)

Theorem unfold_preserves_solutions :
  forall (G : grammar S) (i k : nat) (f : nat -> list nat -> S),
    (forall X xs, f X xs = gstep G f X xs) ->
    forall X xs, gstep (gen_unfold S i k G) f X xs = f X xs.
Proof.
  intros G i k f Hfix X xs.
  destruct (nth_error G i) as [s|] eqn:Hs.
  - destruct (nth_error (rbody s) k) as [[a|Y]|] eqn:Hk.
    + unfold gen_unfold. rewrite Hs, Hk. symmetry; apply Hfix.
    + rewrite (unfold_one_step G i k s Y f X xs Hs Hk).
      rewrite (Wb_at_split f (gstep G f) k (rbody s) Y xs Hk).
      rewrite (nest_ext _ (gstep G f Y) (f Y) _ xs) by (intros v; symmetry; apply Hfix).
      rewrite <- (Wb_split_nest f k (rbody s) Y xs Hk).
      rewrite (Hfix X xs), gstep_term, (bsum_kept (term f X xs) G i s Hs).
      change (if Nat.eqb (rhead s) X then rw s * Wb f (rbody s) xs else 0) with (term f X xs s). ring.
    + unfold gen_unfold. rewrite Hs, Hk. symmetry; apply Hfix.
  - unfold gen_unfold. rewrite Hs. symmetry; apply Hfix.
Qed.

(* instance: a height at which W is stationary is stationary for the unfolded system *)
Corollary unfold_W_stationary :
  forall (G : grammar S) (i k h : nat),
    (forall X xs, W G (Datatypes.S h) X xs = W G h X xs) ->
    forall X xs, gstep (gen_unfold S i k G) (W G h) X xs = W G h X xs.
Proof.
  intros G i k h Hst. apply unfold_preserves_solutions.
  intros X xs. rewrite <- W_succ_gstep. symmetry; apply Hst.
Qed.

End UnfoldProofs.

Print Assumptions Wb_app.
Print Assumptions unfold_one_step.
Print Assumptions unfold_preserves_solutions.
