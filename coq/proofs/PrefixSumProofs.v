(* The REFERENCE prefix weight Wpre (model/Prefix.v) satisfies the prefix-sum identity
       Wpre(p) = W(p) + sum_{t in V} Wpre(p ++ [t])
   at every height, over any commutative semiring, for every grammar whose terminals are
   among the (duplicate-free) token list V.  This is the hypothesis that the chain rule
   (NormProofs.chain_rule, props/C04.v) asks of the prefix weights; instantiating it gives
   the chain rule for the language model whose next-token weights are the reference
   prefix weights.  No axioms. *)
From Coq Require Import List Arith Bool Lia ZArith QArith Qcanon.
From GV.lib Require Import Semiring BigSum.
From GV.model Require Import Cfg Agenda MachSpec Prefix Norm.
From GV.proofs Require Import CfgTrees AgendaProofs PrefixTrees TotalStringsProofs NormProofs.
Import ListNotations.
Local Open Scope nat_scope.
Local Open Scope sr_scope.

(* ---------- 1. one string: p is a prefix of y iff y = p or p ++ [t] is a prefix of y
   for exactly one token t ---------- *)

Lemma existsb_eqb_in (V : list nat) (b : nat) : In b V -> existsb (fun a => Nat.eqb a b) V = true.
Proof.
  intros H. apply existsb_exists. exists b. split; [exact H|apply Nat.eqb_refl].
Qed.

Section PrefixSplit.
Variable S : SR.
Add Ring PSRing : (sth S).

Lemma prefix_split_sr (V : list nat) (HV : NoDup V) (w : S) : forall (p y : list nat),
  (forall x, In x y -> In x V) ->
  (if is_prefix p y then w else 0)
  = (if list_eqb Nat.eqb y p then w else 0)
    + bsum V (fun t => if is_prefix (p ++ [t]) y then w else 0).
Proof.
  induction p as [|a p IH]; intros y Hy.
  - destruct y as [|b y].
    + cbn [app is_prefix list_eqb]. rewrite bsum_zero by (intros; reflexivity). ring.
    + cbn [app is_prefix list_eqb].
      transitivity (0 + bsum V (fun t => if Nat.eqb t b then (fun _ : nat => w) t else 0)).
      * rewrite (bsum_delta S Nat.eqb Nat.eqb_eq V b (fun _ => w) HV).
        rewrite existsb_eqb_in by (apply Hy; left; reflexivity). ring.
      * f_equal. apply bsum_ext; intros t _. rewrite andb_true_r. reflexivity.
  - destruct y as [|b y].
    + cbn [app is_prefix list_eqb]. rewrite bsum_zero by (intros; reflexivity). ring.
    + cbn [app is_prefix list_eqb]. destruct (Nat.eqb_spec a b) as [E|E].
      * subst b. rewrite Nat.eqb_refl. cbn [andb].
        apply IH. intros x Hx. apply Hy. right; exact Hx.
      * replace (Nat.eqb b a) with false by (symmetry; apply Nat.eqb_neq; auto).
        cbn [andb]. rewrite bsum_zero by (intros; reflexivity). ring.
Qed.

(* ---------- 2. grammars ---------- *)

Lemma body_length_bound (G : grammar S) :
  exists K, forall r, In r G -> length (rbody r) <= K.
Proof.
  induction G as [|r0 G IH].
  - exists O. intros r [].
  - destruct IH as [K HK]. exists (Nat.max (length (rbody r0)) K).
    intros r [<-|Hr]; [apply Nat.le_max_l|].
    apply (Nat.le_trans _ K); [apply HK; exact Hr|apply Nat.le_max_r].
Qed.

(* the yield of every enumerated tree is over the terminals of the grammar *)
Lemma trees_yield_in (G : grammar S) (V : list nat) :
  (forall r a, In r G -> In (T a) (rbody r) -> In a V) ->
  forall h X t, In t (trees G h X) -> forall a, In a (tyield t) -> In a V.
Proof.
  intros HT h X t Ht. destruct (body_length_bound G) as [K HK].
  exact (proj2 (trees_yield_bound S G V K HT HK h X t Ht)).
Qed.

Theorem prefix_sum_identity_sr : forall (G : grammar S) (V : list nat), NoDup V ->
  (forall r a, In r G -> In (T a) (rbody r) -> In a V) ->
  forall h X p, Wpre G h X p = W G h X p + bsum V (fun t => Wpre G h X (p ++ [t])).
Proof.
  intros G V HV HT h X p.
  transitivity (bsum (trees G h X) (fun tr => if yields p tr then tweight tr else 0)
                + bsum V (fun t => bsum (trees G h X) (fun tr =>
                    if is_prefix (p ++ [t]) (tyield tr) then tweight tr else 0))).
  2:{ f_equal.
      - rewrite W_trees, bsum_filter. reflexivity.
      - apply bsum_ext; intros t _. rewrite Wpre_trees, bsum_filter. reflexivity. }
  rewrite Wpre_trees, bsum_filter, bsum_swap, <- bsum_add.
  apply bsum_ext; intros tr Htr. unfold yields.
  apply prefix_split_sr; [exact HV|].
  exact (trees_yield_in G V HT h X tr Htr).
Qed.

End PrefixSplit.

Lemma prefix_split : forall (V : list nat) (p y : list nat), NoDup V -> (forall x, In x y -> In x V) ->
  forall (S : SR) (w : S),
  (if is_prefix p y then w else 0)
  = (if list_eqb Nat.eqb y p then w else 0) + bsum V (fun t => if is_prefix (p ++ [t]) y then w else 0).
Proof. intros V p y HV Hy S w. apply prefix_split_sr; assumption. Qed.

Theorem prefix_sum_identity : forall (S : SR) (G : grammar S) (V : list nat), NoDup V ->
  (forall r a, In r G -> In (T a) (rbody r) -> In a V) ->
  forall h X p, Wpre G h X p = W G h X p + bsum V (fun t => Wpre G h X (p ++ [t])).
Proof. exact prefix_sum_identity_sr. Qed.

(* ---------- 3. the chain rule for the reference language model ---------- *)

(* unnormalised next-token weights of the reference model: a token t of V gets the prefix
   weight of context + t, eos gets the weight of the context as a complete string *)
Definition ref_nw (F : FR) (G : grammar F) (h s eos : nat) (ctx : list nat) (t : nat) : F :=
  if Nat.eqb t eos then W G h s ctx else Wpre G h s (ctx ++ [t]).

Theorem reference_chain_rule : forall (F : FR) (G : grammar F) (V : list nat) (h s eos : nat),
  NoDup V -> ~ In eos V ->
  (forall r a, In r G -> In (T a) (rbody r) -> In a V) ->
  forall xs ctx, (forall x, In x xs -> In x V) ->
    (forall k, k <= length xs -> Wpre G h s (ctx ++ firstn k xs) <> s0) ->
    chain V eos (ref_nw F G h s eos) ctx xs = fdiv F (W G h s (ctx ++ xs)) (Wpre G h s ctx).
Proof.
  intros F G V h s eos HV Hne HT xs ctx Hxs Hnz.
  apply (chain_rule F V eos (ref_nw F G h s eos) (Wpre G h s) (W G h s)).
  - intros c t Ht. unfold ref_nw.
    replace (Nat.eqb t eos) with false; [reflexivity|].
    symmetry. apply Nat.eqb_neq. intros E. subst t. exact (Hne Ht).
  - intros c. unfold ref_nw. rewrite Nat.eqb_refl. reflexivity.
  - intros c. apply (prefix_sum_identity F G V HV HT).
  - exact Hne.
  - exact Hxs.
  - exact Hnz.
Qed.

Print Assumptions prefix_split.
Print Assumptions prefix_sum_identity.
Print Assumptions reference_chain_rule.

(* ---------- a computed instance over the rationals ---------- *)
Local Close Scope sr_scope.

Definition ps_G : grammar QcFR :=
  [ (mkq 1 2, 0, [T 1; N 1]); (mkq 1 3, 1, [T 0]); (mkq 1 5, 1, []) ].

Ltac ps_qc := apply Qc_is_canon; vm_compute; reflexivity.

Example prefix_sum_instance :
  Wpre ps_G 3 0 [1] = mkq 4 15 /\
  W ps_G 3 0 [1] = mkq 1 10 /\
  Wpre ps_G 3 0 [1; 0] = mkq 1 6 /\
  Wpre ps_G 3 0 [1; 1] = mkq 0 1 /\
  Wpre ps_G 3 0 [1] = sadd (W ps_G 3 0 [1]) (sadd (Wpre ps_G 3 0 [1; 0]) (Wpre ps_G 3 0 [1; 1])) /\
  chain [0; 1] 2 (ref_nw QcFR ps_G 3 0 2) [] [1; 0] = mkq 5 8 /\
  fdiv QcFR (mkq 1 6) (mkq 4 15) = mkq 5 8.
Proof. repeat split; ps_qc. Qed.

(* the same instance through the general theorems *)
Lemma ps_G_terminals : forall r a, In r ps_G -> In (T a) (rbody r) -> In a [0; 1].
Proof.
  intros r a Hr Ha. simpl in Hr.
  destruct Hr as [<-|[<-|[<-|[]]]]; simpl in Ha; intuition (try discriminate);
    match goal with H : T _ = T _ |- _ => injection H as <- end; simpl; auto.
Qed.

Lemma ps_V_nodup : NoDup [0; 1].
Proof. repeat constructor; simpl; intuition discriminate. Qed.

Example prefix_sum_instance_thm :
  Wpre ps_G 3 0 [1] = sadd (W ps_G 3 0 [1]) (bsum [0; 1] (fun t => Wpre ps_G 3 0 ([1] ++ [t]))).
Proof. exact (prefix_sum_identity QcFR ps_G [0; 1] ps_V_nodup ps_G_terminals 3 0 [1]). Qed.

Example reference_chain_instance_thm :
  chain [0; 1] 2 (ref_nw QcFR ps_G 3 0 2) [] [1; 0]
  = fdiv QcFR (W ps_G 3 0 ([] ++ [1; 0])) (Wpre ps_G 3 0 []).
Proof.
  apply (reference_chain_rule QcFR ps_G [0; 1] 3 0 2 ps_V_nodup).
  - simpl. intuition discriminate.
  - exact ps_G_terminals.
  - intros x Hx. simpl in Hx. simpl. intuition.
  - intros k Hk. simpl in Hk.
    assert (Hc : k = 0 \/ k = 1 \/ k = 2) by lia.
    destruct Hc as [E|[E|E]]; subst k; vm_compute; discriminate.
Qed.

Print Assumptions prefix_sum_instance.
Print Assumptions prefix_sum_instance_thm.
Print Assumptions reference_chain_instance_thm.
