(* Lehmann/Kleene elimination (WeightedGraph._closure) computes a solution of
   K = I + A K and K = I + K A over every star semiring, provided the pivots
   met by the elimination lie in the domain of star.  No axioms. *)
From Coq Require Import List Arith Bool Lia Permutation.
From GV.lib Require Import Semiring BigSum.
From GV.model Require Import Linear.
Import ListNotations.
Local Open Scope sr_scope.

Section LehmannProof.
Variable S : StarSR.
Add Ring SRing : (sth S).

(* ---------- table lookup ---------- *)

Lemma mget_row_hit (f : nat -> nat -> S) (i k : nat) (C : list nat) (rest : mat S) :
  In k C -> mget (map (fun k' => (i, k', f i k')) C ++ rest) i k = f i k.
Proof.
  induction C as [|a C IH]; simpl; intros Hin; [contradiction|].
  rewrite Nat.eqb_refl; simpl.
  destruct (Nat.eqb k a) eqn:E.
  - apply Nat.eqb_eq in E; subst a; reflexivity.
  - apply IH. destruct Hin as [Ha|Hin]; [|exact Hin].
    subst a. rewrite Nat.eqb_refl in E; discriminate E.
Qed.

Lemma mget_row_miss (f : nat -> nat -> S) (i i' k : nat) (C : list nat) (rest : mat S) :
  i <> i' \/ ~ In k C ->
  mget (map (fun k' => (i', k', f i' k')) C ++ rest) i k = mget rest i k.
Proof.
  induction C as [|a C IH]; simpl; intros Hm; [reflexivity|].
  destruct (Nat.eqb i i') eqn:Ei; simpl.
  - apply Nat.eqb_eq in Ei. destruct Hm as [Hne|Hni]; [contradiction|].
    destruct (Nat.eqb k a) eqn:Ek.
    + apply Nat.eqb_eq in Ek. exfalso; apply Hni; left; symmetry; exact Ek.
    + apply IH. right. intro Hin; apply Hni; right; exact Hin.
  - apply IH. left. apply Nat.eqb_neq; exact Ei.
Qed.

Lemma mget_tab_gen (f : nat -> nat -> S) (i k : nat) (C R : list nat) :
  mget (flat_map (fun i' => map (fun k' => (i', k', f i' k')) C) R) i k
  = if in_dec Nat.eq_dec i R then if in_dec Nat.eq_dec k C then f i k else 0 else 0.
Proof.
  induction R as [|a R IH]; simpl; [reflexivity|].
  destruct (Nat.eq_dec a i) as [Eai|Nai].
  - subst a. destruct (in_dec Nat.eq_dec k C) as [Hk|Hk].
    + apply mget_row_hit; exact Hk.
    + rewrite mget_row_miss by (right; exact Hk). rewrite IH.
      destruct (in_dec Nat.eq_dec i R); reflexivity.
  - rewrite mget_row_miss by (left; intro E; apply Nai; symmetry; exact E).
    rewrite IH. destruct (in_dec Nat.eq_dec i R); reflexivity.
Qed.

Lemma mget_tabulate : forall (nodes : list nat) (f : nat -> nat -> S) i k,
  In i nodes -> In k nodes -> mget (tabulate nodes f) i k = f i k.
Proof.
  intros nodes f i k Hi Hk. unfold tabulate. rewrite mget_tab_gen.
  destruct (in_dec Nat.eq_dec i nodes); [|contradiction].
  destruct (in_dec Nat.eq_dec k nodes); [reflexivity|contradiction].
Qed.

Lemma mget_tabulate_out : forall (nodes : list nat) (f : nat -> nat -> S) i k,
  ~ (In i nodes /\ In k nodes) -> mget (tabulate nodes f) i k = 0.
Proof.
  intros nodes f i k Hn. unfold tabulate. rewrite mget_tab_gen.
  destruct (in_dec Nat.eq_dec i nodes) as [Hi|Hi]; [|reflexivity].
  destruct (in_dec Nat.eq_dec k nodes) as [Hk|Hk]; [|reflexivity].
  exfalso; apply Hn; split; assumption.
Qed.

Lemma mget_elim_step (nodes : list nat) (m : nat) (B : mat S) i k :
  In i nodes -> In k nodes ->
  mget (elim_step nodes m B) i k
  = mget B i k + mget B i m * sstar S (mget B m m) * mget B m k.
Proof. intros Hi Hk. unfold elim_step. rewrite mget_tabulate by assumption. reflexivity. Qed.

(* ---------- definedness of the pivots ---------- *)

Fixpoint pivots_defined (nodes : list nat) (todo : list nat) (old : mat S) : Prop :=
  match todo with
  | [] => True
  | j :: t => sdef S (mget old j j) /\ pivots_defined nodes t (elim_step nodes j old)
  end.

Definition defined (nodes : list nat) (A : mat S) : Prop :=
  pivots_defined nodes nodes (tabulate nodes (mget A)).

(* ---------- the two invariants ---------- *)

Definition invl (nodes : list nat) (A : mat S) (J : list nat) (B : mat S) : Prop :=
  forall i k, In i nodes -> In k nodes ->
    mget B i k = mget A i k + bsum J (fun j => mget A i j * mget B j k).

Definition invr (nodes : list nat) (A : mat S) (J : list nat) (B : mat S) : Prop :=
  forall i k, In i nodes -> In k nodes ->
    mget B i k = mget A i k + bsum J (fun j => mget B i j * mget A j k).

Lemma alg_l (ak x am y bmk bmm s : S) :
  s = 1 + bmm * s ->
  (ak + x) + (am + y) * s * bmk = ak + (am * (bmk + bmm * s * bmk) + (x + y * (s * bmk))).
Proof.
  intros Hs.
  replace (am * (bmk + bmm * s * bmk)) with (am * (1 + bmm * s) * bmk) by ring.
  rewrite <- Hs. ring.
Qed.

Lemma alg_r (ak x amk y bim bmm s : S) :
  s = 1 + s * bmm ->
  (ak + x) + bim * s * (amk + y) = ak + ((bim + bim * s * bmm) * amk + (x + (bim * s) * y)).
Proof.
  intros Hs.
  replace ((bim + bim * s * bmm) * amk) with (bim * (1 + s * bmm) * amk) by ring.
  rewrite <- Hs. ring.
Qed.

Lemma invl_step nodes A m J B :
  In m nodes -> incl J nodes -> invl nodes A J B -> sdef S (mget B m m) ->
  invl nodes A (m :: J) (elim_step nodes m B).
Proof.
  intros Hm HJ Hinv Hdef i k Hi Hk.
  rewrite bsum_cons.
  rewrite !mget_elim_step by assumption.
  set (s := sstar S (mget B m m)).
  assert (Hs : s = 1 + mget B m m * s) by (apply star_unfold_l; exact Hdef).
  rewrite (bsum_ext S J _ (fun j => mget A i j * mget B j k
                                   + (mget A i j * mget B j m) * (s * mget B m k))).
  2:{ intros j Hj. rewrite mget_elim_step by (try assumption; apply HJ; exact Hj).
      fold s. ring. }
  rewrite bsum_add, bsum_mul_r.
  rewrite (Hinv i k Hi Hk), (Hinv i m Hi Hm).
  apply alg_l; exact Hs.
Qed.

Lemma invr_step nodes A m J B :
  In m nodes -> incl J nodes -> invr nodes A J B -> sdef S (mget B m m) ->
  invr nodes A (m :: J) (elim_step nodes m B).
Proof.
  intros Hm HJ Hinv Hdef i k Hi Hk.
  rewrite bsum_cons.
  rewrite !mget_elim_step by assumption.
  set (s := sstar S (mget B m m)).
  assert (Hs : s = 1 + s * mget B m m) by (apply star_unfold_r; exact Hdef).
  rewrite (bsum_ext S J _ (fun j => mget B i j * mget A j k
                                   + (mget B i m * s) * (mget B m j * mget A j k))).
  2:{ intros j Hj. rewrite mget_elim_step by (try assumption; apply HJ; exact Hj).
      fold s. ring. }
  rewrite bsum_add, bsum_mul_l.
  rewrite (Hinv i k Hi Hk), (Hinv m k Hm Hk).
  apply alg_r; exact Hs.
Qed.

(* generic fold lemma *)
Lemma fold_inv (nodes : list nat) (P : list nat -> mat S -> Prop) :
  (forall m J B, In m nodes -> incl J nodes -> P J B -> sdef S (mget B m m) ->
                 P (m :: J) (elim_step nodes m B)) ->
  forall todo J B, incl todo nodes -> incl J nodes -> P J B ->
    pivots_defined nodes todo B ->
    P (rev todo ++ J) (fold_left (fun old j => elim_step nodes j old) todo B).
Proof.
  intros Hstep todo. induction todo as [|m t IH]; intros J B Ht HJ HP Hpd; simpl.
  - exact HP.
  - destruct Hpd as [Hd Hpd].
    assert (Hm : In m nodes) by (apply Ht; left; reflexivity).
    rewrite <- app_assoc. simpl. apply IH.
    + intros x Hx; apply Ht; right; exact Hx.
    + intros x [Hx|Hx]; [subst x; exact Hm|apply HJ; exact Hx].
    + apply Hstep; assumption.
    + exact Hpd.
Qed.

Lemma lehmann_trans_l nodes A : defined nodes A ->
  forall i k, In i nodes -> In k nodes ->
    mget (lehmann_trans nodes A) i k
    = mget A i k + bsum nodes (fun j => mget A i j * mget (lehmann_trans nodes A) j k).
Proof.
  intros Hdef i k Hi Hk. unfold lehmann_trans.
  pose proof (fold_inv nodes (invl nodes A) (invl_step nodes A) nodes []
                (tabulate nodes (mget A)) (incl_refl _) (incl_nil_l _)) as H.
  rewrite app_nil_r in H.
  rewrite (bsum_perm S nodes (rev nodes) _ (Permutation_rev nodes)).
  apply H; try assumption.
  intros i' k' Hi' Hk'. rewrite bsum_nil, mget_tabulate by assumption. ring.
Qed.

Lemma lehmann_trans_r nodes A : defined nodes A ->
  forall i k, In i nodes -> In k nodes ->
    mget (lehmann_trans nodes A) i k
    = mget A i k + bsum nodes (fun j => mget (lehmann_trans nodes A) i j * mget A j k).
Proof.
  intros Hdef i k Hi Hk. unfold lehmann_trans.
  pose proof (fold_inv nodes (invr nodes A) (invr_step nodes A) nodes []
                (tabulate nodes (mget A)) (incl_refl _) (incl_nil_l _)) as H.
  rewrite app_nil_r in H.
  rewrite (bsum_perm S nodes (rev nodes) _ (Permutation_rev nodes)).
  apply H; try assumption.
  intros i' k' Hi' Hk'. rewrite bsum_nil, mget_tabulate by assumption. ring.
Qed.

(* ---------- delta sums ---------- *)

Lemma bsum_fid_out (l : list nat) (f : nat -> S) k :
  ~ In k l -> bsum l (fun j => f j * fid j k) = 0.
Proof.
  intros Hn. apply bsum_zero. intros j Hj. unfold fid.
  destruct (Nat.eqb j k) eqn:E; [|ring].
  apply Nat.eqb_eq in E; subst j; contradiction.
Qed.

Lemma bsum_fid (l : list nat) (f : nat -> S) k :
  NoDup l -> In k l -> bsum l (fun j => f j * fid j k) = f k.
Proof.
  induction 1 as [|a t Hn Hd IH]; intros Hin; [contradiction|].
  rewrite bsum_cons. destruct Hin as [E|Hin].
  - subst a. rewrite bsum_fid_out by exact Hn. unfold fid. rewrite Nat.eqb_refl. ring.
  - rewrite IH by exact Hin. unfold fid at 1.
    destruct (Nat.eqb a k) eqn:E; [|ring].
    apply Nat.eqb_eq in E; subst a; contradiction.
Qed.

Lemma mget_lehmann nodes (A : mat S) i k : In i nodes -> In k nodes ->
  mget (lehmann nodes A) i k = mget (lehmann_trans nodes A) i k + fid i k.
Proof.
  intros Hi Hk. unfold lehmann. rewrite mget_tabulate by assumption.
  unfold fid. destruct (Nat.eqb i k); ring.
Qed.

(* ---------- main theorems ---------- *)

Theorem lehmann_fixpoint_l : forall (nodes : list nat) (A : mat S),
  NoDup nodes -> defined nodes A ->
  forall i k, In i nodes -> In k nodes ->
    mget (lehmann nodes A) i k
    = fid i k + bsum nodes (fun j => mget A i j * mget (lehmann nodes A) j k).
Proof.
  intros nodes A Hnd Hdef i k Hi Hk.
  rewrite (bsum_ext S nodes _ (fun j => mget A i j * mget (lehmann_trans nodes A) j k
                                       + mget A i j * fid j k)).
  2:{ intros j Hj. rewrite mget_lehmann by assumption. ring. }
  rewrite bsum_add, bsum_fid by assumption.
  rewrite mget_lehmann by assumption.
  rewrite (lehmann_trans_l nodes A Hdef i k Hi Hk) at 1. ring.
Qed.

Theorem lehmann_fixpoint_r : forall (nodes : list nat) (A : mat S),
  NoDup nodes -> defined nodes A ->
  forall i k, In i nodes -> In k nodes ->
    mget (lehmann nodes A) i k
    = fid i k + bsum nodes (fun j => mget (lehmann nodes A) i j * mget A j k).
Proof.
  intros nodes A Hnd Hdef i k Hi Hk.
  rewrite (bsum_ext S nodes _ (fun j => mget (lehmann_trans nodes A) i j * mget A j k
                                       + mget A j k * fid j i)).
  2:{ intros j Hj. rewrite mget_lehmann by assumption.
      unfold fid. rewrite (Nat.eqb_sym i j). ring. }
  rewrite bsum_add, bsum_fid by assumption.
  rewrite mget_lehmann by assumption.
  rewrite (lehmann_trans_r nodes A Hdef i k Hi Hk) at 1. ring.
Qed.

Theorem closure1_fixpoint : forall (i : nat) (A : mat S), sdef S (mget A i i) ->
  mget (closure1 i A) i i = 1 + mget A i i * mget (closure1 i A) i i /\
  mget (closure1 i A) i i = 1 + mget (closure1 i A) i i * mget A i i.
Proof.
  intros i A Hdef. unfold closure1. simpl. rewrite Nat.eqb_refl. simpl.
  split; [apply star_unfold_l|apply star_unfold_r]; exact Hdef.
Qed.

Theorem closure_fixpoint_l : forall (nodes : list nat) (A : mat S), NoDup nodes ->
  (match nodes with [i] => sdef S (mget A i i) | _ => defined nodes A end) ->
  forall i k, In i nodes -> In k nodes ->
    mget (closure nodes A) i k
    = fid i k + bsum nodes (fun j => mget A i j * mget (closure nodes A) j k).
Proof.
  intros nodes A Hnd Hdef i k Hi Hk.
  destruct nodes as [|a [|b t]].
  - contradiction.
  - destruct Hi as [Hi|[]]. destruct Hk as [Hk|[]]. subst i k.
    destruct (closure1_fixpoint a A Hdef) as [Hl _].
    unfold closure. rewrite bsum_cons, bsum_nil. unfold fid. rewrite Nat.eqb_refl.
    rewrite Hl at 1. ring.
  - unfold closure. apply lehmann_fixpoint_l; assumption.
Qed.

(* K = I + K A for closure as well *)
Theorem closure_fixpoint_r : forall (nodes : list nat) (A : mat S), NoDup nodes ->
  (match nodes with [i] => sdef S (mget A i i) | _ => defined nodes A end) ->
  forall i k, In i nodes -> In k nodes ->
    mget (closure nodes A) i k
    = fid i k + bsum nodes (fun j => mget (closure nodes A) i j * mget A j k).
Proof.
  intros nodes A Hnd Hdef i k Hi Hk.
  destruct nodes as [|a [|b t]].
  - contradiction.
  - destruct Hi as [Hi|[]]. destruct Hk as [Hk|[]]. subst i k.
    destruct (closure1_fixpoint a A Hdef) as [_ Hr].
    unfold closure. rewrite bsum_cons, bsum_nil. unfold fid. rewrite Nat.eqb_refl.
    rewrite Hr at 1. ring.
  - unfold closure. apply lehmann_fixpoint_r; assumption.
Qed.

End LehmannProof.

Print Assumptions lehmann_fixpoint_l.
Print Assumptions lehmann_fixpoint_r.
Print Assumptions closure1_fixpoint.
Print Assumptions closure_fixpoint_l.
Print Assumptions closure_fixpoint_r.

(* ---------- non-vacuity: a concrete defined instance over the rationals ---------- *)
From Coq Require Import QArith Qcanon.

Example lehmann_defined_example :
  defined QcStar [0%nat; 1%nat]
    [(0%nat, 1%nat, mkq 1 2); (1%nat, 0%nat, mkq 1 3); (1%nat, 1%nat, mkq 1 4)].
Proof.
  unfold defined. simpl.
  repeat split; intro H; apply (f_equal this) in H; vm_compute in H; discriminate H.
Qed.
Print Assumptions lehmann_defined_example.
