(* The total weight of a nonterminal after h Kleene iterations (= the total weight of
   its derivation trees of height <= h, AgendaProofs.bu_iter_trees) is the sum, over
   ALL terminal strings, of the height-h derivation sum W of that string: "the value
   of the start symbol is the sum of the string weights over the whole language", at
   every height, over any commutative semiring. *)
From Coq Require Import List Arith Bool Lia NArith.
From GV.lib Require Import Semiring BigSum.
From GV.model Require Import Cfg Agenda.
From GV.proofs Require Import CfgTrees AgendaProofs ProductProofs.
Import ListNotations.
Local Open Scope sr_scope.

(* ---------- the word enumerations: membership and absence of duplicates ---------- *)

Lemma words_eq_length (V : list nat) : forall n w, In w (words_eq V n) -> length w = n.
Proof.
  induction n as [|n IH]; intros w Hw.
  - cbn [words_eq] in Hw. destruct Hw as [<-|[]]. reflexivity.
  - cbn [words_eq] in Hw. apply in_flat_map in Hw. destruct Hw as [c [_ Hw]].
    apply in_map_iff in Hw. destruct Hw as [w' [<- Hw']]. simpl. f_equal. apply IH; exact Hw'.
Qed.

Lemma words_eq_complete (V : list nat) : forall w,
  (forall a, In a w -> In a V) -> In w (words_eq V (length w)).
Proof.
  induction w as [|c w IH]; intros Hw.
  - left; reflexivity.
  - cbn [length words_eq]. apply in_flat_map. exists c. split; [apply Hw; left; reflexivity|].
    apply in_map. apply IH. intros a Ha. apply Hw; right; exact Ha.
Qed.

Lemma words_le_length (V : list nat) : forall n w, In w (words_le V n) -> length w <= n.
Proof.
  induction n as [|n IH]; intros w Hw.
  - cbn [words_le] in Hw. destruct Hw as [<-|[]]. simpl; lia.
  - cbn [words_le] in Hw. apply in_app_or in Hw. destruct Hw as [Hw|Hw].
    + apply IH in Hw. lia.
    + apply words_eq_length in Hw. lia.
Qed.

Lemma words_le_complete (V : list nat) : forall n w,
  length w <= n -> (forall a, In a w -> In a V) -> In w (words_le V n).
Proof.
  induction n as [|n IH]; intros w Hl Hw.
  - destruct w; [left; reflexivity|simpl in Hl; lia].
  - cbn [words_le]. apply in_or_app.
    destruct (Nat.eq_dec (length w) (Datatypes.S n)) as [E|E].
    + right. rewrite <- E. apply words_eq_complete; exact Hw.
    + left. apply IH; [lia|exact Hw].
Qed.

Lemma words_eq_NoDup (V : list nat) : NoDup V -> forall n, NoDup (words_eq V n).
Proof.
  intros HV; induction n as [|n IH].
  - constructor; [intros []|constructor].
  - cbn [words_eq]. apply NoDup_flat_map_disj.
    + exact HV.
    + intros a _. apply NoDup_map_inj; [|exact IH]. intros x y H; congruence.
    + intros a b x _ _ H1 H2. apply in_map_iff in H1. apply in_map_iff in H2.
      destruct H1 as [u [H1 _]]. destruct H2 as [v [H2 _]]. congruence.
Qed.

Lemma words_le_NoDup (V : list nat) : NoDup V -> forall n, NoDup (words_le V n).
Proof.
  intros HV; induction n as [|n IH].
  - constructor; [intros []|constructor].
  - cbn [words_le]. apply NoDup_app_intro; [exact IH|apply words_eq_NoDup; exact HV|].
    intros x H1 H2. apply words_le_length in H1. apply words_eq_length in H2. lia.
Qed.

Section TotalStrings.
Variable S : SR.
Add Ring SRing : (sth S).

(* every tree enumerated for X at height h has its yield among the listed words *)
Definition yields_within (G : grammar S) (h X : nat) (V : list nat) (L : nat) : Prop :=
  forall t, In t (trees G h X) -> In (tyield t) (words_le V L).

Theorem total_is_sum_of_strings : forall (G : grammar S) (V : list nat) (h X L : nat), NoDup V ->
  yields_within G h X V L ->
  bu_iter G h X = bsum (words_le V L) (fun xs => W G h X xs).
Proof.
  intros G V h X L HV Hy.
  rewrite bu_iter_trees.
  transitivity (bsum (words_le V L) (fun xs =>
                  bsum (trees G h X) (fun t => if yields xs t then tweight t else 0))).
  2:{ apply bsum_ext; intros xs _. rewrite W_trees, bsum_filter. reflexivity. }
  rewrite bsum_swap. apply bsum_ext; intros t Ht. unfold yields.
  rewrite (bsum_delta S (fun a b : list nat => list_eqb Nat.eqb b a)
             (fun a b => conj (fun H => eq_sym (proj1 (list_eqb_nat_spec b a) H))
                              (fun H => proj2 (list_eqb_nat_spec b a) (eq_sym H)))
             (words_le V L) (tyield t) (fun _ => tweight t) (words_le_NoDup V HV L)).
  assert (E : existsb (fun a => list_eqb Nat.eqb (tyield t) a) (words_le V L) = true).
  { apply existsb_exists. exists (tyield t). split; [apply Hy; exact Ht|].
    apply list_eqb_nat_spec; reflexivity. }
  rewrite E. reflexivity.
Qed.

(* ---------- discharging the hypothesis from the shape of the grammar ---------- *)

(* a forest for [body] whose nonterminal children have yields over V of length <= M
   has a yield over V of length <= |body| * M *)
Lemma forests_yield_bound (V : list nat) (M : nat) (tr : nat -> list (tree S)) :
  1 <= M ->
  (forall Y t, In t (tr Y) -> length (tyield t) <= M /\ (forall a, In a (tyield t) -> In a V)) ->
  forall body fo, (forall a, In (T a) body -> In a V) -> In fo (forests_of tr body) ->
    length (fyield fo) <= length body * M /\ (forall a, In a (fyield fo) -> In a V).
Proof.
  intros HM Htr. induction body as [|s rest IH]; intros fo Hb Hin.
  - simpl in Hin. destruct Hin as [<-|[]]. simpl. split; [lia|intros a []].
  - assert (Hb' : forall a, In (T a) rest -> In a V) by (intros a Ha; apply Hb; right; exact Ha).
    destruct s as [a|Y]; simpl in Hin.
    + apply in_map_iff in Hin. destruct Hin as [fo' [<- Hin]].
      destruct (IH fo' Hb' Hin) as [Hl Hv].
      change (fyield (Fcons (Leaf a) fo')) with ([a] ++ fyield fo').
      rewrite app_length. cbn [length]. split; [lia|].
      intros b Hbin. apply in_app_or in Hbin. destruct Hbin as [[<-|[]]|Hbin].
      * apply Hb; left; reflexivity.
      * apply Hv; exact Hbin.
    + apply in_flat_map in Hin. destruct Hin as [t [Ht Hin]].
      apply in_map_iff in Hin. destruct Hin as [fo' [<- Hin]].
      destruct (IH fo' Hb' Hin) as [Hl Hv]. destruct (Htr Y t Ht) as [Htl Htv].
      change (fyield (Fcons t fo')) with (tyield t ++ fyield fo').
      rewrite app_length. cbn [length]. split; [lia|].
      intros b Hbin. apply in_app_or in Hbin. destruct Hbin as [Hbin|Hbin]; [apply Htv|apply Hv]; exact Hbin.
Qed.

Lemma trees_yield_bound (G : grammar S) (V : list nat) (K : nat) :
  (forall r a, In r G -> In (T a) (rbody r) -> In a V) ->
  (forall r, In r G -> length (rbody r) <= K) ->
  forall h X t, In t (trees G h X) ->
    length (tyield t) <= Nat.pow K h /\ (forall a, In a (tyield t) -> In a V).
Proof.
  intros HT HK. induction h as [|h IH]; intros X t Hin; [contradiction|].
  cbn [trees] in Hin. apply in_flat_map in Hin. destruct Hin as [[i r] [Hir Hin]].
  simpl fst in Hin; simpl snd in Hin.
  destruct (Nat.eqb (rhead r) X); [|contradiction].
  apply in_map_iff in Hin. destruct Hin as [k [<- Hin]].
  assert (Hr : In r G).
  { apply in_combine_seq_nth in Hir. destruct Hir as [j [_ Hn]]. apply nth_error_In in Hn. exact Hn. }
  change (tyield (Node i r k)) with (fyield k).
  destruct (rbody r) as [|s rest] eqn:Eb.
  - simpl in Hin. destruct Hin as [<-|[]]. simpl. split; [lia|intros a []].
  - assert (HK1 : 1 <= K).
    { specialize (HK r Hr). rewrite Eb in HK. simpl in HK. lia. }
    assert (HM : 1 <= Nat.pow K h).
    { assert (Nat.pow K h <> O) by (apply Nat.pow_nonzero; lia). lia. }
    destruct (forests_yield_bound V (Nat.pow K h) (trees G h) HM IH (s :: rest) k) as [Hl Hv].
    + intros a Ha. apply (HT r a Hr). rewrite Eb. exact Ha.
    + exact Hin.
    + split; [|exact Hv].
      specialize (HK r Hr). rewrite Eb in HK. cbn [Nat.pow].
      apply (Nat.le_trans _ _ _ Hl). apply Nat.mul_le_mono_r. exact HK.
Qed.

(* terminals of the grammar are in V; bodies have at most K symbols:
   yields at height h have length <= K^h *)
Theorem yields_within_bound : forall (G : grammar S) (V : list nat) (K : nat),
  (forall r a, In r G -> In (T a) (rbody r) -> In a V) ->
  (forall r, In r G -> length (rbody r) <= K) ->
  forall h X, yields_within G h X V (Nat.pow K h).
Proof.
  intros G V K HT HK h X t Ht.
  destruct (trees_yield_bound G V K HT HK h X t Ht) as [Hl Hv].
  apply words_le_complete; assumption.
Qed.

Corollary total_is_sum_of_all_strings : forall (G : grammar S) (V : list nat) (K : nat),
  NoDup V ->
  (forall r a, In r G -> In (T a) (rbody r) -> In a V) ->
  (forall r, In r G -> length (rbody r) <= K) ->
  forall h X, bu_iter G h X = bsum (words_le V (Nat.pow K h)) (fun xs => W G h X xs).
Proof.
  intros G V K HV HT HK h X.
  apply total_is_sum_of_strings; [exact HV|]. apply yields_within_bound; assumption.
Qed.

End TotalStrings.

Print Assumptions total_is_sum_of_strings.
Print Assumptions yields_within_bound.
Print Assumptions total_is_sum_of_all_strings.

(* ---------- a computed instance over the naturals ---------- *)
Local Close Scope sr_scope.

Definition ex_G : grammar NSR :=
  [ (2%N, 0, [T 1; N 1]); (3%N, 1, [T 0]); (5%N, 1, []) ].

Example total_strings_instance :
  bu_iter ex_G 3 0 = 16%N /\
  bsum (words_le [0; 1] 2) (fun xs => W ex_G 3 0 xs) = 16%N /\
  W ex_G 3 0 [1; 0] = 6%N /\
  W ex_G 3 0 [1] = 10%N /\
  map (fun xs => W ex_G 3 0 xs) (words_le [0; 1] 2)
    = [0; 0; 10; 0; 0; 6; 0]%N.
Proof. vm_compute. repeat split; reflexivity. Qed.

(* the instance through the general corollary: bodies have at most 2 symbols, so the
   words of length <= 2^3 cover the language at height 3 *)
Example total_strings_instance_thm :
  bu_iter ex_G 3 0 = bsum (words_le [0; 1] (Nat.pow 2 3)) (fun xs => W ex_G 3 0 xs).
Proof.
  apply (total_is_sum_of_all_strings NSR ex_G [0; 1] 2).
  - repeat constructor; simpl; intuition discriminate.
  - intros r a Hr Ha. simpl in Hr.
    destruct Hr as [<-|[<-|[<-|[]]]]; simpl in Ha; intuition (try discriminate);
      match goal with H : T _ = T _ |- _ => injection H as <- end; simpl; auto.
  - intros r Hr. simpl in Hr. destruct Hr as [<-|[<-|[<-|[]]]]; simpl; lia.
Qed.

Print Assumptions total_strings_instance.
Print Assumptions total_strings_instance_thm.
