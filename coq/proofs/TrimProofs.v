(* Trimming (CFG.cotrim = trim(bottomup_only=True)):
   1. [generating G] is exactly the set of productive nonterminals (sound and complete);
   2. a non-generating nonterminal has weight zero for every string and height;
   3. [cotrim] changes no weight: W (cotrim G) h X xs = W G h X xs;
   4. soundness of the structural checkers of model/Transform.v. *)
From Coq Require Import List Arith Bool Lia.
From GV.lib Require Import Semiring BigSum.
From GV.model Require Import Cfg Transform.
Import ListNotations.
Local Open Scope sr_scope.

(* local copy (the same statement is sym_eqb_eq in AgendaProofs.v; kept local so that
   this file depends on lib/ and model/ only) *)
Lemma trim_sym_eqb_eq (u y : sym) : sym_eqb u y = true <-> u = y.
Proof.
  destruct u as [a|a], y as [b|b]; simpl; split; intros H; try discriminate.
  - apply Nat.eqb_eq in H. subst; reflexivity.
  - injection H as ->. apply Nat.eqb_refl.
  - apply Nat.eqb_eq in H. subst; reflexivity.
  - injection H as ->. apply Nat.eqb_refl.
Qed.

Lemma mem_spec (x : nat) (C : list nat) : existsb (Nat.eqb x) C = true <-> In x C.
Proof.
  rewrite existsb_exists. split.
  - intros [y [Hy E]]. apply Nat.eqb_eq in E. subst; assumption.
  - intros H. exists x. split; [assumption|apply Nat.eqb_refl].
Qed.

Lemma mem_false (x : nat) (C : list nat) : existsb (Nat.eqb x) C = false <-> ~ In x C.
Proof.
  rewrite <- mem_spec. destruct (existsb (Nat.eqb x) C); split; intros H; try congruence.
  all: try (exfalso; apply H; reflexivity).
Qed.

Lemma forallb_false_ex {A} (f : A -> bool) (l : list A) :
  forallb f l = false -> exists x, In x l /\ f x = false.
Proof.
  induction l as [|a t IH]; simpl; intros H; [discriminate|].
  destruct (f a) eqn:E.
  - simpl in H. destruct (IH H) as [x [Hx Fx]]. exists x; split; [right; assumption|assumption].
  - exists a; split; [left; reflexivity|assumption].
Qed.

Section TrimProofs.
Variable S : SR.
Add Ring SRing : (sth S).

Inductive productive (G : grammar S) : nat -> Prop :=
| prod_rule : forall r, In r G -> (forall y, In (N y) (rbody r) -> productive G y) -> productive G (rhead r).

(* ---------- gen_sym / one step of a pass ---------- *)

Lemma gen_sym_all (C : list nat) (body : list sym) :
  forallb (gen_sym C) body = true <-> (forall y, In (N y) body -> In y C).
Proof.
  rewrite forallb_forall. split.
  - intros H y Hy. apply mem_spec. exact (H (N y) Hy).
  - intros H [a|y] Hy; simpl; [reflexivity|]. apply mem_spec. apply H; assumption.
Qed.

Definition gstep (C : list nat) (r : rule S) : list nat :=
  if forallb (gen_sym C) (rbody r) && negb (existsb (Nat.eqb (rhead r)) C) then rhead r :: C else C.

Lemma gen_pass_fold (G : grammar S) C : gen_pass G C = fold_left gstep G C.
Proof. reflexivity. Qed.

Definition closed (G : grammar S) (C : list nat) : Prop :=
  forall r, In r G -> forallb (gen_sym C) (rbody r) = true -> In (rhead r) C.

(* generic invariant of a pass *)
Lemma fold_inv (P : list nat -> Prop) (G : grammar S) :
  (forall C r, In r G -> P C -> P (gstep C r)) ->
  forall l, incl l G -> forall C, P C -> P (fold_left gstep l C).
Proof.
  intros Hstep l. induction l as [|r t IH]; intros Hl C HC; simpl; [assumption|].
  apply IH.
  - intros x Hx. apply Hl. right; assumption.
  - apply Hstep; [apply Hl; left; reflexivity|assumption].
Qed.

Lemma gen_pass_inv (P : list nat -> Prop) (G : grammar S) :
  (forall C r, In r G -> P C -> P (gstep C r)) -> forall C, P C -> P (gen_pass G C).
Proof. intros Hstep C HC. rewrite gen_pass_fold. apply (fold_inv P G Hstep G (incl_refl G) C HC). Qed.

Lemma gen_iter_inv (P : list nat -> Prop) (G : grammar S) :
  (forall C r, In r G -> P C -> P (gstep C r)) -> forall fuel C, P C -> P (gen_iter G fuel C).
Proof.
  intros Hstep fuel. induction fuel as [|f IH]; intros C HC; simpl; [assumption|].
  apply IH. apply gen_pass_inv; assumption.
Qed.

(* ---------- 1. soundness ---------- *)

Lemma gstep_sound (G : grammar S) C r :
  In r G -> (forall X, In X C -> productive G X) -> forall X, In X (gstep C r) -> productive G X.
Proof.
  intros Hr HC X. unfold gstep.
  destruct (forallb (gen_sym C) (rbody r)) eqn:Eb; simpl; [|apply HC].
  destruct (existsb (Nat.eqb (rhead r)) C) eqn:Eh; simpl; [apply HC|].
  intros [HX|HX]; [|apply HC; assumption]. subst X.
  apply prod_rule; [assumption|]. intros y Hy. apply HC.
  apply (proj1 (gen_sym_all C (rbody r)) Eb y Hy).
Qed.

Theorem generating_sound : forall (G : grammar S) X, In X (generating G) -> productive G X.
Proof.
  intros G. unfold generating.
  apply (gen_iter_inv (fun C => forall X, In X C -> productive G X) G).
  - intros C r Hr HC. apply gstep_sound; assumption.
  - intros X [].
Qed.

(* ---------- 2. completeness ---------- *)

Lemma gstep_length (C : list nat) (r : rule S) : length C <= length (gstep C r).
Proof. unfold gstep. destruct (_ && _); simpl; lia. Qed.

Lemma fold_length (l : list (rule S)) : forall C, length C <= length (fold_left gstep l C).
Proof.
  induction l as [|r t IH]; intros C; simpl; [lia|].
  specialize (IH (gstep C r)). pose proof (gstep_length C r). lia.
Qed.

Lemma gstep_same_length (C : list nat) (r : rule S) :
  length (gstep C r) = length C ->
  gstep C r = C /\ (forallb (gen_sym C) (rbody r) = true -> In (rhead r) C).
Proof.
  unfold gstep. destruct (forallb (gen_sym C) (rbody r)) eqn:Eb; simpl.
  - destruct (existsb (Nat.eqb (rhead r)) C) eqn:Eh; simpl.
    + intros _. split; [reflexivity|]. intros _. apply mem_spec; assumption.
    + intros H. lia.
  - intros _. split; [reflexivity|discriminate].
Qed.

(* a pass that adds nothing: no rule fired, so C is closed w.r.t. the rules scanned *)
Lemma fold_same_length (l : list (rule S)) : forall C,
  length (fold_left gstep l C) = length C ->
  forall r, In r l -> forallb (gen_sym C) (rbody r) = true -> In (rhead r) C.
Proof.
  induction l as [|r0 t IH]; intros C Hlen r Hr; [destruct Hr|].
  simpl in Hlen.
  pose proof (gstep_length C r0) as H1.
  pose proof (fold_length t (gstep C r0)) as H2.
  assert (Hs : length (gstep C r0) = length C) by lia.
  destruct (gstep_same_length C r0 Hs) as [Heq Hcl].
  rewrite Heq in Hlen.
  destruct Hr as [Hr|Hr].
  - subst r0. exact Hcl.
  - apply (IH C Hlen r Hr).
Qed.

Lemma gen_pass_same_length_closed (G : grammar S) C :
  length (gen_pass G C) = length C -> closed G C.
Proof. intros H r Hr. rewrite gen_pass_fold in H. apply (fold_same_length G C H r Hr). Qed.

Lemma gstep_closed_id (G : grammar S) C r : closed G C -> In r G -> gstep C r = C.
Proof.
  intros Hcl Hr. unfold gstep.
  destruct (forallb (gen_sym C) (rbody r)) eqn:Eb; simpl; [|reflexivity].
  assert (Hin : In (rhead r) C) by (apply Hcl; assumption).
  apply mem_spec in Hin. rewrite Hin. reflexivity.
Qed.

Lemma gen_pass_closed_id (G : grammar S) C : closed G C -> gen_pass G C = C.
Proof.
  intros Hcl. rewrite gen_pass_fold.
  assert (H : forall l, incl l G -> fold_left gstep l C = C).
  { induction l as [|r t IH]; intros Hl; simpl; [reflexivity|].
    rewrite (gstep_closed_id G C r Hcl) by (apply Hl; left; reflexivity).
    apply IH. intros x Hx; apply Hl; right; assumption. }
  apply H, incl_refl.
Qed.

Lemma gen_iter_closed_id (G : grammar S) fuel C : closed G C -> gen_iter G fuel C = C.
Proof.
  intros Hcl. induction fuel as [|f IH]; simpl; [reflexivity|].
  rewrite gen_pass_closed_id by assumption. exact IH.
Qed.

Lemma gstep_NoDup (C : list nat) (r : rule S) : NoDup C -> NoDup (gstep C r).
Proof.
  intros H. unfold gstep.
  destruct (forallb (gen_sym C) (rbody r)); simpl; [|assumption].
  destruct (existsb (Nat.eqb (rhead r)) C) eqn:Eh; simpl; [assumption|].
  constructor; [apply mem_false; assumption|assumption].
Qed.

Lemma gstep_heads (G : grammar S) C r :
  In r G -> incl C (map rhead G) -> incl (gstep C r) (map rhead G).
Proof.
  intros Hr H. unfold gstep. destruct (_ && _); [|assumption].
  intros x [Hx|Hx]; [subst x; apply in_map; assumption|apply H; assumption].
Qed.

Lemma gen_pass_NoDup (G : grammar S) C : NoDup C -> NoDup (gen_pass G C).
Proof. apply (gen_pass_inv (@NoDup nat) G). intros; apply gstep_NoDup; assumption. Qed.

Lemma gen_pass_heads (G : grammar S) C : incl C (map rhead G) -> incl (gen_pass G C) (map rhead G).
Proof.
  apply (gen_pass_inv (fun C => incl C (map rhead G)) G). intros; apply gstep_heads; assumption.
Qed.

Lemma gen_pass_length (G : grammar S) C : length C <= length (gen_pass G C).
Proof. rewrite gen_pass_fold. apply fold_length. Qed.

Lemma gstep_incl (C : list nat) (r : rule S) : incl C (gstep C r).
Proof. unfold gstep. destruct (_ && _); [apply incl_tl|]; apply incl_refl. Qed.

Lemma gen_pass_incl (G : grammar S) C : incl C (gen_pass G C).
Proof.
  rewrite gen_pass_fold. generalize C. induction G as [|r t IH]; intros C0; simpl; [apply incl_refl|].
  eapply incl_tran; [apply gstep_incl|apply IH].
Qed.

(* pigeonhole: with enough fuel the iteration reaches a closed set *)
Lemma gen_iter_closed (G : grammar S) : forall fuel C,
  NoDup C -> incl C (map rhead G) -> length (map rhead G) < fuel + length C ->
  closed G (gen_iter G fuel C).
Proof.
  induction fuel as [|f IH]; intros C Hnd Hincl Hlen.
  - exfalso. pose proof (NoDup_incl_length Hnd Hincl). simpl in Hlen. lia.
  - simpl. destruct (Nat.eq_dec (length (gen_pass G C)) (length C)) as [E|E].
    + pose proof (gen_pass_same_length_closed G C E) as Hcl.
      rewrite gen_pass_closed_id by assumption.
      rewrite gen_iter_closed_id by assumption. assumption.
    + apply IH.
      * apply gen_pass_NoDup; assumption.
      * apply gen_pass_heads; assumption.
      * pose proof (gen_pass_length G C). lia.
Qed.

Theorem generating_closed : forall (G : grammar S), closed G (generating G).
Proof.
  intros G. unfold generating. apply gen_iter_closed.
  - constructor.
  - intros x [].
  - rewrite map_length. simpl. lia.
Qed.

Lemma closed_complete (G : grammar S) C : closed G C -> forall X, productive G X -> In X C.
Proof.
  intros Hcl X HX. induction HX as [r Hr _ IH].
  apply Hcl; [assumption|]. apply gen_sym_all. exact IH.
Qed.

Theorem generating_complete_if_closed : forall (G : grammar S),
  closed G (generating G) -> forall X, productive G X -> In X (generating G).
Proof. intros G Hcl. apply closed_complete; assumption. Qed.

Theorem generating_complete : forall (G : grammar S) X, productive G X -> In X (generating G).
Proof. intros G. apply closed_complete, generating_closed. Qed.

Theorem generating_spec : forall (G : grammar S) X, In X (generating G) <-> productive G X.
Proof. intros G X; split; [apply generating_sound|apply generating_complete]. Qed.

(* ---------- 3. non-generating symbols have weight zero ---------- *)

Lemma Wb_zero (f : nat -> list nat -> S) (y : nat) :
  (forall ys, f y ys = 0) -> forall body, In (N y) body -> forall xs, Wb f body xs = 0.
Proof.
  intros Hf body. induction body as [|s rest IH]; intros Hin xs; [destruct Hin|].
  destruct s as [a|Y]; simpl.
  - destruct Hin as [Hin|Hin]; [discriminate|].
    destruct xs as [|b xs']; [reflexivity|]. destruct (Nat.eqb a b); [|reflexivity].
    apply IH; assumption.
  - apply bsum_zero. intros p _.
    destruct Hin as [Hin|Hin].
    + injection Hin as ->. rewrite Hf. ring.
    + rewrite (IH Hin). ring.
Qed.

Lemma Wb_ext (f g : nat -> list nat -> S) :
  (forall Y ys, f Y ys = g Y ys) -> forall body xs, Wb f body xs = Wb g body xs.
Proof.
  intros H body. induction body as [|s rest IH]; intros xs; [reflexivity|].
  destruct s as [a|Y]; simpl.
  - destruct xs as [|b xs']; [reflexivity|]. destruct (Nat.eqb a b); [apply IH|reflexivity].
  - apply bsum_ext. intros p _. rewrite H, IH. reflexivity.
Qed.

Lemma W_zero_of_closed (G : grammar S) (C : list nat) :
  closed G C -> forall h X xs, ~ In X C -> W G h X xs = 0.
Proof.
  intros Hcl h. induction h as [|h' IH]; intros X xs HX; [reflexivity|].
  simpl. apply bsum_zero. intros r Hr.
  destruct (Nat.eqb (rhead r) X) eqn:E; [|reflexivity].
  apply Nat.eqb_eq in E.
  destruct (forallb (gen_sym C) (rbody r)) eqn:Eb.
  - exfalso. apply HX. rewrite <- E. apply Hcl; assumption.
  - apply forallb_false_ex in Eb. destruct Eb as [s [Hs Fs]].
    destruct s as [a|y]; simpl in Fs; [discriminate|].
    apply mem_false in Fs.
    rewrite (Wb_zero (W G h') y (fun ys => IH y ys Fs) (rbody r) Hs xs). ring.
Qed.

Lemma W_zero_of_closed_complement (G : grammar S) : forall (C : list nat),
  (forall X, In X C -> productive G X) ->
  (forall r, In r G -> forallb (gen_sym C) (rbody r) = true -> In (rhead r) C) ->
  forall h X xs, ~ In X C -> W G h X xs = 0.
Proof. intros C _ Hcl. apply W_zero_of_closed. exact Hcl. Qed.

Theorem nongenerating_W_zero : forall (G : grammar S) X,
  ~ In X (generating G) -> forall h xs, W G h X xs = 0.
Proof.
  intros G X HX h xs. apply (W_zero_of_closed G (generating G) (generating_closed G)). assumption.
Qed.

Theorem nonproductive_W_zero : forall (G : grammar S) X,
  ~ productive G X -> forall h xs, W G h X xs = 0.
Proof.
  intros G X HX. apply nongenerating_W_zero. intros H. apply HX, generating_sound, H.
Qed.

(* ---------- 4. cotrim preserves every weight ---------- *)

Theorem cotrim_W : forall (G : grammar S) h X xs, W (cotrim G) h X xs = W G h X xs.
Proof.
  intros G h. induction h as [|h' IH]; intros X xs; [reflexivity|].
  simpl. unfold cotrim at 1. cbv zeta. rewrite bsum_filter.
  apply bsum_ext. intros r Hr.
  destruct (Nat.eqb (rhead r) X) eqn:E.
  2:{ destruct (_ && _); reflexivity. }
  destruct (forallb (gen_sym (generating G)) (rbody r)) eqn:Eb.
  - assert (Hh : In (rhead r) (generating G)) by (apply (generating_closed G); assumption).
    apply mem_spec in Hh. rewrite Hh. simpl.
    rewrite (Wb_ext (W (cotrim G) h') (W G h') IH). reflexivity.
  - rewrite andb_false_r.
    apply forallb_false_ex in Eb. destruct Eb as [s [Hs Fs]].
    destruct s as [a|y]; simpl in Fs; [discriminate|].
    apply mem_false in Fs.
    rewrite (Wb_zero (W G h') y (fun ys => nongenerating_W_zero G y Fs h' ys) (rbody r) Hs xs). ring.
Qed.

(* the rules kept by cotrim mention generating symbols only *)
Theorem cotrim_rules : forall (G : grammar S) r, In r (cotrim G) <->
  In r G /\ In (rhead r) (generating G) /\ (forall y, In (N y) (rbody r) -> In y (generating G)).
Proof.
  intros G r. unfold cotrim. cbv zeta. rewrite filter_In, andb_true_iff, mem_spec, gen_sym_all.
  reflexivity.
Qed.

(* ---------- 5. checkers ---------- *)

Theorem arity_le2_spec : forall (G : grammar S),
  arity_le2 G = true <-> (forall r, In r G -> length (rbody r) <= 2).
Proof.
  intros G. unfold arity_le2. rewrite forallb_forall. split; intros H r Hr.
  - apply Nat.leb_le. apply H; assumption.
  - apply Nat.leb_le. apply H; assumption.
Qed.

Theorem no_unary_spec : forall (G : grammar S),
  no_unary G = true <-> (forall r y, In r G -> rbody r <> [N y]).
Proof.
  intros G. unfold no_unary. rewrite forallb_forall. split.
  - intros H r y Hr E. specialize (H r Hr). rewrite E in H. discriminate.
  - intros H r Hr. specialize (fun y => H r y Hr).
    destruct (rbody r) as [|[a|x] [|s t]]; try reflexivity.
    exfalso. apply (H x). reflexivity.
Qed.

Theorem no_nullary_except_spec : forall s (G : grammar S),
  no_nullary_except s G = true <-> (forall r, In r G -> rbody r = [] -> rhead r = s).
Proof.
  intros s G. unfold no_nullary_except. rewrite forallb_forall. split.
  - intros H r Hr E. specialize (H r Hr). rewrite E in H. apply Nat.eqb_eq; assumption.
  - intros H r Hr. specialize (H r Hr).
    destruct (rbody r) as [|s0 t]; [|reflexivity]. apply Nat.eqb_eq. apply H; reflexivity.
Qed.

Theorem on_rhs_spec : forall s (G : grammar S),
  on_rhs s G = true <-> (exists r, In r G /\ In (N s) (rbody r)).
Proof.
  intros s G. unfold on_rhs. rewrite existsb_exists. split.
  - intros [r [Hr H]]. apply existsb_exists in H. destruct H as [y [Hy E]].
    apply trim_sym_eqb_eq in E. subst y. exists r; split; assumption.
  - intros [r [Hr H]]. exists r; split; [assumption|].
    apply existsb_exists. exists (N s); split; [assumption|]. apply trim_sym_eqb_eq; reflexivity.
Qed.

Theorem start_not_on_rhs_spec : forall s (G : grammar S),
  start_not_on_rhs s G = true <-> (forall r, In r G -> ~ In (N s) (rbody r)).
Proof.
  intros s G. unfold start_not_on_rhs. rewrite negb_true_iff. split.
  - intros H r Hr Hin.
    assert (E : on_rhs s G = true) by (apply on_rhs_spec; exists r; split; assumption).
    congruence.
  - intros H. destruct (on_rhs s G) eqn:E; [|reflexivity].
    apply on_rhs_spec in E. destruct E as [r [Hr Hin]]. exfalso. apply (H r Hr Hin).
Qed.

Theorem terminals_separated_spec : forall (G : grammar S),
  terminals_separated G = true <->
  (forall r, In r G -> (exists a, rbody r = [T a]) \/ (forall a, ~ In (T a) (rbody r))).
Proof.
  intros G. unfold terminals_separated. rewrite forallb_forall. split.
  - intros H r Hr. specialize (H r Hr).
    assert (Hgen : forallb (fun y => match y with T _ => false | N _ => true end) (rbody r) = true ->
                   forall a, ~ In (T a) (rbody r)).
    { intros Hf a Ha. rewrite forallb_forall in Hf. specialize (Hf (T a) Ha). discriminate. }
    destruct (rbody r) as [|[a|x] [|s t]]; try (right; apply Hgen; exact H).
    left. exists a. reflexivity.
  - intros H r Hr. destruct (H r Hr) as [[a E]|Hn].
    + rewrite E. reflexivity.
    + assert (Hf : forallb (fun y => match y with T _ => false | N _ => true end) (rbody r) = true).
      { apply forallb_forall. intros [a|x] Hy; [exfalso; apply (Hn a Hy)|reflexivity]. }
      destruct (rbody r) as [|[a|x] [|s t]]; try exact Hf. reflexivity.
Qed.

End TrimProofs.
Arguments productive {S} G _. Arguments prod_rule {S} G r _ _.
Arguments closed {S} G C. Arguments gstep {S} C r.

Print Assumptions generating_sound.
Print Assumptions generating_complete_if_closed.
Print Assumptions generating_closed.
Print Assumptions generating_complete.
Print Assumptions generating_spec.
Print Assumptions W_zero_of_closed_complement.
Print Assumptions nongenerating_W_zero.
Print Assumptions nonproductive_W_zero.
Print Assumptions cotrim_W.
Print Assumptions cotrim_rules.
Print Assumptions arity_le2_spec.
Print Assumptions no_unary_spec.
Print Assumptions no_nullary_except_spec.
Print Assumptions on_rhs_spec.
Print Assumptions start_not_on_rhs_spec.
Print Assumptions terminals_separated_spec.
