(* Commutative semirings with Leibniz equality, packaged so that [ring] works
   over an abstract instance inside a section ([Add Ring] on [sth S]).
   Instances: bool, N, Qc.  No axioms. *)
From Coq Require Import List Arith Bool NArith QArith Qcanon Lia Ring Ring_theory Field Field_theory.
Import ListNotations.

Record SR := mkSR {
  car :> Type;
  s0 : car; s1 : car;
  sadd : car -> car -> car;
  smul : car -> car -> car;
  sth : semi_ring_theory s0 s1 sadd smul (@eq car);
  seqb : car -> car -> bool;
  seqb_spec : forall a b, seqb a b = true <-> a = b
}.

Arguments s0 {_}. Arguments s1 {_}.
Arguments sadd {_} _ _. Arguments smul {_} _ _.
Arguments seqb {_} _ _.

Declare Scope sr_scope.
Delimit Scope sr_scope with sr.
Notation "x + y" := (sadd x y) : sr_scope.
Notation "x * y" := (smul x y) : sr_scope.
Notation "0" := s0 : sr_scope.
Notation "1" := s1 : sr_scope.

(* ---------- instances ---------- *)

Lemma bool_srt : semi_ring_theory false true orb andb (@eq bool).
Proof. constructor; intros; repeat match goal with b : bool |- _ => destruct b end; reflexivity. Qed.
Lemma bool_eqb_spec : forall a b : bool, Bool.eqb a b = true <-> a = b.
Proof. intros a b; split; [apply eqb_prop|intros ->; apply eqb_reflx]. Qed.
Definition BoolSR : SR := mkSR bool false true orb andb bool_srt Bool.eqb bool_eqb_spec.

Lemma N_srt : semi_ring_theory 0%N 1%N N.add N.mul (@eq N).
Proof. constructor; intros; lia. Qed.
Definition NSR : SR := mkSR N 0%N 1%N N.add N.mul N_srt N.eqb N.eqb_eq.

Lemma Qc_srt : semi_ring_theory 0%Qc 1%Qc Qcplus Qcmult (@eq Qc).
Proof. constructor; intros; ring. Qed.
Definition Qc_eqb (a b : Qc) : bool := if Qc_eq_dec a b then true else false.
Lemma Qc_eqb_spec : forall a b, Qc_eqb a b = true <-> a = b.
Proof. intros a b; unfold Qc_eqb; destruct (Qc_eq_dec a b); split; congruence. Qed.
Definition QcSR : SR := mkSR Qc 0%Qc 1%Qc Qcplus Qcmult Qc_srt Qc_eqb Qc_eqb_spec.

(* rational literal helper used by generated case files *)
Definition mkq (n : Z) (d : positive) : Qc := Q2Qc (n # d).

(* ---------- fields ---------- *)

Record FR := mkFR {
  fsr :> SR;
  fsub : fsr -> fsr -> fsr;
  fopp : fsr -> fsr;
  fdiv : fsr -> fsr -> fsr;
  finv : fsr -> fsr;
  fth : field_theory (@s0 fsr) (@s1 fsr) (@sadd fsr) (@smul fsr) fsub fopp fdiv finv (@eq fsr)
}.

Lemma Qc_ft : field_theory 0%Qc 1%Qc Qcplus Qcmult Qcminus Qcopp Qcdiv Qcinv (@eq Qc).
Proof. exact Qcft. Qed.
Definition QcFR : FR := mkFR QcSR Qcminus Qcopp Qcdiv Qcinv Qc_ft.

(* ---------- star semirings: star with a definedness predicate ---------- *)

Record StarSR := mkStarSR {
  ssr :> SR;
  sstar : ssr -> ssr;
  sdef : ssr -> Prop;
  star_unfold_l : forall x, sdef x -> sstar x = sadd s1 (smul x (sstar x));
  star_unfold_r : forall x, sdef x -> sstar x = sadd s1 (smul (sstar x) x)
}.

Definition Qc_star (x : Qc) : Qc := (1 / (1 - x))%Qc.
Lemma Qc_star_l : forall x : Qc, x <> 1%Qc -> Qc_star x = (1 + x * Qc_star x)%Qc.
Proof. intros x H; unfold Qc_star. field. intro E. apply H.
  assert (E' : (1 - x = 0)%Qc) by exact E.
  assert (Hx : x = (1 - (1 - x))%Qc) by ring. rewrite Hx, E'. ring. Qed.
Lemma Qc_star_r : forall x : Qc, x <> 1%Qc -> Qc_star x = (1 + Qc_star x * x)%Qc.
Proof. intros x H. rewrite (Qc_star_l x H) at 1. ring. Qed.
Definition QcStar : StarSR := mkStarSR QcSR Qc_star (fun x => x <> 1%Qc) Qc_star_l Qc_star_r.

Definition bool_star (x : bool) := true.
Lemma bool_star_l : forall x : bool, True -> bool_star x = orb true (andb x (bool_star x)).
Proof. reflexivity. Qed.
Lemma bool_star_r : forall x : bool, True -> bool_star x = orb true (andb (bool_star x) x).
Proof. reflexivity. Qed.
Definition BoolStar : StarSR := mkStarSR BoolSR bool_star (fun _ => True) bool_star_l bool_star_r.
