(* Vocabulary used by the code that tools/translate_semiring.py emits
   (Gen_Semiring.v).  Two dialects with the same names: RD over R (law proofs)
   and QD over Qc (exact differential execution against the Python classes).
   [ext] models a float score that may be -inf (np.inf with a minus sign);
   +inf and nan are not representable: operations that would produce them
   return NegInf and are outside every theorem's stated domain. *)
From Coq Require Import Reals QArith Qcanon Bool.

Inductive ext (K : Type) := NegInf | Fin (x : K).
Arguments NegInf {K}. Arguments Fin {K} x.

(* Entropy values carry a tag modelling object identity with the two class
   constants ([x is self.zero], [x is self.one]). *)
Inductive etag := TagZero | TagOne | TagFresh.
Definition is_zero_tag (t : etag) := match t with TagZero => true | _ => false end.
Definition is_one_tag (t : etag) := match t with TagOne => true | _ => false end.

Module RD.
  Local Open Scope R_scope.
  Definition K := R.
  Definition kmax (x y : R) : R := Rmax x y.
  Definition kgtb (x y : R) : bool := if Rlt_dec y x then true else false.
  Definition keqb (x y : R) : bool := if Req_EM_T x y then true else false.
  Definition kexp (x : R) : R := exp x.
  Definition klog (x : R) : R := ln x.
  Definition kposb (x : R) : bool := if Rlt_dec 0 x then true else false.
  (* ext *)
  Definition eadd (a b : ext R) : ext R := match a, b with Fin x, Fin y => Fin (x + y) | _, _ => NegInf end.
  Definition esub (a b : ext R) : ext R := match a, b with Fin x, Fin y => Fin (x - y) | _, _ => NegInf end.
  Definition eopp (a : ext R) : ext R := match a with Fin x => Fin (- x) | NegInf => NegInf end.
  Definition emax (a b : ext R) : ext R := match a, b with Fin x, Fin y => Fin (Rmax x y) | NegInf, y => y | x, NegInf => x end.
  Definition egtb (a b : ext R) : bool := match a, b with Fin x, Fin y => kgtb x y | Fin _, NegInf => true | NegInf, _ => false end.
  Definition eeqb (a b : ext R) : bool := match a, b with Fin x, Fin y => keqb x y | NegInf, NegInf => true | _, _ => false end.
  Definition eexp (a : ext R) : ext R := match a with Fin x => Fin (exp x) | NegInf => Fin 0 end.
  Definition elog (a : ext R) : ext R := match a with Fin x => if kposb x then Fin (ln x) else NegInf | NegInf => NegInf end.
  Definition elit (x : R) : ext R := Fin x.
End RD.

Module QD.
  Local Open Scope Qc_scope.
  Definition K := Qc.
  Definition kmax (x y : Qc) : Qc := if Qclt_le_dec x y then y else x.
  Definition kgtb (x y : Qc) : bool := if Qclt_le_dec y x then true else false.
  Definition keqb (x y : Qc) : bool := if Qc_eq_dec x y then true else false.
  Definition eadd (a b : ext Qc) : ext Qc := match a, b with Fin x, Fin y => Fin (x + y) | _, _ => NegInf end.
  Definition esub (a b : ext Qc) : ext Qc := match a, b with Fin x, Fin y => Fin (x - y) | _, _ => NegInf end.
  Definition eopp (a : ext Qc) : ext Qc := match a with Fin x => Fin (- x) | NegInf => NegInf end.
  Definition emax (a b : ext Qc) : ext Qc := match a, b with Fin x, Fin y => Fin (kmax x y) | NegInf, y => y | x, NegInf => x end.
  Definition egtb (a b : ext Qc) : bool := match a, b with Fin x, Fin y => kgtb x y | Fin _, NegInf => true | NegInf, _ => false end.
  Definition eeqb (a b : ext Qc) : bool := match a, b with Fin x, Fin y => keqb x y | NegInf, NegInf => true | _, _ => false end.
  Definition elit (x : Qc) : ext Qc := Fin x.
End QD.
