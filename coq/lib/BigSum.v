(* Finite sums and products over an abstract commutative semiring. *)
From Coq Require Import List Arith Bool Lia Ring Permutation.
From GV.lib Require Import Semiring.
Import ListNotations.
Local Open Scope sr_scope.

Section BigSum.
Variable S : SR.
Add Ring SRing : (sth S).

Fixpoint ssum (l : list S) : S := match l with [] => 0 | x :: t => x + ssum t end.
Fixpoint sprod (l : list S) : S := match l with [] => 1 | x :: t => x * sprod t end.

Definition bsum {A} (l : list A) (f : A -> S) : S := ssum (map f l).

Lemma ssum_app l1 l2 : ssum (l1 ++ l2) = ssum l1 + ssum l2.
Proof. induction l1 as [|x t IH]; simpl; [ring|rewrite IH; ring]. Qed.

Lemma sprod_app l1 l2 : sprod (l1 ++ l2) = sprod l1 * sprod l2.
Proof. induction l1 as [|x t IH]; simpl; [ring|rewrite IH; ring]. Qed.

Lemma ssum_perm l1 l2 : Permutation l1 l2 -> ssum l1 = ssum l2.
Proof. induction 1; simpl; try congruence; ring. Qed.

Lemma sprod_perm l1 l2 : Permutation l1 l2 -> sprod l1 = sprod l2.
Proof. induction 1; simpl; try congruence; ring. Qed.

Lemma bsum_nil {A} (f : A -> S) : bsum [] f = 0. Proof. reflexivity. Qed.
Lemma bsum_cons {A} (a : A) l (f : A -> S) : bsum (a :: l) f = f a + bsum l f. Proof. reflexivity. Qed.
Lemma bsum_app {A} (l1 l2 : list A) (f : A -> S) : bsum (l1 ++ l2) f = bsum l1 f + bsum l2 f.
Proof. unfold bsum; rewrite map_app; apply ssum_app. Qed.

Lemma bsum_ext {A} (l : list A) (f g : A -> S) : (forall a, In a l -> f a = g a) -> bsum l f = bsum l g.
Proof. unfold bsum; induction l as [|a t IH]; simpl; intros H; [reflexivity|].
  rewrite H by (left; reflexivity). rewrite IH; [reflexivity|]. intros; apply H; right; assumption. Qed.

Lemma bsum_zero {A} (l : list A) (f : A -> S) : (forall a, In a l -> f a = 0) -> bsum l f = 0.
Proof. unfold bsum; induction l as [|a t IH]; simpl; intros H; [reflexivity|].
  rewrite H by (left; reflexivity). rewrite IH; [ring|]. intros; apply H; right; assumption. Qed.

Lemma bsum_add {A} (l : list A) (f g : A -> S) : bsum l (fun a => f a + g a) = bsum l f + bsum l g.
Proof. unfold bsum; induction l as [|a t IH]; simpl; [ring|rewrite IH; ring]. Qed.

Lemma bsum_mul_l {A} (l : list A) (f : A -> S) c : bsum l (fun a => c * f a) = c * bsum l f.
Proof. unfold bsum; induction l as [|a t IH]; simpl; [ring|rewrite IH; ring]. Qed.

Lemma bsum_mul_r {A} (l : list A) (f : A -> S) c : bsum l (fun a => f a * c) = bsum l f * c.
Proof. unfold bsum; induction l as [|a t IH]; simpl; [ring|rewrite IH; ring]. Qed.

Lemma bsum_perm {A} (l1 l2 : list A) (f : A -> S) : Permutation l1 l2 -> bsum l1 f = bsum l2 f.
Proof. intros H; unfold bsum; apply ssum_perm, Permutation_map, H. Qed.

Lemma bsum_map {A B} (l : list A) (g : A -> B) (f : B -> S) : bsum (map g l) f = bsum l (fun a => f (g a)).
Proof. unfold bsum; rewrite map_map; reflexivity. Qed.

Lemma bsum_flat_map {A B} (l : list A) (g : A -> list B) (f : B -> S) :
  bsum (flat_map g l) f = bsum l (fun a => bsum (g a) f).
Proof. induction l as [|a t IH]; simpl; [reflexivity|]. rewrite bsum_app, bsum_cons, IH; reflexivity. Qed.

Lemma bsum_swap {A B} (la : list A) (lb : list B) (f : A -> B -> S) :
  bsum la (fun a => bsum lb (fun b => f a b)) = bsum lb (fun b => bsum la (fun a => f a b)).
Proof. induction la as [|a t IH]; simpl.
  - rewrite bsum_nil. symmetry; apply bsum_zero; reflexivity.
  - rewrite bsum_cons, IH. rewrite <- bsum_add. apply bsum_ext; intros; rewrite bsum_cons; reflexivity. Qed.

Lemma bsum_filter {A} (l : list A) (p : A -> bool) (f : A -> S) :
  bsum (filter p l) f = bsum l (fun a => if p a then f a else 0).
Proof. induction l as [|a t IH]; simpl; [reflexivity|]. rewrite bsum_cons.
  destruct (p a); [rewrite bsum_cons, IH; reflexivity|rewrite IH; ring]. Qed.

(* a sum with a single non-zero term *)
Lemma bsum_delta {A} (eqb : A -> A -> bool) (eqb_ok : forall a b, eqb a b = true <-> a = b)
      (l : list A) (x : A) (f : A -> S) :
  NoDup l -> bsum l (fun a => if eqb a x then f a else 0) = if existsb (fun a => eqb a x) l then f x else 0.
Proof. induction 1 as [|a t Hn Hd IH]; simpl; [reflexivity|]. rewrite bsum_cons, IH.
  destruct (eqb a x) eqn:E; simpl.
  - apply eqb_ok in E; subst a. destruct (existsb _ t) eqn:E2; [|ring].
    exfalso; apply Hn. apply existsb_exists in E2. destruct E2 as [y [Hy Ey]]. apply eqb_ok in Ey; subst; assumption.
  - ring. Qed.

Lemma bsum_const_zero {A} (l : list A) : bsum l (fun _ => 0) = (0 : S).
Proof. apply bsum_zero; reflexivity. Qed.

(* product of sums distributes *)
Lemma bsum_bsum_mul {A B} (la : list A) (lb : list B) (f : A -> S) (g : B -> S) :
  bsum la f * bsum lb g = bsum la (fun a => bsum lb (fun b => f a * g b)).
Proof. induction la as [|a t IH]; simpl.
  - rewrite !bsum_nil; ring.
  - rewrite !bsum_cons, <- IH, bsum_mul_l; ring. Qed.

End BigSum.

Arguments ssum {S} l.
Arguments sprod {S} l.
Arguments bsum {S A} l f.
