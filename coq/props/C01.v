(* Property C01: the next-token mask is exactly the set of viable continuations.
   Statements only; proofs in proofs/PrefixMachine.v, PrefixTrees.v, PrefixChart.v, NormProofs.v. *)
From Coq Require Import List Arith NArith.
From GV.lib Require Import Semiring BigSum.
From GV.model Require Import Cfg Agenda MachSpec Fst Prefix Norm.
From GV.gen Require Import Gen_Machines.
From GV.proofs Require Import CfgTrees PrefixMachine PrefixTrees PrefixChart NormProofs.
Import ListNotations.

(* the regenerated prefix transducer: each (string, prefix) pair exactly once *)
Theorem C01_prefix_transducer : forall (S : SR) (V : list nat) (s p : list nat) (fuel : nat),
  NoDup V -> (forall a, In a s -> In a V) -> length s <= fuel ->
  trel (prefix_transducer V) fuel s p = if is_prefix p s then @s1 S else @s0 S.
Proof. intros; apply prefix_transducer_spec; assumption. Qed.
Print Assumptions C01_prefix_transducer.

(* Boolean semiring: the reference mask bit of a context p ("prefix weight of p is true at some
   height") holds exactly when some derivation tree built from rules of weight true has a yield
   that begins with p, i.e. p can still be completed to a string of the grammar.  Grammars with
   empty rules, unary chains/cycles, left/right recursion and useless symbols are all covered;
   for a non-viable context every extension is non-viable too, so its mask is empty. *)
Theorem C01_mask_bit_is_viability : forall (G : grammar BoolSR) (X : nat) (p : list nat),
  (exists h, Wpre G h X p = true) <->
  (exists t, twf BoolSR G (N X) t /\ is_prefix p (tyield t) = true /\ tweight t = true).
Proof. intros; apply Wpre_bool_viable. Qed.
Print Assumptions C01_mask_bit_is_viability.

(* the executable tabulation evaluated by the correspondence run returns that bit *)
Theorem C01_executable_mask : forall (G : grammar BoolSR) (fuel X : nat) (xs : list nat) (v : bool),
  prefix_lang G fuel X xs = Some v -> exists H, forall h, H <= h -> Wpre G h X xs = v.
Proof. intros; eapply prefix_lang_stable; eassumption. Qed.
Print Assumptions C01_executable_mask.

(* EOS wrapping: in the wrapped grammar the complete strings are exactly xs ++ [eos] with xs a
   string of the grammar, so eos is a viable continuation of a context exactly when the context
   is a complete string. *)
Theorem C01_eos_iff_complete : forall (G : grammar BoolSR) (s' s eos : nat) (h : nat) (xs : list nat),
  (forall r, In r G -> rhead r <> s') -> (forall r, In r G -> ~ In (N s') (rbody r)) ->
  W (add_eos s' s eos G) (Datatypes.S h) s' (xs ++ [eos]) = W G h s xs.
Proof. intros; apply add_eos_W; assumption. Qed.
Print Assumptions C01_eos_iff_complete.

(* String level: a context is viable (its mask bit is set at some height) exactly when it is a prefix of a STRING of
   the grammar; viability is prefix-closed, so a context that is not viable has an empty mask: every extension by a
   token is non-viable at every height. *)
From GV.proofs Require MaskStringsProofs.
Theorem C01_viable_iff_completable : forall (G : grammar BoolSR) (X : nat) (p : list nat),
  ((exists h, Wpre G h X p = true) <-> (exists xs, is_prefix p xs = true /\ MaskStringsProofs.in_language G X xs)) /\
  (forall q, (exists h, Wpre G h X (p ++ q) = true) -> (exists h, Wpre G h X p = true)) /\
  ((forall h, Wpre G h X p = false) -> forall t h, Wpre G h X (p ++ [t]) = false) /\
  (forall xs, MaskStringsProofs.in_language G X xs <-> exists t, twf BoolSR G (N X) t /\ tyield t = xs /\ tweight t = true).
Proof.
  intros G X p.
  split; [exact (MaskStringsProofs.viable_iff_completable G X p)|].
  split; [intros q; exact (MaskStringsProofs.viable_prefix_closed G X p q)|].
  split; [exact (MaskStringsProofs.nonviable_mask_empty G X p)|intros xs; exact (MaskStringsProofs.language_iff_tree G X xs)].
Qed.
Print Assumptions C01_viable_iff_completable.

(* End to end, on the EOS-wrapped grammar the language model works with (s' fresh): after the context ctx a token t
   other than eos is offered (its mask bit is set at some height) exactly when ctx t can be completed to a string of the
   grammar; eos is offered exactly when ctx is a complete string of the grammar (eos not being a terminal of the
   grammar); and the strings of the wrapped grammar are the strings of the grammar followed by eos. *)
From GV.proofs Require MaskEosProofs.
Theorem C01_mask_end_to_end : forall (G : grammar BoolSR) (s' s eos : nat) (ctx : list nat),
  (forall r, In r G -> rhead r <> s') -> (forall r, In r G -> ~ In (N s') (rbody r)) ->
  (forall r, In r G -> ~ In (T eos) (rbody r)) ->
  (forall t, t <> eos ->
     ((exists h, Wpre (add_eos s' s eos G) h s' (ctx ++ [t]) = true) <->
      exists rest, MaskStringsProofs.in_language G s (ctx ++ t :: rest))) /\
  ((exists h, Wpre (add_eos s' s eos G) h s' (ctx ++ [eos]) = true) <-> MaskStringsProofs.in_language G s ctx) /\
  (forall ys, MaskStringsProofs.in_language (add_eos s' s eos G) s' ys <->
     exists xs, ys = xs ++ [eos] /\ MaskStringsProofs.in_language G s xs).
Proof.
  intros G s' s eos ctx Hh Hb He.
  split; [intros t Ht; exact (MaskEosProofs.mask_token_gen G s' s eos ctx t Hh Hb Ht)|].
  split; [exact (MaskEosProofs.mask_eos_syntactic G s' s eos ctx Hh Hb He)|].
  intros ys. exact (MaskEosProofs.eos_language G s' s eos ys Hh Hb).
Qed.
Print Assumptions C01_mask_end_to_end.
