(* Property C10: transducer composition counts every matching path pair exactly once.
   Statements only; proofs in proofs/FilterMachine.v about the filter regenerated from
   fst.epsilon_filter_fst.  The relational semantics [trel] (sum over accepting paths) and the model of
   the composition algorithm (model/FstCompose.v) are executed in the correspondence run. *)
From Coq Require Import List Arith NArith.
From GV.lib Require Import Semiring BigSum.
From GV.model Require Import Fst MachSpec.
From GV.gen Require Import Gen_Machines.
From GV.proofs Require Import FilterMachine.
Import ListNotations.

(* Between two matched symbols the first machine makes m moves that write epsilon and the second n moves
   that read epsilon.  Among ALL interleavings of these moves (joint move MD, second-only MA, first-only
   MB) the regenerated 3-state filter accepts exactly one, the canonical MD^min MB^(m-n) MA^(n-m), with
   weight one; every other interleaving with the same move counts has weight zero.  Hence a pair of
   matching paths is counted exactly once, whatever the numbers of epsilon moves. *)
Theorem C10_filter_unique : forall (S : SR) (e1 e2 : nat) (V : list nat) (a : nat) (m n : nat) (fuel : nat),
  NoDup V -> In a V -> e1 <> e2 -> ~ In e1 V -> ~ In e2 V -> m + n < fuel ->
  (trel (@epsilon_filter S e1 e2 V) fuel (enc_in e1 e2 (canonical m n) ++ [a]) (enc_out e1 e2 (canonical m n) ++ [a]) = s1) /\
  (forall w, left_moves w = m -> right_moves w = n -> w <> canonical m n ->
     trel (@epsilon_filter S e1 e2 V) fuel (enc_in e1 e2 w ++ [a]) (enc_out e1 e2 w ++ [a]) = s0).
Proof. intros; apply filter_unique; assumption. Qed.
Print Assumptions C10_filter_unique.

Theorem C10_filter_block_weight : forall (S : SR) (e1 e2 : nat) (V : list nat) (a : nat) (w : list move) (fuel : nat),
  NoDup V -> In a V -> e1 <> e2 -> ~ In e1 V -> ~ In e2 V -> length w < fuel ->
  trel (@epsilon_filter S e1 e2 V) fuel (enc_in e1 e2 w ++ [a]) (enc_out e1 e2 w ++ [a])
    = if list_eqb_move w (canonical (left_moves w) (right_moves w)) then s1 else s0.
Proof. intros; apply filter_block_weight; assumption. Qed.
Print Assumptions C10_filter_block_weight.

(* a matched real symbol is accepted from each of the three filter states *)
Theorem C10_filter_real_symbol : forall (S : SR) (e1 e2 : nat) (V : list nat) (a q fuel : nat),
  NoDup V -> In a V -> e1 <> e2 -> ~ In e1 V -> ~ In e2 V -> 1 <= fuel -> q <= 2 ->
  trelf (@epsilon_filter S e1 e2 V) fuel q [a] [a] = s1.
Proof. intros; apply filter_real_symbol; assumption. Qed.
Print Assumptions C10_filter_real_symbol.

Example C10_filter_nonvacuous :
  trel (@epsilon_filter NSR 7 8 [0; 1]) 9 (enc_in 7 8 (canonical 2 1) ++ [0]) (enc_out 7 8 (canonical 2 1) ++ [0]) = 1%N /\
  trel (@epsilon_filter NSR 7 8 [0; 1]) 9 (enc_in 7 8 [MB; MD] ++ [0]) (enc_out 7 8 [MB; MD] ++ [0]) = 0%N.
Proof. vm_compute. split; reflexivity. Qed.
Print Assumptions C10_filter_nonvacuous.

(* The product construction (FST._pruned_compose): when the first machine writes a symbol on every arc
   and the second reads a symbol on every arc -- which is what augmentation establishes -- the product
   relates x to z with weight  sum over the middle strings y of a(x, y) * b(y, z):  every pair of
   matching paths contributes exactly once (any commutative semiring). *)
From GV.proofs Require Import ProductProofs.
Theorem C10_product_is_relational_composition : forall (S : SR) (M : nat) (V : list nat) (a b : fst_t S) (fuel : nat) (xs zs : list nat),
  NoDup V ->
  (forall ar, In ar (tarcs a) -> exists y, tout ar = Some y /\ In y V) ->
  (forall ar, In ar (tarcs b) -> exists y, tin ar = Some y) ->
  (forall q, (In q (map fst (tinit b)) \/ In q (map fst (tfinal b)) \/ (exists ar, In ar (tarcs b) /\ (tsrc ar = q \/ tdst ar = q))) -> q < M) ->
  trel (compose_nf M a b) fuel xs zs = bsum (words_le V fuel) (fun ys => smul (trel a fuel xs ys) (trel b fuel ys zs)).
Proof. intros; apply compose_nf_relational; assumption. Qed.
Print Assumptions C10_product_is_relational_composition.

(* The other constructions of fst.py, against the same relational semantics (hand-written one-loop models of FST.T,
   FST.diag and FST.project in proofs/FstOpsProofs.v; the implementation's results are compared with the relational
   oracle in the correspondence run): transposition swaps the two tapes exactly; the diagonal of an epsilon-free
   acceptor relates a string to itself with the acceptor's weight and to nothing else; projecting onto a tape sums the
   relation over the other tape -- every path once (machines that read, resp. write, a symbol on every arc). *)
From GV.model Require Wfsa Cfg.
From GV.proofs Require FstOpsProofs.
Theorem C10_transpose : forall (S : SR) (m : fst_t S) (fuel : nat) (xs ys : list nat),
  trel (transpose m) fuel xs ys = trel m fuel ys xs /\ transpose (transpose m) = m.
Proof.
  intros S m fuel xs ys. split; [exact (FstOpsProofs.trel_transpose S m fuel xs ys)|exact (FstOpsProofs.transpose_involutive S m)].
Qed.
Print Assumptions C10_transpose.

Theorem C10_diag : forall (S : SR) (A : Wfsa.wfsa S), Wfsa.eps_free A -> forall (fuel : nat) (xs ys : list nat), length xs <= fuel ->
  trel (FstOpsProofs.diag A) fuel xs ys = if Cfg.list_eqb Nat.eqb xs ys then Wfsa.pathsum A xs else s0.
Proof. intros S A H fuel xs ys Hf. exact (FstOpsProofs.diag_relation S A H fuel xs ys Hf). Qed.
Print Assumptions C10_diag.

Theorem C10_projections : forall (S : SR) (V : list nat) (m : fst_t S), NoDup V ->
  ((forall ar, In ar (tarcs m) -> exists x, tin ar = Some x) -> (forall ar y, In ar (tarcs m) -> tout ar = Some y -> In y V) ->
     forall xs, Wfsa.pathsum (FstOpsProofs.project_in m) xs = bsum (ProductProofs.words_le V (length xs)) (fun ys => trel m (length xs) xs ys)) /\
  ((forall ar, In ar (tarcs m) -> exists y, tout ar = Some y) -> (forall ar x, In ar (tarcs m) -> tin ar = Some x -> In x V) ->
     forall ys, Wfsa.pathsum (FstOpsProofs.project_out m) ys = bsum (ProductProofs.words_le V (length ys)) (fun xs => trel m (length ys) xs ys)).
Proof.
  intros S V m HV. split.
  - intros H1 H2 xs. exact (FstOpsProofs.project_in_pathsum S V m HV H1 H2 xs).
  - intros H1 H2 ys. exact (FstOpsProofs.project_out_pathsum S V m HV H1 H2 ys).
Qed.
Print Assumptions C10_projections.

(* The constructions the three theorems above are about are the ones the code performs: the definitions regenerated
   from fst.py on every run (FST.T, FST.diag, FST.project) coincide with the models. *)
From GV.gen Require Gen_FstOps.
From GV.proofs Require GenFstOpsBridge.
Theorem C10_code_is_model : forall (S : SR) (m : fst_t S) (A : Wfsa.wfsa S),
  Gen_FstOps.gen_transpose S m = transpose m /\ Gen_FstOps.gen_diag S A = FstOpsProofs.diag A /\
  Gen_FstOps.gen_project S true m = FstOpsProofs.project_in m /\ Gen_FstOps.gen_project S false m = FstOpsProofs.project_out m.
Proof.
  intros S m A.
  exact (conj (GenFstOpsBridge.gen_transpose_model S m) (conj (GenFstOpsBridge.gen_diag_model S A)
        (conj (GenFstOpsBridge.gen_project_in_model S m) (GenFstOpsBridge.gen_project_out_model S m)))).
Qed.
Print Assumptions C10_code_is_model.

(* FST.from_string: its model (fst_of_string = the diagonal of the string automaton) relates x to x with weight one
   and nothing else -- the specification the run compares the implementation's from_string with. *)
From GV.model Require FstCompose.
From GV.proofs Require FstStringProofs.
Theorem C10_from_string : forall (S : SR) (x : list nat) (fuel : nat) (xs ys : list nat), length xs <= fuel ->
  trel (@FstCompose.fst_of_string S x) fuel xs ys = if andb (Cfg.list_eqb Nat.eqb xs ys) (Cfg.list_eqb Nat.eqb xs x) then s1 else s0.
Proof. intros S x fuel xs ys Hl. exact (FstStringProofs.fst_of_string_relation S x fuel xs ys Hl). Qed.
Print Assumptions C10_from_string.
