(* Property C03: prefix weight = total weight of all strings with that prefix.
   Statements only; proofs in proofs/PrefixMachine.v, PrefixTrees.v, PrefixChart.v. *)
From Coq Require Import List Arith NArith.
From GV.lib Require Import Semiring BigSum.
From GV.model Require Import Cfg Agenda MachSpec Fst Prefix.
From GV.gen Require Import Gen_Machines.
From GV.proofs Require Import CfgTrees PrefixMachine PrefixTrees PrefixChart.
Import ListNotations.

(* The prefix transducer regenerated from cfg.prefix_transducer relates a string s to p with total
   path weight one exactly when p is a prefix of s, and zero otherwise: every (string, prefix) pair
   has exactly one accepting path (any semiring, any alphabet, any strings over it). *)
Theorem C03_prefix_transducer : forall (S : SR) (V : list nat) (s p : list nat) (fuel : nat),
  NoDup V -> (forall a, In a s -> In a V) -> length s <= fuel ->
  trel (prefix_transducer V) fuel s p = if is_prefix p s then @s1 S else @s0 S.
Proof. intros; apply prefix_transducer_spec; assumption. Qed.
Print Assumptions C03_prefix_transducer.

(* Reference prefix weight: Wpre G h X p is the total weight of the derivation trees of height <= h
   rooted at X whose yield begins with p, each tree counted once; the empty prefix gives the total. *)
Theorem C03_prefix_weight_is_tree_sum : forall (S : SR) (G : grammar S) (h X : nat) (p : list nat),
  Wpre G h X p = bsum (filter (fun t => is_prefix p (tyield t)) (trees G h X)) tweight /\
  Wpre G h X [] = bu_iter G h X /\
  NoDup (trees G h X).
Proof. intros S G h X p. split; [apply Wpre_trees|split; [apply Wpre_nil|apply trees_NoDup]]. Qed.
Print Assumptions C03_prefix_weight_is_tree_sum.

(* the executable tabulation used by the correspondence run computes Wpre, and a value it returns
   is the prefix weight at every sufficiently large height *)
Theorem C03_executable_prefix_model : forall (S : SR) (G : grammar S) (xs : list nat),
  (forall n X i, i <= length xs -> pget (snd (fst (piter G xs n ([], [], [])))) (X, i) = Wpre G n X (sub xs i (length xs))) /\
  (forall fuel X v, prefix_lang G fuel X xs = Some v -> exists H, forall h, H <= h -> Wpre G h X xs = v).
Proof.
  intros S G xs. split.
  - intros n X i Hi. exact (proj1 (proj2 (piter_correct S G xs n)) X i Hi).
  - intros fuel X v H. eapply prefix_lang_stable; eassumption.
Qed.
Print Assumptions C03_executable_prefix_model.

Example C03_prefix_nonvacuous :
  trel (prefix_transducer (S:=NSR) [0; 1]) 3 [0; 1; 1] [0; 1] = 1%N /\
  trel (prefix_transducer (S:=NSR) [0; 1]) 3 [0; 1; 1] [1] = 0%N.
Proof. vm_compute. split; reflexivity. Qed.
Print Assumptions C03_prefix_nonvacuous.
