(* Property C03: prefix weight = total weight of all strings with that prefix.
   Statements only; proofs in proofs/PrefixMachine.v, PrefixTrees.v, PrefixChart.v. *)
From Coq Require Import List Arith NArith.
From GV.lib Require Import Semiring BigSum.
From GV.model Require Import Cfg Agenda MachSpec Fst Prefix.
From GV.gen Require Import Gen_Machines.
From GV.proofs Require Import CfgTrees PrefixMachine PrefixTrees PrefixChart.
Import ListNotations.

(* The prefix transducer regenerated from cfg.prefix_transducer relates a string s to p with total
   path weight one exactly when p is a prefix of s, and zero otherwise: every (string, prefix) pair
   has exactly one accepting path (any semiring, any alphabet, any strings over it). *)
Theorem C03_prefix_transducer : forall (S : SR) (V : list nat) (s p : list nat) (fuel : nat),
  NoDup V -> (forall a, In a s -> In a V) -> length s <= fuel ->
  trel (prefix_transducer V) fuel s p = if is_prefix p s then @s1 S else @s0 S.
Proof. intros; apply prefix_transducer_spec; assumption. Qed.
Print Assumptions C03_prefix_transducer.

(* Reference prefix weight: Wpre G h X p is the total weight of the derivation trees of height <= h
   rooted at X whose yield begins with p, each tree counted once; the empty prefix gives the total. *)
Theorem C03_prefix_weight_is_tree_sum : forall (S : SR) (G : grammar S) (h X : nat) (p : list nat),
  Wpre G h X p = bsum (filter (fun t => is_prefix p (tyield t)) (trees G h X)) tweight /\
  Wpre G h X [] = bu_iter G h X /\
  NoDup (trees G h X).
Proof. intros S G h X p. split; [apply Wpre_trees|split; [apply Wpre_nil|apply trees_NoDup]]. Qed.
Print Assumptions C03_prefix_weight_is_tree_sum.

(* the executable tabulation used by the correspondence run computes Wpre, and a value it returns
   is the prefix weight at every sufficiently large height *)
Theorem C03_executable_prefix_model : forall (S : SR) (G : grammar S) (xs : list nat),
  (forall n X i, i <= length xs -> pget (snd (fst (piter G xs n ([], [], [])))) (X, i) = Wpre G n X (sub xs i (length xs))) /\
  (forall fuel X v, prefix_lang G fuel X xs = Some v -> exists H, forall h, H <= h -> Wpre G h X xs = v).
Proof.
  intros S G xs. split.
  - intros n X i Hi. exact (proj1 (proj2 (piter_correct S G xs n)) X i Hi).
  - intros fuel X v H. eapply prefix_lang_stable; eassumption.
Qed.
Print Assumptions C03_executable_prefix_model.

Example C03_prefix_nonvacuous :
  trel (prefix_transducer (S:=NSR) [0; 1]) 3 [0; 1; 1] [0; 1] = 1%N /\
  trel (prefix_transducer (S:=NSR) [0; 1]) 3 [0; 1; 1] [1] = 0%N.
Proof. vm_compute. split; reflexivity. Qed.
Print Assumptions C03_prefix_nonvacuous.

(* CFG.derivative(a) (model/Deriv.v: all rules kept; for every rule and every body position k whose
   preceding symbols are nullable, a rule for the slash symbol, weighted by the null weights U of the
   skipped prefix).  If f solves G and U X = f X [], then the valuation that gives the slash symbol X/a
   the weight f X (a :: xs) solves the derivative grammar: its start symbol S/a gives xs exactly the
   weight G gives a :: xs.  Iterating: two derivatives give f s (a :: b :: xs).  Every semiring. *)
From GV.model Require Import Deriv.
From GV.proofs Require FoldProofs DerivProofs.
Theorem C03_derivative : forall (S : SR) (sl : nat -> nat) (a : nat) (G : grammar S) (f : nat -> list nat -> S) (U : nat -> S),
  (forall X Y, sl X = sl Y -> X = Y) ->
  (forall r X, In r G -> rhead r <> sl X) -> (forall r X, In r G -> ~ In (N (sl X)) (rbody r)) ->
  FoldProofs.solves S G f -> (forall X, U X = f X []) ->
  FoldProofs.solves S (derivative U sl a G) (deriv_val sl a G f) /\
  (forall s xs, deriv_val sl a G f (sl s) xs = f s (a :: xs)).
Proof.
  intros S sl a G f U Hinj Hh Hb Hf HU. split.
  - exact (DerivProofs.derivative_solves S sl a G f Hinj Hh Hb Hf U HU).
  - intros s xs. exact (DerivProofs.derivative_start S sl a G f Hinj Hh Hf s xs).
Qed.
Print Assumptions C03_derivative.

Theorem C03_derivative_twice : forall (S : SR) (sl sl2 : nat -> nat) (a b : nat) (G : grammar S)
    (f : nat -> list nat -> S) (U U2 : nat -> S),
  (forall X Y, sl X = sl Y -> X = Y) -> (forall X Y, sl2 X = sl2 Y -> X = Y) ->
  (forall r X, In r G -> rhead r <> sl X) -> (forall r X, In r G -> ~ In (N (sl X)) (rbody r)) ->
  (forall r X, In r G -> rhead r <> sl2 X) -> (forall r X, In r G -> ~ In (N (sl2 X)) (rbody r)) ->
  (forall X Y, sl2 X <> sl Y) ->
  FoldProofs.solves S G f -> (forall X, U X = f X []) -> (forall X, U2 X = deriv_val sl a G f X []) ->
  let D := derivative U sl a G in
  let f2 := deriv_val sl2 b D (deriv_val sl a G f) in
  FoldProofs.solves S (derivative U2 sl2 b D) f2 /\ (forall s xs, f2 (sl2 (sl s)) xs = f s (a :: b :: xs)).
Proof. intros; apply DerivProofs.derivative2_solves; assumption. Qed.
Print Assumptions C03_derivative_twice.

(* String level: the prefix weight of p is the sum of the weights of all STRINGS that begin with p, each string once
   (at every height; a grammar with bodies of at most K symbols yields strings of length at most K^h at height h), and
   prefix weights satisfy the prefix-sum identity  pre(p) = weight(p) + sum over the next token t of pre(p t)
   -- any commutative semiring (proofs/PrefixStringsProofs.v, PrefixSumProofs.v). *)
From GV.proofs Require ProductProofs PrefixStringsProofs PrefixSumProofs.
Theorem C03_prefix_weight_is_sum_of_strings : forall (S : SR) (G : grammar S) (V : list nat) (K : nat), NoDup V ->
  (forall r a, In r G -> In (T a) (rbody r) -> In a V) ->
  (forall r, In r G -> length (rbody r) <= K) ->
  forall h X p,
    Wpre G h X p = bsum (filter (is_prefix p) (ProductProofs.words_le V (Nat.pow K h))) (fun xs => W G h X xs) /\
    Wpre G h X p = sadd (W G h X p) (bsum V (fun t => Wpre G h X (p ++ [t]))).
Proof.
  intros S G V K HV Ht Hk h X p. split.
  - exact (PrefixStringsProofs.prefix_weight_is_sum_of_all_strings S G V K HV Ht Hk h X p).
  - exact (PrefixSumProofs.prefix_sum_identity S G V HV Ht h X p).
Qed.
Print Assumptions C03_prefix_weight_is_sum_of_strings.

Example C03_prefix_weight_is_sum_of_strings_nonvacuous :
  Wpre TotalStringsProofs.ex_G 3 0 [1]
  = bsum (filter (is_prefix [1]) (ProductProofs.words_le [0; 1] (Nat.pow 2 3))) (fun xs => W TotalStringsProofs.ex_G 3 0 xs) /\
  Wpre TotalStringsProofs.ex_G 3 0 [1] = 16%N.
Proof. split; [exact PrefixStringsProofs.prefix_strings_instance_thm|exact (proj1 PrefixStringsProofs.prefix_strings_instance)]. Qed.
Print Assumptions C03_prefix_weight_is_sum_of_strings_nonvacuous.
