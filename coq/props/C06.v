(* Property C06: normal-form transformations preserve the weighted language.
   Statements only.  Term-wise theorems (any commutative semiring, cyclic grammars included):
   bottom-up and top-down trimming, renaming, start separation; tree bijections for unfold,
   separate_terminals and binarize; equation-level theorems for nullary, unary and unary-cycle removal.
   cnf as a whole is decided by the correspondence run only: its outputs
   are read back and evaluated by the reference semantics, which C02_reference_is_tree_sum proves
   to be the derivation sum. *)
From Coq Require Import List Arith ZArith Permutation.
From GV.lib Require Import Semiring BigSum.
From GV.model Require Import Cfg Transform.
From GV.gen Require Import Gen_Cfg.
From GV.proofs Require Import CkyProofs TrimProofs GenCfgBridge UnfoldProofs.
Import ListNotations.

(* cotrim = trim(bottomup_only): dropping every rule that mentions a non-generating symbol
   changes the weight of no string from any nonterminal at any height; the dropped symbols
   have weight zero everywhere, and the computed set is exactly the productive symbols. *)
Theorem C06_cotrim_preserves : forall (S : SR) (G : grammar S),
  (forall h X xs, W (cotrim G) h X xs = W G h X xs) /\
  (forall X, ~ In X (generating G) -> forall h xs, W G h X xs = s0) /\
  (forall X, In X (generating G) <-> productive G X).
Proof.
  intros S G. split; [intros; apply cotrim_W|]. split; [intros; apply nongenerating_W_zero; assumption|].
  intros X; split; [apply generating_sound|apply generating_complete].
Qed.
Print Assumptions C06_cotrim_preserves.

Theorem C06_rename_preserves : forall (S : SR) (G : grammar S) (f : nat -> nat) h X xs,
  (forall p q, f p = f q -> p = q) -> W (rename_g f G) h (f X) xs = W G h X xs.
Proof. intros; apply W_rename; assumption. Qed.
Print Assumptions C06_rename_preserves.

Theorem C06_separate_start_preserves : forall (S : SR) (G : grammar S) (s' s : nat) h xs,
  (forall r, In r G -> rhead r <> s') -> (forall r, In r G -> ~ In (N s') (rbody r)) -> s' <> s ->
  W (snd (separate_start s' s G)) (Datatypes.S h) (fst (separate_start s' s G)) xs
    = if on_rhs s G then W G h s xs else W G (Datatypes.S h) s xs.
Proof. intros; apply separate_start_W; assumption. Qed.
Print Assumptions C06_separate_start_preserves.

Example C06_cotrim_nonvacuous :
  cotrim [((mkq 1%Z 2%positive : QcSR), 0, [N 1; T 0]); (mkq 1%Z 3%positive, 0, [T 1]); (mkq 1%Z 5%positive, 1, [N 1])]
    = [((mkq 1%Z 3%positive : QcSR), 0, [T 1])].
Proof. vm_compute. reflexivity. Qed.
Print Assumptions C06_cotrim_nonvacuous.

(* The transformations the theorems above are about are the ones the code performs: the definitions
   regenerated from cfg.py on every run (CFG.rename, CFG._trim with the set of generating symbols,
   CFG.separate_start) coincide with the models. *)
Theorem C06_code_is_model : forall (S : SR) (G : grammar S) (f : nat -> nat) (s' s : nat),
  gen_rename S f G = rename_g f G /\ gen_trim S (gen_sym (generating G)) G = cotrim G /\
  gen_separate_start S s' s G = separate_start s' s G.
Proof.
  intros S G f s' s.
  exact (conj (gen_rename_model S f G) (conj (gen_cotrim_model S G) (gen_separate_start_model S s' s G))).
Qed.
Print Assumptions C06_code_is_model.

(* ---------------------------------------------------------------------------------------------
   Tree-level and equation-level preservation theorems for the remaining transformations.
   "Solutions": f solves G when f X xs = sum over the rules X -> body of w * Wb f body xs for all X, xs
   (the grammar's equation system; the string-weight function is its least solution when it exists).
   "Trees": derivation trees carry the index of their rule, so duplicate rules give distinct trees.
   --------------------------------------------------------------------------------------------- *)
From GV.model Require Import Transform2.
From GV.proofs Require UnfoldTreeProofs SepTermProofs BinTreeProofs FoldProofs NullUnaryProofs.

(* CFG.unfold (regenerated): one step of the unfolded grammar's equations is one step of the original
   equations with the k-th body symbol of rule i expanded once more. *)
Theorem C06_unfold_one_step : forall (S : SR) (G : grammar S) (i k : nat) (s : rule S) (Y : nat)
    (f : nat -> list nat -> S) (X : nat) (xs : list nat),
  nth_error G i = Some s -> nth_error (rbody s) k = Some (N Y) ->
  gstep S (gen_unfold S i k G) f X xs
  = sadd (bsum (kept S i G) (term S f X xs))
         (if Nat.eqb (rhead s) X then smul (rw s) (Wb_at S f (gstep S G f) k (rbody s) xs) else s0).
Proof. intros S G i k s Y f X xs Hs Hk. exact (unfold_one_step S G i k s Y f X xs Hs Hk). Qed.
Print Assumptions C06_unfold_one_step.

Theorem C06_unfold_preserves_solutions : forall (S : SR) (G : grammar S) (i k : nat) (f : nat -> list nat -> S),
  (forall X xs, f X xs = gstep S G f X xs) ->
  forall X xs, gstep S (gen_unfold S i k G) f X xs = f X xs.
Proof. intros; apply unfold_preserves_solutions; assumption. Qed.
Print Assumptions C06_unfold_preserves_solutions.

(* CFG.unfold: the derivation trees of G and of unfold(i, k) are in one-to-one correspondence (phi, psi
   mutually inverse) preserving root, yield and weight; heights change by at most a factor two.  Hence
   every (finite or infinite) derivation sum is preserved term by term, over every commutative semiring,
   duplicate rules included. *)
Theorem C06_unfold_trees : forall (S : SR) (G : grammar S) (i k : nat) (s : rule S) (Y : nat),
  nth_error G i = Some s -> nth_error (rbody s) k = Some (N Y) ->
  let G' := gen_unfold S i k G in
  let phi := UnfoldTreeProofs.phi S G i k s Y in
  let psi := UnfoldTreeProofs.psi S G i k s Y in
  (forall X t, twf S G (N X) t ->
     twf S G' (N X) (phi t) /\ tyield (phi t) = tyield t /\ tweight (phi t) = tweight t /\
     theight (phi t) <= theight t /\ psi (phi t) = t) /\
  (forall X t', twf S G' (N X) t' ->
     twf S G (N X) (psi t') /\ tyield (psi t') = tyield t' /\ tweight (psi t') = tweight t' /\
     theight (psi t') <= 2 * theight t' /\ phi (psi t') = t').
Proof.
  intros S G i k s Y Hs Hk G' phi psi. split.
  - intros X t Ht. repeat split.
    + exact (UnfoldTreeProofs.phi_wf S G i k s Y Hs Hk X t Ht).
    + exact (UnfoldTreeProofs.phi_yield S G i k s Y Hs Hk X t Ht).
    + exact (UnfoldTreeProofs.phi_weight S G i k s Y Hs Hk X t Ht).
    + exact (proj1 (UnfoldTreeProofs.phi_height S G i k s Y Hs Hk X t Ht)).
    + exact (UnfoldTreeProofs.psi_phi S G i k s Y Hs Hk X t Ht).
  - intros X t' Ht. repeat split.
    + exact (UnfoldTreeProofs.psi_wf S G i k s Y Hs Hk X t' Ht).
    + exact (UnfoldTreeProofs.psi_yield S G i k s Y Hs Hk X t' Ht).
    + exact (UnfoldTreeProofs.psi_weight S G i k s Y Hs Hk X t' Ht).
    + exact (proj2 (UnfoldTreeProofs.psi_height S G i k s Y Hs Hk X t' Ht)).
    + exact (UnfoldTreeProofs.phi_psi S G i k s Y Hs Hk X t' Ht).
Qed.
Print Assumptions C06_unfold_trees.

(* ... and in terms of the reference semantics W: every height-bounded derivation sum of one grammar is
   the sum over a duplicate-free sub-list of the trees enumerated for the other grammar (at height h,
   resp. 2h) with the same yields and weights. *)
Theorem C06_unfold_sums : forall (S : SR) (G : grammar S) (i k : nat) (s : rule S) (Y : nat),
  nth_error G i = Some s -> nth_error (rbody s) k = Some (N Y) ->
  forall h X xs,
  (NoDup (map (UnfoldTreeProofs.phi S G i k s Y) (trees G h X)) /\
   incl (map (UnfoldTreeProofs.phi S G i k s Y) (trees G h X)) (trees (gen_unfold S i k G) h X) /\
   W G h X xs = bsum (filter (yields xs) (map (UnfoldTreeProofs.phi S G i k s Y) (trees G h X))) tweight) /\
  (NoDup (map (UnfoldTreeProofs.psi S G i k s Y) (trees (gen_unfold S i k G) h X)) /\
   incl (map (UnfoldTreeProofs.psi S G i k s Y) (trees (gen_unfold S i k G) h X)) (trees G (2 * h) X) /\
   W (gen_unfold S i k G) h X xs = bsum (filter (yields xs) (map (UnfoldTreeProofs.psi S G i k s Y) (trees (gen_unfold S i k G) h X))) tweight).
Proof.
  intros S G i k s Y Hs Hk h X xs. split.
  - exact (UnfoldTreeProofs.W_sub_sum S G i k s Y Hs Hk h X xs).
  - exact (UnfoldTreeProofs.W'_sub_sum S G i k s Y Hs Hk h X xs).
Qed.
Print Assumptions C06_unfold_sums.

(* CFG.separate_terminals (model with preterminal naming pt, injective and new to G): one-to-one
   correspondence of derivation trees preserving root, yield and weight; heights grow by at most one. *)
Theorem C06_separate_terminals_trees : forall (S : SR) (pt : nat -> nat) (G : grammar S),
  (forall a b, pt a = pt b -> a = b) ->
  (forall a r, In r G -> rhead r <> pt a /\ ~ In (N (pt a)) (rbody r)) ->
  let G' := separate_terminals pt G in
  let phi := SepTermProofs.phi S pt G in
  let psi := SepTermProofs.psi S G in
  (forall X t, twf S G (N X) t ->
     twf S G' (N X) (phi t) /\ tyield (phi t) = tyield t /\ tweight (phi t) = tweight t /\
     theight (phi t) <= Datatypes.S (theight t) /\ psi (phi t) = t) /\
  (forall X t', (forall a, X <> pt a) -> twf S G' (N X) t' ->
     twf S G (N X) (psi t') /\ tyield (psi t') = tyield t' /\ tweight (psi t') = tweight t' /\
     theight (psi t') <= theight t' /\ phi (psi t') = t').
Proof.
  intros S pt G Hinj Hfresh G' phi psi. split.
  - intros X t Ht. repeat split.
    + exact (SepTermProofs.phi_wf S pt G X t Ht).
    + exact (SepTermProofs.phi_yield S pt G X t Ht).
    + exact (SepTermProofs.phi_weight S pt G X t Ht).
    + exact (proj2 (SepTermProofs.phi_height S pt G X t Ht)).
    + exact (SepTermProofs.psi_phi S pt G X t Ht).
  - intros X t' HX Ht. repeat split.
    + exact (SepTermProofs.psi_wf S pt G Hinj Hfresh X t' HX Ht).
    + exact (SepTermProofs.psi_yield S pt G Hinj Hfresh X t' HX Ht).
    + exact (SepTermProofs.psi_weight S pt G Hinj Hfresh X t' HX Ht).
    + exact (SepTermProofs.psi_height S pt G Hinj Hfresh X t' HX Ht).
    + exact (SepTermProofs.phi_psi S pt G Hinj Hfresh X t' HX Ht).
Qed.
Print Assumptions C06_separate_terminals_trees.

(* CFG.binarize (model with a counter of fresh names, all names of G below it): one-to-one correspondence
   of derivation trees preserving root, yield and weight (the invented rules have weight one); heights
   grow by at most the factor 1 + (longest body - 2). *)
Theorem C06_binarize_trees : forall (S : SR) (fresh : nat) (G : grammar S),
  (forall r, In r G -> rhead r < fresh) ->
  (forall r Y, In r G -> In (N Y) (rbody r) -> Y < fresh) ->
  let G' := binarize fresh G in
  let phi := BinTreeProofs.phi S fresh G in
  let psi := BinTreeProofs.psi S fresh G in
  (forall X t, twf S G (N X) t ->
     twf S G' (N X) (phi t) /\ tyield (phi t) = tyield t /\ tweight (phi t) = tweight t /\
     theight (phi t) <= BinTreeProofs.hb S G (theight t) /\ psi (phi t) = t) /\
  (forall X t', X < fresh -> twf S G' (N X) t' ->
     twf S G (N X) (psi t') /\ tyield (psi t') = tyield t' /\ tweight (psi t') = tweight t' /\
     theight (psi t') <= theight t' /\ phi (psi t') = t').
Proof.
  intros S fresh G Hh Hb G' phi psi. split.
  - intros X t Ht. repeat split.
    + exact (BinTreeProofs.phi_wf S fresh G Hh X t Ht).
    + exact (BinTreeProofs.phi_yield S fresh G Hh X t Ht).
    + exact (BinTreeProofs.phi_weight S fresh G Hh X t Ht).
    + exact (proj2 (BinTreeProofs.phi_height S fresh G Hh X t Ht)).
    + exact (BinTreeProofs.psi_phi S fresh G Hh X t Ht).
  - intros X t' HX Ht. repeat split.
    + exact (BinTreeProofs.psi_wf S fresh G Hh Hb X t' HX Ht).
    + exact (BinTreeProofs.psi_yield S fresh G Hh Hb X t' HX Ht).
    + exact (BinTreeProofs.psi_weight S fresh G Hh Hb X t' HX Ht).
    + exact (BinTreeProofs.psi_height S fresh G Hh Hb X t' HX Ht).
    + exact (BinTreeProofs.phi_psi S fresh G Hh Hb X t' HX Ht).
Qed.
Print Assumptions C06_binarize_trees.

(* Equation level: solutions of G extend to solutions of the transformed grammar (agreeing on the old
   nonterminals), and solutions of the transformed grammar restrict to solutions of G. *)
Theorem C06_binarize_solutions : forall (S : SR) (fresh : nat) (G : grammar S),
  (forall r, In r G -> rhead r < fresh) ->
  (forall r Y, In r G -> In (N Y) (rbody r) -> Y < fresh) ->
  (forall f, FoldProofs.solves S G f ->
     FoldProofs.solves S (binarize fresh G) (FoldProofs.binarize_ext S fresh G f) /\
     (forall Z xs, Z < fresh -> FoldProofs.binarize_ext S fresh G f Z xs = f Z xs)) /\
  (forall f', FoldProofs.solves S (binarize fresh G) f' ->
     forall Z xs, Z < fresh -> f' Z xs = gstep S G f' Z xs).
Proof.
  intros S fresh G Hh Hb. split.
  - intros f Hf. exact (FoldProofs.binarize_extend S fresh G f Hh Hb Hf).
  - intros f' Hf'. exact (FoldProofs.binarize_restrict S fresh G f' Hh Hf').
Qed.
Print Assumptions C06_binarize_solutions.

Theorem C06_separate_terminals_solutions : forall (S : SR) (pt : nat -> nat) (G : grammar S),
  (forall p q, pt p = pt q -> p = q) ->
  (forall r a, In r G -> In a (terminals_of G) -> rhead r <> pt a) ->
  (forall r a, In r G -> In a (terminals_of G) -> ~ In (N (pt a)) (rbody r)) ->
  (forall f, FoldProofs.solves S G f ->
     FoldProofs.solves S (separate_terminals pt G) (FoldProofs.sep_ext S pt G f) /\
     (forall Z ys, (forall a, In a (terminals_of G) -> Z <> pt a) -> FoldProofs.sep_ext S pt G f Z ys = f Z ys)) /\
  (forall f', FoldProofs.solves S (separate_terminals pt G) f' ->
     forall Z xs, (forall a, In a (terminals_of G) -> Z <> pt a) -> f' Z xs = gstep S G f' Z xs).
Proof.
  intros S pt G Hinj Hh Hb. split.
  - intros f Hf. destruct (FoldProofs.separate_terminals_extend S pt G f Hinj Hh Hb Hf) as (H1 & _ & H3).
    split; assumption.
  - intros f' Hf'. exact (proj2 (FoldProofs.separate_terminals_restrict S pt G f' Hinj Hh Hf')).
Qed.
Print Assumptions C06_separate_terminals_solutions.

(* CFG._push_null_weights (removal of empty rules; nullw = weights of the empty string, nn = the NotNull
   naming, s = the start symbol, which occurs in no body): from a solution f of G with f X [] = nullw X
   one obtains a solution of the null-free grammar which gives the start symbol its old weights and
   gives NotNull(X) the weight of X on every non-empty string (and zero on the empty string). *)
Theorem C06_nullaryremove_solutions : forall (S : SR) (nullw : nat -> S) (nn : nat -> nat) (s : nat) (G : grammar S)
    (f : nat -> list nat -> S),
  (forall p q, nn p = nn q -> p = q) -> (forall X, s <> nn X) ->
  (forall r X, In r G -> rhead r <> nn X) -> (forall r X, In r G -> ~ In (N (nn X)) (rbody r)) ->
  (forall r, In r G -> ~ In (N s) (rbody r)) ->
  FoldProofs.solves S G f -> (forall X, f X [] = nullw X) ->
  FoldProofs.solves S (push_null_weights nullw nn s G) (NullUnaryProofs.pn_ext S nullw nn s G f) /\
  (forall xs, NullUnaryProofs.pn_ext S nullw nn s G f s xs = f s xs) /\
  (forall X xs, nullw X <> s0 -> X <> s ->
     NullUnaryProofs.pn_ext S nullw nn s G f (nn X) xs = match xs with [] => s0 | _ => f X xs end) /\
  (forall Z xs, Z <> s -> (forall X, Z <> nn X) -> nullw Z = s0 -> NullUnaryProofs.pn_ext S nullw nn s G f Z xs = f Z xs).
Proof. intros; apply NullUnaryProofs.push_null_extend; assumption. Qed.
Print Assumptions C06_nullaryremove_solutions.

(* CFG.unaryremove with a closure table K = I + U K of the unary-rule graph U (what Lehmann's elimination
   is proved to return, C15): every solution of the unary-free grammar solves G, and one step of the
   unary-free grammar satisfies the unary-expanded equation. *)
Theorem C06_unaryremove_solutions : forall (S : SR) (G : grammar S) (nts : list nat) (K : nat -> nat -> S),
  NoDup nts -> (forall r, In r G -> In (rhead r) nts) ->
  (forall r Z, In r G -> rbody r = [N Z] -> In Z nts) ->
  (forall Y X, In Y nts -> In X nts ->
     K Y X = sadd (if Nat.eqb Y X then s1 else s0) (bsum nts (fun Z => smul (NullUnaryProofs.Umat S G Y Z) (K Z X)))) ->
  (forall f', FoldProofs.solves S (unaryremove K nts G) f' -> FoldProofs.solves S G f') /\
  (forall f Y xs, In Y nts ->
     gstep S (unaryremove K nts G) f Y xs =
     sadd (NullUnaryProofs.NUpart S G f Y xs) (bsum nts (fun Z => smul (NullUnaryProofs.Umat S G Y Z) (gstep S (unaryremove K nts G) f Z xs)))).
Proof.
  intros S G nts K Hnd Hh Hu HK. split.
  - intros f' Hf'. exact (NullUnaryProofs.unaryremove_restrict S G nts K f' Hnd Hh Hu HK Hf').
  - intros f Y xs HY. apply NullUnaryProofs.unaryremove_expanded; try assumption.
    intros r Hr _. apply Hh; exact Hr.
Qed.
Print Assumptions C06_unaryremove_solutions.

(* Top-down trimming (CFG.trim): the regenerated CFG._trim applied to ANY set of symbols that is closed under the
   rules that can contribute (a kept head's rule has its whole body kept, or mentions a non-generating symbol)
   preserves every derivation sum of every kept nonterminal at every height, over any commutative semiring; the
   surviving rules are the kept ones in their original order.  The set the model of CFG.trim computes (reached from
   the start symbol through rules with generating bodies; model/TopDown.v, compared rule list by rule list with the
   implementation in C07's run) is such a set and is exactly that reachability relation; hence trimming preserves
   the weight of every string from the start symbol, also when the start symbol is non-generating (empty result). *)
From GV.model Require TopDown.
From GV.proofs Require TopDownTrimProofs ReachProofs.
Theorem C06_topdown_trim_preserves : forall (S : SR) (G : grammar S) (keep : sym -> bool),
  TopDownTrimProofs.td_closed G keep ->
  (forall h X xs, keep (N X) = true -> W (gen_trim S keep G) h X xs = W G h X xs) /\
  gen_trim S keep G = filter (fun r => andb (keep (N (rhead r))) (forallb keep (rbody r))) G.
Proof.
  intros S G keep H. split.
  - intros h X xs HX. exact (TopDownTrimProofs.topdown_trim_W S G keep H h X xs HX).
  - exact (TopDownTrimProofs.topdown_trim_is_filter S G keep).
Qed.
Print Assumptions C06_topdown_trim_preserves.

Theorem C06_trim_preserves : forall (S : SR) (G : grammar S) (s : nat),
  (forall h xs, W (TopDown.trim_model s G) h s xs = W G h s xs) /\
  (forall X h xs, In X (TopDown.reachable G s) -> W (TopDown.trim_model s G) h X xs = W G h X xs) /\
  TopDownTrimProofs.td_closed G (TopDown.keep_nts (TopDown.reachable G s)) /\
  (forall X, In X (TopDown.reachable G s) -> ReachProofs.reach_rel G s X) /\
  (In s (generating G) -> forall X, ReachProofs.reach_rel G s X -> In X (TopDown.reachable G s)) /\
  (forall X, In X (TopDown.reachable G s) -> In X (generating G)).
Proof.
  intros S G s.
  split; [intros h xs; exact (ReachProofs.trim_model_W S G s h xs)|].
  split; [intros X h xs HX; exact (ReachProofs.trim_model_W_reached S G s X h xs HX)|].
  split; [exact (ReachProofs.reachable_td_closed S G s)|].
  split; [intros X HX; exact (ReachProofs.reachable_sound S G s X HX)|].
  split; [intros Hs X HX; exact (ReachProofs.reachable_complete S G s X Hs HX)|].
  intros X HX; exact (ReachProofs.reachable_generating S G s X HX).
Qed.
Print Assumptions C06_trim_preserves.

(* unarycycleremove (equation level; model proofs/UnaryCycleProofs.v of the construction: every nonterminal X on a
   unary cycle keeps only the rules X -> bot(X2), weight K[X, X2], for the X2 of its strongly connected component of
   the unary graph, and its other rules -- all but the unary rules inside the component -- move to the fresh copy
   bot(X); K is the closure table of the component's unary weights, K = I + U K, which is what C15 proves Lehmann's
   elimination returns): every solution of the transformed grammar solves the original grammar on the original
   nonterminals, and a cyclic nonterminal only has rules into bot copies (no unary cycle is left through it). *)
From GV.proofs Require UnaryCycleProofs.
Theorem C06_unarycycleremove_solutions : forall (S : SR) (scc : nat -> nat) (cyc : nat -> bool) (bot : nat -> nat)
    (K : nat -> nat -> S) (nts : list nat) (G : grammar S),
  NoDup nts ->
  (forall r, In r G -> In (rhead r) nts) ->
  (forall r Y, In r G -> In (N Y) (rbody r) -> In Y nts) ->
  (forall X Y, bot X = bot Y -> X = Y) ->
  (forall X, ~ In (bot X) nts) ->
  (forall r, In r G -> UnaryCycleProofs.intra S scc r = true ->
     cyc (rhead r) = true /\ (forall Y, rbody r = [N Y] -> cyc Y = true)) ->
  (forall X X2, In X nts -> In X2 nts -> cyc X = true -> cyc X2 = true -> scc X2 = scc X ->
     K X X2 = sadd (if Nat.eqb X X2 then s1 else s0)
                   (bsum nts (fun Y => if andb (cyc Y) (Nat.eqb (scc Y) (scc X))
                                       then smul (UnaryCycleProofs.Uin S scc G X Y) (K Y X2) else s0))) ->
  (forall f', FoldProofs.solves S (UnaryCycleProofs.ucr S scc cyc bot K nts G) f' ->
     forall X xs, In X nts -> f' X xs = gstep S G f' X xs) /\
  (forall r, In r (UnaryCycleProofs.ucr S scc cyc bot K nts G) -> In (rhead r) nts -> cyc (rhead r) = true ->
     exists X2, rbody r = [N (bot X2)]).
Proof.
  intros S scc cyc bot K nts G Hnd Hh Hb Hinj Hfresh Hintra HK. split.
  - intros f' Hf' X xs HX.
    exact (UnaryCycleProofs.ucr_restrict S scc cyc bot K nts G Hnd Hh Hb Hinj Hfresh Hintra HK f' Hf' X xs HX).
  - intros r Hr Hhd Hc.
    exact (UnaryCycleProofs.ucr_no_intra_cycle_rules S scc cyc bot K nts G Hfresh r Hr Hhd Hc).
Qed.
Print Assumptions C06_unarycycleremove_solutions.
