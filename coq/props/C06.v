(* Property C06: normal-form transformations preserve the weighted language.
   Statements only.  Term-wise theorems (any commutative semiring, cyclic grammars included):
   bottom-up trimming, renaming, start separation.  The remaining transformations
   (binarize, separate_terminals, nullaryremove, unaryremove, unarycycleremove, cnf, unfold,
   top-down trimming) are decided by the correspondence run only: their outputs are read back and
   evaluated by the reference semantics, which C02_reference_is_tree_sum proves to be the
   derivation sum. *)
From Coq Require Import List Arith ZArith Permutation.
From GV.lib Require Import Semiring BigSum.
From GV.model Require Import Cfg Transform.
From GV.gen Require Import Gen_Cfg.
From GV.proofs Require Import CkyProofs TrimProofs GenCfgBridge.
Import ListNotations.

(* cotrim = trim(bottomup_only): dropping every rule that mentions a non-generating symbol
   changes the weight of no string from any nonterminal at any height; the dropped symbols
   have weight zero everywhere, and the computed set is exactly the productive symbols. *)
Theorem C06_cotrim_preserves : forall (S : SR) (G : grammar S),
  (forall h X xs, W (cotrim G) h X xs = W G h X xs) /\
  (forall X, ~ In X (generating G) -> forall h xs, W G h X xs = s0) /\
  (forall X, In X (generating G) <-> productive G X).
Proof.
  intros S G. split; [intros; apply cotrim_W|]. split; [intros; apply nongenerating_W_zero; assumption|].
  intros X; split; [apply generating_sound|apply generating_complete].
Qed.
Print Assumptions C06_cotrim_preserves.

Theorem C06_rename_preserves : forall (S : SR) (G : grammar S) (f : nat -> nat) h X xs,
  (forall p q, f p = f q -> p = q) -> W (rename_g f G) h (f X) xs = W G h X xs.
Proof. intros; apply W_rename; assumption. Qed.
Print Assumptions C06_rename_preserves.

Theorem C06_separate_start_preserves : forall (S : SR) (G : grammar S) (s' s : nat) h xs,
  (forall r, In r G -> rhead r <> s') -> (forall r, In r G -> ~ In (N s') (rbody r)) -> s' <> s ->
  W (snd (separate_start s' s G)) (Datatypes.S h) (fst (separate_start s' s G)) xs
    = if on_rhs s G then W G h s xs else W G (Datatypes.S h) s xs.
Proof. intros; apply separate_start_W; assumption. Qed.
Print Assumptions C06_separate_start_preserves.

Example C06_cotrim_nonvacuous :
  cotrim [((mkq 1%Z 2%positive : QcSR), 0, [N 1; T 0]); (mkq 1%Z 3%positive, 0, [T 1]); (mkq 1%Z 5%positive, 1, [N 1])]
    = [((mkq 1%Z 3%positive : QcSR), 0, [T 1])].
Proof. vm_compute. reflexivity. Qed.
Print Assumptions C06_cotrim_nonvacuous.

(* The transformations the theorems above are about are the ones the code performs: the definitions
   regenerated from cfg.py on every run (CFG.rename, CFG._trim with the set of generating symbols,
   CFG.separate_start) coincide with the models. *)
Theorem C06_code_is_model : forall (S : SR) (G : grammar S) (f : nat -> nat) (s' s : nat),
  gen_rename S f G = rename_g f G /\ gen_trim S (gen_sym (generating G)) G = cotrim G /\
  gen_separate_start S s' s G = separate_start s' s G.
Proof.
  intros S G f s' s.
  exact (conj (gen_rename_model S f G) (conj (gen_cotrim_model S G) (gen_separate_start_model S s' s G))).
Qed.
Print Assumptions C06_code_is_model.
