(* Property C08: total weights are the least solution of the grammar equations.
   Statements only; proofs in proofs/AgendaProofs.v, Agenda2Proofs.v, PrefixChart.v. *)
From Coq Require Import List Arith.
From GV.lib Require Import Semiring BigSum.
From GV.model Require Import Cfg Agenda Agenda2 Prefix Expect.
From GV.gen Require Import Gen_Exprs.
From GV.proofs Require Import CfgTrees AgendaProofs Agenda2Proofs PrefixChart ExpectProofs.
Import ListNotations.

(* Kleene iteration from zero (naive_bottom_up / _bottom_up_step) is the tree sum: after h steps
   the value of X is the total weight of ALL derivation trees of X of height <= h
   (any commutative semiring), and that enumeration is complete and duplicate-free. *)
Theorem C08_iterate_is_height_sum : forall (S : SR) (G : grammar S) (h X : nat),
  bu_iter G h X = bsum (trees G h X) tweight /\
  (forall t, In t (trees G h X) <-> (twf S G (N X) t /\ theight t <= h)) /\ NoDup (trees G h X).
Proof.
  intros S G h X. split; [apply bu_iter_trees|]. split; [|apply trees_NoDup].
  intros t; split; [apply trees_sound|intros [Hw Hh]; apply trees_complete; assumption].
Qed.
Print Assumptions C08_iterate_is_height_sum.

(* The executable tabulation used by the correspondence run computes exactly these iterates. *)
Theorem C08_executable_totals : forall (S : SR) (G : grammar S) (n X : nat),
  tget (snd (piter G [] n ([], [], []))) X = bu_iter G n X.
Proof. intros S G n X. exact (proj2 (proj2 (piter_correct S G [] n)) X). Qed.
Print Assumptions C08_executable_totals.

(* One agenda pop pushes exactly the change of every rule's contribution (regenerated factor
   selection agenda_sel and agenda_new): semi-naive evaluation loses and duplicates nothing. *)
Theorem C08_seminaive_identity : forall (S : SR) (old : sym -> S) (u : sym) (v : S) (body : list sym),
  let new := agenda_new S (old u) v in
  sprod (map (upd old u new) body)
    = sadd (sprod (map old body)) (bsum (occ u body) (fun k => factor (agenda_sel S) old u new v body k)).
Proof. intros S old u v body. exact (seminaive_identity S old u v body). Qed.
Print Assumptions C08_seminaive_identity.

(* Agenda invariant for EVERY pop order: in every reachable state, for every nonterminal,
   old + pending = sum over its rules of weight * product of old over the body; hence when
   nothing is pending, old solves the grammar equations (terminals have value one). *)
Theorem C08_agenda_invariant : forall (S : SR) (G : grammar S) (terminals : list nat) (st : astate S),
  NoDup terminals -> areach (agenda_sel S) (agenda_new S) G terminals st -> ainv G terminals st.
Proof. intros; apply ainv_reachable; assumption. Qed.
Print Assumptions C08_agenda_invariant.

Theorem C08_agenda_fixpoint : forall (S : SR) (G : grammar S) (terminals : list nat) old ch,
  NoDup terminals -> areach (agenda_sel S) (agenda_new S) G terminals (old, ch) -> (forall x, pend ch x = s0) ->
  (forall a, old (T a) = if existsb (Nat.eqb a) terminals then s1 else s0) /\
  (forall X, old (N X) = rhs_val G old X).
Proof. intros; eapply agenda_fixpoint; eassumption. Qed.
Print Assumptions C08_agenda_fixpoint.

(* The expectation semiring <p, r> (Expectation in semiring.py) is a commutative semiring over any
   commutative semiring, so every theorem above applies to it; and under the lifting used by
   CFG.expected_length (rule weight w becomes <w, w * number of terminals in the body>) every derivation
   tree t gets the weight <weight(t), weight(t) * |yield(t)|>: the second component of the total weight
   is the weight-weighted total string length. *)
Theorem C08_expectation_semiring : forall (S : SR),
  Ring_theory.semi_ring_theory (@e0 S) (@e1 S) (@eadd S) (@emul S) (@eq (S * S)).
Proof. exact exp_srt. Qed.
Print Assumptions C08_expectation_semiring.

Theorem C08_expectation_tree : forall (S : SR) (G : grammar S) (t : tree S) (X : nat), twf S G (N X) t ->
  tweight (tlift S t) = (tweight t, smul (tweight t) (nat_s (length (tyield t)))).
Proof. intros S G t X H. exact (expectation_tree_weight S G t X H). Qed.
Print Assumptions C08_expectation_tree.

(* The start symbol's value is the sum of the string weights over the whole language, at every height: the h-th
   Kleene iterate of X equals the sum, over ALL strings (a grammar with bodies of at most K symbols yields strings of
   length at most K^h at height h), of the height-h derivation sum of the string -- every derivation tree is counted
   under exactly one string (any commutative semiring; proofs/TotalStringsProofs.v). *)
From GV.proofs Require ProductProofs TotalStringsProofs.
Theorem C08_total_is_sum_of_strings : forall (S : SR) (G : grammar S) (V : list nat) (K : nat), NoDup V ->
  (forall r a, In r G -> In (T a) (rbody r) -> In a V) ->
  (forall r, In r G -> length (rbody r) <= K) ->
  forall h X, bu_iter G h X = bsum (ProductProofs.words_le V (Nat.pow K h)) (fun xs => W G h X xs).
Proof. intros S G V K HV Ht Hk h X. exact (TotalStringsProofs.total_is_sum_of_all_strings S G V K HV Ht Hk h X). Qed.
Print Assumptions C08_total_is_sum_of_strings.

Example C08_total_is_sum_of_strings_nonvacuous :
  bu_iter TotalStringsProofs.ex_G 3 0 = bsum (ProductProofs.words_le [0; 1] (Nat.pow 2 3)) (fun xs => W TotalStringsProofs.ex_G 3 0 xs).
Proof. exact TotalStringsProofs.total_strings_instance_thm. Qed.
Print Assumptions C08_total_is_sum_of_strings_nonvacuous.

(* Expectation semiring, Kleene-iterate level: the naive evaluation of the grammar lifted to pairs <p, r> (every rule
   <w, w * #terminals of its body>) yields, at every height, the pair <total weight, weight-weighted total yield length>
   of the original grammar -- as a sum over derivation trees and as a sum over all strings of  weight(x) * |x|. *)
From GV.proofs Require ExpectTotalProofs.
Theorem C08_expectation_iterate : forall (S : SR) (G : grammar S) (h X : nat),
  bu_iter (ExpectTotalProofs.glift S G) h X
  = (bu_iter G h X, bsum (trees G h X) (fun t => smul (tweight t) (nat_s (length (tyield t))))) /\
  (forall (V : list nat) (L : nat), NoDup V -> TotalStringsProofs.yields_within S G h X V L ->
     bu_iter (ExpectTotalProofs.glift S G) h X
     = (bsum (ProductProofs.words_le V L) (fun xs => W G h X xs),
        bsum (ProductProofs.words_le V L) (fun xs => smul (W G h X xs) (nat_s (length xs))))).
Proof.
  intros S G h X. split.
  - exact (ExpectTotalProofs.expectation_iterate S G h X).
  - intros V L HV Hy. exact (ExpectTotalProofs.expectation_iterate_strings S G V h X L HV Hy).
Qed.
Print Assumptions C08_expectation_iterate.
