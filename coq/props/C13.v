(* Property C13: determinisation, minimisation, pushing and trimming preserve the language.
   Statements only; proofs in proofs/DetProofs.v.  The outputs of the implementation are in addition
   read back and checked by the checkers of model/Det.v (deterministic, out_mass, is_trim) and
   re-evaluated by the reference semantics in the correspondence run. *)
From Coq Require Import List Arith Ring_theory.
From GV.lib Require Import Semiring BigSum.
From GV.model Require Import Linear Wfsa Det TrimW.
From GV.proofs Require Import WfsaProofs DetProofs TrimWProofs.
Import ListNotations.

(* Weight pushing with the backward weights V (any field): every kept state's outgoing arc weights
   plus its final weight sum to one, and every string keeps its weight. *)
Theorem C13_push_stochastic : forall (F : FR) (V : nat -> F) (m : wfsa F) (i : nat),
  backward_eq V m -> V i <> s0 -> out_mass (push_with V m) i = s1.
Proof. intros; apply push_stochastic; assumption. Qed.
Print Assumptions C13_push_stochastic.

Theorem C13_push_language : forall (F : FR) (V : nat -> F) (m : wfsa F),
  backward_eq V m -> (forall q, V q = s0 -> forall xs, pw m q xs = s0) ->
  forall xs, weight (push_with V m) xs = weight m xs.
Proof. intros; apply push_weight; assumption. Qed.
Print Assumptions C13_push_language.

(* The weighted subset construction: the residual invariant.  Reading xs from the initial residual,
   the accumulated arc weight c and the reached residual Q satisfy  forward(xs) = c * Q, so the
   determinised automaton (path weight c, final weight Q.stop) gives xs the weight of the input
   automaton -- whenever every normaliser met on the way is non-zero. *)
Theorem C13_determinize_invariant : forall (F : FR) (m : wfsa F) (xs : list nat),
  det_defined m (winit m) xs ->
  (forall q, wget (fwd m xs) q = smul (fst (det_run m s1 (winit m) xs)) (wget (snd (det_run m s1 (winit m) xs)) q)) /\
  det_value m xs = weight m xs.
Proof.
  intros F m xs Hd. split; [|apply det_value_weight; assumption].
  intros q. pose proof (det_run_forward F m xs s1 (winit m) q Hd) as H.
  unfold fwd. rewrite <- H. symmetry. apply (Ring_theory.SRmul_1_l (sth F)).
Qed.
Print Assumptions C13_determinize_invariant.

(* Trimming (WFSA._trim restricted to a set of states; any semiring, any automaton incl. epsilon-free cyclic
   ones): keeping a successor-closed set that contains the initial states changes no weight; dropping
   states from which nothing is accepted changes no weight; hence trim (accessible, then co-accessible)
   preserves the weight of every string. *)
Theorem C13_trim_accessible : forall (S : SR) (m : wfsa S) (K : list nat), closed_succ S m K ->
  (forall e, In e (winit m) -> inb (fst e) K = true) ->
  forall xs, weight (wtrim K m) xs = weight m xs.
Proof. intros; apply trim_accessible_weight; assumption. Qed.
Print Assumptions C13_trim_accessible.

Theorem C13_trim_dead : forall (S : SR) (m : wfsa S) (K : list nat), (forall q, inb q K = false -> dead S m q) ->
  forall xs, weight (wtrim K m) xs = weight m xs.
Proof. intros; apply trim_dead_weight; assumption. Qed.
Print Assumptions C13_trim_dead.

Theorem C13_trim_language : forall (S : SR) (m : wfsa S) (K1 K2 : list nat), closed_succ S m K1 ->
  (forall e, In e (winit m) -> inb (fst e) K1 = true) ->
  (forall q, inb q K2 = false -> dead S (wtrim K1 m) q) ->
  forall xs, weight (wtrim K2 (wtrim K1 m)) xs = weight m xs.
Proof. intros; apply trim_both_weight; assumption. Qed.
Print Assumptions C13_trim_language.

(* trim as the code computes it: the model of the two graph searches (model/TrimSearch.v: accessible = reached from the
   initial states along arcs, epsilon arcs included; co-accessible = accessible in the reversed automaton; the kept set
   is their intersection) computes exactly the states on a path from an initial state, resp. to a final state; the
   resulting automaton gives EVERY string the weight the input gives it (any semiring, cyclic automata included, no
   hypothesis), and every kept state lies on a path from an initial to a final state.  The state set of the
   implementation's trim is compared with [active] in the correspondence run. *)
From GV.model Require TrimSearch.
From GV.proofs Require TrimSearchProofs.
Theorem C13_trim_search : forall (S : SR) (m : wfsa S),
  (forall xs, weight (TrimSearch.trim_model m) xs = weight m xs) /\
  (forall q, In q (TrimSearch.accessible m) <-> exists e, In e (winit m) /\ TrimSearchProofs.path_to m (fst e) q) /\
  (forall q, In q (TrimSearch.coaccessible m) <-> exists e, In e (wfinal m) /\ TrimSearchProofs.path_to m q (fst e)) /\
  (forall q, In q (TrimSearch.active m) ->
     (exists e, In e (winit m) /\ TrimSearchProofs.path_to m (fst e) q) /\ (exists e, In e (wfinal m) /\ TrimSearchProofs.path_to m q (fst e))) /\
  (forall q, inb q (TrimSearch.coaccessible m) = false -> dead S m q).
Proof.
  intros S m.
  split; [intros xs; exact (TrimSearchProofs.trim_model_weight S m xs)|].
  split; [intros q; exact (TrimSearchProofs.accessible_spec S m q)|].
  split; [intros q; exact (TrimSearchProofs.coaccessible_spec S m q)|].
  split; [intros q Hq; exact (TrimSearchProofs.trim_model_states_useful S m q Hq)|].
  intros q Hq; exact (TrimSearchProofs.not_coaccessible_dead S m q Hq).
Qed.
Print Assumptions C13_trim_search.

Example C13_trim_search_nonvacuous :
  TrimSearch.active TrimSearchProofs.ts_ex = [2; 1; 0] /\ length (warcs TrimSearchProofs.ts_ex) = 4 /\
  length (warcs (TrimSearch.trim_model TrimSearchProofs.ts_ex)) = 2.
Proof. vm_compute. repeat split. Qed.
Print Assumptions C13_trim_search_nonvacuous.

(* min_det = reverse . determinize . trim . reverse . determinize . trim (Brzozowski): whatever determinisation
   procedure is used, if it preserves every string weight (C13_determinize_invariant gives this for the weighted subset
   construction whenever it terminates), the whole pipeline with the modelled trim preserves every string weight. *)
Theorem C13_brzozowski_pipeline : forall (S : SR) (det : wfsa S -> wfsa S),
  (forall m xs, weight (det m) xs = weight m xs) ->
  forall m xs,
    weight (TrimSearch.trim_model (det (wreverse (TrimSearch.trim_model (det (wreverse m)))))) xs = weight m xs.
Proof.
  intros S det Hdet m xs.
  rewrite (proj1 (C13_trim_search S _)), Hdet, (reverse_weight S), (proj1 (C13_trim_search S _)), Hdet, (reverse_weight S), rev_involutive.
  reflexivity.
Qed.
Print Assumptions C13_brzozowski_pipeline.

(* The checkers the correspondence run evaluates on every automaton the implementation returns mean what they say:
   [deterministic] holds exactly when there is at most one initial state, no epsilon arc and at most one arc per state
   and symbol; [is_trim] holds exactly when every state lies on a path from an initial state and on a path to a final
   state; [same_states] compares two state lists as sets. *)
From GV.proofs Require DetCheckerProofs CompareSpecs.
Theorem C13_checkers_sound_complete : forall (S : SR) (m : wfsa S),
  (deterministic m = true <->
     (forall e1 e2, In e1 (winit m) -> In e2 (winit m) -> fst e1 = fst e2) /\
     (forall ar, In ar (warcs m) -> albl ar <> None) /\
     (forall i j ar1 ar2 a, nth_error (warcs m) i = Some ar1 -> nth_error (warcs m) j = Some ar2 ->
        asrc ar1 = asrc ar2 -> albl ar1 = Some a -> albl ar2 = Some a -> i = j)) /\
  (is_trim m = true <->
     forall q, In q (all_states m) ->
       (exists e, In e (winit m) /\ TrimSearchProofs.path_to m (fst e) q) /\
       (exists e, In e (wfinal m) /\ TrimSearchProofs.path_to m q (fst e))) /\
  (forall q, In q (all_states m) <->
     (exists e, In e (winit m) /\ fst e = q) \/ (exists e, In e (wfinal m) /\ fst e = q) \/
     (exists ar, In ar (warcs m) /\ (asrc ar = q \/ adst ar = q))) /\
  (forall a b : list nat, TrimSearch.same_states a b = true <-> (forall x, In x a <-> In x b)).
Proof.
  intros S m.
  split; [exact (DetCheckerProofs.deterministic_spec S m)|].
  split; [exact (DetCheckerProofs.is_trim_spec S m)|].
  split; [intros q; exact (DetCheckerProofs.all_states_spec S m q)|exact CompareSpecs.same_states_spec].
Qed.
Print Assumptions C13_checkers_sound_complete.
