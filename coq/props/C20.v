(* Property C20: local normalisation yields the proportional proper grammar; EOS wrapping.
   Statements only; proofs in proofs/NormProofs.v (about the regenerated factor Gen_Exprs.norm_factor). *)
From Coq Require Import List Arith.
From GV.lib Require Import Semiring BigSum.
From GV.model Require Import Cfg Norm.
From GV.gen Require Import Gen_Exprs Gen_Cfg.
From GV.proofs Require Import NormProofs GenCfgBridge.
Import ListNotations.

(* If Z solves the grammar equations and Z[X] <> 0, the normalised weights of X's rules sum to one. *)
Theorem C20_heads_sum_to_one : forall (F : FR) (Z : sym -> F) (G : grammar F) (X : nat),
  solves Z G -> Z (N X) <> s0 -> head_mass (lnorm (norm_factor F) Z G) X = s1.
Proof. intros; apply lnorm_heads_sum_to_one; assumption. Qed.
Print Assumptions C20_heads_sum_to_one.

(* Every derivation tree's weight is divided by Z of its root (hence every string's weight,
   finite or infinite sum, is divided by Z[S], and the total becomes one); the mapped trees are
   exactly the trees over the rules of the normalised grammar. *)
Theorem C20_tree_proportional : forall (F : FR) (Z : sym -> F) (G : grammar F),
  (forall a, Z (T a) = s1) ->
  (forall t s, twf F G s t -> (forall X, occurs_nt F X t -> Z (N X) <> s0) ->
     smul (tweight (tmap F Z t)) (Z s) = tweight t) /\
  (forall r, In r G -> Z (N (rhead r)) <> s0 ->
     In (norm_factor F (rw r) (prodZ Z (rbody r)) (Z (N (rhead r))), rhead r, rbody r) (lnorm (norm_factor F) Z G)) /\
  (forall r', In r' (lnorm (norm_factor F) Z G) ->
     exists r, In r G /\ Z (N (rhead r)) <> s0 /\
       r' = (norm_factor F (rw r) (prodZ Z (rbody r)) (Z (N (rhead r))), rhead r, rbody r)).
Proof.
  intros F Z G HT. split; [intros t s Hw Hz; exact (lnorm_tree_proportional F Z G HT t s Hw Hz)|].
  split; [intros; apply lnorm_rule_in; assumption|intros; apply lnorm_rule_from; assumption].
Qed.
Print Assumptions C20_tree_proportional.

(* add_EOS: the wrapped grammar gives xs ++ [eos] the weight of xs (one more level), and the
   old nonterminals keep their weights. *)
Theorem C20_add_eos : forall (S : SR) (G : grammar S) (s' s eos : nat) (h : nat) (xs : list nat),
  (forall r, In r G -> rhead r <> s') -> (forall r, In r G -> ~ In (N s') (rbody r)) ->
  W (add_eos s' s eos G) (Datatypes.S h) s' (xs ++ [eos]) = W G h s xs.
Proof. intros; apply add_eos_W; assumption. Qed.
Print Assumptions C20_add_eos.

(* strings that do not end in exactly one eos: the new start rule needs a split (u, [eos]) *)
Theorem C20_add_eos_shape : forall (S : SR) (G : grammar S) (s' s eos : nat) (h : nat) (ys : list nat),
  (forall r, In r G -> rhead r <> s') -> (forall r, In r G -> ~ In (N s') (rbody r)) ->
  W (add_eos s' s eos G) (Datatypes.S h) s' ys
    = bsum (splits ys) (fun p => smul (W G h s (fst p)) (match snd p with [e] => if Nat.eqb eos e then s1 else s0 | _ => s0 end)).
Proof. intros; apply add_eos_W_new; assumption. Qed.
Print Assumptions C20_add_eos_shape.

(* add_EOS as regenerated from cfglm.py is the model's add_eos. *)
Theorem C20_code_add_eos_is_model : forall (S : SR) (s' s eos : nat) (G : grammar S),
  gen_add_eos S s' s eos G = add_eos s' s eos G.
Proof. intros; apply gen_add_eos_model. Qed.
Print Assumptions C20_code_add_eos_is_model.

(* String level: with the regenerated normalisation factor, every string's derivation sum from X -- at every height,
   finite or infinite language -- is the original one divided by Z X, and so is the Kleene iterate (total weight):
   the normalised grammar "assigns every string its original weight divided by the original total weight", and its
   total is one when Z is the total.  Any field; the side condition says that a symbol of total weight zero derives
   nothing (true for non-negative weights). *)
From GV.model Require Import Agenda.
From GV.proofs Require LnormStringsProofs.
Theorem C20_strings_proportional : forall (F : FR) (Z : sym -> F) (G : grammar F),
  (forall a, Z (T a) = s1) ->
  (forall Y, Z (N Y) = s0 -> forall h u, W G h Y u = s0) ->
  (forall Y, Z (N Y) = s0 -> forall h, bu_iter G h Y = s0) ->
  (forall h X xs, smul (W (lnorm (norm_factor F) Z G) h X xs) (Z (N X)) = W G h X xs) /\
  (forall h X xs, Z (N X) <> s0 -> W (lnorm (norm_factor F) Z G) h X xs = fdiv F (W G h X xs) (Z (N X))) /\
  (forall h X, Z (N X) <> s0 -> bu_iter (lnorm (norm_factor F) Z G) h X = fdiv F (bu_iter G h X) (Z (N X))).
Proof.
  intros F Z G HT HW HB.
  split; [exact (LnormStringsProofs.lnorm_W_proportional F Z G HT HW)|].
  split; [exact (LnormStringsProofs.lnorm_W_divided F Z G HT HW)|exact (LnormStringsProofs.lnorm_total_divided F Z G HT HB)].
Qed.
Print Assumptions C20_strings_proportional.
