(* Property C04: grammar language models are the exact left-to-right factorisation.
   Statements only; proofs in proofs/NormProofs.v (chain rule over an abstract field),
   PrefixTrees.v / PrefixChart.v (prefix-weight semantics), PriorityRescaled.v. *)
From Coq Require Import List Arith ZArith.
From GV.lib Require Import Semiring BigSum.
From GV.model Require Import Cfg Agenda MachSpec Prefix Norm.
From GV.gen Require Import Gen_Exprs.
From GV.proofs Require Import CfgTrees NormProofs PrefixTrees PrefixChart PriorityProofs PriorityRescaled.
Import ListNotations.

(* a next-token distribution obtained by normalising non-negative-or-not weights sums to one *)
Theorem C04_sums_to_one : forall (F : FR) (V : list nat) (eos : nat) (nw : list nat -> nat -> F) (ctx : list nat),
  zsum V eos nw ctx <> s0 -> bsum (V ++ [eos]) (p_next V eos nw ctx) = s1.
Proof. intros; apply p_next_sums_to_one; assumption. Qed.
Print Assumptions C04_sums_to_one.

(* Chain rule: if the unnormalised next-token weights are the prefix weights of context+token, eos gets
   the weight of the context as a complete string, and prefix weights satisfy the prefix-sum identity
   pw(c) = cw(c) + sum_t pw(c+t), then the product of the conditionals along xs followed by eos is
   weight(xs) / total -- for every string whose prefixes have non-zero prefix weight. *)
Theorem C04_chain_rule : forall (F : FR) (V : list nat) (eos : nat) (nw : list nat -> nat -> F) (pw cw : list nat -> F),
  (forall ctx t, In t V -> nw ctx t = pw (ctx ++ [t])) ->
  (forall ctx, nw ctx eos = cw ctx) ->
  (forall ctx, pw ctx = sadd (cw ctx) (bsum V (fun t => pw (ctx ++ [t])))) ->
  ~ In eos V ->
  forall xs ctx, (forall x, In x xs -> In x V) ->
    (forall k, k <= length xs -> pw (ctx ++ firstn k xs) <> s0) ->
    chain V eos nw ctx xs = fdiv F (cw (ctx ++ xs)) (pw ctx).
Proof. intros; eapply chain_rule; eassumption. Qed.
Print Assumptions C04_chain_rule.

(* The prefix weight to which the next-token weights are compared is the total weight of the derivation
   trees whose yield begins with the context (each tree once). *)
Theorem C04_prefix_weight_semantics : forall (S : SR) (G : grammar S) (h X : nat) (p : list nat),
  Wpre G h X p = bsum (filter (fun t => is_prefix p (tyield t)) (trees G h X)) tweight.
Proof. intros; apply Wpre_trees. Qed.
Print Assumptions C04_prefix_weight_semantics.

(* agenda order of the rescaled parser (regenerated ORDER_MAX / priority) *)
Theorem C04_priority_rescaled : span_first priority_rescaled order_max_rescaled /\ order_first priority_rescaled order_max_rescaled.
Proof. split; [exact rescaled_span_first|exact rescaled_order_first]. Qed.
Print Assumptions C04_priority_rescaled.


(* Rescaling (earley_rescaled.py keeps every chart column multiplied by a running coefficient): whatever
   non-zero coefficient c(ctx) the unnormalised next-token weights of a context carry, the normalised
   next-token distribution and every chain-rule probability are those of the unscaled weights. *)
From GV.proofs Require RescaleProofs.
Theorem C04_rescaling_invariant : forall (F : FR) (V : list nat) (eos : nat) (c : list nat -> F)
    (nw : list nat -> nat -> F),
  (forall ctx t, c ctx <> s0 -> zsum V eos nw ctx <> s0 ->
     p_next V eos (RescaleProofs.scaled F c nw) ctx t = p_next V eos nw ctx t) /\
  (forall xs ctx,
     (forall k, k <= length xs -> c (ctx ++ firstn k xs) <> s0 /\ zsum V eos nw (ctx ++ firstn k xs) <> s0) ->
     chain V eos (RescaleProofs.scaled F c nw) ctx xs = chain V eos nw ctx xs).
Proof.
  intros F V eos c nw. split.
  - intros ctx t Hc Hz. exact (RescaleProofs.p_next_rescale_invariant F V eos c nw ctx t Hc Hz).
  - intros xs ctx H. exact (RescaleProofs.chain_rescale_invariant F V eos c nw xs ctx H).
Qed.
Print Assumptions C04_rescaling_invariant.

(* The hypotheses of the chain rule hold for the reference semantics: with next-token weights = reference prefix
   weights of context+token and eos weight = the reference weight of the context, the product of the conditionals
   along xs followed by eos is weight(ctx xs) / prefix weight(ctx), for every grammar over every field and every
   height -- the prefix-sum identity is a theorem about the derivation sums (C03), not an assumption.  What remains
   tied by correspondence only is that the implementation's next-token weights ARE these reference prefix weights. *)
From GV.proofs Require PrefixSumProofs.
Theorem C04_reference_chain_rule : forall (F : FR) (G : grammar F) (V : list nat) (h s eos : nat),
  NoDup V -> ~ In eos V ->
  (forall r a, In r G -> In (T a) (rbody r) -> In a V) ->
  forall xs ctx, (forall x, In x xs -> In x V) ->
    (forall k, k <= length xs -> Wpre G h s (ctx ++ firstn k xs) <> s0) ->
    chain V eos (PrefixSumProofs.ref_nw F G h s eos) ctx xs = fdiv F (W G h s (ctx ++ xs)) (Wpre G h s ctx).
Proof. intros F G V h s eos HV He Ht xs ctx Hx Hk. exact (PrefixSumProofs.reference_chain_rule F G V h s eos HV He Ht xs ctx Hx Hk). Qed.
Print Assumptions C04_reference_chain_rule.

Example C04_reference_chain_rule_nonvacuous :
  chain [0; 1] 2 (PrefixSumProofs.ref_nw QcFR PrefixSumProofs.ps_G 3 0 2) [] [1; 0]
  = fdiv QcFR (W PrefixSumProofs.ps_G 3 0 ([] ++ [1; 0])) (Wpre PrefixSumProofs.ps_G 3 0 []).
Proof. exact PrefixSumProofs.reference_chain_instance_thm. Qed.
Print Assumptions C04_reference_chain_rule_nonvacuous.
