(* Property C04: grammar language models are the exact left-to-right factorisation.
   Statements only; proofs in proofs/NormProofs.v (chain rule over an abstract field),
   PrefixTrees.v / PrefixChart.v (prefix-weight semantics), PriorityRescaled.v. *)
From Coq Require Import List Arith ZArith.
From GV.lib Require Import Semiring BigSum.
From GV.model Require Import Cfg Agenda MachSpec Prefix Norm.
From GV.gen Require Import Gen_Exprs.
From GV.proofs Require Import CfgTrees NormProofs PrefixTrees PrefixChart PriorityProofs PriorityRescaled.
Import ListNotations.

(* a next-token distribution obtained by normalising non-negative-or-not weights sums to one *)
Theorem C04_sums_to_one : forall (F : FR) (V : list nat) (eos : nat) (nw : list nat -> nat -> F) (ctx : list nat),
  zsum V eos nw ctx <> s0 -> bsum (V ++ [eos]) (p_next V eos nw ctx) = s1.
Proof. intros; apply p_next_sums_to_one; assumption. Qed.
Print Assumptions C04_sums_to_one.

(* Chain rule: if the unnormalised next-token weights are the prefix weights of context+token, eos gets
   the weight of the context as a complete string, and prefix weights satisfy the prefix-sum identity
   pw(c) = cw(c) + sum_t pw(c+t), then the product of the conditionals along xs followed by eos is
   weight(xs) / total -- for every string whose prefixes have non-zero prefix weight. *)
Theorem C04_chain_rule : forall (F : FR) (V : list nat) (eos : nat) (nw : list nat -> nat -> F) (pw cw : list nat -> F),
  (forall ctx t, In t V -> nw ctx t = pw (ctx ++ [t])) ->
  (forall ctx, nw ctx eos = cw ctx) ->
  (forall ctx, pw ctx = sadd (cw ctx) (bsum V (fun t => pw (ctx ++ [t])))) ->
  ~ In eos V ->
  forall xs ctx, (forall x, In x xs -> In x V) ->
    (forall k, k <= length xs -> pw (ctx ++ firstn k xs) <> s0) ->
    chain V eos nw ctx xs = fdiv F (cw (ctx ++ xs)) (pw ctx).
Proof. intros; eapply chain_rule; eassumption. Qed.
Print Assumptions C04_chain_rule.

(* The prefix weight to which the next-token weights are compared is the total weight of the derivation
   trees whose yield begins with the context (each tree once). *)
Theorem C04_prefix_weight_semantics : forall (S : SR) (G : grammar S) (h X : nat) (p : list nat),
  Wpre G h X p = bsum (filter (fun t => is_prefix p (tyield t)) (trees G h X)) tweight.
Proof. intros; apply Wpre_trees. Qed.
Print Assumptions C04_prefix_weight_semantics.

(* agenda order of the rescaled parser (regenerated ORDER_MAX / priority) *)
Theorem C04_priority_rescaled : span_first priority_rescaled order_max_rescaled /\ order_first priority_rescaled order_max_rescaled.
Proof. split; [exact rescaled_span_first|exact rescaled_order_first]. Qed.
Print Assumptions C04_priority_rescaled.


(* Rescaling (earley_rescaled.py keeps every chart column multiplied by a running coefficient): whatever
   non-zero coefficient c(ctx) the unnormalised next-token weights of a context carry, the normalised
   next-token distribution and every chain-rule probability are those of the unscaled weights. *)
From GV.proofs Require RescaleProofs.
Theorem C04_rescaling_invariant : forall (F : FR) (V : list nat) (eos : nat) (c : list nat -> F)
    (nw : list nat -> nat -> F),
  (forall ctx t, c ctx <> s0 -> zsum V eos nw ctx <> s0 ->
     p_next V eos (RescaleProofs.scaled F c nw) ctx t = p_next V eos nw ctx t) /\
  (forall xs ctx,
     (forall k, k <= length xs -> c (ctx ++ firstn k xs) <> s0 /\ zsum V eos nw (ctx ++ firstn k xs) <> s0) ->
     chain V eos (RescaleProofs.scaled F c nw) ctx xs = chain V eos nw ctx xs).
Proof.
  intros F V eos c nw. split.
  - intros ctx t Hc Hz. exact (RescaleProofs.p_next_rescale_invariant F V eos c nw ctx t Hc Hz).
  - intros xs ctx H. exact (RescaleProofs.chain_rescale_invariant F V eos c nw xs ctx H).
Qed.
Print Assumptions C04_rescaling_invariant.
