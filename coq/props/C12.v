(* Property C12: rational operations implement the algebra of weighted languages.
   Statements only; proofs in proofs/WfsaProofs.v and proofs/RationalOps.v.
   [weight] is the forward pass on an epsilon-free machine (proved equal to the sum over accepting
   paths, C11); [pathsum_e m fuel] is the sum over all accepting paths of at most fuel arcs,
   epsilon arcs included. *)
From Coq Require Import List Arith.
From GV.lib Require Import Semiring BigSum.
From GV.model Require Import Cfg Wfsa WfsaEps.
From GV.gen Require Import Gen_Wfsa.
From GV.proofs Require Import WfsaProofs RationalOps GenWfsaBridge.
Import ListNotations.

Theorem C12_union : forall (S : SR) (a b : wfsa S) xs, weight (wunion a b) xs = sadd (weight a xs) (weight b xs).
Proof. intros; apply union_weight. Qed.
Print Assumptions C12_union.

Theorem C12_reverse : forall (S : SR) (m : wfsa S) xs, weight (wreverse m) xs = weight m (rev xs).
Proof. intros; apply reverse_weight. Qed.
Print Assumptions C12_reverse.

Theorem C12_rename_injective : forall (S : SR) (f : nat -> nat) (m : wfsa S) xs,
  (forall p q, f p = f q -> p = q) -> weight (rename f m) xs = weight m xs.
Proof. intros; apply rename_weight; assumption. Qed.
Print Assumptions C12_rename_injective.

(* (A.B)(x) = sum over the splits x = u v of A(u) B(v) *)
Theorem C12_concat : forall (S : SR) (a b : wfsa S) (xs : list nat) (fuel : nat),
  (forall ar, In ar (warcs a) -> albl ar <> None) -> (forall ar, In ar (warcs b) -> albl ar <> None) ->
  length xs < fuel ->
  pathsum_e (wconcat a b) fuel xs = bsum (splits xs) (fun p => smul (pathsum a (fst p)) (pathsum b (snd p))).
Proof. intros; apply concat_pathsum; assumption. Qed.
Print Assumptions C12_concat.

(* A+(x) = A(x) + sum over the splits x = u v with both parts non-empty of A(u) A+(v)
   (operand with no state both initial and final, so every iteration consumes a symbol) *)
Theorem C12_plus : forall (S : SR) (a : wfsa S) (xs : list nat),
  (forall ar, In ar (warcs a) -> albl ar <> None) ->
  (forall i f, In i (winit a) -> In f (wfinal a) -> fst i <> fst f) ->
  forall fuel, 2 * length xs < fuel -> pathsum_e (wplus a) fuel xs = kplus a (length xs) xs.
Proof. intros; apply plus_unfold; assumption. Qed.
Print Assumptions C12_plus.

Theorem C12_one_zero_lift : forall (S : SR),
  (forall xs fuel, 1 <= fuel -> pathsum_e (@wone S) fuel xs = match xs with [] => s1 | _ => s0 end) /\
  (forall xs, weight (@wzero S) xs = s0) /\
  (forall (x : nat) (w : S) xs, weight (wlift (Some x) w) xs = match xs with [y] => if Nat.eqb x y then w else s0 | _ => s0 end).
Proof. intros S. split; [intros; apply one_pathsum; assumption|split; [apply zero_weight|apply lift_weight]]. Qed.
Print Assumptions C12_one_zero_lift.

(* The constructions the theorems above are about are the ones the code performs: the definitions
   regenerated from wfsa/base.py (rename, reverse, __add__, __mul__, kleene_plus, star, lift, one, zero,
   through spawn and rename_apart) on every run coincide with the model. *)
Theorem C12_code_is_model : forall (S : SR) (a b : wfsa S) (f : nat -> nat) (x : option nat) (w : S),
  gen_add S a b = wunion a b /\ gen_mul S a b = wconcat a b /\ gen_kleene_plus S a = wplus a /\
  gen_star S a = wstar a /\ gen_reverse S a = wreverse a /\ gen_rename S f a = rename f a /\
  gen_lift S x w = wlift x w /\ gen_one S = wone /\ gen_zero S = wzero.
Proof.
  intros S a b f x w.
  exact (conj (gen_add_model S a b) (conj (gen_mul_model S a b) (conj (gen_kleene_plus_model S a)
        (conj (gen_star_model S a) (conj (gen_reverse_model S a) (conj (gen_rename_model S f a)
        (conj (gen_lift_model S x w) (conj (gen_one_model S) (gen_zero_model S))))))))).
Qed.
Print Assumptions C12_code_is_model.

(* Kleene star and construction from a string (proofs/StarStringProofs.v).  Union also holds for the epsilon-aware
   path semantics at every fuel, operands with epsilon arcs included; star(A)(x) = [x is empty] + A+(x), where A+ is
   the sum over all factorisations of x into non-empty factors of the product of A on the factors (kplus); the
   automaton built from a string xs (hand-written model of WFSA.from_string: one state per prefix) gives xs the
   weight w and every other string zero. *)
From GV.proofs Require StarStringProofs.
Theorem C12_union_with_epsilon : forall (S : SR) (a b : wfsa S) (fuel : nat) (xs : list nat),
  pathsum_e (wunion a b) fuel xs = sadd (pathsum_e a fuel xs) (pathsum_e b fuel xs).
Proof. intros S a b fuel xs. exact (StarStringProofs.union_pathsum_e S a b fuel xs). Qed.
Print Assumptions C12_union_with_epsilon.

Theorem C12_star : forall (S : SR) (a : wfsa S) (xs : list nat),
  (forall ar, In ar (warcs a) -> albl ar <> None) ->
  (forall i f, In i (winit a) -> In f (wfinal a) -> fst i <> fst f) ->
  forall fuel, 2 * length xs < fuel ->
  pathsum_e (wstar a) fuel xs = sadd (match xs with [] => s1 | _ => s0 end) (kplus a (length xs) xs).
Proof. intros S a xs H1 H2 fuel Hf. exact (StarStringProofs.star_unfold S a xs H1 H2 fuel Hf). Qed.
Print Assumptions C12_star.

Theorem C12_from_string : forall (S : SR) (xs : list nat) (w : S) (ys : list nat),
  weight (StarStringProofs.from_string xs w) ys = (if list_eqb Nat.eqb ys xs then w else s0) /\
  pathsum (StarStringProofs.from_string xs w) ys = (if list_eqb Nat.eqb ys xs then w else s0).
Proof.
  intros S xs w ys. split; [exact (StarStringProofs.from_string_weight_call S xs w ys)|exact (StarStringProofs.from_string_weight S xs w ys)].
Qed.
Print Assumptions C12_from_string.

(* WFSA.from_string as regenerated from wfsa/base.py on every run (states = prefixes, named by their lengths) is the
   model C12_from_string is about; the correspondence run evaluates the regenerated definition. *)
From GV.gen Require Gen_FromString.
From GV.proofs Require GenFromStringBridge.
Theorem C12_code_from_string_is_model : forall (S : SR) (xs : list nat) (w : S) (ys : list nat),
  Gen_FromString.gen_from_string S xs w = StarStringProofs.from_string xs w /\
  weight (Gen_FromString.gen_from_string S xs w) ys = (if list_eqb Nat.eqb ys xs then w else s0).
Proof.
  intros S xs w ys. split; [exact (GenFromStringBridge.gen_from_string_model S xs w)|].
  rewrite (GenFromStringBridge.gen_from_string_model S xs w). exact (StarStringProofs.from_string_weight_call S xs w ys).
Qed.
Print Assumptions C12_code_from_string_is_model.
