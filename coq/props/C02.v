(* Property C02: every parser returns the derivation-sum weight of a string.
   Statements only; proofs in proofs/CfgTrees.v, CfgChart.v, PriorityProofs.v, PriorityRescaled.v. *)
From Coq Require Import List Arith ZArith.
From GV.lib Require Import Semiring BigSum.
From GV.model Require Import Cfg.
From GV.gen Require Import Gen_Exprs.
From GV.proofs Require Import CfgTrees CfgChart PriorityProofs PriorityRescaled.
Import ListNotations.

(* The reference value W G h X xs is the sum, over ALL derivation trees of height <= h rooted
   at X with yield xs, of the product of the rule weights (any commutative semiring; duplicate
   rules give distinct trees); the enumeration is sound, complete and duplicate-free. *)
Theorem C02_reference_is_tree_sum : forall (S : SR) (G : grammar S) (h X : nat) (xs : list nat),
  W G h X xs = bsum (filter (yields xs) (trees G h X)) tweight /\
  (forall t, In t (trees G h X) <-> (twf S G (N X) t /\ theight t <= h)) /\
  NoDup (trees G h X).
Proof.
  intros S G h X xs. split; [apply W_trees|]. split; [|apply trees_NoDup].
  intros t; split; [apply trees_sound|intros [Hw Hh]; apply trees_complete; assumption].
Qed.
Print Assumptions C02_reference_is_tree_sum.

(* The executable tabulation used by the correspondence runs computes W, and a value it
   returns is the weight of the string at every sufficiently large height (a finite sum). *)
Theorem C02_executable_model_is_reference : forall (S : SR) (G : grammar S) (xs : list nat),
  (forall n X i j, i <= j -> j <= length xs -> cget (citer G xs n []) (X, i, j) = W G n X (sub xs i j)) /\
  (forall fuel X v, lang G fuel X xs = Some v -> stable S G X xs v).
Proof. intros S G xs; split; [intros; apply citer_W; assumption|intros; eapply lang_stable; eassumption]. Qed.
Print Assumptions C02_executable_model_is_reference.

(* Agenda order of parse/earley.py (regenerated ORDER_MAX and priority): a completed item with a
   strictly shorter span, or the same span and a smaller order, is popped strictly earlier. *)
Theorem C02_priority_earley : span_first priority_earley order_max_earley /\ order_first priority_earley order_max_earley.
Proof. split; [exact earley_span_first|exact earley_order_first]. Qed.
Print Assumptions C02_priority_earley.

Theorem C02_priority_rescaled : span_first priority_rescaled order_max_rescaled /\ order_first priority_rescaled order_max_rescaled.
Proof. split; [exact rescaled_span_first|exact rescaled_order_first]. Qed.
Print Assumptions C02_priority_rescaled.

(* non-vacuity: the hypotheses of span_first are met by ordinary columns *)
Example C02_priority_nonvacuous : (0 <= 0 <= 2 /\ 0 <= 2 <= 2 /\ 3 < 4 /\ 4 <= 5)%Z /\
  (priority_earley 5 4 (order_max_earley 2) 2 > priority_earley 5 3 (order_max_earley 2) 0)%Z.
Proof. vm_compute. repeat split; discriminate. Qed.
Print Assumptions C02_priority_nonvacuous.

(* CKY on a grammar in Chomsky normal form computes the derivation sum (cfg(xs) evaluates
   cnf._parse_chart; IncrementalCKY fills the same chart column by column). *)
From GV.model Require Import Cky Transform.
From GV.proofs Require Import CkyProofs.
From Coq Require Import Permutation.
Theorem C02_cky_is_derivation_sum : forall (S : SR) (G : grammar S) (s : nat) (xs : list nat) (h : nat),
  in_cnf s G = true -> length xs < h -> W G h s xs = cky G s xs.
Proof. intros; apply cky_W; assumption. Qed.
Print Assumptions C02_cky_is_derivation_sum.

(* independence of rule order and of nonterminal names *)
Theorem C02_perm_rename_invariant : forall (S : SR) (G G' : grammar S) (f : nat -> nat) h X xs,
  Permutation G G' -> (forall p q, f p = f q -> p = q) ->
  W G h X xs = W G' h X xs /\ W (rename_g f G) h (f X) xs = W G h X xs.
Proof. intros S G G' f h X xs HP Hf; split; [apply W_perm; assumption|apply W_rename; assumption]. Qed.
Print Assumptions C02_perm_rename_invariant.

Example C02_cnf_nonvacuous :
  in_cnf 0 [((mkq 1 2 : QcSR), 0, []); (mkq 1 3, 0, [N 1; N 1]); (mkq 1 5, 1, [T 0])] = true /\
  cky [((mkq 1 2 : QcSR), 0, []); (mkq 1 3, 0, [N 1; N 1]); (mkq 1 5, 1, [T 0])] 0 [0; 0] = mkq 1 75.
Proof. split; vm_compute; reflexivity. Qed.
Print Assumptions C02_cnf_nonvacuous.

(* Link between the reference semantics and the grammar equations used by the equation-level theorems
   (C03 derivative, C06 nullary/unary removal, C09 product, C19 substitution): whenever every string
   weight is a finite (stabilising) derivation sum, the string-weight function solves the equations; in
   particular for every grammar with a rank function (acyclic dependency graph), and for every value
   returned by the executable tabulation. *)
From GV.proofs Require FoldProofs StableSolves.
Theorem C02_stable_weights_solve_the_equations : forall (S : SR) (G : grammar S) (f : nat -> list nat -> S),
  (forall X xs, stable S G X xs (f X xs)) -> FoldProofs.solves S G f.
Proof. intros; apply StableSolves.stable_solves; assumption. Qed.
Print Assumptions C02_stable_weights_solve_the_equations.

Theorem C02_ranked_grammars : forall (S : SR) (r : nat -> nat) (G : grammar S),
  StableSolves.ranked S r G ->
  (forall X xs, stable S G X xs (W G (Datatypes.S (r X)) X xs)) /\
  FoldProofs.solves S G (fun X xs => W G (Datatypes.S (r X)) X xs).
Proof.
  intros S r G Hr. split.
  - intros X xs. exact (StableSolves.ranked_stable S r G Hr X xs).
  - exact (StableSolves.ranked_solves S r G Hr).
Qed.
Print Assumptions C02_ranked_grammars.
