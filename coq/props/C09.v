(* Property C09: grammar-transducer composition is relational composition.
   Statements only.  Proved here: the machines the library builds for length truncation and for the
   prefix language (regenerated from source) have exactly the intended relational semantics.  The
   composition algorithm itself (CFG.__matmul__) is decided by the correspondence run against
   sum_x G(x) T(x, y) computed from the proved reference semantics of grammars and transducers. *)
From Coq Require Import List Arith NArith.
From GV.lib Require Import Semiring BigSum.
From GV.model Require Import Wfsa Fst MachSpec.
From GV.gen Require Import Gen_Machines.
From GV.proofs Require Import TruncateMachine PrefixMachine.
Import ListNotations.

(* the automaton built by CFG.truncate_length(n) accepts exactly the strings over the alphabet of
   length <= n, each with total path weight one, and has no epsilon arcs *)
Theorem C09_truncate_machine : forall (S : SR) (V : list nat) (n : nat) (xs : list nat),
  NoDup V -> (forall a, In a xs -> In a V) ->
  weight (truncate_machine (S:=S) V n) xs = (if Nat.leb (length xs) n then s1 else s0) /\
  (forall ar, In ar (warcs (truncate_machine (S:=S) V n)) -> albl ar <> None).
Proof. intros; split; [apply truncate_machine_weight; assumption|apply truncate_machine_eps_free]. Qed.
Print Assumptions C09_truncate_machine.

(* the transducer composed with a grammar to obtain its prefix grammar relates s to p with weight one
   exactly when p is a prefix of s *)
Theorem C09_prefix_transducer : forall (S : SR) (V : list nat) (s p : list nat) (fuel : nat),
  NoDup V -> (forall a, In a s -> In a V) -> length s <= fuel ->
  trel (prefix_transducer V) fuel s p = if is_prefix p s then @s1 S else @s0 S.
Proof. intros; apply prefix_transducer_spec; assumption. Qed.
Print Assumptions C09_prefix_transducer.

Example C09_truncate_nonvacuous :
  weight (truncate_machine (S:=NSR) [0; 1] 2) [1; 0] = 1%N /\ weight (truncate_machine (S:=NSR) [0; 1] 2) [1; 0; 1] = 0%N.
Proof. vm_compute. split; reflexivity. Qed.
Print Assumptions C09_truncate_nonvacuous.
