(* Property C09: grammar-transducer composition is relational composition.
   Statements only.  Proved here: the machines the library builds for length truncation and for the
   prefix language (regenerated from source) have exactly the intended relational semantics.  The
   composition algorithm itself (CFG.__matmul__) is decided by the correspondence run against
   sum_x G(x) T(x, y) computed from the proved reference semantics of grammars and transducers. *)
From Coq Require Import List Arith NArith.
From GV.lib Require Import Semiring BigSum.
From GV.model Require Import Wfsa Fst MachSpec.
From GV.gen Require Import Gen_Machines.
From GV.proofs Require Import TruncateMachine PrefixMachine.
Import ListNotations.

(* the automaton built by CFG.truncate_length(n) accepts exactly the strings over the alphabet of
   length <= n, each with total path weight one, and has no epsilon arcs *)
Theorem C09_truncate_machine : forall (S : SR) (V : list nat) (n : nat) (xs : list nat),
  NoDup V -> (forall a, In a xs -> In a V) ->
  weight (truncate_machine (S:=S) V n) xs = (if Nat.leb (length xs) n then s1 else s0) /\
  (forall ar, In ar (warcs (truncate_machine (S:=S) V n)) -> albl ar <> None).
Proof. intros; split; [apply truncate_machine_weight; assumption|apply truncate_machine_eps_free]. Qed.
Print Assumptions C09_truncate_machine.

(* the transducer composed with a grammar to obtain its prefix grammar relates s to p with weight one
   exactly when p is a prefix of s *)
Theorem C09_prefix_transducer : forall (S : SR) (V : list nat) (s p : list nat) (fuel : nat),
  NoDup V -> (forall a, In a s -> In a V) -> length s <= fuel ->
  trel (prefix_transducer V) fuel s p = if is_prefix p s then @s1 S else @s0 S.
Proof. intros; apply prefix_transducer_spec; assumption. Qed.
Print Assumptions C09_prefix_transducer.

Example C09_truncate_nonvacuous :
  weight (truncate_machine (S:=NSR) [0; 1] 2) [1; 0] = 1%N /\ weight (truncate_machine (S:=NSR) [0; 1] 2) [1; 0; 1] = 0%N.
Proof. vm_compute. split; reflexivity. Qed.
Print Assumptions C09_truncate_nonvacuous.

(* The product construction of CFG.__matmul__ for letter-to-letter machines (every arc reads one symbol and
   writes one symbol: intersection with an automaton or a string, truncate_length, relabelling transducers),
   model/BarHillel.v, with any injective naming of the triple nonterminals.  If f solves G, the valuation
      (p, X, q) |-> sum over xs of f X xs * (weight of the paths p -> q reading xs and writing ys)
   solves the product grammar, and its start symbol gives ys the weight  sum over xs of G(xs) * M(xs, ys)
   (M in the path-sum semantics trel of model/Fst.v).  Every commutative semiring, cyclic grammars included. *)
From GV.model Require Import Cfg Fst BarHillel.
From GV.proofs Require FoldProofs BarHillelProofs ProductProofs.
Theorem C09_product_grammar : forall (S : SR) (nt tm : nat -> nat -> nat -> nat) (s' : nat) (states : list nat)
    (init fin : list (nat * S)) (arcs : list (larc S)) (G : grammar S) (start : nat) (V : list nat) (f : nat -> list nat -> S),
  (forall p X q p' X' q', nt p X q = nt p' X' q' -> p = p' /\ X = X' /\ q = q') ->
  (forall p a q p' a' q', tm p a q = tm p' a' q' -> p = p' /\ a = a' /\ q = q') ->
  (forall p X q p' a q', nt p X q <> tm p' a q') ->
  (forall p X q, nt p X q <> s') -> (forall p a q, tm p a q <> s') ->
  NoDup states -> NoDup V ->
  (forall x, In x arcs -> In (asrc x) states /\ In (adst x) states /\ In (ain x) V) ->
  (forall i, In i init -> In (fst i) states) -> (forall k, In k fin -> In (fst k) states) ->
  (forall r a, In r G -> In (T a) (rbody r) -> In a V) ->
  FoldProofs.solves S G f ->
  FoldProofs.solves S (bar_hillel nt tm s' states init fin arcs G start) (BarHillelProofs.Fv S nt tm s' states init fin arcs G start V f) /\
  (forall ys fuel, length ys <= fuel ->
     BarHillelProofs.Fv S nt tm s' states init fin arcs G start V f s' ys =
     bsum (ProductProofs.words_eq V (length ys)) (fun xs => smul (f start xs) (trel (BarHillelProofs.lift_fst S init fin arcs) fuel xs ys))).
Proof.
  intros S nt tm s' states init fin arcs G start V f H1 H2 H3 H4 H5 H6 H7 H8 H9 H10 H11 Hf. split.
  - exact (BarHillelProofs.bar_hillel_solves S nt tm s' states init fin arcs G start V f H1 H2 H3 H4 H5 H6 H7 H8 H9 H10 H11 Hf).
  - intros ys fuel Hl. exact (BarHillelProofs.bar_hillel_start_trel S nt tm s' states init fin arcs G start V f ys fuel Hl).
Qed.
Print Assumptions C09_product_grammar.

(* Composing with a plain string is the pointwise product: for the letter-to-letter machine of the string x (the diagonal
   of the string automaton; its relation is proved to be  xs = ys = x  with weight one), the product grammar's valuation
   gives ys the weight  grammar(x)  when ys = x and zero otherwise -- so the total weight of the grammar composed with x
   is grammar(x).  Equation level like C09_product_grammar, every commutative semiring. *)
From GV.proofs Require IntersectStringProofs.
Theorem C09_intersect_string : forall (S : SR) (nt tm : nat -> nat -> nat -> nat) (s' : nat)
    (G : grammar S) (start : nat) (V : list nat) (f : nat -> list nat -> S) (x : list nat),
  (forall p X q p' X' q', nt p X q = nt p' X' q' -> p = p' /\ X = X' /\ q = q') ->
  (forall p a q p' a' q', tm p a q = tm p' a' q' -> p = p' /\ a = a' /\ q = q') ->
  (forall p X q p' a q', nt p X q <> tm p' a q') ->
  (forall p X q, nt p X q <> s') -> (forall p a q, tm p a q <> s') ->
  NoDup V -> (forall a, In a x -> In a V) ->
  (forall r a, In r G -> In (T a) (rbody r) -> In a V) ->
  FoldProofs.solves S G f ->
  FoldProofs.solves S
    (bar_hillel nt tm s' (seq 0 (Datatypes.S (length x))) [(0, s1)] [(length x, s1)] (IntersectStringProofs.string_arcs S x) G start)
    (BarHillelProofs.Fv S nt tm s' (seq 0 (Datatypes.S (length x))) [(0, s1)] [(length x, s1)] (IntersectStringProofs.string_arcs S x) G start V f) /\
  (forall ys,
     BarHillelProofs.Fv S nt tm s' (seq 0 (Datatypes.S (length x))) [(0, s1)] [(length x, s1)] (IntersectStringProofs.string_arcs S x) G start V f s' ys
     = if list_eqb Nat.eqb ys x then f start x else s0) /\
  (forall fuel xs ys, length xs <= fuel ->
     trel (BarHillelProofs.lift_fst S [(0, s1)] [(length x, s1)] (IntersectStringProofs.string_arcs S x)) fuel xs ys
     = if andb (list_eqb Nat.eqb xs ys) (list_eqb Nat.eqb xs x) then s1 else s0).
Proof.
  intros S nt tm s' G start V f x H1 H2 H3 H4 H5 HV Hx HG Hf.
  destruct (IntersectStringProofs.intersect_string_grammar S nt tm s' G start V f x H1 H2 H3 H4 H5 HV Hx HG Hf) as [A B].
  split; [exact A|split; [exact B|]].
  intros fuel xs ys Hl. exact (IntersectStringProofs.string_relation S x fuel xs ys Hl).
Qed.
Print Assumptions C09_intersect_string.
