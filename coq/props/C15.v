(* Property C15: the algebraic path solver computes closures and least solutions.
   Statements only; proofs in proofs/LehmannProof.v, ClosureExtra.v, BlockSolver.v. *)
From Coq Require Import List Arith.
From GV.lib Require Import Semiring BigSum.
From GV.model Require Import Linear Blocks.
From GV.gen Require Import Gen_Linear.
From GV.proofs Require Import LehmannProof ClosureExtra BlockSolver GenLinearBridge.
Import ListNotations.

(* Lehmann/Kleene elimination (WeightedGraph._closure) computes, over every star semiring on which the
   pivots' stars are defined, a matrix K with K = I + A K and K = I + K A on the node set. *)
Theorem C15_lehmann_fixpoint : forall (S : StarSR) (nodes : list nat) (A : mat S),
  NoDup nodes -> defined S nodes A -> forall i k, In i nodes -> In k nodes ->
  mget (lehmann nodes A) i k = sadd (fid i k) (bsum nodes (fun j => smul (mget A i j) (mget (lehmann nodes A) j k))) /\
  mget (lehmann nodes A) i k = sadd (fid i k) (bsum nodes (fun j => smul (mget (lehmann nodes A) i j) (mget A j k))).
Proof. intros; split; [apply lehmann_fixpoint_l|apply lehmann_fixpoint_r]; assumption. Qed.
Print Assumptions C15_lehmann_fixpoint.

(* including the |N| = 1 shortcut *)
Theorem C15_closure_fixpoint : forall (S : StarSR) (nodes : list nat) (A : mat S), NoDup nodes ->
  (match nodes with [i] => sdef S (mget A i i) | _ => defined S nodes A end) ->
  forall i k, In i nodes -> In k nodes ->
  mget (closure nodes A) i k = sadd (fid i k) (bsum nodes (fun j => smul (mget A i j) (mget (closure nodes A) j k))).
Proof. intros; apply closure_fixpoint_l; assumption. Qed.
Print Assumptions C15_closure_fixpoint.

(* acyclic graphs: the closure is the sum of all powers, i.e. the sum over all paths (any semiring) *)
Theorem C15_acyclic_is_power_sum : forall (S : StarSR) (nodes : list nat) (A : mat S) (n : nat),
  NoDup nodes -> defined S nodes A ->
  (forall i k, In i nodes -> In k nodes -> fpow S nodes (mget A) n i k = s0) ->
  forall i k, In i nodes -> In k nodes ->
  mget (lehmann nodes A) i k = bsum (seq 0 n) (fun m => fpow S nodes (mget A) m i k).
Proof. intros; apply lehmann_acyclic_pathsum; assumption. Qed.
Print Assumptions C15_acyclic_is_power_sum.

(* Boolean semiring: entry (i, k) of the closure is true iff k is reachable from i *)
Theorem C15_bool_reachability : forall (nodes : list nat) (A : mat BoolStar) (i k : nat),
  NoDup nodes -> In i nodes -> In k nodes ->
  (mget (lehmann nodes A) i k = true <-> reachN nodes A i k).
Proof. intros; apply lehmann_bool_reach; assumption. Qed.
Print Assumptions C15_bool_reachability.

(* block solvers: for any block list that partitions the nodes with all edges going forward, and
   block closures satisfying the closure equations, solve_left returns a solution of x = xA + b and
   solve_right of x = Ax + b *)
Theorem C15_block_solvers : forall (S : StarSR) (allnodes : list nat) (blocks : list (list nat)) (A : mat S) (b : vec S),
  NoDup allnodes -> is_partition allnodes blocks = true -> forward_edges allnodes blocks A = true ->
  (forall i k, ~ In i allnodes \/ ~ In k allnodes -> mget A i k = s0) ->
  ((forall blk, In blk blocks -> forall i k, In i blk -> In k blk ->
      mget (block_closure blk A) i k = sadd (fid i k) (bsum blk (fun j => smul (mget (block_closure blk A) i j) (mget A j k)))) ->
   forall k, In k allnodes ->
     vget (solve_left allnodes blocks A b) k = sadd (vget b k) (bsum allnodes (fun i => smul (vget (solve_left allnodes blocks A b) i) (mget A i k)))) /\
  ((forall blk, In blk blocks -> forall i k, In i blk -> In k blk ->
      mget (block_closure blk A) i k = sadd (fid i k) (bsum blk (fun j => smul (mget A i j) (mget (block_closure blk A) j k)))) ->
   forall k, In k allnodes ->
     vget (solve_right allnodes blocks A b) k = sadd (vget b k) (bsum allnodes (fun i => smul (mget A k i) (vget (solve_right allnodes blocks A b) i)))).
Proof.
  intros S allnodes blocks A b Hnd Hp Hf Hz. split; intros Hb k Hk.
  - apply solve_left_fixpoint; assumption.
  - apply solve_right_fixpoint; assumption.
Qed.
Print Assumptions C15_block_solvers.

(* the checker applied to the implementation's block list accepts only the strongly connected
   components listed in an order compatible with the edges *)
Theorem C15_scc_checker_sound : forall (S : StarSR) (nodes : list nat) (bs : list (list nat)) (A : mat S),
  NoDup nodes -> scc_check nodes bs A = true ->
  (forall x, In x nodes <-> exists b, In b bs /\ In x b) /\ NoDup (concat bs) /\
  (forall i k p q, In i nodes -> In k nodes -> mget A i k <> s0 -> block_of i bs 0 = Some p -> block_of k bs 0 = Some q -> p <= q) /\
  (forall b i k, In b bs -> In i b -> In k b -> reachN b (adj_bool b A) i k).
Proof. intros; apply scc_check_sound; assumption. Qed.
Print Assumptions C15_scc_checker_sound.

(* The arithmetic of WeightedGraph._closure and of the block solvers, regenerated from linear.py on
   every run (factor order included), is the arithmetic of the models. *)
Theorem C15_code_elimination_is_model : forall (S : StarSR) (nodes : list nat) (j : nat) (old : mat S),
  elim_step nodes j old =
  tabulate nodes (fun i k => gen_elim_upd S (mget old i k) (mget old i j) (sstar S (mget old j j)) (mget old j k)).
Proof. intros; apply gen_elim_step_model. Qed.
Print Assumptions C15_code_elimination_is_model.

Theorem C15_code_solvers_are_model : forall (S : StarSR) (allnodes : list nat) (A : mat S) (b sol : vec S) (block : list nat),
  solve_left_block S allnodes A b sol block =
    (let B := block_closure block A in
     let enter := map (fun j => (j, sadd (vget b j) (bsum allnodes (fun i => gen_left_enter S (vget sol i) (mget A i j))))) block in
     sol ++ flat_map (fun e => map (fun k => (k, gen_left_complete S (snd e) (mget B (fst e) k))) block) enter) /\
  solve_right_block S allnodes A b sol block =
    (let B := block_closure block A in
     let enter := map (fun j => (j, sadd (vget b j) (bsum allnodes (fun k => gen_right_enter S (mget A j k) (vget sol k))))) block in
     sol ++ flat_map (fun e => map (fun i => (i, gen_right_complete S (mget B i (fst e)) (snd e))) block) enter).
Proof. intros; split; [apply gen_solve_left_block_model|apply gen_solve_right_block_model]. Qed.
Print Assumptions C15_code_solvers_are_model.

(* Least solutions on graphs without cycles: when the weight matrix is nilpotent on the node set (every product of n
   consecutive edge weights vanishes), each of the systems x = b + A x and x = b + x A has exactly ONE solution, the
   finite sum over all paths  sum_{m<n} A^m b  (resp. b A^m) -- so what the block solvers return (a solution, by
   C15_block_solvers) is the least solution and the path sum.  Every commutative star semiring. *)
From GV.proofs Require NilpotentSolveProofs.
Theorem C15_acyclic_solutions_are_path_sums : forall (S : StarSR) (nodes : list nat) (A : nat -> nat -> S) (n : nat) (b x : nat -> S),
  NoDup nodes -> NilpotentSolveProofs.nilp S nodes A n ->
  ((forall i, In i nodes -> x i = sadd (b i) (bsum nodes (fun k => smul (A i k) (x k)))) ->
   forall i, In i nodes -> x i = bsum (seq 0 n) (fun m => bsum nodes (fun k => smul (fpow S nodes A m i k) (b k)))) /\
  ((forall k, In k nodes -> x k = sadd (b k) (bsum nodes (fun i => smul (x i) (A i k)))) ->
   forall k, In k nodes -> x k = bsum (seq 0 n) (fun m => bsum nodes (fun i => smul (b i) (fpow S nodes A m i k)))).
Proof.
  intros S nodes A n b x Hnd Hn. split.
  - intros Hx i Hi. exact (NilpotentSolveProofs.right_solution_is_path_sum S nodes A n b x Hnd Hn Hx i Hi).
  - intros Hx k Hk. exact (NilpotentSolveProofs.left_solution_is_path_sum S nodes A n b x Hnd Hn Hx k Hk).
Qed.
Print Assumptions C15_acyclic_solutions_are_path_sums.
