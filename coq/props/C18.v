(* Property C18: regex automata accept exactly the regex language and are normalised.
   The step regex -> DFA is interegular's and is not modelled; the post-processing of the DFA
   (lark_interface.interegular_to_wfsa) is modelled in model/Regex.v and run on the implementation's
   own DFA in the correspondence run.  Statements only; proofs in proofs/RegexProofs.v. *)
From Coq Require Import List Arith QArith Qcanon.
From GV.lib Require Import Semiring BigSum.
From GV.model Require Import Regex.
From GV.proofs Require Import RegexProofs.
Import ListNotations.

(* local normalisation: for EVERY DFA and character set, every state with a positive fan-out has
   outgoing arc weights plus final weight summing to exactly one *)
Theorem C18_locally_normalised : forall (charset : list nat) (D : dfa) (e : nat * list (nat * nat)),
  fanout charset D (fst e) (snd e) <> O -> re_mass charset D e = 1%Qc.
Proof. intros; apply regex_locally_normalised; assumption. Qed.
Print Assumptions C18_locally_normalised.

(* every arc of the result is a single-character move of the DFA into a live state, with weight 1/K > 0;
   negated classes and the dot expand to the character set minus the DFA's explicit symbols *)
Theorem C18_arcs_are_dfa_moves : forall charset D i x j w, In (i, x, j, w) (re_arcs charset D) ->
  exists outs, In (i, outs) (d_map D) /\ In (x, j) (moves charset D outs) /\ w = invK (fanout charset D i outs) /\
               fanout charset D i outs <> O /\ memn j (d_live D) = true /\
               exists c, In (c, j) outs /\ In [x] (expand charset D c).
Proof.
  intros charset D i x j w H. destruct (regex_arcs_single_char charset D i x j w H) as [outs [H1 [H2 [H3 H4]]]].
  exists outs. repeat split; try assumption; destruct (regex_moves_live charset D outs x j H2) as [H5 H6]; assumption.
Qed.
Print Assumptions C18_arcs_are_dfa_moves.

Theorem C18_weights_positive : forall k, k <> O -> (0 < invK k)%Qc.
Proof. intros; apply regex_weights_positive; assumption. Qed.
Print Assumptions C18_weights_positive.

(* With the live set computed relative to the character set (model/RegexLive.v, mirroring the code),
   every state an arc leads to has a positive fan-out and is therefore normalised: no dead ends. *)
From GV.model Require Import RegexLive.
From GV.proofs Require Import RegexLiveProofs.
Theorem C18_no_dead_ends : forall charset D i x j w outs_j,
  In (i, x, j, w) (re_arcs charset (with_live charset D)) -> In (j, outs_j) (d_map D) ->
  (forall e1 e2, In e1 (d_map D) -> In e2 (d_map D) -> fst e1 = fst e2 -> e1 = e2) ->
  fanout charset (with_live charset D) j outs_j <> O /\ re_mass charset (with_live charset D) (j, outs_j) = 1%Qc.
Proof. intros; split; [eapply with_live_targets_positive|eapply with_live_targets_normalised]; eassumption. Qed.
Print Assumptions C18_no_dead_ends.

(* The language of the result: with the initial weight 1 on the DFA's initial state (re_wfsa), the weight of a string is
   never negative and is non-zero exactly when the DFA accepts the string by single-character moves of the character
   set into live states -- for EVERY DFA and character set (no uniqueness of map entries assumed). *)
From GV.model Require Wfsa.
From GV.proofs Require RegexLangProofs.
Theorem C18_language : forall (charset : list nat) (D : dfa) (xs : list nat),
  (0 <= Wfsa.pathsum (RegexLangProofs.re_wfsa charset D) xs)%Qc /\
  (Wfsa.pathsum (RegexLangProofs.re_wfsa charset D) xs <> 0%Qc <-> RegexLangProofs.dfa_run charset D (d_init D) xs) /\
  ((0 < Wfsa.pathsum (RegexLangProofs.re_wfsa charset D) xs)%Qc <-> RegexLangProofs.dfa_run charset D (d_init D) xs) /\
  Wfsa.eps_free (RegexLangProofs.re_wfsa charset D).
Proof.
  intros charset D xs.
  split; [exact (RegexLangProofs.re_pathsum_nonneg charset D xs)|].
  split; [exact (RegexLangProofs.re_language charset D xs)|].
  split; [exact (RegexLangProofs.re_language_pos charset D xs)|exact (RegexLangProofs.re_wfsa_eps_free charset D)].
Qed.
Print Assumptions C18_language.

Example C18_language_nonvacuous :
  Wfsa.pathsum (RegexLangProofs.re_wfsa [7; 8]%nat RegexLangProofs.exD) [7; 7]%nat = Q2Qc (1 # 4) /\
  Wfsa.pathsum (RegexLangProofs.re_wfsa [7; 8]%nat RegexLangProofs.exD) [8]%nat = 0%Qc /\
  RegexLangProofs.dfa_run [7; 8]%nat RegexLangProofs.exD 0%nat [7; 7]%nat.
Proof.
  split; [exact RegexLangProofs.exD_accepts_77|split; [exact RegexLangProofs.exD_rejects_8|exact RegexLangProofs.exD_run_77]].
Qed.
Print Assumptions C18_language_nonvacuous.

(* Sub-probability: a weighted automaton over the rationals with non-negative weights whose every state has outgoing
   arc weights plus final weight at most one, and initial mass at most one, gives the set of ALL strings of length
   <= n over any alphabet V total weight at most one, for every n (proofs/SubProbProofs.v); the automaton built from a
   DFA whose transition map has one entry per state (a Python dict) is such an automaton. *)
From GV.proofs Require ProductProofs SubProbProofs.
Theorem C18_subprobability : forall (V charset : list nat) (D : dfa), NoDup V -> NoDup (map fst (d_map D)) ->
  forall n, (bsum (S:=QcSR) (ProductProofs.words_le V n) (fun xs => Wfsa.pathsum (RegexLangProofs.re_wfsa charset D) xs) <= 1)%Qc.
Proof. intros V charset D HV HD n. exact (SubProbProofs.re_subprobability V charset D HV HD n). Qed.
Print Assumptions C18_subprobability.

Theorem C18_substochastic_automata : forall (V : list nat) (m : Wfsa.wfsa QcSR), NoDup V -> SubProbProofs.nonneg_wfsa m ->
  (forall q, SubProbProofs.state_mass m q <= 1)%Qc -> (bsum (S:=QcSR) (Wfsa.winit m) (fun e => snd e) <= 1)%Qc ->
  forall n, (bsum (S:=QcSR) (ProductProofs.words_le V n) (fun xs => Wfsa.pathsum m xs) <= 1)%Qc.
Proof. intros V m HV Hn Hm Hi n. exact (SubProbProofs.substochastic_language V m HV Hn Hm Hi n). Qed.
Print Assumptions C18_substochastic_automata.

Example C18_subprobability_nonvacuous :
  bsum (S:=QcSR) (ProductProofs.words_le [7; 8]%nat 3) (fun xs => Wfsa.pathsum (RegexLangProofs.re_wfsa [7; 8]%nat RegexLangProofs.exD) xs) = Q2Qc (7 # 8) /\
  forall n, (bsum (S:=QcSR) (ProductProofs.words_le [7; 8]%nat n) (fun xs => Wfsa.pathsum (RegexLangProofs.re_wfsa [7; 8]%nat RegexLangProofs.exD) xs) <= 1)%Qc.
Proof. split; [exact SubProbProofs.exD_total_3|exact SubProbProofs.exD_subprobability]. Qed.
Print Assumptions C18_subprobability_nonvacuous.
