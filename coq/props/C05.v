(* Property C05: incremental parsing is history-independent; queries are pure.
   The memo table of Earley.chart / IncrementalCKY.chart (a cache from prefixes to charts, filled
   recursively through x[:-1], cleared by clear_cache) is modelled as a state machine over immutable
   column values; proofs in proofs/CacheProofs.v.  Statements only. *)
From Coq Require Import List Arith.
From GV.model Require Import Cache.
From GV.proofs Require Import CacheProofs.
Import ListNotations.

(* For EVERY history of queries and cache clears, starting from any consistent cache (in particular
   the empty one), every answer equals the answer a brand-new object gives to that query alone, and
   the cache stays consistent (every cached chart is the chart of its prefix). *)
Theorem C05_history_independent : forall (col : Type) (init : col) (next : list col -> nat -> col)
    (out : Type) (answer : list col -> list nat -> out) (ops : list op) (m : cache col),
  cache_ok init next m ->
  snd (run init next answer m ops) = map (fresh_answer init next answer) ops /\
  cache_ok init next (fst (run init next answer m ops)).
Proof. intros; apply run_history_independent; assumption. Qed.
Print Assumptions C05_history_independent.

Theorem C05_from_fresh_object : forall (col : Type) (init : col) (next : list col -> nat -> col)
    (out : Type) (answer : list col -> list nat -> out) (ops : list op),
  snd (run init next answer [] ops) = map (fresh_answer init next answer) ops.
Proof. intros; apply run_from_empty. Qed.
Print Assumptions C05_from_fresh_object.

(* the answers to the rest of a history do not depend on what was asked before *)
Theorem C05_suffix_independent : forall (col : Type) (init : col) (next : list col -> nat -> col)
    (out : Type) (answer : list col -> list nat -> out) (ops1 ops2 : list op),
  snd (run init next answer [] (ops1 ++ ops2)) =
  map (fresh_answer init next answer) ops1 ++ map (fresh_answer init next answer) ops2.
Proof. intros. rewrite run_from_empty, map_app. reflexivity. Qed.
Print Assumptions C05_suffix_independent.

(* non-vacuity: a concrete history with a re-query, a sibling prefix and a clear *)
Example C05_history_example :
  snd (run (col:=nat) 0 (fun c a => length c + a) (fun c r => (length c, r))
           [] [Query [1; 0]; Query [0]; Query [2; 0]; Clear; Query [1; 0]])
  = [Some (3, [1; 0]); Some (2, [0]); Some (3, [2; 0]); None; Some (3, [1; 0])].
Proof. vm_compute. reflexivity. Qed.
Print Assumptions C05_history_example.
