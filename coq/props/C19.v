(* Property C19: character- and byte-level grammars built from Lark grammars.
   lark's grammar loading is not modelled.  Proved here: the assembly principle of _char_cfg -- the
   result is the union of the rule grammar and one grammar per terminal, with names chosen apart --
   keeps every component's weights (other components' rules are invisible), and each terminal's
   grammar generates exactly its automaton's language (C17).  Acceptance of the assembled grammars is
   decided by the correspondence run against the substitution semantics.  Statements only. *)
From Coq Require Import List Arith.
From GV.lib Require Import Semiring BigSum.
From GV.model Require Import Cfg Wfsa WfsaEps.
From GV.proofs Require Import UnionProofs ConvertProofs.
Import ListNotations.

(* In G1 ++ G2, if no rule of G2 has as head a nonterminal occurring in G1, every nonterminal of G1 has
   exactly the weights it has in G1 alone (and symmetrically): merging per-terminal grammars whose
   names do not collide never changes what each of them generates. *)
Theorem C19_union_keeps_components : forall (S : SR) (G1 G2 : grammar S),
  ((forall r, In r G2 -> forall X, (exists r1, In r1 G1 /\ (rhead r1 = X \/ In (N X) (rbody r1))) -> rhead r <> X) ->
   forall h X xs, (exists r1, In r1 G1 /\ (rhead r1 = X \/ In (N X) (rbody r1))) -> W (G1 ++ G2) h X xs = W G1 h X xs) /\
  ((forall r, In r G1 -> forall X, (exists r2, In r2 G2 /\ (rhead r2 = X \/ In (N X) (rbody r2))) -> rhead r <> X) ->
   forall h X xs, (exists r2, In r2 G2 /\ (rhead r2 = X \/ In (N X) (rbody r2))) -> W (G1 ++ G2) h X xs = W G2 h X xs).
Proof. intros S G1 G2; split; intros; [eapply union_component|eapply union_component_r]; eassumption. Qed.
Print Assumptions C19_union_keeps_components.

(* each terminal's grammar (to_cfg of its automaton) has the automaton's path sums *)
Theorem C19_terminal_grammar : forall (S : SR) (m : wfsa S) (s0 : nat) (nt : nat -> nat) (f : nat) (xs : list nat),
  (forall p p', nt p = nt p' -> p = p') -> (forall p, nt p <> s0) ->
  W (to_cfg_right s0 nt m) (Datatypes.S (Datatypes.S f)) s0 xs = pathsum_e m f xs.
Proof. intros; apply to_cfg_right_start; assumption. Qed.
Print Assumptions C19_terminal_grammar.

(* The assembly of _char_cfg as a substitution: the token-level grammar Gtop (its terminals are token
   names), every token t replaced by the start symbol st t of its component grammar, plus the component
   grammars Gcomp, names chosen apart.  If g solves the components (no token matches the empty string)
   and f solves Gtop over token strings, then the valuation
      Z |-> sum over token strings tau of f Z tau * (weight of segmenting xs into matches of tau)
   solves the assembled grammar: the assembled grammar has the substitution semantics, for every
   commutative semiring and also for cyclic grammars. *)
From GV.proofs Require FoldProofs SubstProofs ProductProofs.
Theorem C19_substitution_semantics : forall (S : SR) (Gtop Gcomp : grammar S) (st : nat -> nat) (toks : list nat)
    (g f : nat -> list nat -> S),
  NoDup toks ->
  (forall r rc, In r Gtop -> In rc Gcomp -> rhead rc <> rhead r) ->
  (forall r rc Y, In r Gtop -> In (N Y) (rbody r) -> In rc Gcomp -> rhead rc <> Y) ->
  (forall r t, In r Gtop -> In t toks -> rhead r <> st t) ->
  (forall r t, In r Gtop -> In (T t) (rbody r) -> In t toks) ->
  (forall r rc Y, In r Gtop -> In rc Gcomp -> In (N Y) (rbody rc) -> rhead r <> Y) ->
  FoldProofs.solves S Gcomp g -> FoldProofs.solves S Gtop f ->
  (forall t, In t toks -> g (st t) [] = s0) ->
  FoldProofs.solves S (SubstProofs.assembled S Gtop Gcomp st) (SubstProofs.Fsub S Gcomp st toks g f) /\
  (forall Z xs, (exists r, In r Gtop /\ rhead r = Z) ->
     SubstProofs.Fsub S Gcomp st toks g f Z xs =
     bsum (ProductProofs.words_le toks (length xs)) (fun tau => smul (f Z tau) (SubstProofs.seg S (SubstProofs.Ltok S st g) tau xs))).
Proof.
  intros S Gtop Gcomp st toks g f Hnd H1a H1b H2 H3 H6 Hg Hf H5. split.
  - exact (SubstProofs.subst_solves S Gtop Gcomp st toks g f Hnd H1a H1b H2 H3 H6 Hg Hf H5).
  - intros Z xs HZ. exact (SubstProofs.subst_top_value S Gtop Gcomp st toks g f H1a Z xs HZ).
Qed.
Print Assumptions C19_substitution_semantics.
