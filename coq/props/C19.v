(* Property C19: character- and byte-level grammars built from Lark grammars.
   lark's grammar loading is not modelled.  Proved here: the assembly principle of _char_cfg -- the
   result is the union of the rule grammar and one grammar per terminal, with names chosen apart --
   keeps every component's weights (other components' rules are invisible), and each terminal's
   grammar generates exactly its automaton's language (C17).  Acceptance of the assembled grammars is
   decided by the correspondence run against the substitution semantics.  Statements only. *)
From Coq Require Import List Arith.
From GV.lib Require Import Semiring BigSum.
From GV.model Require Import Cfg Wfsa WfsaEps.
From GV.proofs Require Import UnionProofs ConvertProofs.
Import ListNotations.

(* In G1 ++ G2, if no rule of G2 has as head a nonterminal occurring in G1, every nonterminal of G1 has
   exactly the weights it has in G1 alone (and symmetrically): merging per-terminal grammars whose
   names do not collide never changes what each of them generates. *)
Theorem C19_union_keeps_components : forall (S : SR) (G1 G2 : grammar S),
  ((forall r, In r G2 -> forall X, (exists r1, In r1 G1 /\ (rhead r1 = X \/ In (N X) (rbody r1))) -> rhead r <> X) ->
   forall h X xs, (exists r1, In r1 G1 /\ (rhead r1 = X \/ In (N X) (rbody r1))) -> W (G1 ++ G2) h X xs = W G1 h X xs) /\
  ((forall r, In r G1 -> forall X, (exists r2, In r2 G2 /\ (rhead r2 = X \/ In (N X) (rbody r2))) -> rhead r <> X) ->
   forall h X xs, (exists r2, In r2 G2 /\ (rhead r2 = X \/ In (N X) (rbody r2))) -> W (G1 ++ G2) h X xs = W G2 h X xs).
Proof. intros S G1 G2; split; intros; [eapply union_component|eapply union_component_r]; eassumption. Qed.
Print Assumptions C19_union_keeps_components.

(* each terminal's grammar (to_cfg of its automaton) has the automaton's path sums *)
Theorem C19_terminal_grammar : forall (S : SR) (m : wfsa S) (s0 : nat) (nt : nat -> nat) (f : nat) (xs : list nat),
  (forall p p', nt p = nt p' -> p = p') -> (forall p, nt p <> s0) ->
  W (to_cfg_right s0 nt m) (Datatypes.S (Datatypes.S f)) s0 xs = pathsum_e m f xs.
Proof. intros; apply to_cfg_right_start; assumption. Qed.
Print Assumptions C19_terminal_grammar.
