(* Property C17: automaton-to-grammar and byte-level conversions preserve weights.
   Statements only; proofs in proofs/ConvertProofs.v.  to_bytes is decided by the correspondence run. *)
From Coq Require Import List Arith.
From GV.lib Require Import Semiring BigSum.
From GV.model Require Import Cfg Wfsa WfsaEps.
From GV.gen Require Import Gen_ToCfg.
From GV.proofs Require Import ConvertProofs GenToCfgBridge.
Import ListNotations.

(* Right-recursive conversion, with state names kept apart from the start symbol and (by type) from
   the terminals: derivation trees of height f+1 from the nonterminal of state q correspond exactly to
   the paths with at most f arcs from q (epsilon arcs included), with the same weight; from the start
   symbol one more level gives the automaton's path sum.  Any commutative semiring, any automaton
   (several initial/final states, parallel arcs, epsilon arcs and cycles). *)
Theorem C17_to_cfg_right : forall (S : SR) (m : wfsa S) (s0 : nat) (nt : nat -> nat) (f : nat) (xs : list nat),
  (forall p p', nt p = nt p' -> p = p') -> (forall p, nt p <> s0) ->
  (forall q, W (to_cfg_right s0 nt m) (Datatypes.S f) (nt q) xs = pwe m f q xs) /\
  W (to_cfg_right s0 nt m) (Datatypes.S (Datatypes.S f)) s0 xs = pathsum_e m f xs.
Proof. intros; split; [intros; apply to_cfg_right_state|apply to_cfg_right_start]; assumption. Qed.
Print Assumptions C17_to_cfg_right.

(* Left-recursive conversion: the same with paths read backwards from the final states. *)
Theorem C17_to_cfg_left : forall (S : SR) (m : wfsa S) (s0 : nat) (nt : nat -> nat) (f : nat) (xs : list nat),
  (forall p p', nt p = nt p' -> p = p') -> (forall p, nt p <> s0) ->
  (forall q, W (to_cfg_left s0 nt m) (Datatypes.S f) (nt q) xs = pwb m f q (rev xs)) /\
  W (to_cfg_left s0 nt m) (Datatypes.S (Datatypes.S f)) s0 xs = pathsum_b m f xs /\
  (forall q rxs, pwb m f q rxs = pwe (wreverse m) f q rxs).
Proof.
  intros; split; [intros; apply to_cfg_left_state; assumption|].
  split; [apply to_cfg_left_start; assumption|intros; apply pwb_reverse].
Qed.
Print Assumptions C17_to_cfg_left.

(* Byte-level conversion of an automaton (WFSA.to_bytes, with chain states that belong to one arc
   each): every byte string gets the total weight of the symbol strings whose encoding it is -- in
   particular zero if it is not an encoding (e.g. a truncated multi-byte character). *)
From GV.model Require Import Bytes.
From GV.proofs Require Import BytesProofs.
Theorem C17_to_bytes : forall (S : SR) (enc : nat -> list nat) (fresh : nat -> nat -> nat) (m : wfsa S) (V : list nat) (bs : list nat) (fuel : nat),
  NoDup V ->
  (forall ar, In ar (warcs m) -> exists a, albl ar = Some a /\ In a V) ->
  (forall a, In a V -> enc a <> []) ->
  (forall k i k' i', fresh k i = fresh k' i' -> k = k' /\ i = i') ->
  (forall k i q, fresh k i = q -> ~ (In q (map fst (winit m)) \/ In q (map fst (wfinal m)) \/ exists ar, In ar (warcs m) /\ (asrc ar = q \/ adst ar = q))) ->
  length bs <= fuel ->
  pathsum (to_bytes enc fresh m) bs = bsum (decodings enc V fuel bs) (fun xs => pathsum m xs).
Proof. intros; apply to_bytes_pathsum; assumption. Qed.
Print Assumptions C17_to_bytes.

(* WFSA.to_cfg as regenerated from wfsa/base.py on every run is the model the two theorems above are about. *)
Theorem C17_code_to_cfg_is_model : forall (S : SR) (s0 : nat) (nt : nat -> nat) (m : wfsa S),
  gen_to_cfg_right S s0 nt m = to_cfg_right s0 nt m /\ gen_to_cfg_left S s0 nt m = to_cfg_left s0 nt m.
Proof. intros; split; [apply gen_to_cfg_right_model|apply gen_to_cfg_left_model]. Qed.
Print Assumptions C17_code_to_cfg_is_model.

(* Byte-level conversion of a grammar (CFG.to_bytes, regenerated from cfg.py on every run: every terminal of a rule
   body is replaced by the bytes of its encoding): for every grammar over every commutative semiring, every
   nonterminal, every height and every byte string, the byte-level grammar gives the byte string the total weight of
   the symbol strings whose encoding it is -- each decoding once -- and zero when it is not an encoding (e.g. a
   truncated multi-byte character).  Any code with non-empty code words (UTF-8 in the code). *)
From GV.model Require Import Cfg.
From GV.gen Require Gen_CfgBytes.
From GV.proofs Require CfgBytesProofs GenCfgBytesBridge.
Theorem C17_cfg_to_bytes : forall (S : SR) (enc : nat -> list nat) (V : list nat), NoDup V -> (forall a, In a V -> enc a <> []) ->
  forall (G : grammar S), (forall (r : rule S) a, In r G -> In (T a) (rbody r) -> In a V) ->
  forall h X bs fuel, length bs <= fuel ->
  W (Gen_CfgBytes.gen_cfg_to_bytes S enc G) h X bs = bsum (decodings enc V fuel bs) (fun xs => W G h X xs) /\
  (decodings enc V fuel bs = [] -> W (Gen_CfgBytes.gen_cfg_to_bytes S enc G) h X bs = s0).
Proof.
  intros S enc V HV He G HG h X bs fuel Hf. rewrite GenCfgBytesBridge.gen_cfg_to_bytes_model. split.
  - exact (CfgBytesProofs.cfg_to_bytes_W S enc V HV He G HG h X bs fuel Hf).
  - intros Hd. exact (CfgBytesProofs.cfg_to_bytes_W_undecodable S enc V HV He G HG h X bs fuel Hf Hd).
Qed.
Print Assumptions C17_cfg_to_bytes.
