(* Property C11: automaton string weight is the sum over accepting paths.
   Statements only; proofs in proofs/WfsaProofs.v, EpsRemove.v, LehmannProof.v, ClosureExtra.v. *)
From Coq Require Import List Arith.
From GV.lib Require Import Semiring BigSum.
From GV.model Require Import Linear Wfsa WfsaEps EpsSpec.
From GV.gen Require Import Gen_Wfsa.
From GV.proofs Require Import WfsaProofs LehmannProof ClosureExtra EpsRemove GenWfsaBridge.
Import ListNotations.

(* the forward pass of WFSA.__call__ on an epsilon-free machine is the sum over all accepting
   paths (initial weight x arc weights x final weight), any commutative semiring *)
Theorem C11_forward_is_path_sum : forall (S : SR) (m : wfsa S) (xs : list nat),
  weight m xs = pathsum m xs /\ pathsum m xs = bsum (apaths m xs) apath_weight.
Proof. intros; split; [apply forward_pathsum|apply pathsum_paths]. Qed.
Print Assumptions C11_forward_is_path_sum.

(* epsilon removal: no epsilon arcs remain, and the result computes alpha K A_x1 K ... A_xn K omega
   for whatever table K it is given (the closure is applied to the start vector and after every arc) *)
Theorem C11_epsremove_shape : forall (S : StarSR) (K : mat S) (m : wfsa S),
  (forall ar, In ar (warcs (epsremove_with K m)) -> albl ar <> None) /\
  (forall xs, weight (epsremove_with K m) xs = matrix_form K (states_of m) m xs).
Proof. intros; split; [apply epsremove_eps_free|intros; apply epsremove_matrix_form]. Qed.
Print Assumptions C11_epsremove_shape.

(* Main theorem: for an epsilon-acyclic automaton, m(xs) as computed by the library (Lehmann closure
   of the epsilon graph, epsilon removal, forward pass) is the sum over ALL accepting paths of m that
   spell xs, epsilon arcs included -- over every star semiring on which the closure is defined. *)
Theorem C11_call_is_path_sum : forall (S : StarSR) (m : wfsa S) (d : nat) (xs : list nat) (fuel : nat),
  defined S (states_of m) (eps_mat m) ->
  (forall i k, In i (states_of m) -> In k (states_of m) -> fpow S (states_of m) (epsf m) d i k = s0) ->
  (length xs + 1) * d + length xs <= fuel ->
  call m xs = pathsum_e m fuel xs.
Proof.
  intros S m d xs fuel Hdef Hnil Hfuel. unfold call, epsremove.
  apply epsremove_acyclic_paths with (d := d); [|exact Hnil|exact Hfuel].
  intros i k Hi Hk.
  assert (Hnd : NoDup (states_of m)) by (unfold states_of; apply NoDup_nodup).
  rewrite (lehmann_fixpoint_l S (states_of m) (eps_mat m) Hnd Hdef i k Hi Hk).
  f_equal. apply bsum_ext. intros j Hj. f_equal.
  unfold eps_mat. rewrite mget_tabulate by assumption. reflexivity.
Qed.
Print Assumptions C11_call_is_path_sum.

(* general (cyclic) case: the closure table computed by Lehmann's elimination satisfies
   K = I + E K = I + K E, the algebraic characterisation of "sum over all epsilon paths" *)
Theorem C11_closure_fixpoint : forall (S : StarSR) (nodes : list nat) (A : mat S),
  NoDup nodes -> defined S nodes A -> forall i k, In i nodes -> In k nodes ->
  mget (lehmann nodes A) i k = sadd (fid i k) (bsum nodes (fun j => smul (mget A i j) (mget (lehmann nodes A) j k))) /\
  mget (lehmann nodes A) i k = sadd (fid i k) (bsum nodes (fun j => smul (mget (lehmann nodes A) i j) (mget A j k))).
Proof. intros; split; [apply lehmann_fixpoint_l|apply lehmann_fixpoint_r]; assumption. Qed.
Print Assumptions C11_closure_fixpoint.

(* WFSA.epsremove as regenerated from wfsa/base.py (with the closure table K of the epsilon graph)
   is the model's epsremove_with. *)
Theorem C11_code_epsremove_is_model : forall (S : StarSR) (K : mat S) (m : wfsa S),
  gen_epsremove_with S K (states_of m) m = epsremove_with K m.
Proof. intros; apply gen_epsremove_model. Qed.
Print Assumptions C11_code_epsremove_is_model.

(* Automata with epsilon CYCLES: the sum over all paths is infinite, but in every star semiring the values
   the library computes (closure table K of the epsilon graph, K = I + E K, which Lehmann's elimination is
   proved to return whenever its pivot stars are defined) satisfy the PATH EQUATIONS of the automaton:
   from a state one either stops / reads the next symbol on a real arc, or first takes an epsilon arc. *)
From GV.proofs Require EpsEquations.
Theorem C11_path_equations : forall (S : StarSR) (m : wfsa S),
  LehmannProof.defined S (states_of m) (eps_mat m) ->
  let st := states_of m in
  let K := lehmann st (eps_mat m) in
  let v := EpsEquations.val K m in
  (forall xs, call m xs = bsum (winit m) (fun e => smul (snd e) (v (fst e) xs))) /\
  (forall q, In q st -> v q [] = sadd (wget (wfinal m) q) (bsum st (fun j => smul (epsf m q j) (v j [])))) /\
  (forall q a xs, In q st ->
     v q (a :: xs) = sadd (bsum (warcs m) (fun ar => if andb (Nat.eqb (asrc ar) q) (lbl_eqb (albl ar) a)
                                                   then smul (awt ar) (v (adst ar) xs) else s0))
                          (bsum st (fun j => smul (epsf m q j) (v j (a :: xs))))).
Proof. intros S m Hd. exact (EpsEquations.call_path_equations S m Hd). Qed.
Print Assumptions C11_path_equations.

(* Total weight.  The library computes the total weight of an automaton as sum_i start[i] * b[i] with b the backward
   vector, a solution of b = F + A b (A = arc-weight matrix, F = final weights; the block solvers are proved to
   return a solution in C15).  For an epsilon-free automaton whose arc graph is acyclic (every product of N
   consecutive arc weights vanishes) that system has exactly one solution -- the sums over accepting paths by
   number of arcs -- and the total equals the sum of the weights of ALL strings, every accepting path once
   (any commutative semiring; proofs/TotalWeightProofs.v). *)
From GV.proofs Require ProductProofs TotalWeightProofs.
Theorem C11_total_weight : forall (S : SR) (V Q : list nat) (m : wfsa S) (N : nat) (b : nat -> S),
  NoDup V -> NoDup Q ->
  (forall ar, In ar (warcs m) -> exists a, albl ar = Some a /\ In a V) ->
  (forall ar, In ar (warcs m) -> In (adst ar) Q) -> (forall e, In e (winit m) -> In (fst e) Q) ->
  TotalWeightProofs.nilpotent m Q (Datatypes.S N) ->
  (forall q, In q Q -> b q = sadd (wget (wfinal m) q) (bsum Q (fun j => smul (TotalWeightProofs.arcw m q j) (b j)))) ->
  bsum (winit m) (fun e => smul (snd e) (b (fst e))) = bsum (ProductProofs.words_le V N) (fun xs => pathsum m xs) /\
  (forall q, In q Q -> b q = bsum (seq 0 (Datatypes.S N)) (fun n => TotalWeightProofs.paths_n m Q n q)).
Proof.
  intros S V Q m N b HV HQ Hl Hd Hi Hn Hb. split.
  - exact (TotalWeightProofs.total_weight_is_string_sum_le S V Q m N b HV HQ Hl Hd Hi Hn Hb).
  - intros q Hq. exact (TotalWeightProofs.backward_is_path_sum S Q m (Datatypes.S N) b Hn Hb q Hq).
Qed.
Print Assumptions C11_total_weight.
