(* Property C14: the real-weighted equivalence test is exact (sound and complete).
   Statements only; proofs in proofs/TzengProofs.v about the model of Simple.counterexample
   (model/Tzeng.v) over an exact field.  numpy's float thresholds, pinv and the conjugations of min
   are not modelled: min is decided by the exact Hankel-rank oracle in the correspondence run. *)
From Coq Require Import List Arith QArith Qcanon.
From GV.lib Require Import Semiring BigSum.
From GV.model Require Import Tzeng.
From GV.proofs Require Import TzengProofs.
Import ListNotations.

(* d = [start_A, -start_B], eta = [stop_A; stop_B], M a = diag(A_a, B_a): d . (M_w eta) = A(w) - B(w). *)

(* soundness: a returned counterexample is a word over the alphabet on which the two automata really
   differ, and the reported value is exactly the difference of their weights *)
Theorem C14_counterexample_sound : forall (F : FR) (idx : list nat) (M : nat -> nat -> nat -> F)
    (d eta : nat -> F) (alphabet : list nat) (fuel : nat) (w : list nat) (v : F),
  counterexample idx M d eta alphabet fuel = Some (Some (w, v)) ->
  v = dot idx d (act idx M w eta) /\ v <> s0 /\ (forall a, In a w -> In a alphabet).
Proof.
  intros F idx M d eta alphabet fuel w v H.
  destruct (cex_sound F idx M d eta alphabet fuel w v H) as [H1 H2].
  split; [exact H1|split; [exact H2|exact (cex_word_over_alphabet F idx M d eta alphabet fuel w v H)]].
Qed.
Print Assumptions C14_counterexample_sound.

(* completeness: if the search reports no counterexample (and did not run out of fuel), the automata
   assign equal weights to EVERY word over the alphabet *)
Theorem C14_none_means_equivalent : forall (F : FR) (idx : list nat) (M : nat -> nat -> nat -> F)
    (d eta : nat -> F) (alphabet : list nat) (fuel : nat),
  counterexample idx M d eta alphabet fuel = Some None ->
  forall w, (forall a, In a w -> In a alphabet) -> dot idx d (act idx M w eta) = s0.
Proof. intros; eapply none_complete; eassumption. Qed.
Print Assumptions C14_none_means_equivalent.

(* over the rationals (the instance executed in the correspondence run) the basis built by the search
   stays orthogonal with non-zero members (Gram-Schmidt), which bounds its size by the dimension *)
Theorem C14_rational_instance : forall (idx : list nat) (M : nat -> nat -> nat -> Qc) (d eta : nat -> Qc)
    (alphabet : list nat) (fuel : nat),
  (forall w v, counterexample (F:=QcFR) idx M d eta alphabet fuel = Some (Some (w, v)) ->
     v = dot (F:=QcFR) idx d (act (F:=QcFR) idx M w eta) /\ v <> 0%Qc) /\
  (counterexample (F:=QcFR) idx M d eta alphabet fuel = Some None ->
     forall w, (forall a, In a w -> In a alphabet) -> dot (F:=QcFR) idx d (act (F:=QcFR) idx M w eta) = 0%Qc).
Proof.
  intros idx M d eta alphabet fuel. split.
  - intros w v H. exact (Qc_cex_sound idx M d eta alphabet fuel w v H).
  - intros H w Hw. exact (Qc_none_complete idx M d eta alphabet fuel H w Hw).
Qed.
Print Assumptions C14_rational_instance.

(* Minimisation (Simple.min = forward conjugate, then backward conjugate), in matrix form over any
   commutative semiring (model/Conjugate.v): a matrix F that intertwines two automata (alpha = alpha' F,
   F M_a = M'_a F, omega' = F omega) makes them equivalent on every word; likewise backwards; hence the
   automaton returned by min is equivalent to its input whenever the two change-of-basis matrices satisfy
   the intertwining identities the code relies on.  The concrete conjugate (start P, F M P, F stop) with
   F P F = F, alpha in the row space of F and the row space closed under every M_a satisfies them. *)
From GV.model Require Import Conjugate.
From GV.proofs Require ConjugateProofs.
Theorem C14_conjugates_are_equivalent : forall (S : SR) (F G : nat -> nat -> S) (A B C : mauto S),
  intertwines F A B -> intertwines_back G B C -> forall w, mweight A w = mweight C w.
Proof. intros; eapply ConjugateProofs.min_equivalent; eassumption. Qed.
Print Assumptions C14_conjugates_are_equivalent.

Theorem C14_forward_conjugate : forall (S : SR) (A : mauto S) (dimB : list nat) (F P : nat -> nat -> S)
    (c : nat -> S) (Nm : nat -> nat -> nat -> S),
  ConjugateProofs.FPF S A dimB F P ->
  (forall j, In j (dim A) -> mstart A j = bsum dimB (fun i => smul (c i) (F i j))) ->
  (forall a i j, In i dimB -> In j (dim A) ->
     bsum (dim A) (fun k => smul (F i k) (marc A a k j)) = bsum dimB (fun n => smul (Nm a i n) (F n j))) ->
  forall w, mweight A w = mweight (conj dimB F P A) w.
Proof. intros; eapply ConjugateProofs.conj_equivalent_pinv; eassumption. Qed.
Print Assumptions C14_forward_conjugate.
