(* Property C07: normal forms satisfy their structural postconditions.
   (a) for EVERY grammar, the models of the transformations (model/Transform2.v) produce the promised
       shapes, and the CNF pipeline ends in Chomsky normal form;
   (b) the checkers that the correspondence run evaluates on every output of the implementation are
       sound and complete for the predicates they stand for.
   (c) the modelled trim() returns only useful symbols and is idempotent, for every grammar.
   Statements only; proofs in proofs/ShapeProofs.v, UsefulProofs.v, TrimProofs.v, TrimUsefulProofs.v. *)
From Coq Require Import List Arith Relations.
From GV.lib Require Import Semiring BigSum.
From GV.model Require Import Cfg Transform Cky Transform2 Useful.
From GV.proofs Require Import TrimProofs ShapeProofs UsefulProofs.
Import ListNotations.

Theorem C07_transform_shapes : forall (S : SR) (G : grammar S),
  (forall fresh, arity_le2 (binarize fresh G) = true) /\
  (forall pt, terminals_separated (separate_terminals pt G) = true) /\
  (forall nullw nn s, no_nullary_except s (push_null_weights nullw nn s G) = true) /\
  (forall K nts, no_unary (unaryremove K nts G) = true) /\
  (forall s' s, (forall r, In r G -> ~ In (N s') (rbody r)) -> s' <> s ->
     start_not_on_rhs (fst (separate_start s' s G)) (snd (separate_start s' s G)) = true).
Proof.
  intros S G. repeat apply conj; intros.
  - apply binarize_arity. - apply separate_terminals_shape. - apply push_null_no_nullary.
  - apply unaryremove_no_unary. - apply separate_start_shape; assumption.
Qed.
Print Assumptions C07_transform_shapes.

(* cnf = separate_terminals . binarize . separate_start . push_null_weights . trim . unaryremove . trim
   (the trims only drop rules): the result is in Chomsky normal form, so `assert new.in_cnf()` holds. *)
Theorem C07_cnf_pipeline : forall (S : SR) (G : grammar S) (pt : nat -> nat) (fresh s' s : nat)
    (nullw : nat -> S) (nn : nat -> nat) (K : nat -> nat -> S) (nts : list nat) (G5 : grammar S),
  let G1 := separate_terminals pt G in
  let G2 := binarize fresh G1 in
  let s2 := fst (separate_start s' s G2) in
  let G3 := snd (separate_start s' s G2) in
  let G4 := push_null_weights nullw nn s2 G3 in
  (forall r, In r G2 -> ~ In (N s') (rbody r)) -> s' <> s ->
  (forall x, nn x <> s2) -> (forall Y, Y <> s2 -> K Y s2 = s0) ->
  (forall r, In r G5 -> exists G4', (forall r', In r' G4' -> In r' G4) /\ In r (unaryremove K nts G4')) ->
  in_cnf s2 G5 = true.
Proof. intros; eapply cnf_pipeline_shape; eassumption. Qed.
Print Assumptions C07_cnf_pipeline.

(* checkers = predicates *)
Theorem C07_checkers_sound_complete : forall (S : SR) (s : nat) (G : grammar S),
  (in_cnf s G = true <->
     forall r, In r G -> (rbody r = [] /\ rhead r = s) \/ (exists a, rbody r = [T a]) \/
                         (exists y z, rbody r = [N y; N z] /\ y <> s /\ z <> s)) /\
  (arity_le2 G = true <-> forall r, In r G -> length (rbody r) <= 2) /\
  (no_unary G = true <-> forall r y, In r G -> rbody r <> [N y]) /\
  (no_nullary_except s G = true <-> forall r, In r G -> rbody r = [] -> rhead r = s) /\
  (start_not_on_rhs s G = true <-> forall r, In r G -> ~ In (N s) (rbody r)) /\
  (all_useful s G = true <->
     forall r, In r G -> (productive G (rhead r) /\ reach S G s (rhead r)) /\
                         (forall x, In (N x) (rbody r) -> productive G x /\ reach S G s x)) /\
  (unary_cyclic G = true <-> exists X, clos_trans nat (uedge S G) X X).
Proof.
  intros S s G.
  exact (conj (in_cnf_spec S s G) (conj (arity_le2_spec S G) (conj (no_unary_spec S G) (conj (no_nullary_except_spec S s G)
        (conj (start_not_on_rhs_spec S s G) (conj (all_useful_spec S s G) (unary_cyclic_spec S G))))))).
Qed.
Print Assumptions C07_checkers_sound_complete.

(* a trimmed grammar with a non-generating start symbol has no rules *)
Theorem C07_useful_empty_language : forall (S : SR) (s : nat) (G : grammar S),
  all_useful s G = true -> ~ productive G s -> G = [].
Proof.
  intros S s G Hu Hn. destruct G as [|r G']; [reflexivity|exfalso].
  pose proof (proj1 (all_useful_spec S s (r :: G')) Hu) as H.
  assert (Hr : forall X, reach S (r :: G') s X -> X = s \/ productive (r :: G') s).
  { intros X HX. induction HX as [|r0 y Hin Hre IH Hy].
    - left; reflexivity.
    - right. destruct IH as [E|P]; [|exact P]. rewrite <- E. exact (proj1 (proj1 (H r0 Hin))). }
  destruct (H r (or_introl eq_refl)) as [[Hp Hre] _].
  destruct (Hr _ Hre) as [E|P]; [rewrite E in Hp; exact (Hn Hp)|exact (Hn P)].
Qed.
Print Assumptions C07_useful_empty_language.

Example C07_nonvacuous :
  in_cnf 0 [((true : BoolSR), 0, []); (true, 0, [N 1; N 1]); (true, 1, [T 0])] = true /\
  all_useful 0 [((true : BoolSR), 0, [N 1; N 1]); (true, 1, [T 0])] = true /\
  all_useful 0 [((true : BoolSR), 0, [T 0; N 0; T 0])] = false /\
  unary_cyclic [((true : BoolSR), 0, [N 1]); (true, 1, [N 0])] = true.
Proof. vm_compute. repeat split. Qed.
Print Assumptions C07_nonvacuous.

(* trim(): for EVERY grammar and start symbol the modelled trim (model/TopDown.v; its rule list is compared with the
   implementation's on every run, and it is proved weight-preserving in C06) returns a grammar all of whose symbols
   are useful in the result -- every head and every body nonterminal is productive in the trimmed grammar and
   reachable from the start symbol in the trimmed grammar; an already trimmed grammar is returned unchanged (same
   rules, order and weights), so trimming is idempotent. *)
From GV.model Require TopDown.
From GV.proofs Require TopDownTrimProofs TrimUsefulProofs.
Theorem C07_trim_all_useful : forall (S : SR) (s : nat) (G : grammar S),
  all_useful s (TopDown.trim_model s G) = true /\
  (all_useful s G = true -> TopDown.trim_model s G = G) /\
  TopDown.trim_model s (TopDown.trim_model s G) = TopDown.trim_model s G.
Proof.
  intros S s G.
  split; [exact (TrimUsefulProofs.trim_model_all_useful S s G)|].
  split; [exact (TrimUsefulProofs.all_useful_trim_fixed S s G)|exact (TrimUsefulProofs.trim_model_idempotent S s G)].
Qed.
Print Assumptions C07_trim_all_useful.

Example C07_trim_nonvacuous :
  all_useful 0 (TopDown.trim_model 0 TopDownTrimProofs.td_ex_G) = true /\
  all_useful 0 TopDownTrimProofs.td_ex_G = false /\
  length (TopDown.trim_model 0 TopDownTrimProofs.td_ex_G) = 3.
Proof. vm_compute. repeat split. Qed.
Print Assumptions C07_trim_nonvacuous.

(* what the rule-list comparison of the correspondence run decides *)
From GV.proofs Require CompareSpecs.
Theorem C07_rule_list_comparison : forall (S : SR) (G1 G2 : grammar S),
  TopDown.shape_eqb G1 G2 = true <-> map (fun r => (rhead r, rbody r)) G1 = map (fun r => (rhead r, rbody r)) G2.
Proof. intros S G1 G2. exact (CompareSpecs.shape_eqb_spec S G1 G2). Qed.
Print Assumptions C07_rule_list_comparison.
