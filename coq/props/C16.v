(* Property C16: shipped weight types obey the closed-semiring laws.
   Statements only; proofs are in proofs/C16_laws.v and proofs/C16_log.v and are
   about the definitions regenerated from genlm/grammar/semiring.py on every run. *)
From Coq Require Import Reals Lra Bool.
From GV.lib Require Import NumDialect.
From GV.gen Require Import Gen_Semiring.
From GV.proofs Require Import C16_laws C16_log.
Import RD.
Local Open Scope R_scope.
Theorem C16_Boolean_semiring :
  (forall a b c, RR.Boolean.add a (RR.Boolean.add b c) = RR.Boolean.add (RR.Boolean.add a b) c) /\
  (forall a b, RR.Boolean.add a b = RR.Boolean.add b a) /\
  (forall a, RR.Boolean.add RR.Boolean.zero a = a) /\
  (forall a b c, RR.Boolean.mul a (RR.Boolean.mul b c) = RR.Boolean.mul (RR.Boolean.mul a b) c) /\
  (forall a b, RR.Boolean.mul a b = RR.Boolean.mul b a) /\
  (forall a, RR.Boolean.mul RR.Boolean.one a = a) /\
  (forall a, RR.Boolean.mul RR.Boolean.zero a = RR.Boolean.zero) /\
  (forall a b c, RR.Boolean.mul a (RR.Boolean.add b c) = RR.Boolean.add (RR.Boolean.mul a b) (RR.Boolean.mul a c)) /\
  (forall a b c, RR.Boolean.mul (RR.Boolean.add b c) a = RR.Boolean.add (RR.Boolean.mul b a) (RR.Boolean.mul c a)).
Proof.
  repeat apply conj; intros;
  [ apply BooleanLaws.add_assoc | apply BooleanLaws.add_comm | apply BooleanLaws.add_0_l | apply BooleanLaws.mul_assoc | apply BooleanLaws.mul_comm
  | apply BooleanLaws.mul_1_l | apply BooleanLaws.mul_0_l | apply BooleanLaws.distr_l | apply BooleanLaws.distr_r ]; assumption.
Qed.
Print Assumptions C16_Boolean_semiring.
Theorem C16_Boolean_star : forall a, 
  RR.Boolean.star a = RR.Boolean.add RR.Boolean.one (RR.Boolean.mul a (RR.Boolean.star a)) /\
  RR.Boolean.star a = RR.Boolean.add RR.Boolean.one (RR.Boolean.mul (RR.Boolean.star a) a).
Proof. intros; split; [apply BooleanLaws.star_l | apply BooleanLaws.star_r]; assumption. Qed.
Print Assumptions C16_Boolean_star.
Theorem C16_Real_semiring :
  (forall a b c, RR.Real.add a (RR.Real.add b c) = RR.Real.add (RR.Real.add a b) c) /\
  (forall a b, RR.Real.add a b = RR.Real.add b a) /\
  (forall a, RR.Real.add RR.Real.zero a = a) /\
  (forall a b c, RR.Real.mul a (RR.Real.mul b c) = RR.Real.mul (RR.Real.mul a b) c) /\
  (forall a b, RR.Real.mul a b = RR.Real.mul b a) /\
  (forall a, RR.Real.mul RR.Real.one a = a) /\
  (forall a, RR.Real.mul RR.Real.zero a = RR.Real.zero) /\
  (forall a b c, RR.Real.mul a (RR.Real.add b c) = RR.Real.add (RR.Real.mul a b) (RR.Real.mul a c)) /\
  (forall a b c, RR.Real.mul (RR.Real.add b c) a = RR.Real.add (RR.Real.mul b a) (RR.Real.mul c a)).
Proof.
  repeat apply conj; intros;
  [ apply RealLaws.add_assoc | apply RealLaws.add_comm | apply RealLaws.add_0_l | apply RealLaws.mul_assoc | apply RealLaws.mul_comm
  | apply RealLaws.mul_1_l | apply RealLaws.mul_0_l | apply RealLaws.distr_l | apply RealLaws.distr_r ]; assumption.
Qed.
Print Assumptions C16_Real_semiring.
Theorem C16_Real_star : forall a, a <> 1 ->
  RR.Real.star a = RR.Real.add RR.Real.one (RR.Real.mul a (RR.Real.star a)) /\
  RR.Real.star a = RR.Real.add RR.Real.one (RR.Real.mul (RR.Real.star a) a).
Proof. intros; split; [apply RealLaws.star_l | apply RealLaws.star_r]; assumption. Qed.
Print Assumptions C16_Real_star.
Theorem C16_Float_semiring :
  (forall a b c, RR.Float.add a (RR.Float.add b c) = RR.Float.add (RR.Float.add a b) c) /\
  (forall a b, RR.Float.add a b = RR.Float.add b a) /\
  (forall a, RR.Float.add RR.Float.zero a = a) /\
  (forall a b c, RR.Float.mul a (RR.Float.mul b c) = RR.Float.mul (RR.Float.mul a b) c) /\
  (forall a b, RR.Float.mul a b = RR.Float.mul b a) /\
  (forall a, RR.Float.mul RR.Float.one a = a) /\
  (forall a, RR.Float.mul RR.Float.zero a = RR.Float.zero) /\
  (forall a b c, RR.Float.mul a (RR.Float.add b c) = RR.Float.add (RR.Float.mul a b) (RR.Float.mul a c)) /\
  (forall a b c, RR.Float.mul (RR.Float.add b c) a = RR.Float.add (RR.Float.mul b a) (RR.Float.mul c a)).
Proof.
  repeat apply conj; intros;
  [ apply FloatLaws.add_assoc | apply FloatLaws.add_comm | apply FloatLaws.add_0_l | apply FloatLaws.mul_assoc | apply FloatLaws.mul_comm
  | apply FloatLaws.mul_1_l | apply FloatLaws.mul_0_l | apply FloatLaws.distr_l | apply FloatLaws.distr_r ]; assumption.
Qed.
Print Assumptions C16_Float_semiring.
Theorem C16_Float_star : forall a, a <> 1 ->
  RR.Float.star a = RR.Float.add RR.Float.one (RR.Float.mul a (RR.Float.star a)) /\
  RR.Float.star a = RR.Float.add RR.Float.one (RR.Float.mul (RR.Float.star a) a).
Proof. intros; split; [apply FloatLaws.star_l | apply FloatLaws.star_r]; assumption. Qed.
Print Assumptions C16_Float_star.
Theorem C16_MaxTimes_semiring :
  (forall a b c, 0 <= a -> 0 <= b -> 0 <= c -> RR.MaxTimes.add a (RR.MaxTimes.add b c) = RR.MaxTimes.add (RR.MaxTimes.add a b) c) /\
  (forall a b, 0 <= a -> 0 <= b -> RR.MaxTimes.add a b = RR.MaxTimes.add b a) /\
  (forall a, 0 <= a -> RR.MaxTimes.add RR.MaxTimes.zero a = a) /\
  (forall a b c, 0 <= a -> 0 <= b -> 0 <= c -> RR.MaxTimes.mul a (RR.MaxTimes.mul b c) = RR.MaxTimes.mul (RR.MaxTimes.mul a b) c) /\
  (forall a b, 0 <= a -> 0 <= b -> RR.MaxTimes.mul a b = RR.MaxTimes.mul b a) /\
  (forall a, 0 <= a -> RR.MaxTimes.mul RR.MaxTimes.one a = a) /\
  (forall a, 0 <= a -> RR.MaxTimes.mul RR.MaxTimes.zero a = RR.MaxTimes.zero) /\
  (forall a b c, 0 <= a -> 0 <= b -> 0 <= c -> RR.MaxTimes.mul a (RR.MaxTimes.add b c) = RR.MaxTimes.add (RR.MaxTimes.mul a b) (RR.MaxTimes.mul a c)) /\
  (forall a b c, 0 <= a -> 0 <= b -> 0 <= c -> RR.MaxTimes.mul (RR.MaxTimes.add b c) a = RR.MaxTimes.add (RR.MaxTimes.mul b a) (RR.MaxTimes.mul c a)).
Proof.
  repeat apply conj; intros;
  [ apply MaxTimesLaws.add_assoc | apply MaxTimesLaws.add_comm | apply MaxTimesLaws.add_0_l | apply MaxTimesLaws.mul_assoc | apply MaxTimesLaws.mul_comm
  | apply MaxTimesLaws.mul_1_l | apply MaxTimesLaws.mul_0_l | apply MaxTimesLaws.distr_l | apply MaxTimesLaws.distr_r ]; assumption.
Qed.
Print Assumptions C16_MaxTimes_semiring.
Theorem C16_MaxTimes_star : forall a, 0 <= a <= 1 ->
  RR.MaxTimes.star a = RR.MaxTimes.add RR.MaxTimes.one (RR.MaxTimes.mul a (RR.MaxTimes.star a)) /\
  RR.MaxTimes.star a = RR.MaxTimes.add RR.MaxTimes.one (RR.MaxTimes.mul (RR.MaxTimes.star a) a).
Proof. intros; split; [apply MaxTimesLaws.star_l | apply MaxTimesLaws.star_r]; assumption. Qed.
Print Assumptions C16_MaxTimes_star.
Theorem C16_MaxPlus_semiring :
  (forall a b c, RR.MaxPlus.add a (RR.MaxPlus.add b c) = RR.MaxPlus.add (RR.MaxPlus.add a b) c) /\
  (forall a b, RR.MaxPlus.add a b = RR.MaxPlus.add b a) /\
  (forall a, RR.MaxPlus.add RR.MaxPlus.zero a = a) /\
  (forall a b c, RR.MaxPlus.mul a (RR.MaxPlus.mul b c) = RR.MaxPlus.mul (RR.MaxPlus.mul a b) c) /\
  (forall a b, RR.MaxPlus.mul a b = RR.MaxPlus.mul b a) /\
  (forall a, RR.MaxPlus.mul RR.MaxPlus.one a = a) /\
  (forall a, RR.MaxPlus.mul RR.MaxPlus.zero a = RR.MaxPlus.zero) /\
  (forall a b c, RR.MaxPlus.mul a (RR.MaxPlus.add b c) = RR.MaxPlus.add (RR.MaxPlus.mul a b) (RR.MaxPlus.mul a c)) /\
  (forall a b c, RR.MaxPlus.mul (RR.MaxPlus.add b c) a = RR.MaxPlus.add (RR.MaxPlus.mul b a) (RR.MaxPlus.mul c a)).
Proof.
  repeat apply conj; intros;
  [ apply MaxPlusLaws.add_assoc | apply MaxPlusLaws.add_comm | apply MaxPlusLaws.add_0_l | apply MaxPlusLaws.mul_assoc | apply MaxPlusLaws.mul_comm
  | apply MaxPlusLaws.mul_1_l | apply MaxPlusLaws.mul_0_l | apply MaxPlusLaws.distr_l | apply MaxPlusLaws.distr_r ]; assumption.
Qed.
Print Assumptions C16_MaxPlus_semiring.
Theorem C16_MaxPlus_star : forall a, MaxPlusLaws.nonpos a ->
  RR.MaxPlus.star a = RR.MaxPlus.add RR.MaxPlus.one (RR.MaxPlus.mul a (RR.MaxPlus.star a)) /\
  RR.MaxPlus.star a = RR.MaxPlus.add RR.MaxPlus.one (RR.MaxPlus.mul (RR.MaxPlus.star a) a).
Proof. intros; split; [apply MaxPlusLaws.star_l | apply MaxPlusLaws.star_r]; assumption. Qed.
Print Assumptions C16_MaxPlus_star.
Theorem C16_Expectation_semiring :
  (forall a b c, RR.Expectation.add a (RR.Expectation.add b c) = RR.Expectation.add (RR.Expectation.add a b) c) /\
  (forall a b, RR.Expectation.add a b = RR.Expectation.add b a) /\
  (forall a, RR.Expectation.add RR.Expectation.zero a = a) /\
  (forall a b c, RR.Expectation.mul a (RR.Expectation.mul b c) = RR.Expectation.mul (RR.Expectation.mul a b) c) /\
  (forall a b, RR.Expectation.mul a b = RR.Expectation.mul b a) /\
  (forall a, RR.Expectation.mul RR.Expectation.one a = a) /\
  (forall a, RR.Expectation.mul RR.Expectation.zero a = RR.Expectation.zero) /\
  (forall a b c, RR.Expectation.mul a (RR.Expectation.add b c) = RR.Expectation.add (RR.Expectation.mul a b) (RR.Expectation.mul a c)) /\
  (forall a b c, RR.Expectation.mul (RR.Expectation.add b c) a = RR.Expectation.add (RR.Expectation.mul b a) (RR.Expectation.mul c a)).
Proof.
  repeat apply conj; intros;
  [ apply ExpectationLaws.add_assoc | apply ExpectationLaws.add_comm | apply ExpectationLaws.add_0_l | apply ExpectationLaws.mul_assoc | apply ExpectationLaws.mul_comm
  | apply ExpectationLaws.mul_1_l | apply ExpectationLaws.mul_0_l | apply ExpectationLaws.distr_l | apply ExpectationLaws.distr_r ]; assumption.
Qed.
Print Assumptions C16_Expectation_semiring.
Theorem C16_Expectation_star : forall a, fst a <> 1 ->
  RR.Expectation.star a = RR.Expectation.add RR.Expectation.one (RR.Expectation.mul a (RR.Expectation.star a)) /\
  RR.Expectation.star a = RR.Expectation.add RR.Expectation.one (RR.Expectation.mul (RR.Expectation.star a) a).
Proof. intros; split; [apply ExpectationLaws.star_l | apply ExpectationLaws.star_r]; assumption. Qed.
Print Assumptions C16_Expectation_star.
Theorem C16_Entropy_semiring :
  (forall a b c, EntropyLaws.wf a -> EntropyLaws.wf b -> EntropyLaws.wf c -> EntropyLaws.sc (RR.Entropy.add a (RR.Entropy.add b c)) = EntropyLaws.sc (RR.Entropy.add (RR.Entropy.add a b) c)) /\
  (forall a b, EntropyLaws.wf a -> EntropyLaws.wf b -> EntropyLaws.sc (RR.Entropy.add a b) = EntropyLaws.sc (RR.Entropy.add b a)) /\
  (forall a, EntropyLaws.wf a -> EntropyLaws.sc (RR.Entropy.add RR.Entropy.zero a) = EntropyLaws.sc (a)) /\
  (forall a b c, EntropyLaws.wf a -> EntropyLaws.wf b -> EntropyLaws.wf c -> EntropyLaws.sc (RR.Entropy.mul a (RR.Entropy.mul b c)) = EntropyLaws.sc (RR.Entropy.mul (RR.Entropy.mul a b) c)) /\
  (forall a b, EntropyLaws.wf a -> EntropyLaws.wf b -> EntropyLaws.sc (RR.Entropy.mul a b) = EntropyLaws.sc (RR.Entropy.mul b a)) /\
  (forall a, EntropyLaws.wf a -> EntropyLaws.sc (RR.Entropy.mul RR.Entropy.one a) = EntropyLaws.sc (a)) /\
  (forall a, EntropyLaws.wf a -> EntropyLaws.sc (RR.Entropy.mul RR.Entropy.zero a) = EntropyLaws.sc (RR.Entropy.zero)) /\
  (forall a b c, EntropyLaws.wf a -> EntropyLaws.wf b -> EntropyLaws.wf c -> EntropyLaws.sc (RR.Entropy.mul a (RR.Entropy.add b c)) = EntropyLaws.sc (RR.Entropy.add (RR.Entropy.mul a b) (RR.Entropy.mul a c))) /\
  (forall a b c, EntropyLaws.wf a -> EntropyLaws.wf b -> EntropyLaws.wf c -> EntropyLaws.sc (RR.Entropy.mul (RR.Entropy.add b c) a) = EntropyLaws.sc (RR.Entropy.add (RR.Entropy.mul b a) (RR.Entropy.mul c a))).
Proof.
  repeat apply conj; intros;
  [ apply EntropyLaws.add_assoc | apply EntropyLaws.add_comm | apply EntropyLaws.add_0_l | apply EntropyLaws.mul_assoc | apply EntropyLaws.mul_comm
  | apply EntropyLaws.mul_1_l | apply EntropyLaws.mul_0_l | apply EntropyLaws.distr_l | apply EntropyLaws.distr_r ]; assumption.
Qed.
Print Assumptions C16_Entropy_semiring.
Theorem C16_Entropy_star : forall a, EntropyLaws.wf a -> fst (EntropyLaws.sc a) <> 1 ->
  EntropyLaws.sc (RR.Entropy.star a) = EntropyLaws.sc (RR.Entropy.add RR.Entropy.one (RR.Entropy.mul a (RR.Entropy.star a))) /\
  EntropyLaws.sc (RR.Entropy.star a) = EntropyLaws.sc (RR.Entropy.add RR.Entropy.one (RR.Entropy.mul (RR.Entropy.star a) a)).
Proof. intros; split; [apply EntropyLaws.star_l | apply EntropyLaws.star_r]; assumption. Qed.
Print Assumptions C16_Entropy_star.
(* identity short-cuts agree with arithmetic: results depend on scores only, also for
   freshly constructed values equal to the constants *)
Theorem C16_Entropy_identity_irrelevant : forall a b a' b',
  EntropyLaws.wf a -> EntropyLaws.wf b -> EntropyLaws.wf a' -> EntropyLaws.wf b' ->
  EntropyLaws.sc a = EntropyLaws.sc a' -> EntropyLaws.sc b = EntropyLaws.sc b' ->
  EntropyLaws.sc (RR.Entropy.add a b) = EntropyLaws.sc (RR.Entropy.add a' b') /\
  EntropyLaws.sc (RR.Entropy.mul a b) = EntropyLaws.sc (RR.Entropy.mul a' b') /\
  EntropyLaws.wf (RR.Entropy.add a b) /\ EntropyLaws.wf (RR.Entropy.mul a b).
Proof. intros; repeat apply conj; [apply EntropyLaws.add_tag_indep | apply EntropyLaws.mul_tag_indep | apply EntropyLaws.wf_add | apply EntropyLaws.wf_mul]; assumption. Qed.
Print Assumptions C16_Entropy_identity_irrelevant.
Theorem C16_Log_semiring :
  (forall a b c, RR.Log.add a (RR.Log.add b c) = RR.Log.add (RR.Log.add a b) c) /\
  (forall a b, RR.Log.add a b = RR.Log.add b a) /\
  (forall a, RR.Log.add RR.Log.zero a = a) /\
  (forall a b c, RR.Log.mul a (RR.Log.mul b c) = RR.Log.mul (RR.Log.mul a b) c) /\
  (forall a b, RR.Log.mul a b = RR.Log.mul b a) /\
  (forall a, RR.Log.mul RR.Log.one a = a) /\
  (forall a, RR.Log.mul RR.Log.zero a = RR.Log.zero) /\
  (forall a b c, RR.Log.mul a (RR.Log.add b c) = RR.Log.add (RR.Log.mul a b) (RR.Log.mul a c)) /\
  (forall a b c, RR.Log.mul (RR.Log.add b c) a = RR.Log.add (RR.Log.mul b a) (RR.Log.mul c a)).
Proof.
  repeat apply conj; intros;
  [ apply C16_log.add_assoc | apply C16_log.add_comm | apply C16_log.add_0_l | apply C16_log.mul_assoc | apply C16_log.mul_comm
  | apply C16_log.mul_1_l | apply C16_log.mul_0_l | apply C16_log.distr_l | apply C16_log.distr_r ]; assumption.
Qed.
Print Assumptions C16_Log_semiring.
Theorem C16_Log_star : forall a, C16_log.neg a ->
  RR.Log.star a = RR.Log.add RR.Log.one (RR.Log.mul a (RR.Log.star a)) /\
  RR.Log.star a = RR.Log.add RR.Log.one (RR.Log.mul (RR.Log.star a) a).
Proof. intros; split; [apply C16_log.star_l | apply C16_log.star_r]; assumption. Qed.
Print Assumptions C16_Log_star.
(* non-vacuity: the stated domains are inhabited by non-trivial values *)
Example C16_domains_nonvacuous :
  (0 <= 1/2 <= 1) /\ MaxPlusLaws.nonpos (Fin (-1)) /\ C16_log.neg (Fin (-1)) /\
  EntropyLaws.wf (1/2, 1/3, TagFresh) /\ EntropyLaws.wf RR.Entropy.zero /\ EntropyLaws.wf RR.Entropy.one /\
  MaxTimesLaws.closed_add = MaxTimesLaws.closed_add.
Proof. unfold MaxPlusLaws.nonpos, C16_log.neg, EntropyLaws.wf; simpl; repeat split; try lra; reflexivity. Qed.
Print Assumptions C16_domains_nonvacuous.
