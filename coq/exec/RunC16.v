(* Equality tests used by the generated C16 case files (model side: module QQ). *)
From Coq Require Import QArith Qcanon Bool List.
From GV.lib Require Import Semiring NumDialect.
From GV.gen Require Import Gen_Semiring.
Export ListNotations.
Definition qeq (a b : Qc) : bool := Qc_eqb a b.
Definition peq (a b : Qc * Qc) : bool := qeq (fst a) (fst b) && qeq (snd a) (snd b).
Definition teq (a : Qc * Qc * etag) (b : Qc * Qc) : bool := peq (fst a) b.
Definition xeq (a b : ext Qc) : bool := match a, b with NegInf, NegInf => true | Fin x, Fin y => qeq x y | _, _ => false end.
