#!/bin/bash
# Build the whole Coq development from clean (full .vo build), offline.
set -e
cd "$(dirname "$0")"
/venv/bin/python -B - <<'PY'
import sys
sys.path.insert(0, "tools")
import common
# regenerate every translated model first (gen/*.v must exist before make)
import importlib
for t in ("translate_semiring", "translate_machines", "translate_exprs", "translate_wfsa", "translate_cfg", "translate_tocfg", "translate_linear", "translate_fstops", "translate_cfgbytes", "translate_fromstring"):
    try:
        importlib.import_module(t).main()
    except Exception as e:
        print("translator", t, "failed:", e)
ok, out = common.coq_make()
print(out[-3000:])
sys.exit(0 if ok else 1)
PY
